//@@ unit props=C19,C01,C10,C16,C17,C06,C11
// Unit xlsxxml: the XML-event-consuming functions of the xlsx reader (src/xlsx/mod.rs, src/xlsx/cells_reader.rs), verbatim text,
// under contract against a GHOST MODEL of quick-xml (assumption A-xml of DESIGN.md section 5).
//   read_string (C19: plain / rich runs / phonetic ignored / reader left after the closing tag), Xlsx::read_shared_strings (C19: item i
//   of the table), get_attribute, read_merge_cells (C17: regions in order), read_v + read_value (C01/C10: value typing, date system),
//   XlsxCellReader::next_cell (C01: position = r attribute else cursor, cursor updates), Cell::new, ExcelDateTime::new,
//   format_excel_f64_ref, get_row_column, get_row.  Assumed: get_row_and_optional_column (proved in unit a1), get_dimension,
//   xml_reader, FromStr for CellErrorType, float / integer parsing, the quick-xml model below.
//   Specifications are schema automata written from ECMA-376 (CT_Rst, CT_Sst, CT_MergeCells, CT_Cell / ST_CellType, sheetData) over
//   the event sequence, in terms of LOCAL names and UNESCAPED text (namespace prefixes do not matter; character data = Text events
//   unescaped + CDATA sections literally).
#![allow(unused_imports, dead_code, unused_variables, unused_mut, unused_assignments)]
use vstd::prelude::*;
use std::borrow::Cow;
use std::ops::Deref;
use std::io::{Read, Seek};
use std::str::FromStr;
use std::collections::HashMap;

verus! {

// ---- stand-ins for foreign error payload types (opaque; never inspected by the verified code)
pub mod quick_xml {
    pub struct Error;
    pub mod events { pub mod attributes { pub struct AttrError; } }
    pub mod encoding { pub struct EncodingError; }
}
pub mod zip { pub mod result { pub struct ZipError; } }
pub mod vba { pub struct VbaError; }
#[verifier::external_type_specification] #[verifier::external_body] pub struct ExIoError(std::io::Error);
#[verifier::external_type_specification] #[verifier::external_body] pub struct ExParseFloatError(std::num::ParseFloatError);
#[verifier::external_type_specification] #[verifier::external_body] pub struct ExParseIntError(std::num::ParseIntError);

#[verifier::external_trait_specification] pub trait ExRead { type ExternalTraitSpecificationFor: std::io::Read; }
#[verifier::external_trait_specification] pub trait ExSeek { type ExternalTraitSpecificationFor: std::io::Seek; }

//@@ item src/xlsx/mod.rs enum XlsxError
//@@ item src/lib.rs struct Dimensions keep_attrs
//@@ item src/lib.rs enum SheetType
//@@ item src/lib.rs enum SheetVisible
//@@ item src/lib.rs struct Sheet
//@@ item src/lib.rs struct Metadata
//@@ item src/lib.rs enum HeaderRow keep_attrs
//@@ item src/formats.rs enum CellFormat
//@@ item src/lib.rs enum CellErrorType keep_attrs
//@@ item src/datatype.rs enum ExcelDateTimeType keep_attrs
//@@ item src/datatype.rs struct ExcelDateTime keep_attrs
//@@ item src/datatype.rs enum DataRef keep_attrs
//@@ item src/xlsx/mod.rs type Tables
//@@ item src/xlsx/mod.rs struct Xlsx cfg_off=picture
//@@ item src/xlsx/mod.rs struct XlsxOptions
// what `from_err!(quick_xml::Error, XlsxError, Xml)` (macro of src/utils.rs) expands to
impl From<quick_xml::Error> for XlsxError { fn from(e: quick_xml::Error) -> (r: XlsxError) { XlsxError::Xml(e) } }
impl vstd::std_specs::convert::FromSpecImpl<quick_xml::Error> for XlsxError {
    open spec fn obeys_from_spec() -> bool { true }
    open spec fn from_spec(e: quick_xml::Error) -> Self { XlsxError::Xml(e) }
}
// what `from_err!(quick_xml::encoding::EncodingError, XlsxError, Encoding)` expands to
impl From<quick_xml::encoding::EncodingError> for XlsxError { fn from(e: quick_xml::encoding::EncodingError) -> (r: XlsxError) { XlsxError::Encoding(e) } }
impl vstd::std_specs::convert::FromSpecImpl<quick_xml::encoding::EncodingError> for XlsxError {
    open spec fn obeys_from_spec() -> bool { true }
    open spec fn from_spec(e: quick_xml::encoding::EncodingError) -> Self { XlsxError::Encoding(e) }
}

// =====================================================================================================================
// A-xml: GHOST MODEL OF quick-xml 0.37 (configuration set by xlsx::xml_reader: trim_text(false), expand_empty_elements = true,
// check_end_names = false).  Everything in this section is TRUSTED.  A reader owns the ghost sequence `events()` of the results
// its successive `read_event_into` calls deliver, and a position `pos()`.  What is ASSUMED AND NOT VERIFIED: that quick-xml turns
// the bytes of the zip part into this sequence (tokenisation, `<a/>` delivered as Start+End, entity / character-reference
// resolution in `unescape`, white space preserved, CDATA sections delivered as separate CData events with their literal content).
// Qualified name and local name, raw bytes and unescaped text are DIFFERENT ghost values: contracts speak of local names and of
// unescaped text only.
// =====================================================================================================================
pub enum EvKind {
    Start,   // start tag (or the first half of an empty-element tag)
    End,     // end tag (or the second half of an empty-element tag)
    Text,    // character data between tags (escaped form in `raw`, resolved form in `text`)
    CData,   // <![CDATA[ ... ]]>, literal content in `text`
    Other,   // comment, processing instruction, XML declaration, DOCTYPE
    Error,   // the reader returns Err at this point
}
pub ghost struct Attr {
    pub key: Seq<u8>,     // qualified attribute name
    pub raw: Seq<u8>,     // value bytes as written between the quotes (what `Attribute::value` holds)
    pub val: Seq<char>,   // value with entity / character references resolved (what `decode_and_unescape_value` returns)
    pub val_ok: bool,     // `decode_and_unescape_value` succeeds
    pub err: bool,        // malformed attribute: the `Attributes` iterator yields Err(AttrError) for it
}
pub ghost struct Ev {
    pub kind: EvKind,
    pub name: Seq<u8>,     // qualified tag name, e.g. `x:row` (Start / End)
    pub attrs: Seq<Attr>,  // attributes in document order (Start)
    pub raw: Seq<u8>,      // bytes of a Text event as written (still escaped)
    pub text: Seq<char>,   // content of a Text event after unescaping, literal content of a CData event
    pub text_ok: bool,     // `unescape()` succeeds on this Text event / `decode()` succeeds on this CData event
}
/// index of the first ':' of s at or after i, s.len() if none
pub open spec fn colon_at(s: Seq<u8>, i: int) -> int
    decreases s.len() - i
{
    if i < 0 || i >= s.len() { s.len() as int } else if s[i] == 0x3au8 { i } else { colon_at(s, i + 1) }
}
/// XML Namespaces: QName = (Prefix ':')? LocalPart -- the local part of a qualified name (quick-xml `QName::local_name`)
pub open spec fn local_of(name: Seq<u8>) -> Seq<u8> {
    let c = colon_at(name, 0);
    if c >= name.len() { name } else { name.subrange(c + 1, name.len() as int) }
}
impl Ev {
    pub open spec fn local(self) -> Seq<u8> { local_of(self.name) }
    pub open spec fn is_tag(self) -> bool { self.kind is Start || self.kind is End }
}

// TRUSTED: A-xml -- quick_xml::name::QName (a tuple struct over the qualified-name bytes; `==` compares the bytes)
pub struct QName<'a>(pub &'a [u8]);
impl<'a> PartialEq for QName<'a> {
    #[verifier::external_body]
    fn eq(&self, o: &QName<'a>) -> (r: bool) ensures r == (self.0@ =~= o.0@) { unimplemented!() }
}
// TRUSTED: A-xml -- quick_xml::name::LocalName
#[verifier::external_body]
pub struct LocalName<'a> { _p: core::marker::PhantomData<&'a ()> }
impl<'a> LocalName<'a> {
    pub uninterp spec fn bytes(&self) -> Seq<u8>;
    // TRUSTED: A-xml
    #[verifier::external_body]
    pub fn as_ref(&self) -> (r: &[u8]) ensures r@ == self.bytes() { unimplemented!() }
    // TRUSTED: A-xml
    #[verifier::external_body]
    pub fn into_inner(self) -> (r: &'a [u8]) ensures r@ == self.bytes() { unimplemented!() }
}
impl<'a> QName<'a> {
    /// the QUALIFIED name bytes (quick-xml `impl AsRef<[u8]> for QName`)
    pub fn as_ref(&self) -> (r: &[u8]) ensures r@ == self.0@ { self.0 }
    pub fn into_inner(self) -> (r: &'a [u8]) ensures r@ == self.0@ { self.0 }
    // TRUSTED: A-xml -- the part after the first ':' (the whole name if there is none)
    #[verifier::external_body]
    pub fn local_name(&self) -> (r: LocalName<'a>) ensures r.bytes() == local_of(self.0@) { unimplemented!() }
}
// TRUSTED: A-xml -- quick_xml::events::{BytesStart, BytesEnd, BytesText, BytesCData}: views onto one ghost event
#[verifier::external_body]
pub struct BytesStart<'a> { _p: core::marker::PhantomData<&'a ()> }
#[verifier::external_body]
pub struct BytesEnd<'a> { _p: core::marker::PhantomData<&'a ()> }
#[verifier::external_body]
pub struct BytesText<'a> { _p: core::marker::PhantomData<&'a ()> }
#[verifier::external_body]
pub struct BytesCData<'a> { _p: core::marker::PhantomData<&'a ()> }

// TRUSTED: A-xml -- quick_xml::events::Event; `Other` stands for Comment / PI / Decl / DocType (never named by the verified code;
// `Empty` cannot occur with expand_empty_elements = true)
pub enum Event<'a> {
    Start(BytesStart<'a>),
    End(BytesEnd<'a>),
    Text(BytesText<'a>),
    CData(BytesCData<'a>),
    Other,
    Eof,
}

impl<'a> BytesStart<'a> {
    pub uninterp spec fn ev(&self) -> Ev;
    // TRUSTED: A-xml
    #[verifier::external_body]
    pub fn name(&self) -> (r: QName<'_>) ensures r.0@ == self.ev().name { unimplemented!() }
    // TRUSTED: A-xml
    #[verifier::external_body]
    pub fn local_name(&self) -> (r: LocalName<'_>) ensures r.bytes() == self.ev().local() { unimplemented!() }
}
impl<'a> BytesEnd<'a> {
    pub uninterp spec fn ev(&self) -> Ev;
    // TRUSTED: A-xml
    #[verifier::external_body]
    pub fn name(&self) -> (r: QName<'_>) ensures r.0@ == self.ev().name { unimplemented!() }
    // TRUSTED: A-xml
    #[verifier::external_body]
    pub fn local_name(&self) -> (r: LocalName<'_>) ensures r.bytes() == self.ev().local() { unimplemented!() }
}
// TRUSTED: A-std -- `Cow::deref` yields the borrowed or owned content; `cow_ref` names it
pub uninterp spec fn cow_ref<'a, 'b, B: ?Sized + ToOwned>(c: &'b Cow<'a, B>) -> &'b B;
pub assume_specification<'a, 'b, B: ?Sized + ToOwned>[ <Cow<'a, B> as Deref>::deref ](c: &'b Cow<'a, B>) -> (r: &'b B)
    ensures r == cow_ref(c), (*c matches Cow::Borrowed(b) ==> r == b);
impl<'a> BytesText<'a> {
    pub uninterp spec fn ev(&self) -> Ev;
    // TRUSTED: A-xml -- `unescape` returns the text with the predefined entities and character references resolved, or Err
    #[verifier::external_body]
    pub fn unescape(&self) -> (r: Result<Cow<'a, str>, quick_xml::Error>)
        ensures
            self.ev().text_ok ==> r is Ok && cow_ref(&r->Ok_0)@ == self.ev().text,
            !self.ev().text_ok ==> r is Err,
    { unimplemented!() }
}
impl<'a> BytesCData<'a> {
    pub uninterp spec fn ev(&self) -> Ev;
    // TRUSTED: A-xml -- `decode` returns the literal content of the section in the document encoding (no entity resolution), or Err
    #[verifier::external_body]
    pub fn decode(&self) -> (r: Result<Cow<'a, str>, quick_xml::encoding::EncodingError>)
        ensures
            self.ev().text_ok ==> r is Ok && cow_ref(&r->Ok_0)@ == self.ev().text,
            !self.ev().text_ok ==> r is Err,
    { unimplemented!() }
}
// TRUSTED: A-xml -- `impl Deref<Target = [u8]>` of BytesText / BytesCData: the bytes of the event AS WRITTEN in the document (`raw`:
// entity and character references NOT resolved).  Nothing relates `raw` to `text`.
impl<'a> Deref for BytesText<'a> {
    type Target = [u8];
    #[verifier::external_body]
    fn deref(&self) -> (r: &[u8]) ensures r@ == self.ev().raw { unimplemented!() }
}
impl<'a> Deref for BytesCData<'a> {
    type Target = [u8];
    #[verifier::external_body]
    fn deref(&self) -> (r: &[u8]) ensures r@ == self.ev().raw { unimplemented!() }
}
// TRUSTED: A-xml -- quick_xml::encoding::Decoder: `decode` converts bytes to text in the document encoding and does NOTHING else (no entity
// resolution): an uninterpreted function of the bytes
pub struct Decoder { _p: u8 }
/// text of a byte string in the document encoding; None: not decodable
pub uninterp spec fn decoded(bytes: Seq<u8>) -> Option<Seq<char>>;
impl Decoder {
    #[verifier::external_body]
    pub fn decode<'b>(&self, bytes: &'b [u8]) -> (r: Result<Cow<'b, str>, quick_xml::encoding::EncodingError>)
        ensures match decoded(bytes@) { Some(t) => r is Ok && cow_ref(&r->Ok_0)@ == t, None => r is Err },
    { unimplemented!() }
}

// TRUSTED: A-xml -- quick_xml::events::attributes::{Attribute, Attributes}: `BytesStart::attributes()` iterates over the attributes of
// the start tag in document order; each item is Ok(Attribute { key, value }) with the qualified attribute name and the RAW value bytes
// borrowed from the tag (`Cow::Borrowed`; nothing is unescaped), or Err(AttrError) for a malformed attribute.
pub struct Attribute<'a> { pub key: QName<'a>, pub value: Cow<'a, [u8]> }
/// attribute value with entity / character references resolved, as a function of the raw bytes (uninterpreted); None: `unescape` fails
pub uninterp spec fn attr_unescaped(raw: Seq<u8>) -> Option<Seq<char>>;
impl<'a> Attribute<'a> {
    // TRUSTED: A-xml -- Attribute::unescape_value / decode_and_unescape_value: the value with references resolved (`Attr::val`), never the raw bytes
    #[verifier::external_body]
    pub fn unescape_value(&self) -> (r: Result<Cow<'a, str>, quick_xml::Error>)
        ensures match attr_unescaped(cow_ref(&self.value)@) { Some(t) => r is Ok && cow_ref(&r->Ok_0)@ == t, None => r is Err },
    { unimplemented!() }
    #[verifier::external_body]
    pub fn decode_and_unescape_value(&self, decoder: Decoder) -> (r: Result<Cow<'a, str>, quick_xml::Error>)
        ensures match attr_unescaped(cow_ref(&self.value)@) { Some(t) => r is Ok && cow_ref(&r->Ok_0)@ == t, None => r is Err },
    { unimplemented!() }
}
#[verifier::external_body]
pub struct Attributes<'a> { _p: core::marker::PhantomData<&'a ()> }
impl<'a> Attributes<'a> {
    /// attributes not yet handed out
    pub uninterp spec fn rem(&self) -> Seq<Attr>;
}
impl<'a> Iterator for Attributes<'a> {
    type Item = Result<Attribute<'a>, quick_xml::events::attributes::AttrError>;
    // TRUSTED: A-xml
    #[verifier::external_body]
    fn next(&mut self) -> (r: Option<Result<Attribute<'a>, quick_xml::events::attributes::AttrError>>)
        ensures
            old(self).rem().len() == 0 ==> r is None && final(self).rem() == old(self).rem(),
            old(self).rem().len() > 0 ==> r is Some && final(self).rem() == old(self).rem().skip(1)
                && (old(self).rem()[0].err ==> r->Some_0 is Err)
                && (!old(self).rem()[0].err ==> r->Some_0 is Ok && (r->Some_0->Ok_0).key.0@ == old(self).rem()[0].key
                     && ((r->Some_0->Ok_0).value matches Cow::Borrowed(v) && v@ == old(self).rem()[0].raw)
                     && attr_unescaped(old(self).rem()[0].raw) == (if old(self).rem()[0].val_ok { Some(old(self).rem()[0].val) } else { None::<Seq<char>> })),
    { unimplemented!() }
}
impl<'a> BytesStart<'a> {
    // TRUSTED: A-xml
    #[verifier::external_body]
    pub fn attributes(&self) -> (r: Attributes<'_>) ensures r.rem() == self.ev().attrs { unimplemented!() }
}
pub enum AttrLookup { Malformed, Found(Seq<u8>), Absent }
/// XML: the value of the attribute named `key` in an attribute list (names are unique in a well-formed start tag, so the first
/// match is the match); Malformed if a syntactically broken attribute precedes it
pub open spec fn attr_scan(attrs: Seq<Attr>, key: Seq<u8>) -> AttrLookup
    decreases attrs.len()
{
    if attrs.len() == 0 { AttrLookup::Absent }
    else if attrs[0].err { AttrLookup::Malformed }
    else if attrs[0].key =~= key { AttrLookup::Found(attrs[0].raw) }
    else { attr_scan(attrs.skip(1), key) }
}

/// the result `read_event_into` delivers for the ghost event e
pub open spec fn ev_result<'b>(r: Result<Event<'b>, quick_xml::Error>, e: Ev) -> bool {
    match e.kind {
        EvKind::Start => r matches Ok(Event::Start(b)) && b.ev() == e,
        EvKind::End => r matches Ok(Event::End(b)) && b.ev() == e,
        EvKind::Text => r matches Ok(Event::Text(b)) && b.ev() == e,
        EvKind::CData => r matches Ok(Event::CData(b)) && b.ev() == e,
        EvKind::Other => r matches Ok(Event::Other),
        EvKind::Error => r is Err,
    }
}
/// where `read_to_end_into(name)` started at i with `depth` open same-named elements stops: at the End tag named `name` that
/// closes depth 0, at an Error event, or at ev.len() (end of input).  Only tags with exactly this qualified name are counted.
pub open spec fn rte_stop(ev: Seq<Ev>, i: int, name: Seq<u8>, depth: nat) -> int
    decreases ev.len() - i
{
    if i < 0 || i >= ev.len() { ev.len() as int }
    else if ev[i].kind is Error { i }
    else if ev[i].kind is Start && ev[i].name == name { rte_stop(ev, i + 1, name, depth + 1) }
    else if ev[i].kind is End && ev[i].name == name { if depth == 0 { i } else { rte_stop(ev, i + 1, name, (depth - 1) as nat) } }
    else { rte_stop(ev, i + 1, name, depth) }
}

// TRUSTED: A-xml -- quick_xml::Reader<BufReader<ZipFile>> (type alias XlReader of src/xlsx/mod.rs)
#[verifier::external_body]
pub struct XlReader<'a> { _p: core::marker::PhantomData<&'a ()> }
impl<'a> XlReader<'a> {
    pub uninterp spec fn events(&self) -> Seq<Ev>;
    pub uninterp spec fn pos(&self) -> nat;
    pub open spec fn left(&self) -> int { if self.pos() >= self.events().len() { 0 } else { self.events().len() - self.pos() } }
    // TRUSTED: A-xml -- Reader::decoder(): does not touch the reader
    #[verifier::external_body]
    pub fn decoder(&self) -> (r: Decoder) { unimplemented!() }

    // TRUSTED: A-xml -- returns events[pos] and advances; at the end of input returns Eof for ever
    #[verifier::external_body]
    pub fn read_event_into<'b>(&mut self, buf: &'b mut Vec<u8>) -> (r: Result<Event<'b>, quick_xml::Error>)
        ensures
            final(self).events() == old(self).events(),
            old(self).pos() >= old(self).events().len() ==> (r matches Ok(Event::Eof)) && final(self).pos() == old(self).pos(),
            old(self).pos() < old(self).events().len() ==>
                final(self).pos() == old(self).pos() + 1 && ev_result(r, old(self).events()[old(self).pos() as int]),
    { unimplemented!() }

    // TRUSTED: A-xml -- documented behaviour of Reader::read_to_end_into: reads events until the End tag with this qualified name
    // at nesting depth 0 (nesting counted for tags with the same qualified name only); Err on a reader error or end of input
    #[verifier::external_body]
    pub fn read_to_end_into(&mut self, end: QName<'_>, buf: &mut Vec<u8>) -> (r: Result<(), quick_xml::Error>)
        ensures
            final(self).events() == old(self).events(),
            final(self).pos() >= old(self).pos(),
            ({
                let ev = old(self).events();
                let k = rte_stop(ev, old(self).pos() as int, end.0@, 0);
                if k < ev.len() && ev[k].kind is End { r is Ok && final(self).pos() == k + 1 } else { r is Err }
            }),
    { unimplemented!() }
}

// TRUSTED: A-lit -- Verus keeps the contents of byte-string literals uninterpreted (only their length is known); the bytes of the
// literals the verified code compares names with are stated here (ASCII)
#[verifier::external_body]
pub proof fn axiom_bytelits()
    ensures
        b"r"@ == n_r(), b"t"@ == n_t(), b"rPh"@ == n_rph(), b"si"@ == n_si(), b"sst"@ == n_sst(),
        b"mergeCell"@ == n_mergecell(), b"mergeCells"@ == n_mergecells(), b"ref"@ == n_ref(),
        b"s"@ == n_s(), b"b"@ == n_b(), b"e"@ == n_e(), b"d"@ == n_d(), b"str"@ == n_str(), b"n"@ == n_n(), b"is"@ == n_is(),
        b"v"@ == n_v(), b"f"@ == n_f(), b"c"@ == n_c(), b"row"@ == n_row(), b"sheetData"@ == n_sheetdata(),
{}
pub open spec fn n_s() -> Seq<u8> { seq![0x73u8] }
pub open spec fn n_b() -> Seq<u8> { seq![0x62u8] }
pub open spec fn n_e() -> Seq<u8> { seq![0x65u8] }
pub open spec fn n_d() -> Seq<u8> { seq![0x64u8] }
pub open spec fn n_str() -> Seq<u8> { seq![0x73u8, 0x74u8, 0x72u8] }
pub open spec fn n_n() -> Seq<u8> { seq![0x6eu8] }
pub open spec fn n_is() -> Seq<u8> { seq![0x69u8, 0x73u8] }
pub open spec fn n_v() -> Seq<u8> { seq![0x76u8] }
pub open spec fn n_f() -> Seq<u8> { seq![0x66u8] }
pub open spec fn n_c() -> Seq<u8> { seq![0x63u8] }
pub open spec fn n_row() -> Seq<u8> { seq![0x72u8, 0x6fu8, 0x77u8] }
pub open spec fn n_sheetdata() -> Seq<u8> { seq![0x73u8, 0x68u8, 0x65u8, 0x65u8, 0x74u8, 0x44u8, 0x61u8, 0x74u8, 0x61u8] }
pub open spec fn n_mergecell() -> Seq<u8> { seq![0x6du8, 0x65u8, 0x72u8, 0x67u8, 0x65u8, 0x43u8, 0x65u8, 0x6cu8, 0x6cu8] }
pub open spec fn n_mergecells() -> Seq<u8> { seq![0x6du8, 0x65u8, 0x72u8, 0x67u8, 0x65u8, 0x43u8, 0x65u8, 0x6cu8, 0x6cu8, 0x73u8] }
pub open spec fn n_ref() -> Seq<u8> { seq![0x72u8, 0x65u8, 0x66u8] }
pub open spec fn n_r() -> Seq<u8> { seq![0x72u8] }
pub open spec fn n_t() -> Seq<u8> { seq![0x74u8] }
pub open spec fn n_rph() -> Seq<u8> { seq![0x72u8, 0x50u8, 0x68u8] }
pub open spec fn n_si() -> Seq<u8> { seq![0x73u8, 0x69u8] }
pub open spec fn n_sst() -> Seq<u8> { seq![0x73u8, 0x73u8, 0x74u8] }
/// extensional and structural equality coincide (hint for the solver: the code compares bytes, the specification compares names)
proof fn lemma_t_names(t: Seq<u8>)
    ensures (t =~= n_s()) == (t == n_s()), (t =~= n_b()) == (t == n_b()), (t =~= n_e()) == (t == n_e()), (t =~= n_d()) == (t == n_d()),
        (t =~= n_str()) == (t == n_str()), (t =~= n_n()) == (t == n_n()), (t =~= n_is()) == (t == n_is()),
{}
proof fn lemma_type_names_distinct()
    ensures n_s() != n_b(), n_s() != n_e(), n_s() != n_d(), n_s() != n_n(), n_b() != n_e(), n_b() != n_d(), n_b() != n_n(),
        n_e() != n_d(), n_e() != n_n(), n_d() != n_n(), n_str().len() == 3, n_is().len() == 2, n_s().len() == 1, n_b().len() == 1,
        n_e().len() == 1, n_d().len() == 1, n_n().len() == 1,
{
    assert(n_s()[0] != n_b()[0]); assert(n_s()[0] != n_e()[0]); assert(n_s()[0] != n_d()[0]); assert(n_s()[0] != n_n()[0]);
    assert(n_b()[0] != n_e()[0]); assert(n_b()[0] != n_d()[0]); assert(n_b()[0] != n_n()[0]);
    assert(n_e()[0] != n_d()[0]); assert(n_e()[0] != n_n()[0]); assert(n_d()[0] != n_n()[0]);
}
proof fn lemma_names_distinct()
    ensures n_r() != n_t(), n_r() != n_rph(), n_t() != n_rph(), n_si() != n_sst(),
{
    assert(n_r()[0] != n_t()[0]);
    assert(n_r().len() != n_rph().len());
    assert(n_t().len() != n_rph().len());
    assert(n_si().len() != n_sst().len());
}

// =====================================================================================================================
// C19 -- string items.  ECMA-376 Part 1, 18.4.8 si / 18.3.1.53 is (CT_Rst): sequence of
//     t?  (18.4.12, the plain text)        r*   (18.4.4 rich-text run, CT_RElt = rPr? t)
//     rPh* (18.4.6 phonetic run, CT_PhoneticRun = t: a reading hint, NOT part of the string)    phoneticPr? (18.4.3, empty)
// "If the string is just a simple string ... the si should contain a single text element ... if the string is more complex
// the string item shall consist of multiple rich text runs which collectively are used to express the string."
// Text of an item = if it has runs: the texts of the `t` elements outside phonetic runs, concatenated in document order;
// else the text of its `t` child; none if it has neither.  Text of a `t` element = its character data (Text events unescaped,
// CDATA sections literally; comments and processing instructions contribute nothing).
// The definition below walks the event sequence with the element context of the schema (which element's content we are in).
// =====================================================================================================================
pub enum RLvl { Si, R, Ph }   // content of: the string item itself / a run `r` / a phonetic run `rPh`
pub ghost struct RstSt {
    pub lvl: RLvl,
    pub in_t: bool,             // inside a `t` element that is a child of `lvl`
    pub tname: Seq<u8>,         // qualified name of that `t` start tag
    pub tbuf: Seq<char>,        // its character data so far
    pub skip: nat,              // > 0: inside an element whose content carries no text (rPr, phoneticPr, extension), at this depth
    pub rich: bool,             // a run `r` was met
    pub acc: Seq<char>,         // concatenation of the texts of the counted `t` elements closed so far (rich form)
    pub plain: Option<Seq<char>>, // text of the first `t` child of the item (plain form)
}
pub enum RstStep { Next(RstSt), Done(Option<Seq<char>>), Bad }
pub ghost struct RstRes { pub ok: bool, pub text: Option<Seq<char>>, pub rich: bool, pub end: int }

pub open spec fn rst_init() -> RstSt {
    RstSt { lvl: RLvl::Si, in_t: false, tname: Seq::empty(), tbuf: Seq::empty(), skip: 0, rich: false, acc: Seq::empty(), plain: None }
}
/// one event of the content of the string item whose start tag had the qualified name `closing`
pub open spec fn rst_step(e: Ev, s: RstSt, closing: Seq<u8>) -> RstStep {
    if e.kind is Error { RstStep::Bad }
    else if s.in_t {
        // content of a `t` element: character data only
        match e.kind {
            EvKind::Text => if !(s.lvl is Ph) && !e.text_ok { RstStep::Bad } else { RstStep::Next(RstSt { tbuf: s.tbuf + e.text, ..s }) },
            EvKind::CData => if !(s.lvl is Ph) && !e.text_ok { RstStep::Bad } else { RstStep::Next(RstSt { tbuf: s.tbuf + e.text, ..s }) },
            EvKind::Other => RstStep::Next(s),
            EvKind::Start => RstStep::Bad,
            EvKind::End =>
                if !(e.name =~= s.tname) { RstStep::Bad }   // well-formedness: the end tag carries the name of its start tag
                else {
                    match s.lvl {
                        RLvl::Si => RstStep::Next(RstSt { in_t: false,
                                        plain: if s.plain is None && !s.rich { Some(s.tbuf) } else { s.plain },
                                        acc: if s.rich { s.acc + s.tbuf } else { s.acc }, ..s }),
                        RLvl::R => RstStep::Next(RstSt { in_t: false, acc: s.acc + s.tbuf, ..s }),
                        RLvl::Ph => RstStep::Next(RstSt { in_t: false, ..s }),    // phonetic text contributes nothing
                    }
                },
            EvKind::Error => RstStep::Bad,
        }
    } else if s.skip > 0 {
        // content of rPr / phoneticPr / an extension element: no element of the string-item vocabulary inside
        if e.is_tag() && (e.local() =~= n_t() || e.local() =~= n_r() || e.local() =~= n_rph() || e.local() =~= local_of(closing)) { RstStep::Bad }
        else if e.kind is Start { RstStep::Next(RstSt { skip: s.skip + 1, ..s }) }
        else if e.kind is End { RstStep::Next(RstSt { skip: (s.skip - 1) as nat, ..s }) }
        else { RstStep::Next(s) }
    } else if e.kind is Start {
        if e.local() =~= local_of(closing) { RstStep::Bad }     // a string item does not contain string items
        else if e.local() =~= n_t() { RstStep::Next(RstSt { in_t: true, tname: e.name, tbuf: Seq::empty(), ..s }) }
        else if e.local() =~= n_r() {
            // a run: child of the item only; the form `t` followed by runs is not a form 18.4.8 describes (not covered)
            if s.lvl is Si && s.plain is None { RstStep::Next(RstSt { lvl: RLvl::R, rich: true, ..s }) } else { RstStep::Bad }
        }
        else if e.local() =~= n_rph() { if s.lvl is Si { RstStep::Next(RstSt { lvl: RLvl::Ph, ..s }) } else { RstStep::Bad } }
        else { RstStep::Next(RstSt { skip: 1, ..s }) }
    } else if e.kind is End {
        match s.lvl {
            RLvl::Si => if e.name =~= closing { RstStep::Done(if s.rich { Some(s.acc) } else { s.plain }) } else { RstStep::Bad },
            RLvl::R => if e.local() =~= n_r() && !(e.local() =~= local_of(closing)) { RstStep::Next(RstSt { lvl: RLvl::Si, ..s }) } else { RstStep::Bad },
            RLvl::Ph => if e.local() =~= n_rph() && !(e.local() =~= local_of(closing)) { RstStep::Next(RstSt { lvl: RLvl::Si, ..s }) } else { RstStep::Bad },
        }
    } else {
        RstStep::Next(s)    // white space, comments between the child elements
    }
}
/// the string item whose content starts at ev[i] (state s): well-formed per the schema?  its text, and the index of its end tag
pub open spec fn rst_scan(ev: Seq<Ev>, i: int, s: RstSt, closing: Seq<u8>) -> RstRes
    decreases ev.len() - i
{
    if i < 0 || i >= ev.len() { RstRes { ok: false, text: None, rich: false, end: i } }
    else {
        match rst_step(ev[i], s, closing) {
            RstStep::Bad => RstRes { ok: false, text: None, rich: false, end: i },
            RstStep::Done(t) => RstRes { ok: true, text: t, rich: s.rich, end: i },
            RstStep::Next(s2) => rst_scan(ev, i + 1, s2, closing),
        }
    }
}
/// text of the string item (`si` or `is`) whose start tag is ev[i - 1]
pub open spec fn rst_item(ev: Seq<Ev>, i: int, closing: Seq<u8>) -> RstRes { rst_scan(ev, i, rst_init(), closing) }

pub open spec fn ostr(o: Option<String>) -> Option<Seq<char>> { match o { Some(s) => Some(s@), None => None } }

proof fn lemma_rst_end(ev: Seq<Ev>, i: int, s: RstSt, closing: Seq<u8>)
    requires 0 <= i, rst_scan(ev, i, s, closing).ok,
    ensures i <= rst_scan(ev, i, s, closing).end < ev.len(),
        ev[rst_scan(ev, i, s, closing).end].kind is End, ev[rst_scan(ev, i, s, closing).end].name == closing,
    decreases ev.len() - i,
{
    if i < ev.len() {
        match rst_step(ev[i], s, closing) {
            RstStep::Next(s2) => { lemma_rst_end(ev, i + 1, s2, closing); }
            _ => {}
        }
    }
}
/// after the plain `t` child has been read, `read_to_end_into(closing)` stops exactly at the end tag of the item, and the text stays
proof fn lemma_rst_plain_rte(ev: Seq<Ev>, i: int, s: RstSt, closing: Seq<u8>)
    requires 0 <= i, rst_scan(ev, i, s, closing).ok, s.plain is Some, !s.rich,
        s.in_t ==> local_of(s.tname) != local_of(closing),
    ensures
        rte_stop(ev, i, closing, 0) == rst_scan(ev, i, s, closing).end,
        rst_scan(ev, i, s, closing).text == s.plain,
        !rst_scan(ev, i, s, closing).rich,
    decreases ev.len() - i,
{
    if i < ev.len() {
        let e = ev[i];
        match rst_step(e, s, closing) {
            RstStep::Next(s2) => {
                lemma_rst_plain_rte(ev, i + 1, s2, closing);
                // an inner tag never carries the qualified name `closing`: its local name differs from local_of(closing)
                if e.is_tag() && e.name == closing {
                    assert(e.local() == local_of(closing));
                    if s.in_t { assert(e.kind is End && e.name == s.tname); }
                    assert(false);
                }
            }
            _ => {}
        }
    }
}

// ---- witnesses: the antecedents of the clauses below are satisfiable, and the definition gives the expected texts on examples
pub open spec fn ev_start(n: Seq<u8>) -> Ev { Ev { kind: EvKind::Start, name: n, attrs: Seq::empty(), raw: Seq::empty(), text: Seq::empty(), text_ok: true } }
pub open spec fn ev_end(n: Seq<u8>) -> Ev { Ev { kind: EvKind::End, name: n, attrs: Seq::empty(), raw: Seq::empty(), text: Seq::empty(), text_ok: true } }
pub open spec fn ev_text(t: Seq<char>) -> Ev { Ev { kind: EvKind::Text, name: Seq::empty(), attrs: Seq::empty(), raw: Seq::empty(), text: t, text_ok: true } }
proof fn lemma_local_no_colon(n: Seq<u8>, i: int)
    requires 0 <= i <= n.len(), forall|k: int| 0 <= k < n.len() ==> n[k] != 0x3au8,
    ensures colon_at(n, i) == n.len(),
    decreases n.len() - i,
{
    if i < n.len() { lemma_local_no_colon(n, i + 1); }
}
proof fn lemma_plain_names()
    ensures local_of(n_si()) == n_si(), local_of(n_t()) == n_t(), local_of(n_r()) == n_r(), local_of(n_rph()) == n_rph(), local_of(n_sst()) == n_sst(),
{
    lemma_local_no_colon(n_si(), 0); lemma_local_no_colon(n_t(), 0); lemma_local_no_colon(n_r(), 0);
    lemma_local_no_colon(n_rph(), 0); lemma_local_no_colon(n_sst(), 0);
}
/// <si><t>ab</t></si>  (events after the start tag)  -->  plain, "ab"
proof fn witness_rst_plain()
    ensures ({ let ev = seq![ev_start(n_t()), ev_text(seq!['a', 'b']), ev_end(n_t()), ev_end(n_si())];
               let it = rst_item(ev, 0, n_si());
               it.ok && !it.rich && it.text == Some(seq!['a', 'b']) && it.end == 3 }),
{
    lemma_plain_names(); lemma_names_distinct();
    let ev = seq![ev_start(n_t()), ev_text(seq!['a', 'b']), ev_end(n_t()), ev_end(n_si())];
    assert(n_t().len() != n_si().len());
    reveal_with_fuel(rst_scan, 6);
    assert(Seq::<char>::empty() + seq!['a', 'b'] =~= seq!['a', 'b']);
}
pub open spec fn ev_cdata(t: Seq<char>) -> Ev { Ev { kind: EvKind::CData, name: Seq::empty(), attrs: Seq::empty(), raw: Seq::empty(), text: t, text_ok: true } }
/// <si><t>x<![CDATA[y]]>z</t></si>  -->  plain, "xyz": a CDATA section is character data like any other
proof fn witness_rst_cdata()
    ensures ({ let ev = seq![ev_start(n_t()), ev_text(seq!['x']), ev_cdata(seq!['y']), ev_text(seq!['z']), ev_end(n_t()), ev_end(n_si())];
               let it = rst_item(ev, 0, n_si());
               it.ok && !it.rich && it.text == Some(seq!['x', 'y', 'z']) && it.end == 5 }),
{
    lemma_plain_names(); lemma_names_distinct();
    assert(n_t().len() != n_si().len());
    reveal_with_fuel(rst_scan, 8);
    assert(Seq::<char>::empty() + seq!['x'] + seq!['y'] + seq!['z'] =~= seq!['x', 'y', 'z']);
}
/// <si><r><t>a</t></r><rPh><t>x</t></rPh></si>  -->  rich, "a" (the phonetic run contributes nothing)
proof fn witness_rst_rich_phonetic()
    ensures ({ let ev = seq![ev_start(n_r()), ev_start(n_t()), ev_text(seq!['a']), ev_end(n_t()), ev_end(n_r()),
                             ev_start(n_rph()), ev_start(n_t()), ev_text(seq!['x']), ev_end(n_t()), ev_end(n_rph()), ev_end(n_si())];
               let it = rst_item(ev, 0, n_si());
               it.ok && it.rich && it.text == Some(seq!['a']) && it.end == 10 }),
{
    lemma_plain_names(); lemma_names_distinct();
    assert(n_t().len() != n_si().len() && n_r().len() != n_si().len() && n_rph().len() != n_si().len());
    reveal_with_fuel(rst_scan, 13);
    assert(Seq::<char>::empty() + seq!['a'] =~= seq!['a']);
}
/// <x:si><x:r><x:t>a</x:t></x:r></x:si> (namespace prefix x:)  -->  rich, "a": prefixes do not matter
proof fn witness_rst_prefixed()
    ensures ({ let xsi = seq![0x78u8, 0x3au8, 0x73u8, 0x69u8]; let xr = seq![0x78u8, 0x3au8, 0x72u8]; let xt = seq![0x78u8, 0x3au8, 0x74u8];
               let ev = seq![ev_start(xr), ev_start(xt), ev_text(seq!['a']), ev_end(xt), ev_end(xr), ev_end(xsi)];
               let it = rst_item(ev, 0, xsi);
               it.ok && it.rich && it.text == Some(seq!['a']) && it.end == 5 }),
{
    let xsi = seq![0x78u8, 0x3au8, 0x73u8, 0x69u8]; let xr = seq![0x78u8, 0x3au8, 0x72u8]; let xt = seq![0x78u8, 0x3au8, 0x74u8];
    reveal_with_fuel(colon_at, 3);
    assert(colon_at(xsi, 0) == 1 && colon_at(xr, 0) == 1 && colon_at(xt, 0) == 1);
    assert(local_of(xsi) =~= n_si() && local_of(xr) =~= n_r() && local_of(xt) =~= n_t());
    lemma_names_distinct();
    assert(n_t().len() != n_si().len() && n_r().len() != n_si().len() && n_rph().len() != n_si().len());
    assert(xsi.len() != xr.len() && xsi.len() != xt.len());
    reveal_with_fuel(rst_scan, 8);
    assert(Seq::<char>::empty() + seq!['a'] =~= seq!['a']);
}
/// <si/>  -->  no text
proof fn witness_rst_none()
    ensures ({ let it = rst_item(seq![ev_end(n_si())], 0, n_si()); it.ok && !it.rich && it.text is None && it.end == 0 }),
{
    reveal_with_fuel(rst_scan, 2);
}

//@@ fn src/xlsx/mod.rs read_string props=C19,C06,C01 ret=r
//@@ sig
    ensures
        //# C19,C01.reader_events_frame
        final(xml).events() == old(xml).events() && final(xml).pos() >= old(xml).pos(),
        //# C01,C19.plain_first_t
        ({ let it = rst_item(old(xml).events(), old(xml).pos() as int, __arg1.0@);
           it.ok && !it.rich ==>
               r is Ok && ostr(r->Ok_0) == it.text }),
        //# C01,C19.rich_runs_concat
        ({ let it = rst_item(old(xml).events(), old(xml).pos() as int, __arg1.0@);
           it.ok && it.rich ==>
               r is Ok && ostr(r->Ok_0) == it.text }),
        //# C01,C19.reader_left_after_closing_tag
        ({ let it = rst_item(old(xml).events(), old(xml).pos() as int, __arg1.0@);
           it.ok ==>
               final(xml).pos() == it.end + 1 }),
//@@ before /let mut buf = /
    let ghost ev = xml.events();
    let ghost p0 = xml.pos() as int;
    let ghost cl = closing@;
    let ghost tot = rst_item(ev, p0, cl);
    let ghost good = tot.ok;
    let ghost mut st = rst_init();
    proof { axiom_bytelits(); lemma_names_distinct(); if tot.ok { lemma_rst_end(ev, p0, st, cl); } }
//@@ loop 0
        invariant
            ev == old(xml).events(), p0 == old(xml).pos(), cl == __arg1.0@,
            xml.events() == ev, xml.pos() >= p0, cl == closing@,
            tot == rst_item(ev, p0, cl),
            good == tot.ok,
            b"r"@ == n_r(), b"t"@ == n_t(), b"rPh"@ == n_rph(),
            n_r() != n_t(), n_r() != n_rph(), n_t() != n_rph(),
            good ==> rst_scan(ev, xml.pos() as int, st, cl) == tot,
            good ==> xml.pos() <= tot.end < ev.len() && ev[tot.end].kind is End && ev[tot.end].name == cl,
            good ==> (is_phonetic_text == (st.lvl is Ph)),
            good ==> (st.in_t ==> st.lvl is Ph && local_of(st.tname) =~= n_t() && !(local_of(st.tname) =~= local_of(cl))),
            good ==> (st.lvl is R ==> st.rich),
            good ==> (!st.rich ==> st.acc =~= Seq::<char>::empty()),
            good ==> st.plain is None,
            good ==> (rich_buffer is Some) == st.rich,
            good ==> (st.rich ==> rich_buffer->Some_0@ == st.acc),
        decreases xml.left(),
//@@ before /match xml\.read_event_into\(&mut buf\)/
        let ghost pos = xml.pos() as int;
        let ghost stp = if pos < ev.len() { rst_step(ev[pos], st, cl) } else { RstStep::Bad };
        let ghost st0 = st;
        proof {
            if good {
                assert(pos < ev.len());
                assert(!(stp is Bad));
                if stp is Next {
                    st = stp->Next_0; lemma_rst_end(ev, pos + 1, st, cl);
                    assert(st.in_t ==> local_of(st.tname) =~= n_t() && !(local_of(st.tname) =~= local_of(cl)));
                    assert(!st.rich ==> st.acc =~= Seq::<char>::empty());
                    assert(st.lvl is R ==> st.rich);
                }
            }
        }
//@@ before /return Ok\(rich_buffer\)/
                proof {
                    if good {
                        let ee = ev[pos];
                        assert(ee.kind is End && e.ev() == ee && ee.name =~= cl);
                        // same qualified name ==> same local name: no inner end tag can be mistaken for the item's end tag
                        assert(ee.name == cl);
                        assert(ee.local() =~= local_of(cl));
                        assert(stp is Done);
                    }
                }
//@@ before /if rich_buffer\.is_none\(\)/
                proof {
                    assert(ev[pos].kind is Start && e.ev() == ev[pos] && e.ev().local() =~= n_r());
                    if good { assert(!st0.in_t && st0.skip == 0); assert(st.rich); }
                }
//@@ loop 1
                    invariant_except_break
                        good ==> st == (RstSt { tbuf: value@, ..st1 }),
                    invariant
                        ev == old(xml).events(), p0 == old(xml).pos(), cl == __arg1.0@,
                        xml.events() == ev, xml.pos() >= p0, cl == closing@, xml.pos() > pos, pos < ev.len(),
                        tot == rst_item(ev, p0, cl),
                        good == tot.ok,
                        good ==> e.ev().name == st1.tname,
                        good ==> st1.in_t && !(st1.lvl is Ph) && st1.plain is None && st1.skip == 0,
                        good ==> rst_scan(ev, xml.pos() as int, st, cl) == tot,
                        good ==> xml.pos() <= tot.end < ev.len() && ev[tot.end].kind is End && ev[tot.end].name == cl,
                    ensures
                        good ==> rst_step(ev[xml.pos() - 1], RstSt { tbuf: value@, ..st1 }, cl) == RstStep::Next(st),
                        good ==> ev[xml.pos() - 1].kind is End && ev[xml.pos() - 1].name == st1.tname,
                    decreases xml.left(),
//@@ before /let mut value = String::new/
                let ghost st1 = st;
                proof {
                    assert(pos < ev.len());
                    assert(ev[pos].kind is Start);
                    assert(e.ev() == ev[pos]);
                    assert(e.ev().local() =~= n_t());
                    if good {
                        assert(!st0.in_t);
                        assert(st0.skip == 0);
                        assert(stp is Next);
                    }
                }
//@@ before /match xml\.read_event_into\(&mut val_buf\)/
                    let ghost ipos = xml.pos() as int;
                    let ghost istp = if ipos < ev.len() { rst_step(ev[ipos], st, cl) } else { RstStep::Bad };
                    proof {
                        if good {
                            assert(ipos < ev.len());
                            assert(!(istp is Bad));
                            if istp is Next { st = istp->Next_0; lemma_rst_end(ev, ipos + 1, st, cl); }
                        }
                    }
//@@ before /xml\.read_to_end_into\(/
                    proof {
                        if good { lemma_rst_plain_rte(ev, xml.pos() as int, st, cl); }
                    }
//@@ end


// =====================================================================================================================
// A-zip: the zip container.  TRUSTED: `ZipArchive` is a stand-in for zip::read::ZipArchive; `xml_reader` (src/xlsx/mod.rs, a
// case-insensitive `file_names().find(..)` + `by_name` + reader configuration) is not under contract: the events of the reader it
// returns are a function of the archive and the part name only.
// =====================================================================================================================
#[verifier::external_body]
#[verifier::accept_recursive_types(RS)]
pub struct ZipArchive<RS> { _p: core::marker::PhantomData<RS> }
/// events of the XML part `path` of the archive; None: the archive has no such part
pub uninterp spec fn part_events<RS>(zip: ZipArchive<RS>, path: Seq<char>) -> Option<Seq<Ev>>;
/// the part can be opened (no zip-level error)
pub uninterp spec fn part_readable<RS>(zip: ZipArchive<RS>, path: Seq<char>) -> bool;
// TRUSTED: A-zip, A-xml
#[verifier::external_body]
fn xml_reader<'a, RS: Read + Seek>(zip: &'a mut ZipArchive<RS>, path: &str) -> (r: Option<Result<XlReader<'a>, XlsxError>>)
    ensures
        r is None <==> part_events(*old(zip), path@) is None,
        r is Some && part_readable(*old(zip), path@) ==> r->Some_0 is Ok,
        r is Some && r->Some_0 is Ok ==> (r->Some_0->Ok_0).events() == part_events(*old(zip), path@)->Some_0 && (r->Some_0->Ok_0).pos() == 0,
{ unimplemented!() }

// =====================================================================================================================
// C19 -- the shared string table.  ECMA-376 Part 1, 18.4.9 sst (CT_Sst): sequence of si* , extLst?.  "A cell of type s holds
// the zero-based index of its string item in the table": the i-th `si` child is item i, whatever its content.
// =====================================================================================================================
pub ghost struct SstSt {
    pub root: bool,                      // the `sst` start tag has been met
    pub skip: nat,                       // > 0: inside an extension element (extLst) at this depth
    pub items: Seq<Option<Seq<char>>>,   // text of the string items met so far, in document order (None: item without text)
}
pub ghost struct SstRes { pub ok: bool, pub items: Seq<Option<Seq<char>>>, pub end: int }
pub open spec fn sst_bad(i: int) -> SstRes { SstRes { ok: false, items: Seq::empty(), end: i } }
/// the sharedStrings part from event i on
pub open spec fn sst_scan(ev: Seq<Ev>, i: int, s: SstSt) -> SstRes
    decreases ev.len() - i
{
    if i < 0 || i >= ev.len() { sst_bad(i) }
    else {
        let e = ev[i];
        if e.kind is Error { sst_bad(i) }
        else if !s.root {
            // prolog: XML declaration, comments, white space; then the root element
            if e.kind is Start { if e.local() =~= n_sst() { sst_scan(ev, i + 1, SstSt { root: true, ..s }) } else { sst_bad(i) } }
            else if e.kind is End { sst_bad(i) }
            else { sst_scan(ev, i + 1, s) }
        } else if s.skip > 0 {
            if e.is_tag() && (e.local() =~= n_si() || e.local() =~= n_sst()) { sst_bad(i) }
            else if e.kind is Start { sst_scan(ev, i + 1, SstSt { skip: s.skip + 1, ..s }) }
            else if e.kind is End { sst_scan(ev, i + 1, SstSt { skip: (s.skip - 1) as nat, ..s }) }
            else { sst_scan(ev, i + 1, s) }
        } else if e.kind is Start {
            if e.local() =~= n_si() {
                let it = rst_item(ev, i + 1, e.name);
                if it.ok && i < it.end < ev.len() {
                    sst_scan(ev, it.end + 1, SstSt { items: s.items.push(it.text), ..s })
                } else { sst_bad(i) }
            }
            else if e.local() =~= n_sst() { sst_bad(i) }
            else { sst_scan(ev, i + 1, SstSt { skip: 1, ..s }) }
        } else if e.kind is End {
            if e.local() =~= n_sst() { SstRes { ok: true, items: s.items, end: i } } else { sst_bad(i) }
        } else {
            sst_scan(ev, i + 1, s)
        }
    }
}
pub open spec fn sst_part(ev: Seq<Ev>) -> SstRes { sst_scan(ev, 0, SstSt { root: false, skip: 0, items: Seq::empty() }) }
pub open spec fn strs(v: Seq<String>) -> Seq<Seq<char>> { v.map_values(|s: String| s@) }
pub open spec fn text_or_empty(o: Option<Seq<char>>) -> Seq<char> { match o { Some(t) => t, None => Seq::empty() } }
pub open spec fn texts(items: Seq<Option<Seq<char>>>) -> Seq<Seq<char>> { items.map_values(|o: Option<Seq<char>>| text_or_empty(o)) }
pub open spec fn sst_path() -> Seq<char> { "xl/sharedStrings.xml"@ }

proof fn lemma_sst_end(ev: Seq<Ev>, i: int, s: SstSt)
    requires 0 <= i, sst_scan(ev, i, s).ok,
    ensures i <= sst_scan(ev, i, s).end < ev.len(),
    decreases ev.len() - i,
{
    if i < ev.len() {
        let e = ev[i];
        if s.root && s.skip == 0 && e.kind is Start && e.local() =~= n_si() {
            let it = rst_item(ev, i + 1, e.name);
            lemma_sst_end(ev, it.end + 1, SstSt { items: s.items.push(it.text), ..s });
        } else if !(e.kind is End && s.root && s.skip == 0) {
            // every other continuing case moves to i + 1 with some state
            if !s.root { if e.kind is Start { lemma_sst_end(ev, i + 1, SstSt { root: true, ..s }); } else { lemma_sst_end(ev, i + 1, s); } }
            else if s.skip > 0 {
                if e.kind is Start { lemma_sst_end(ev, i + 1, SstSt { skip: s.skip + 1, ..s }); }
                else if e.kind is End { lemma_sst_end(ev, i + 1, SstSt { skip: (s.skip - 1) as nat, ..s }); }
                else { lemma_sst_end(ev, i + 1, s); }
            } else if e.kind is Start { lemma_sst_end(ev, i + 1, SstSt { skip: 1, ..s }); }
            else { lemma_sst_end(ev, i + 1, s); }
        }
    }
}

//@@ impl src/xlsx/mod.rs Xlsx
//@@ fn src/xlsx/mod.rs Xlsx::read_shared_strings props=C19,C06 ret=r
//@@ sig
    ensures
        //# C19.sst_absent_part
        part_events(old(self).zip, sst_path()) is None ==> r is Ok && final(self).strings@ == old(self).strings@,
        //# C01,C19.sst_items_in_order
        ({ let evs = part_events(old(self).zip, sst_path());
           evs is Some && part_readable(old(self).zip, sst_path()) && sst_part(evs->Some_0).ok ==>
               r is Ok && strs(final(self).strings@) =~= strs(old(self).strings@) + texts(sst_part(evs->Some_0).items) }),
        //# C01,C19.sst_index_alignment
        ({ let evs = part_events(old(self).zip, sst_path());
           evs is Some && part_readable(old(self).zip, sst_path()) && sst_part(evs->Some_0).ok ==>
               r is Ok && final(self).strings@.len() == old(self).strings@.len() + sst_part(evs->Some_0).items.len()
               && forall|i: int| 0 <= i < sst_part(evs->Some_0).items.len() ==>
                      (#[trigger] final(self).strings@[old(self).strings@.len() + i])@ == text_or_empty(sst_part(evs->Some_0).items[i]) }),
//@@ before /let mut buf = /
        let ghost ev = xml.events();
        let ghost tot = sst_part(ev);
        let ghost good = tot.ok;
        let ghost mut st = SstSt { root: false, skip: 0, items: Seq::empty() };
        let ghost s0 = self.strings@;
        proof {
            axiom_bytelits(); lemma_names_distinct();
            if tot.ok { lemma_sst_end(ev, 0, st); }
            assert(strs(s0) + texts(st.items) =~= strs(s0));
        }
//@@ loop 0
            invariant_except_break
                good ==> sst_scan(ev, xml.pos() as int, st) == tot,
            invariant
                ev == xml.events(), tot == sst_part(ev),
                part_events(old(self).zip, sst_path()) == Some(ev), s0 == old(self).strings@,
                good == tot.ok,
                b"si"@ == n_si(), b"sst"@ == n_sst(), n_si() != n_sst(),
                good ==> xml.pos() <= tot.end + 1 && tot.end < ev.len(),
                good ==> strs(self.strings@) =~= strs(s0) + texts(st.items),
            ensures
                good ==> st.items == tot.items,
            decreases xml.left(),
//@@ before /match xml\.read_event_into\(&mut buf\)/
            let ghost pos = xml.pos() as int;
            let ghost st0 = st;
            proof {
                if good {
                    lemma_sst_end(ev, pos, st);
                    let e = ev[pos];
                    if !st.root { if e.kind is Start { st = SstSt { root: true, ..st }; } }
                    else if st.skip > 0 {
                        if e.kind is Start { st = SstSt { skip: st.skip + 1, ..st }; }
                        else if e.kind is End { st = SstSt { skip: (st.skip - 1) as nat, ..st }; }
                    } else if e.kind is Start && !(e.local() =~= n_si()) { st = SstSt { skip: 1, ..st }; }
                }
            }
//@@ before /let s = read_string/
                    let ghost it = rst_item(ev, pos + 1, ev[pos].name);
                    let ghost sv0 = self.strings@;
                    proof {
                        assert(pos < ev.len() && ev[pos].kind is Start && e.ev() == ev[pos] && e.ev().local() =~= n_si());
                        if good {
                            assert(st0.root && st0.skip == 0);
                            assert(it.ok);
                            lemma_sst_end(ev, it.end + 1, SstSt { items: st0.items.push(it.text), ..st0 });
                        }
                    }
//@@ after /self\.strings\.push\(s\);/
                    proof {
                        if good {
                            st = SstSt { items: st0.items.push(it.text), ..st0 };
                            assert(texts(st.items) =~= texts(st0.items).push(text_or_empty(it.text)));
                            assert(self.strings@.len() == sv0.len() + 1);
                            assert(strs(self.strings@) =~= strs(sv0).push(text_or_empty(it.text)));
                            assert(strs(self.strings@) =~= strs(s0) + texts(st.items));
                        }
                    }
//@@ before /Ok\(\(\)\)\s*\}\s*$/
        proof {
            if good {
                let items = tot.items;
                assert forall|i: int| 0 <= i < items.len() implies (#[trigger] self.strings@[s0.len() + i])@ == text_or_empty(items[i]) by {
                    assert(strs(self.strings@)[s0.len() + i] == (strs(s0) + texts(items))[s0.len() + i]);
                    assert(texts(items)[i] == text_or_empty(items[i]));
                }
                assert(strs(self.strings@).len() == strs(s0).len() + texts(items).len());
            }
        }
//@@ end
//@@ endimpl

// =====================================================================================================================
// A1 references: spec functions COPIED from unit a1 (units/a1/unit.rs), where get_row_and_optional_column / get_row_column / get_row
// are PROVED against them.  Here the three decoders are external_body with the contract clauses of unit a1 (assumed here, proved there).
// =====================================================================================================================
pub open spec fn is_digit(c: u8) -> bool { 0x30 <= c <= 0x39 }
pub open spec fn is_upper(c: u8) -> bool { 0x41 <= c <= 0x5a }
pub open spec fn is_lower(c: u8) -> bool { 0x61 <= c <= 0x7a }
pub open spec fn is_letter(c: u8) -> bool { is_upper(c) || is_lower(c) }
pub open spec fn letter_val(c: u8) -> nat { if is_upper(c) { (c - 0x41 + 1) as nat } else { (c - 0x61 + 1) as nat } }
pub open spec fn dec10(s: Seq<u8>) -> nat decreases s.len() { if s.len() == 0 { 0 } else { dec10(s.drop_last()) * 10 + (s.last() - 0x30) as nat } }
pub open spec fn b26(s: Seq<u8>) -> nat decreases s.len() { if s.len() == 0 { 0 } else { b26(s.drop_last()) * 26 + letter_val(s.last()) } }
pub open spec fn all_digits(s: Seq<u8>) -> bool { forall|i: int| 0 <= i < s.len() ==> is_digit(#[trigger] s[i]) }
pub open spec fn all_letters(s: Seq<u8>) -> bool { forall|i: int| 0 <= i < s.len() ==> is_letter(#[trigger] s[i]) }
pub open spec fn a1_shape(s: Seq<u8>, nl: int) -> bool {
    0 <= nl <= s.len() && all_letters(s.subrange(0, nl)) && all_digits(s.subrange(nl, s.len() as int))
}
pub open spec fn a1_value(s: Seq<u8>, nl: int) -> (u32, Option<u32>) {
    ((dec10(s.subrange(nl, s.len() as int)) - 1) as u32, if nl > 0 { Some((b26(s.subrange(0, nl)) - 1) as u32) } else { None })
}
pub open spec fn a1_small(s: Seq<u8>, nl: int) -> bool { a1_shape(s, nl) && s.len() - nl <= 9 && nl <= 6 }
/// s is a cell reference (letters then digits, row >= 1) with nl letters
pub open spec fn a1_cell(s: Seq<u8>, nl: int) -> bool { a1_small(s, nl) && nl >= 1 && dec10(s.subrange(nl, s.len() as int)) >= 1 }
/// s is a row reference (optional letters, digits, row >= 1)
pub open spec fn a1_rowref(s: Seq<u8>, nl: int) -> bool { a1_small(s, nl) && dec10(s.subrange(nl, s.len() as int)) >= 1 }
/// the 0-based (row, column) a cell reference denotes
#[verifier::opaque]
pub open spec fn cell_of(s: Seq<u8>) -> Option<(u32, u32)> {
    if exists|nl: int| a1_cell(s, nl) {
        let nl = choose|nl: int| a1_cell(s, nl);
        Some((a1_value(s, nl).0, (b26(s.subrange(0, nl)) - 1) as u32))
    } else { None }
}
/// the 0-based row a row reference (the `r` attribute of `row`) denotes
#[verifier::opaque]
pub open spec fn row_of(s: Seq<u8>) -> Option<u32> {
    if exists|nl: int| a1_rowref(s, nl) { let nl = choose|nl: int| a1_rowref(s, nl); Some(a1_value(s, nl).0) } else { None }
}
/// ST_Ref (ECMA-376 18.18.62): `A1` or `A1:B2` -- a single reference denotes the one-cell area
pub open spec fn dim_of(s: Seq<u8>) -> Option<Dimensions> {
    let c = colon_at(s, 0);
    if c >= s.len() {
        match cell_of(s) { Some(p) => Some(Dimensions { start: p, end: p }), None => None }
    } else {
        match (cell_of(s.subrange(0, c)), cell_of(s.subrange(c + 1, s.len() as int))) {
            (Some(p), Some(q)) => if p.0 <= q.0 && p.1 <= q.1 { Some(Dimensions { start: p, end: q }) } else { None },
            _ => None,
        }
    }
}

//@@ item src/xlsx/mod.rs const MAX_COLUMNS
//@@ item src/xlsx/mod.rs const MAX_ROWS
// TRUSTED: contract of unit a1 (clauses C01,C15,C17.a1_decode / a1_zero_row_rejected / a1_malformed_rejected), PROVED there on the same text
// callee of get_row_and_optional_column (checked digit accumulation; under contract in unit a1): present only so that the text compiles
//@@ fn src/xlsx/mod.rs add_digit external_body
//@@ end
//@@ fn src/xlsx/mod.rs get_row_and_optional_column props=C01 ret=r external_body
//@@ sig
    ensures
        forall|nl: int| #[trigger] a1_small(range@, nl) && dec10(range@.subrange(nl, range@.len() as int)) >= 1 ==>
            r == Ok::<(u32, Option<u32>), XlsxError>(a1_value(range@, nl)),
        forall|nl: int| #[trigger] a1_small(range@, nl) && dec10(range@.subrange(nl, range@.len() as int)) == 0 ==> r is Err,
        (forall|nl: int| !#[trigger] a1_shape(range@, nl)) ==> r is Err,
//@@ end
// as in unit a1 (re-verified here from the contract above)
//@@ fn src/xlsx/mod.rs get_row_column props=C01,C17 ret=r
//@@ sig
    ensures
        //# C01,C17.a1_cell_decode
        forall|nl: int| #[trigger] a1_small(range@, nl) && nl >= 1 && dec10(range@.subrange(nl, range@.len() as int)) >= 1 ==>
            r == Ok::<(u32, u32), XlsxError>((a1_value(range@, nl).0, (b26(range@.subrange(0, nl)) - 1) as u32)),
        //# C01,C17.a1_cell_malformed_rejected
        (forall|nl: int| !#[trigger] a1_shape(range@, nl)) ==> r is Err,
//@@ end
//@@ fn src/xlsx/mod.rs get_row props=C01 ret=r
//@@ sig
    ensures
        //# C01.a1_row_decode
        forall|nl: int| #[trigger] a1_small(range@, nl) && dec10(range@.subrange(nl, range@.len() as int)) >= 1 ==>
            r == Ok::<u32, XlsxError>(a1_value(range@, nl).0),
        //# C01.a1_row_malformed_rejected
        (forall|nl: int| !#[trigger] a1_shape(range@, nl)) ==> r is Err,
//@@ closure 0
    -> (res: u32) ensures res == __c0_0.0
//@@ end
// TRUSTED: get_dimension (split at ':' + get_row_column on each part + `collect::<Result<Vec<_>, _>>()`: iterator adapters outside
// Verus' reach) -- assumed: an ST_Ref whose corners are in order decodes to its two corners through get_row_column; one reference
// gives start == end.  (Its `parts[1].0 - parts[0].0` underflow on reversed references is a C06 finding of unit a1 / colname.)
//@@ fn src/xlsx/mod.rs get_dimension props=C17 ret=r external_body
//@@ sig
    ensures
        dim_of(dimension@) is Some ==> r == Ok::<Dimensions, XlsxError>(dim_of(dimension@)->Some_0),
//@@ end

proof fn lemma_cell_of(s: Seq<u8>, nl: int)
    requires a1_cell(s, nl),
    ensures cell_of(s) == Some((a1_value(s, nl).0, (b26(s.subrange(0, nl)) - 1) as u32)),
{
    reveal(cell_of);
    // the split into letters ++ digits is unique
    let m = choose|m: int| a1_cell(s, m);
    if m < nl { assert(is_digit(s.subrange(m, s.len() as int)[0])); assert(is_letter(s.subrange(0, nl)[m])); }
    if m > nl { assert(is_letter(s.subrange(0, m)[nl])); assert(is_digit(s.subrange(nl, s.len() as int)[0])); }
}

proof fn lemma_cell_2(l: u8, d: u8)
    requires is_letter(l), 0x31 <= d <= 0x39,
    ensures cell_of(seq![l, d]) == Some(((d - 0x31) as u32, (letter_val(l) - 1) as u32)),
{
    let s = seq![l, d];
    assert(s.subrange(0, 1) =~= seq![l]);
    assert(s.subrange(1, 2) =~= seq![d]);
    assert(seq![d].drop_last() =~= Seq::<u8>::empty());
    assert(seq![l].drop_last() =~= Seq::<u8>::empty());
    assert(dec10(seq![d]) == (d - 0x30) as nat) by { reveal_with_fuel(dec10, 2); }
    assert(b26(seq![l]) == letter_val(l)) by { reveal_with_fuel(b26, 2); }
    assert(a1_cell(s, 1));
    lemma_cell_of(s, 1);
}
/// witness / sanity: "A1:B2" is the area (0,0)-(1,1); "C3" is the one-cell area (2,2)
proof fn witness_dim_of()
    ensures
        dim_of(seq![0x41u8, 0x31u8, 0x3au8, 0x42u8, 0x32u8]) == Some(Dimensions { start: (0u32, 0u32), end: (1u32, 1u32) }),
        dim_of(seq![0x43u8, 0x33u8]) == Some(Dimensions { start: (2u32, 2u32), end: (2u32, 2u32) }),
{
    let s = seq![0x41u8, 0x31u8, 0x3au8, 0x42u8, 0x32u8];
    reveal_with_fuel(colon_at, 4);
    assert(colon_at(s, 0) == 2);
    assert(s.subrange(0, 2) =~= seq![0x41u8, 0x31u8]);
    assert(s.subrange(3, 5) =~= seq![0x42u8, 0x32u8]);
    lemma_cell_2(0x41u8, 0x31u8);
    lemma_cell_2(0x42u8, 0x32u8);
    let t = seq![0x43u8, 0x33u8];
    assert(colon_at(t, 0) == 2);
    lemma_cell_2(0x43u8, 0x33u8);
}
/// witness: <mergeCell ref="C3"/></mergeCells>  -->  one region
proof fn witness_mc_scan()
    ensures ({
        let a = Attr { key: n_ref(), raw: seq![0x43u8, 0x33u8], val: Seq::empty(), val_ok: true, err: false };
        let ev = seq![Ev { attrs: seq![a], ..ev_start(n_mergecell()) }, ev_end(n_mergecell()), ev_end(n_mergecells())];
        let m = mc_scan(ev, 0, Seq::empty());
        m.ok && m.end == 2 && m.regions == seq![Dimensions { start: (2u32, 2u32), end: (2u32, 2u32) }] }),
{
    witness_dim_of();
    lemma_local_no_colon(n_mergecell(), 0); lemma_local_no_colon(n_mergecells(), 0);
    assert(n_mergecell().len() != n_mergecells().len());
    reveal_with_fuel(mc_scan, 4);
    reveal_with_fuel(attr_scan, 2);
    assert(Seq::<Dimensions>::empty().push(Dimensions { start: (2u32, 2u32), end: (2u32, 2u32) }) =~= seq![Dimensions { start: (2u32, 2u32), end: (2u32, 2u32) }]);
}

//@@ fn src/xlsx/mod.rs get_attribute props=C01,C17,C06 ret=r
//@@ r6 0
//@@ sig
    ensures
        //# C01,C17.attribute_lookup
        match attr_scan(atts.rem(), n.0@) {
            AttrLookup::Found(v) => r matches Ok(Some(x)) && x@ == v,
            AttrLookup::Absent => r matches Ok(None),
            AttrLookup::Malformed => r is Err,
        },
//@@ loop 0
        invariant
            attr_scan(__it0.rem(), n.0@) == attr_scan(atts.rem(), n.0@),
        ensures
            __it0.rem().len() == 0,
        decreases __it0.rem().len(),
//@@ end

// =====================================================================================================================
// C17 -- merged regions.  ECMA-376 18.3.1.55 mergeCells (CT_MergeCells): mergeCell+ ; 18.3.1.54 mergeCell: empty element with the
// required attribute ref (ST_Ref).  The regions of a sheet are the refs of its mergeCell elements in document order.
// =====================================================================================================================
pub ghost struct McRes { pub ok: bool, pub regions: Seq<Dimensions>, pub end: int }
/// content of a `mergeCells` element from event i on (the start tag has been read)
pub open spec fn mc_scan(ev: Seq<Ev>, i: int, acc: Seq<Dimensions>) -> McRes
    decreases ev.len() - i
{
    if i < 0 || i >= ev.len() { McRes { ok: false, regions: acc, end: i } }
    else {
        let e = ev[i];
        if e.kind is Error { McRes { ok: false, regions: acc, end: i } }
        else if e.kind is Start {
            if e.local() =~= n_mergecell() {
                match attr_scan(e.attrs, n_ref()) {
                    AttrLookup::Found(raw) => match dim_of(raw) {
                        Some(d) => mc_scan(ev, i + 1, acc.push(d)),
                        None => McRes { ok: false, regions: acc, end: i },
                    },
                    _ => McRes { ok: false, regions: acc, end: i },     // ref is a required attribute
                }
            } else { McRes { ok: false, regions: acc, end: i } }
        } else if e.kind is End {
            if e.local() =~= n_mergecells() { McRes { ok: true, regions: acc, end: i } }
            else if e.local() =~= n_mergecell() { mc_scan(ev, i + 1, acc) }
            else { McRes { ok: false, regions: acc, end: i } }
        } else { mc_scan(ev, i + 1, acc) }
    }
}
proof fn lemma_mc_end(ev: Seq<Ev>, i: int, acc: Seq<Dimensions>)
    requires 0 <= i, mc_scan(ev, i, acc).ok,
    ensures i <= mc_scan(ev, i, acc).end < ev.len(),
    decreases ev.len() - i,
{
    if i < ev.len() {
        let e = ev[i];
        if e.kind is Start {
            if let AttrLookup::Found(raw) = attr_scan(e.attrs, n_ref()) { if let Some(d) = dim_of(raw) { lemma_mc_end(ev, i + 1, acc.push(d)); } }
        } else if e.kind is End { if !(e.local() =~= n_mergecells()) { lemma_mc_end(ev, i + 1, acc); } }
        else { lemma_mc_end(ev, i + 1, acc); }
    }
}

//@@ fn src/xlsx/mod.rs read_merge_cells props=C17,C06 ret=r
//@@ r6 1
//@@ replace /XlsxError::XmlAttr/ Verus: "using a datatype constructor as a function value" unsupported; eta-expanded
|e| XlsxError::XmlAttr(e)
//@@ sig
    ensures
        //# C17.merge_reader_frame
        final(xml).events() == old(xml).events() && final(xml).pos() >= old(xml).pos(),
        //# C17.merge_regions_in_order
        ({ let m = mc_scan(old(xml).events(), old(xml).pos() as int, Seq::empty());
           m.ok ==> r is Ok && r->Ok_0@ == m.regions && final(xml).pos() == m.end + 1 }),
//@@ before /let mut merge_cells = /
    let ghost ev = xml.events();
    let ghost p0 = xml.pos() as int;
    let ghost tot = mc_scan(ev, p0, Seq::empty());
    proof { axiom_bytelits(); if tot.ok { lemma_mc_end(ev, p0, Seq::empty()); } }
//@@ loop 0
        invariant_except_break
            tot.ok ==> mc_scan(ev, xml.pos() as int, merge_cells@) == tot,
        invariant
            ev == old(xml).events(), p0 == old(xml).pos(), xml.events() == ev, xml.pos() >= p0,
            tot == mc_scan(ev, p0, Seq::empty()),
            b"mergeCell"@ == n_mergecell(), b"mergeCells"@ == n_mergecells(), b"ref"@ == n_ref(),
            tot.ok ==> xml.pos() <= tot.end + 1 && tot.end < ev.len(),
        ensures
            tot.ok ==> merge_cells@ == tot.regions && xml.pos() == tot.end + 1,
        decreases xml.left(),
//@@ before /match xml\.read_event_into\(&mut buffer\)/
        let ghost pos = xml.pos() as int;
        let ghost mc0 = merge_cells@;
        proof { if tot.ok { lemma_mc_end(ev, pos, mc0); } }
//@@ loop 1
                    invariant_except_break
                        attr_scan(__it1.rem(), n_ref()) == attr_scan(ev[pos].attrs, n_ref()),
                        merge_cells@ == mc0,
                    invariant
                        b"ref"@ == n_ref(),
                        xml.events() == ev, xml.pos() == pos + 1, pos < ev.len(),
                        ev == old(xml).events(), p0 == old(xml).pos(), pos >= p0,
                        tot == mc_scan(ev, p0, Seq::empty()),
                        tot.ok ==> mc_scan(ev, pos, mc0) == tot,
                        ev[pos].kind is Start && ev[pos].local() =~= n_mergecell(),
                    ensures
                        tot.ok ==> mc_scan(ev, pos + 1, merge_cells@) == tot,
                    decreases __it1.rem().len(),
//@@ before /for attribute in event/
                proof {
                    assert(pos < ev.len() && ev[pos].kind is Start && event.ev() == ev[pos] && event.ev().local() =~= n_mergecell());
                }
//@@ end

// =====================================================================================================================
// C01 / C10 -- cell values.  ECMA-376 18.3.1.4 c (CT_Cell: f?, v?, is?; attributes r, s, t) and 18.18.11 ST_CellType:
//   b boolean ("0"/"1"), d ISO 8601 date, e error literal, inlineStr (rich text in `is`), n number (the default), s index into the
//   shared string table, str formula string.  A number is a date/time exactly when the number format of style `s` is one (C10).
// =====================================================================================================================
// TRUSTED: A-std -- documented behaviour of the std functions below (vstd has no specification for them)
pub assume_specification<T, E>[ Result::<T, E>::unwrap_or ](r: Result<T, E>, d: T) -> (o: T)
    ensures o == (match r { Ok(x) => x, Err(_) => d });
pub assume_specification<T, E, F>[ Result::<T, E>::or ](a: Result<T, E>, b: Result<T, F>) -> (r: Result<T, F>)
    ensures r == (match a { Ok(x) => Ok::<T, F>(x), Err(_) => b });
pub assume_specification<T, U, F: FnOnce(T) -> U>[ Option::<T>::map_or ](o: Option<T>, d: U, f: F) -> (r: U)
    requires o matches Some(x) ==> call_requires(f, (x,)),
    ensures o is None ==> r == d, o matches Some(x) ==> call_ensures(f, (x,), r);
/// UTF-8 encoding of a string (uninterpreted)
pub uninterp spec fn utf8(s: Seq<char>) -> Seq<u8>;
pub assume_specification[ String::as_bytes ](s: &String) -> (r: &[u8])
    ensures r@ == utf8(s@);
pub assume_specification<'a>[ <String as PartialEq<&'a str>>::ne ](a: &String, b: &&str) -> (r: bool)
    ensures r == !(a@ =~= b@);
#[verifier::external_type_specification] #[verifier::external_body] pub struct ExUtf8Error(std::str::Utf8Error);
pub assume_specification[ std::str::from_utf8 ](b: &[u8]) -> (r: Result<&str, std::str::Utf8Error>);   // only feeds an error message
#[verifier::external_trait_specification] pub trait ExFromStr: Sized { type ExternalTraitSpecificationFor: std::str::FromStr; type Err; fn from_str(s: &str) -> Result<Self, Self::Err>; }
// TRUSTED: text -> value parsing is NOT verified: `str::parse::<f64>` (std float parsing) and `str::parse::<CellErrorType>` (FromStr for
// CellErrorType in src/xlsx/mod.rs, a literal-by-literal `match`) are uninterpreted functions of the text
pub uninterp spec fn parse_spec<F: FromStr>(s: Seq<char>) -> Result<F, <F as FromStr>::Err>;
pub assume_specification<F: FromStr>[ str::parse::<F> ](s: &str) -> (r: Result<F, <F as FromStr>::Err>)
    ensures r == parse_spec::<F>(s@);
//@@ impl src/xlsx/mod.rs "FromStr for CellErrorType"
    type Err = XlsxError;
//@@ fn src/xlsx/mod.rs "FromStr for CellErrorType::from_str" external_body
//@@ end
//@@ endimpl
// TRUSTED: stand-in for the atoi_simd crate: decimal digits -> integer, uninterpreted (integer parsing is not verified)
pub mod atoi_simd {
    use super::*;
    pub struct AtoiSimdError;
    pub uninterp spec fn atoi_spec<T>(s: Seq<u8>) -> Option<T>;
    #[verifier::external_body]
    pub fn parse<T>(s: &[u8]) -> (r: Result<T, AtoiSimdError>)
        ensures match atoi_spec::<T>(s@) { Some(x) => r == Ok::<T, AtoiSimdError>(x), None => r is Err },
    { unimplemented!() }
}
pub open spec fn atoi_usize(s: Seq<u8>) -> Option<usize> { atoi_simd::atoi_spec::<usize>(s) }

// ExcelDateTime has private fields: observed through closed spec functions (same as unit formats)
pub closed spec fn edt_parts(e: ExcelDateTime) -> (f64, ExcelDateTimeType, bool) { (e.value, e.datetime_type, e.is_1904) }
pub closed spec fn edt_mk(value: f64, datetime_type: ExcelDateTimeType, is_1904: bool) -> ExcelDateTime { ExcelDateTime { value, datetime_type, is_1904 } }
//@@ impl src/datatype.rs ExcelDateTime
//@@ fn src/datatype.rs ExcelDateTime::new props=C10,C16,C11 ret=r
//@@ sig
    ensures
        //# C10,C16,C11.edt_new_fields
        r == edt_mk(value, datetime_type, is_1904),
//@@ end
//@@ endimpl
/// the date flavour a format class asks for (None: stays a plain number) -- as in unit formats
pub open spec fn flavour(format: Option<&CellFormat>) -> Option<ExcelDateTimeType> {
    match format {
        Some(CellFormat::DateTime) => Some(ExcelDateTimeType::DateTime),
        Some(CellFormat::TimeDelta) => Some(ExcelDateTimeType::TimeDelta),
        _ => None,
    }
}
// same contract as in unit formats, re-verified here on the same text
//@@ fn src/formats.rs format_excel_f64_ref props=C10,C01,C16,C11 ret=r
//@@ sig
    ensures
        //# C10,C01.f64_plain_when_not_date_format
        flavour(format) is None ==> r == DataRef::<'static>::Float(value),
        //# C10,C16,C11.f64_datetime_iff_date_format
        flavour(format) matches Some(ty) ==> r == DataRef::<'static>::DateTime(edt_mk(value, ty, is_1904)),
//@@ end

/// the number format class the style attribute `s` of a `c` start tag designates (cellXfs index); no `s`: the default style
pub open spec fn style_fmt(c_attrs: Seq<Attr>, formats: Seq<CellFormat>) -> Option<CellFormat> {
    match attr_scan(c_attrs, n_s()) {
        AttrLookup::Found(style) => match atoi_usize(style) {
            Some(id) => if id < formats.len() { Some(formats[id as int]) } else { None },
            None => None,
        },
        _ => Some(CellFormat::Other),
    }
}
/// the `s` attribute, if present, is a number that designates an existing cellXfs entry
pub open spec fn style_valid(c_attrs: Seq<Attr>, formats: Seq<CellFormat>) -> bool {
    match attr_scan(c_attrs, n_s()) {
        AttrLookup::Found(style) => atoi_usize(style) is Some && atoi_usize(style)->Some_0 < formats.len(),
        AttrLookup::Absent => true,
        AttrLookup::Malformed => false,
    }
}
/// value of a numeric cell: DateTime exactly when the format class is a date/time class, with the workbook's date system (C10, C16)
pub open spec fn num_value(n: f64, fmt: Option<CellFormat>, is_1904: bool) -> DataRef<'static> {
    match fmt {
        Some(CellFormat::DateTime) => DataRef::DateTime(edt_mk(n, ExcelDateTimeType::DateTime, is_1904)),
        Some(CellFormat::TimeDelta) => DataRef::DateTime(edt_mk(n, ExcelDateTimeType::TimeDelta, is_1904)),
        _ => DataRef::Float(n),
    }
}
/// the cell type attribute `t` is `name`
pub open spec fn t_is(c_attrs: Seq<Attr>, name: Seq<u8>) -> bool { attr_scan(c_attrs, n_t()) == AttrLookup::Found(name) }

/// ghost view of a cell value (strings by content)
pub ghost enum DV { Int(i64), Float(f64), Str(Seq<char>), Shared(Seq<char>), Bool(bool), DateTime(ExcelDateTime), Iso(Seq<char>), DurIso(Seq<char>), Error(CellErrorType), Empty }
pub open spec fn dv(d: DataRef) -> DV {
    match d {
        DataRef::Int(x) => DV::Int(x), DataRef::Float(x) => DV::Float(x), DataRef::String(x) => DV::Str(x@), DataRef::SharedString(x) => DV::Shared(x@),
        DataRef::Bool(x) => DV::Bool(x), DataRef::DateTime(x) => DV::DateTime(x), DataRef::DateTimeIso(x) => DV::Iso(x@),
        DataRef::DurationIso(x) => DV::DurIso(x@), DataRef::Error(x) => DV::Error(x), DataRef::Empty => DV::Empty,
    }
}
/// ST_CellType: the value a `c` start tag (attributes t, s) and the text of its `v` child denote; None: not a well-formed combination
/// (nothing is claimed: index / style out of range, unparsable number or error literal, boolean other than 0/1, unknown type)
pub open spec fn typed_dv(c_attrs: Seq<Attr>, v: Seq<char>, strings: Seq<String>, formats: Seq<CellFormat>, is_1904: bool) -> Option<DV> {
    match attr_scan(c_attrs, n_t()) {
        AttrLookup::Malformed => None,
        AttrLookup::Absent =>
            if parse_spec::<f64>(v) is Ok && style_valid(c_attrs, formats) { Some(dv(num_value(parse_spec::<f64>(v)->Ok_0, style_fmt(c_attrs, formats), is_1904))) } else { None },
        AttrLookup::Found(t) =>
            if t =~= n_s() { match atoi_usize(utf8(v)) { Some(idx) => if idx < strings.len() { Some(DV::Shared(strings[idx as int]@)) } else { None }, None => None } }
            else if t =~= n_b() { if v =~= "0"@ { Some(DV::Bool(false)) } else if v =~= "1"@ { Some(DV::Bool(true)) } else { None } }
            else if t =~= n_e() { match parse_spec::<CellErrorType>(v) { Ok(e) => Some(DV::Error(e)), Err(_) => None } }
            else if t =~= n_d() { Some(DV::Iso(v)) }
            else if t =~= n_str() { Some(DV::Str(v)) }
            else if t =~= n_n() {
                if v.len() == 0 { Some(DV::Empty) }
                else if parse_spec::<f64>(v) is Ok && style_valid(c_attrs, formats) { Some(dv(num_value(parse_spec::<f64>(v)->Ok_0, style_fmt(c_attrs, formats), is_1904))) }
                else { None }
            }
            else { None },
    }
}

//@@ fn src/xlsx/cells_reader.rs read_v props=C01,C10,C16,C19,C11 entry ret=r
//@@ replace /Some\(b"s"\) =>/ Verus crashes on byte-string literal patterns (ill-typed AIR); equivalent guard
Some(__t) if __t == b"s" =>
//@@ replace /Some\(b"b"\) =>/ byte-string literal pattern -> equivalent guard
Some(__t) if __t == b"b" =>
//@@ replace /Some\(b"e"\) =>/ byte-string literal pattern -> equivalent guard
Some(__t) if __t == b"e" =>
//@@ replace /Some\(b"d"\) =>/ byte-string literal pattern -> equivalent guard
Some(__t) if __t == b"d" =>
//@@ replace /Some\(b"str"\) =>/ byte-string literal pattern -> equivalent guard
Some(__t) if __t == b"str" =>
//@@ replace /Some\(b"n"\) =>/ byte-string literal pattern -> equivalent guard
Some(__t) if __t == b"n" =>
//@@ replace /Some\(b"is"\) =>/ byte-string literal pattern -> equivalent guard
Some(__t) if __t == b"is" =>
//@@ replace /map_err\(XlsxError::ParseFloat\)/ Verus: datatype constructor as a function value unsupported; eta-expanded
map_err(|e| XlsxError::ParseFloat(e))
//@@ sig
    ensures
        //# C06.shared_string_index_out_of_range_rejected
        t_is(c_element.ev().attrs, n_s()) && !(atoi_usize(utf8(v@)) is Some && atoi_usize(utf8(v@))->Some_0 < strings@.len())
            && atoi_usize(utf8(v@)) is Some ==> r is Err,
        //# C01,C19.value_typing_shared_string
        t_is(c_element.ev().attrs, n_s()) && atoi_usize(utf8(v@)) is Some && atoi_usize(utf8(v@))->Some_0 < strings@.len() ==>
            (r matches Ok(DataRef::SharedString(x)) && x@ == strings@[atoi_usize(utf8(v@))->Some_0 as int]@),
        //# C01.value_typing_bool
        t_is(c_element.ev().attrs, n_b()) && (v@ =~= "0"@ || v@ =~= "1"@) ==> r == Ok::<DataRef<'s>, XlsxError>(DataRef::Bool(v@ =~= "1"@)),
        //# C01.value_typing_error
        t_is(c_element.ev().attrs, n_e()) && parse_spec::<CellErrorType>(v@) is Ok ==>
            r == Ok::<DataRef<'s>, XlsxError>(DataRef::Error(parse_spec::<CellErrorType>(v@)->Ok_0)),
        //# C01.value_typing_iso_date
        t_is(c_element.ev().attrs, n_d()) ==> r == Ok::<DataRef<'s>, XlsxError>(DataRef::DateTimeIso(v)),
        //# C01,C19.value_typing_formula_string
        t_is(c_element.ev().attrs, n_str()) ==> r == Ok::<DataRef<'s>, XlsxError>(DataRef::String(v)),
        //# C01,C10,C16,C11.value_typing_number
        t_is(c_element.ev().attrs, n_n()) && v@.len() > 0 && parse_spec::<f64>(v@) is Ok && style_valid(c_element.ev().attrs, formats@) ==>
            r == Ok::<DataRef<'s>, XlsxError>(num_value(parse_spec::<f64>(v@)->Ok_0, style_fmt(c_element.ev().attrs, formats@), is_1904)),
        //# C01,C10,C16,C11.value_typing_default_is_number
        attr_scan(c_element.ev().attrs, n_t()) is Absent && parse_spec::<f64>(v@) is Ok && style_valid(c_element.ev().attrs, formats@) ==>
            r == Ok::<DataRef<'s>, XlsxError>(num_value(parse_spec::<f64>(v@)->Ok_0, style_fmt(c_element.ev().attrs, formats@), is_1904)),
        //# C01.value_typing_empty_number
        t_is(c_element.ev().attrs, n_n()) && v@.len() == 0 ==> r == Ok::<DataRef<'s>, XlsxError>(DataRef::Empty),
        //# C01,C10,C16,C19,C11.value_typing
        typed_dv(c_element.ev().attrs, v@, strings@, formats@, is_1904) is Some ==>
            r is Ok && dv(r->Ok_0) == typed_dv(c_element.ev().attrs, v@, strings@, formats@, is_1904)->Some_0,
//@@ body
    proof { axiom_bytelits(); lemma_type_names_distinct(); }
//@@ before /let idx = atoi_simd/
            proof { lemma_t_names(__t@); }
//@@ before /Ok\(DataRef::Bool/
            proof {
                lemma_t_names(__t@);
                reveal_strlit("0"); reveal_strlit("1");
                assert("0"@.len() == 1 && "1"@.len() == 1 && "0"@[0] != "1"@[0]);
            }
//@@ before /Ok\(DataRef::Error/
            proof { lemma_t_names(__t@); }
//@@ before /Ok\(DataRef::DateTimeIso/
            proof { lemma_t_names(__t@); }
//@@ closure 0
    -> (res: DataRef<'static>) ensures res == num_value(n, match cell_format { Some(f) => Some(*f), None => None }, is_1904)
//@@ closure 1
    -> (res: DataRef<'static>) ensures res == num_value(n, match cell_format { Some(f) => Some(*f), None => None }, is_1904)
//@@ end

/// character data of a text-only element (`v`) whose start tag (qualified name `name`) precedes ev[i]: Text unescaped, CDATA literal,
/// comments skipped, no child elements, closed by the end tag with the same qualified name
pub ghost struct TxtRes { pub ok: bool, pub text: Seq<char>, pub end: int }
pub open spec fn txt_scan(ev: Seq<Ev>, i: int, name: Seq<u8>, acc: Seq<char>) -> TxtRes
    decreases ev.len() - i
{
    if i < 0 || i >= ev.len() { TxtRes { ok: false, text: acc, end: i } }
    else {
        let e = ev[i];
        match e.kind {
            EvKind::Text => if e.text_ok { txt_scan(ev, i + 1, name, acc + e.text) } else { TxtRes { ok: false, text: acc, end: i } },
            EvKind::CData => if e.text_ok { txt_scan(ev, i + 1, name, acc + e.text) } else { TxtRes { ok: false, text: acc, end: i } },
            EvKind::Other => txt_scan(ev, i + 1, name, acc),
            EvKind::End => if e.name =~= name { TxtRes { ok: true, text: acc, end: i } } else { TxtRes { ok: false, text: acc, end: i } },
            _ => TxtRes { ok: false, text: acc, end: i },
        }
    }
}
proof fn lemma_txt_end(ev: Seq<Ev>, i: int, name: Seq<u8>, acc: Seq<char>)
    requires 0 <= i, txt_scan(ev, i, name, acc).ok,
    ensures i <= txt_scan(ev, i, name, acc).end < ev.len(), ev[txt_scan(ev, i, name, acc).end].kind is End,
    decreases ev.len() - i,
{
    if i < ev.len() {
        let e = ev[i];
        match e.kind {
            EvKind::Text => { lemma_txt_end(ev, i + 1, name, acc + e.text); }
            EvKind::CData => { lemma_txt_end(ev, i + 1, name, acc + e.text); }
            EvKind::Other => { lemma_txt_end(ev, i + 1, name, acc); }
            _ => {}
        }
    }
}
pub open spec fn inline_dv(t: Option<Seq<char>>) -> DV { match t { Some(x) => DV::Str(x), None => DV::Empty } }

//@@ fn src/xlsx/cells_reader.rs read_value props=C01,C10,C16,C19,C06 ret=r
//@@ replace /b"is" =>/ Verus crashes on byte-string literal patterns; equivalent guard
__n if __n == b"is" =>
//@@ replace /b"v" =>/ byte-string literal pattern -> equivalent guard
__n if __n == b"v" =>
//@@ replace /b"f" =>/ byte-string literal pattern -> equivalent guard
__n if __n == b"f" =>
//@@ replace /DataRef::String\)/ Verus: datatype constructor as a function value unsupported; eta-expanded
|s: String| -> (q: DataRef<'s>) ensures q == DataRef::<'s>::String(s) { DataRef::String(s) })
//@@ sig
    ensures
        //# C01.value_reader_frame
        final(xml).events() == old(xml).events() && final(xml).pos() >= old(xml).pos(),
        //# C01,C10,C16,C19.value_from_v
        ({ let tx = txt_scan(old(xml).events(), old(xml).pos() as int, e.ev().name, Seq::empty());
           let ty = typed_dv(c_element.ev().attrs, tx.text, strings@, formats@, is_1904);
           e.ev().local() =~= n_v() && tx.ok && ty is Some ==>
               r is Ok && dv(r->Ok_0) == ty->Some_0 && final(xml).pos() == tx.end + 1 }),
        //# C01,C19.value_from_inline_string
        ({ let it = rst_item(old(xml).events(), old(xml).pos() as int, e.ev().name);
           e.ev().local() =~= n_is() && it.ok ==>
               r is Ok && dv(r->Ok_0) == inline_dv(it.text) && final(xml).pos() == it.end + 1 }),
        //# C01.formula_element_skipped
        ({ let ev = old(xml).events();
           let k = rte_stop(ev, old(xml).pos() as int, e.ev().name, 0);
           e.ev().local() =~= n_f() && k < ev.len() && ev[k].kind is End ==> r is Ok && r->Ok_0 is Empty && final(xml).pos() == k + 1 }),
        //# C01.unknown_cell_child_rejected
        !(e.ev().local() =~= n_is()) && !(e.ev().local() =~= n_v()) && !(e.ev().local() =~= n_f()) ==> r is Err,
//@@ body
    let ghost ev = xml.events();
    let ghost p0 = xml.pos() as int;
    let ghost tot = txt_scan(ev, p0, e.ev().name, Seq::empty());
    let ghost good = tot.ok;
    proof {
        axiom_bytelits();
        assert(n_is().len() != n_v().len() && n_is().len() != n_f().len() && n_v()[0] != n_f()[0]);
        if tot.ok { lemma_txt_end(ev, p0, e.ev().name, Seq::empty()); }
    }
//@@ loop 0
                invariant_except_break
                    good ==> txt_scan(ev, xml.pos() as int, e.ev().name, v@) == tot,
                invariant
                    ev == old(xml).events(), p0 == old(xml).pos(), xml.events() == ev, xml.pos() >= p0,
                    tot == txt_scan(ev, p0, e.ev().name, Seq::empty()),
                    good == tot.ok,
                    good ==> xml.pos() <= tot.end + 1 && tot.end < ev.len() && ev[tot.end].kind is End,
                    e.ev().local() =~= n_v(), !(n_v() =~= n_is()), !(n_v() =~= n_f()),
                ensures
                    good ==> v@ == tot.text && xml.pos() == tot.end + 1,
                decreases xml.left(),
//@@ before /match xml\.read_event_into\(&mut v_buf\)/
                let ghost pos = xml.pos() as int;
                proof { if good { lemma_txt_end(ev, pos, e.ev().name, v@); } }
//@@ end

// =====================================================================================================================
// C01 -- the cell stream of a worksheet.  ECMA-376 18.3.1.80 sheetData (row*), 18.3.1.73 row (c*, optional attribute r = 1-based
// row number), 18.3.1.4 c (optional attribute r = A1 reference).  "If r is omitted, the cell/row is the one following the previous
// cell/row": the position of a cell is its `r` attribute if present, else the running cursor (row_index, col_index).
// =====================================================================================================================
//@@ item src/lib.rs trait "trait CellType"
impl<'a> CellType for DataRef<'a> {}
//@@ item src/lib.rs struct Cell
impl<T: CellType> Cell<T> {
    pub closed spec fn p(&self) -> (u32, u32) { self.pos }
    pub closed spec fn v(&self) -> T { self.val }
}
//@@ impl src/lib.rs Cell
//@@ fn src/lib.rs Cell::new props=C01 ret=c
//@@ sig
    ensures
        //# C01.cell_new
        c.p() == position && c.v() == value,
//@@ end
//@@ endimpl
//@@ item src/xlsx/cells_reader.rs type FormulaMap
//@@ item src/xlsx/cells_reader.rs struct XlsxCellReader

impl<'a> XlsxCellReader<'a> {
    pub closed spec fn g_events(&self) -> Seq<Ev> { self.xml.events() }
    pub closed spec fn g_pos(&self) -> nat { self.xml.pos() }
    pub closed spec fn g_cur(&self) -> Cur { Cur { row: self.row_index as int, col: self.col_index as int } }
    pub closed spec fn g_cx(&self) -> ShCtx { ShCtx { strings: self.strings@, formats: self.formats@, is_1904: self.is_1904 } }
}
pub ghost struct ShCtx { pub strings: Seq<String>, pub formats: Seq<CellFormat>, pub is_1904: bool }
pub ghost struct CellRes { pub ok: bool, pub val: DV, pub end: int }
pub open spec fn cell_bad(i: int) -> CellRes { CellRes { ok: false, val: DV::Empty, end: i } }
/// content of a `c` element from ev[i] on: CT_Cell = f?, v?, is? -- the value comes from `v` (typed by the cell's t / s attributes)
/// or from `is` (inline string); `f` carries no value; `seen`: a v / is child has been met
pub open spec fn cell_scan(ev: Seq<Ev>, i: int, cattrs: Seq<Attr>, cur: DV, seen: bool, cx: ShCtx) -> CellRes
    decreases ev.len() - i
{
    if i < 0 || i >= ev.len() { cell_bad(i) }
    else {
        let e = ev[i];
        if e.kind is Error { cell_bad(i) }
        else if e.kind is Start {
            if e.local() =~= n_v() {
                let tx = txt_scan(ev, i + 1, e.name, Seq::empty());
                let ty = typed_dv(cattrs, tx.text, cx.strings, cx.formats, cx.is_1904);
                if !seen && tx.ok && i < tx.end < ev.len() && ty is Some { cell_scan(ev, tx.end + 1, cattrs, ty->Some_0, true, cx) } else { cell_bad(i) }
            } else if e.local() =~= n_is() {
                let it = rst_item(ev, i + 1, e.name);
                if !seen && it.ok && i < it.end < ev.len() { cell_scan(ev, it.end + 1, cattrs, inline_dv(it.text), true, cx) } else { cell_bad(i) }
            } else if e.local() =~= n_f() {
                let k = rte_stop(ev, i + 1, e.name, 0);
                if !seen && i < k < ev.len() && ev[k].kind is End { cell_scan(ev, k + 1, cattrs, cur, seen, cx) } else { cell_bad(i) }
            } else { cell_bad(i) }
        } else if e.kind is End {
            if e.local() =~= n_c() { CellRes { ok: true, val: cur, end: i } } else { cell_bad(i) }
        } else { cell_scan(ev, i + 1, cattrs, cur, seen, cx) }
    }
}
pub ghost struct Cur { pub row: int, pub col: int }
pub ghost struct NextRes { pub ok: bool, pub cell: Option<((int, int), DV)>, pub cur: Cur, pub end: int }
pub open spec fn next_bad(i: int, cur: Cur) -> NextRes { NextRes { ok: false, cell: None, cur: cur, end: i } }
/// what the next call of the cell iterator delivers when the reader stands at ev[i] inside sheetData with cursor `cur`:
/// the next cell (position, value), the cursor after it and the index of the last event consumed; cell None: end of sheetData
pub open spec fn next_scan(ev: Seq<Ev>, i: int, cur: Cur, cx: ShCtx) -> NextRes
    decreases ev.len() - i
{
    if i < 0 || i >= ev.len() { next_bad(i, cur) }
    else {
        let e = ev[i];
        if e.kind is Error { next_bad(i, cur) }
        else if e.kind is Start {
            if e.local() =~= n_row() {
                match attr_scan(e.attrs, n_r()) {
                    AttrLookup::Found(raw) => match row_of(raw) { Some(r) => next_scan(ev, i + 1, Cur { row: r as int, col: cur.col }, cx), None => next_bad(i, cur) },
                    AttrLookup::Absent => next_scan(ev, i + 1, cur, cx),
                    AttrLookup::Malformed => next_bad(i, cur),
                }
            } else if e.local() =~= n_c() {
                let pos: Option<(int, int)> = match attr_scan(e.attrs, n_r()) {
                    AttrLookup::Found(raw) => match cell_of(raw) { Some(p) => Some((p.0 as int, p.1 as int)), None => None },
                    AttrLookup::Absent => Some((cur.row, cur.col)),
                    AttrLookup::Malformed => None,
                };
                let cs = cell_scan(ev, i + 1, e.attrs, DV::Empty, false, cx);
                if pos is Some && cs.ok && i < cs.end < ev.len() && pos->Some_0.1 + 1 <= u32::MAX {
                    NextRes { ok: true, cell: Some((pos->Some_0, cs.val)), cur: Cur { row: cur.row, col: pos->Some_0.1 + 1 }, end: cs.end }
                } else { next_bad(i, cur) }
            } else { next_bad(i, cur) }
        } else if e.kind is End {
            if e.local() =~= n_row() { if cur.row + 1 <= u32::MAX { next_scan(ev, i + 1, Cur { row: cur.row + 1, col: 0 }, cx) } else { next_bad(i, cur) } }
            else if e.local() =~= n_sheetdata() { NextRes { ok: true, cell: None, cur: cur, end: i } }
            else { next_bad(i, cur) }
        } else { next_scan(ev, i + 1, cur, cx) }
    }
}
proof fn lemma_cell_end(ev: Seq<Ev>, i: int, cattrs: Seq<Attr>, cur: DV, seen: bool, cx: ShCtx)
    requires 0 <= i, cell_scan(ev, i, cattrs, cur, seen, cx).ok,
    ensures i <= cell_scan(ev, i, cattrs, cur, seen, cx).end < ev.len(),
    decreases ev.len() - i,
{
    if i < ev.len() {
        let e = ev[i];
        if e.kind is Start {
            if e.local() =~= n_v() {
                let tx = txt_scan(ev, i + 1, e.name, Seq::empty());
                lemma_cell_end(ev, tx.end + 1, cattrs, typed_dv(cattrs, tx.text, cx.strings, cx.formats, cx.is_1904)->Some_0, true, cx);
            } else if e.local() =~= n_is() {
                let it = rst_item(ev, i + 1, e.name);
                lemma_cell_end(ev, it.end + 1, cattrs, inline_dv(it.text), true, cx);
            } else if e.local() =~= n_f() {
                lemma_cell_end(ev, rte_stop(ev, i + 1, e.name, 0) + 1, cattrs, cur, seen, cx);
            }
        } else if !(e.kind is End) { lemma_cell_end(ev, i + 1, cattrs, cur, seen, cx); }
    }
}
proof fn lemma_next_end(ev: Seq<Ev>, i: int, cur: Cur, cx: ShCtx)
    requires 0 <= i, next_scan(ev, i, cur, cx).ok,
    ensures i <= next_scan(ev, i, cur, cx).end < ev.len(),
    decreases ev.len() - i,
{
    if i < ev.len() {
        let e = ev[i];
        if e.kind is Start {
            if e.local() =~= n_row() {
                match attr_scan(e.attrs, n_r()) {
                    AttrLookup::Found(raw) => { lemma_next_end(ev, i + 1, Cur { row: row_of(raw)->Some_0 as int, col: cur.col }, cx); }
                    AttrLookup::Absent => { lemma_next_end(ev, i + 1, cur, cx); }
                    _ => {}
                }
            }
        } else if e.kind is End {
            if e.local() =~= n_row() { lemma_next_end(ev, i + 1, Cur { row: cur.row + 1, col: 0 }, cx); }
        } else { lemma_next_end(ev, i + 1, cur, cx); }
    }
}

proof fn lemma_row_1(d: u8)
    requires 0x31 <= d <= 0x39,
    ensures row_of(seq![d]) == Some((d - 0x31) as u32),
{
    reveal(row_of);
    let s = seq![d];
    assert(s.subrange(0, 0) =~= Seq::<u8>::empty());
    assert(s.subrange(0, 1) =~= s);
    assert(s.drop_last() =~= Seq::<u8>::empty());
    assert(dec10(s) == (d - 0x30) as nat) by { reveal_with_fuel(dec10, 2); }
    assert(a1_rowref(s, 0));
    let m = choose|m: int| a1_rowref(s, m);
    if m != 0 { assert(m == 1); assert(s.subrange(1, 1) =~= Seq::<u8>::empty()); assert(dec10(s.subrange(1, 1)) == 0); }
}
/// witness / sanity: <row r="3"><c r="B3" t="b"><v>1</v></c> read with cursor (0,0) delivers the cell (2,1) = Bool(true), cursor (2,2)
proof fn witness_next_scan(cx: ShCtx)
    ensures ({
        let ra = Attr { key: n_r(), raw: seq![0x33u8], val: Seq::empty(), val_ok: true, err: false };
        let ca = Attr { key: n_r(), raw: seq![0x42u8, 0x33u8], val: Seq::empty(), val_ok: true, err: false };
        let ta = Attr { key: n_t(), raw: n_b(), val: Seq::empty(), val_ok: true, err: false };
        let ev = seq![Ev { attrs: seq![ra], ..ev_start(n_row()) }, Ev { attrs: seq![ca, ta], ..ev_start(n_c()) },
                      ev_start(n_v()), ev_text("1"@), ev_end(n_v()), ev_end(n_c())];
        let nx = next_scan(ev, 0, Cur { row: 0, col: 0 }, cx);
        nx.ok && nx.cell == Some(((2int, 1int), DV::Bool(true))) && nx.cur == (Cur { row: 2, col: 2 }) && nx.end == 5 }),
{
    let ra = Attr { key: n_r(), raw: seq![0x33u8], val: Seq::empty(), val_ok: true, err: false };
    let ca = Attr { key: n_r(), raw: seq![0x42u8, 0x33u8], val: Seq::empty(), val_ok: true, err: false };
    let ta = Attr { key: n_t(), raw: n_b(), val: Seq::empty(), val_ok: true, err: false };
    let cattrs = seq![ca, ta];
    let ev = seq![Ev { attrs: seq![ra], ..ev_start(n_row()) }, Ev { attrs: cattrs, ..ev_start(n_c()) },
                  ev_start(n_v()), ev_text("1"@), ev_end(n_v()), ev_end(n_c())];
    lemma_local_no_colon(n_row(), 0); lemma_local_no_colon(n_c(), 0); lemma_local_no_colon(n_v(), 0);
    lemma_type_names_distinct();
    assert(n_row().len() != n_c().len() && n_c()[0] != n_v()[0] && n_v().len() != n_is().len() && n_v().len() != n_row().len());
    assert(n_c()[0] != n_v()[0] && n_c().len() != n_is().len() && n_c()[0] != n_f()[0]);
    assert(n_r()[0] != n_t()[0]);
    lemma_row_1(0x33u8);
    lemma_cell_2(0x42u8, 0x33u8);
    // attributes
    assert(attr_scan(seq![ra], n_r()) == AttrLookup::Found(seq![0x33u8])) by { reveal_with_fuel(attr_scan, 2); }
    assert(cattrs.skip(1) =~= seq![ta]);
    assert(attr_scan(cattrs, n_r()) == AttrLookup::Found(seq![0x42u8, 0x33u8])) by { reveal_with_fuel(attr_scan, 2); }
    assert(attr_scan(cattrs, n_t()) == AttrLookup::Found(n_b())) by { reveal_with_fuel(attr_scan, 3); }
    // the v element
    reveal_strlit("1"); reveal_strlit("0");
    assert(Seq::<char>::empty() + "1"@ =~= "1"@);
    assert(txt_scan(ev, 3, n_v(), Seq::empty()) == (TxtRes { ok: true, text: "1"@, end: 4 })) by { reveal_with_fuel(txt_scan, 3); }
    assert(!("1"@ =~= "0"@)) by { assert("1"@[0] != "0"@[0]); }
    assert(typed_dv(cattrs, "1"@, cx.strings, cx.formats, cx.is_1904) == Some(DV::Bool(true)));
    assert(cell_scan(ev, 2, cattrs, DV::Empty, false, cx) == (CellRes { ok: true, val: DV::Bool(true), end: 5 })) by { reveal_with_fuel(cell_scan, 3); }
    reveal_with_fuel(next_scan, 3);
    assert(n_v().len() != n_is().len());
}

//@@ impl src/xlsx/cells_reader.rs XlsxCellReader
//@@ fn src/xlsx/cells_reader.rs XlsxCellReader::next_cell props=C01,C10,C16,C19,C11 entry ret=r
//@@ sig
    ensures
        //# C01.cells_reader_frame
        final(self).g_events() == old(self).g_events() && final(self).g_pos() >= old(self).g_pos() && final(self).g_cx() == old(self).g_cx(),
        //# C01.cell_position
        ({ let ev = old(self).g_events();
           let nx = next_scan(ev, old(self).g_pos() as int, old(self).g_cur(), old(self).g_cx());
           nx.ok && nx.cell is Some ==>
               (r matches Ok(Some(c)) && c.p().0 == nx.cell->Some_0.0.0 && c.p().1 == nx.cell->Some_0.0.1) }),
        //# C01,C10,C16,C19,C11.cell_value
        ({ let ev = old(self).g_events();
           let nx = next_scan(ev, old(self).g_pos() as int, old(self).g_cur(), old(self).g_cx());
           nx.ok && nx.cell is Some ==>
               (r matches Ok(Some(c)) && dv(c.v()) == nx.cell->Some_0.1) }),
        //# C01.cursor_update
        ({ let ev = old(self).g_events();
           let nx = next_scan(ev, old(self).g_pos() as int, old(self).g_cur(), old(self).g_cx());
           nx.ok ==>
               final(self).g_cur() == nx.cur && final(self).g_pos() == nx.end + 1 }),
        //# C01.end_of_sheet_data
        ({ let ev = old(self).g_events();
           let nx = next_scan(ev, old(self).g_pos() as int, old(self).g_cur(), old(self).g_cx());
           nx.ok && nx.cell is None ==> r matches Ok(None) }),
//@@ body
        let ghost ev = self.xml.events();
        let ghost p0 = self.xml.pos() as int;
        let ghost cx = ShCtx { strings: self.strings@, formats: self.formats@, is_1904: self.is_1904 };
        let ghost tot = next_scan(ev, p0, Cur { row: self.row_index as int, col: self.col_index as int }, cx);
        let ghost good = tot.ok;
        proof {
            axiom_bytelits();
            assert(n_row().len() != n_c().len() && n_row().len() != n_sheetdata().len() && n_c().len() != n_sheetdata().len());
            assert(n_v()[0] != n_f()[0] && n_v().len() != n_is().len() && n_f().len() != n_is().len());
            if tot.ok { lemma_next_end(ev, p0, Cur { row: self.row_index as int, col: self.col_index as int }, cx); }
        }
//@@ loop 0
            invariant
                ev == old(self).xml.events(), p0 == old(self).xml.pos(), self.xml.events() == ev, self.xml.pos() >= p0,
                self.strings@ == old(self).strings@, self.formats@ == old(self).formats@, self.is_1904 == old(self).is_1904,
                cx == (ShCtx { strings: old(self).strings@, formats: old(self).formats@, is_1904: old(self).is_1904 }),
                tot == next_scan(ev, p0, Cur { row: old(self).row_index as int, col: old(self).col_index as int }, cx),
                good == tot.ok,
                b"row"@ == n_row(), b"c"@ == n_c(), b"sheetData"@ == n_sheetdata(), b"r"@ == n_r(),
                b"v"@ == n_v(), b"is"@ == n_is(), b"f"@ == n_f(),
                !(n_v() =~= n_f()), !(n_v() =~= n_is()), !(n_is() =~= n_f()),
                !(n_row() =~= n_c()), !(n_row() =~= n_sheetdata()), !(n_c() =~= n_sheetdata()),
                good ==> next_scan(ev, self.xml.pos() as int, Cur { row: self.row_index as int, col: self.col_index as int }, cx) == tot,
            decreases self.xml.left(),
//@@ before /match self\.xml\.read_event_into\(&mut self\.buf\)/
            let ghost gp = self.xml.pos() as int;
            let ghost cur0 = Cur { row: self.row_index as int, col: self.col_index as int };
            proof { if good { lemma_next_end(ev, gp, cur0, cx); } }
//@@ before /let row = get_row/
                        proof { if good { reveal(row_of); } }
//@@ before /let \(row, col\) = /
                        proof { if good { reveal(cell_of); } }
//@@ before /let mut value = DataRef/
                    let ghost cattrs = ev[gp].attrs;
                    let ghost ctot = cell_scan(ev, gp + 1, cattrs, DV::Empty, false, cx);
                    let ghost mut seen = false;
                    proof {
                        assert(gp < ev.len() && ev[gp].kind is Start && c_element.ev() == ev[gp] && c_element.ev().local() =~= n_c());
                        if good { lemma_cell_end(ev, gp + 1, cattrs, DV::Empty, false, cx); }
                    }
//@@ loop 1
                        invariant_except_break
                            good ==> cell_scan(ev, self.xml.pos() as int, cattrs, dv(value), seen, cx) == ctot,
                            good ==> (!seen ==> value is Empty),
                        invariant
                            ev == old(self).xml.events(), p0 == old(self).xml.pos(), self.xml.events() == ev, self.xml.pos() > gp, gp >= p0, gp < ev.len(),
                            self.strings@ == old(self).strings@, self.formats@ == old(self).formats@, self.is_1904 == old(self).is_1904,
                            cx == (ShCtx { strings: old(self).strings@, formats: old(self).formats@, is_1904: old(self).is_1904 }),
                            good == tot.ok,
                            tot == next_scan(ev, p0, Cur { row: old(self).row_index as int, col: old(self).col_index as int }, cx),
                            cattrs == c_element.ev().attrs,
                            b"c"@ == n_c(), b"v"@ == n_v(), b"is"@ == n_is(), b"f"@ == n_f(),
                            !(n_v() =~= n_f()), !(n_v() =~= n_is()), !(n_is() =~= n_f()),
                            good ==> ctot.ok && gp < ctot.end && ctot.end == tot.end && tot.end < ev.len(),
                            good ==> tot.cell == Some(((pos.0 as int, pos.1 as int), ctot.val)) && tot.cur == (Cur { row: self.row_index as int, col: pos.1 + 1 }),
                            self.col_index == pos.1,
                        ensures
                            good ==> dv(value) == ctot.val && self.xml.pos() == ctot.end + 1,
                        decreases self.xml.left(),
//@@ before /match self\.xml\.read_event_into\(&mut self\.cell_buf\)/
                        let ghost ipos = self.xml.pos() as int;
                        let ghost val0 = dv(value);
                        proof { if good { lemma_cell_end(ev, ipos, cattrs, val0, seen, cx); assert(ipos < ev.len()); assert(!(ev[ipos].kind is Error)); } }
//@@ after /_ => \(\),\s*\}/#0of2
                        proof {
                            if good {
                                let ce = ev[ipos];
                                if ce.kind is Start {
                                    assert(cell_scan(ev, self.xml.pos() as int, cattrs, dv(value), seen, cx) == ctot);
                                } else if ce.kind is End {
                                    assert(false);
                                } else {
                                    assert(self.xml.pos() == ipos + 1);
                                    assert(dv(value) == val0);
                                    assert(cell_scan(ev, ipos, cattrs, val0, seen, cx) == cell_scan(ev, ipos + 1, cattrs, val0, seen, cx));
                                }
                            }
                        }
//@@ before /value = read_value\(/
                                proof {
                                    if good {
                                        let ce = ev[ipos];
                                        assert(ce.kind is Start && e.ev() == ce);
                                        assert(cell_scan(ev, ipos, cattrs, val0, seen, cx) == ctot);
                                        if ce.local() =~= n_v() {
                                            let tx = txt_scan(ev, ipos + 1, ce.name, Seq::empty());
                                            let ty = typed_dv(cattrs, tx.text, cx.strings, cx.formats, cx.is_1904);
                                            assert(!seen && tx.ok && ty is Some && ipos < tx.end);
                                            assert(cell_scan(ev, tx.end + 1, cattrs, ty->Some_0, true, cx) == ctot);
                                            lemma_cell_end(ev, tx.end + 1, cattrs, ty->Some_0, true, cx);
                                        } else if ce.local() =~= n_is() {
                                            let it = rst_item(ev, ipos + 1, ce.name);
                                            assert(!seen && it.ok && ipos < it.end);
                                            assert(cell_scan(ev, it.end + 1, cattrs, inline_dv(it.text), true, cx) == ctot);
                                            lemma_cell_end(ev, it.end + 1, cattrs, inline_dv(it.text), true, cx);
                                        } else if ce.local() =~= n_f() {
                                            let k = rte_stop(ev, ipos + 1, ce.name, 0);
                                            assert(!seen && ipos < k < ev.len() && ev[k].kind is End);
                                            assert(cell_scan(ev, k + 1, cattrs, val0, seen, cx) == ctot);
                                            lemma_cell_end(ev, k + 1, cattrs, val0, seen, cx);
                                            assert(val0 is Empty);
                                        } else { assert(false); }
                                    }
                                }
//@@ after /c_element,\s*\)\?/
;
                                proof {
                                    if good {
                                        let ce = ev[ipos];
                                        if ce.local() =~= n_v() {
                                            let tx = txt_scan(ev, ipos + 1, ce.name, Seq::empty());
                                            let ty = typed_dv(cattrs, tx.text, cx.strings, cx.formats, cx.is_1904);
                                            assert(dv(value) == ty->Some_0 && self.xml.pos() == tx.end + 1);
                                        } else if ce.local() =~= n_is() {
                                            let it = rst_item(ev, ipos + 1, ce.name);
                                            assert(dv(value) == inline_dv(it.text) && self.xml.pos() == it.end + 1);
                                        } else {
                                            let k = rte_stop(ev, ipos + 1, ce.name, 0);
                                            assert(value is Empty && self.xml.pos() == k + 1);
                                        }
                                        if !(ce.local() =~= n_f()) { seen = true; }
                                        if ce.local() =~= n_v() { assert(cell_scan(ev, self.xml.pos() as int, cattrs, dv(value), seen, cx) == ctot); }
                                        else if ce.local() =~= n_is() { assert(cell_scan(ev, self.xml.pos() as int, cattrs, dv(value), seen, cx) == ctot); }
                                        else { assert(dv(value) == val0); assert(cell_scan(ev, self.xml.pos() as int, cattrs, dv(value), seen, cx) == ctot); }
                                    }
                                }
//@@ end
//@@ endimpl
} // verus!
fn main() {}
