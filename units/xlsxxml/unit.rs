//@@ unit props=C19,C01,C10,C16,C17,C06
// probe
#![allow(unused_imports, dead_code, unused_variables, unused_mut, unused_assignments)]
use vstd::prelude::*;
use std::borrow::Cow;

verus! {

pub mod quick_xml {
    pub struct Error;
    pub mod events { pub mod attributes { pub struct AttrError; } }
    pub mod encoding { pub struct EncodingError; }
}
pub mod zip { pub mod result { pub struct ZipError; } }
pub mod vba { pub struct VbaError; }
#[verifier::external_type_specification] #[verifier::external_body] pub struct ExIoError(std::io::Error);
#[verifier::external_type_specification] #[verifier::external_body] pub struct ExParseFloatError(std::num::ParseFloatError);
#[verifier::external_type_specification] #[verifier::external_body] pub struct ExParseIntError(std::num::ParseIntError);

//@@ item src/xlsx/mod.rs enum XlsxError

pub enum EvKind { Start, End, Text, CData, Other, Error }
pub ghost struct Attr { pub key: Seq<u8>, pub raw: Seq<u8>, pub val: Seq<char>, pub val_ok: bool }
pub ghost struct Ev { pub kind: EvKind, pub name: Seq<u8>, pub attrs: Seq<Attr>, pub raw: Seq<u8>, pub text: Seq<char>, pub text_ok: bool }

impl From<quick_xml::Error> for XlsxError { fn from(e: quick_xml::Error) -> (r: XlsxError) { XlsxError::Xml(e) } }
impl vstd::std_specs::convert::FromSpecImpl<quick_xml::Error> for XlsxError {
    open spec fn obeys_from_spec() -> bool { true }
    open spec fn from_spec(e: quick_xml::Error) -> Self { XlsxError::Xml(e) }
}

#[derive(PartialEq)]
pub struct QName<'a>(pub &'a [u8]);

#[verifier::external_body]
pub struct LocalName<'a> { p: &'a [u8] }
impl<'a> LocalName<'a> {
    pub uninterp spec fn bytes(&self) -> Seq<u8>;
    #[verifier::external_body]
    pub fn as_ref(&self) -> (r: &[u8]) ensures r@ == self.bytes() { unimplemented!() }
}

#[verifier::external_body]
pub struct BytesStart<'a> { p: &'a [u8] }
#[verifier::external_body]
pub struct BytesEnd<'a> { p: &'a [u8] }
#[verifier::external_body]
pub struct BytesText<'a> { p: &'a [u8] }

pub enum Event<'a> {
    Start(BytesStart<'a>),
    End(BytesEnd<'a>),
    Text(BytesText<'a>),
    CData(BytesText<'a>),
    Other,
    Eof,
}

impl<'a> BytesStart<'a> {
    pub uninterp spec fn ev(&self) -> Ev;
    #[verifier::external_body]
    pub fn name(&self) -> (r: QName<'_>) ensures r.0@ == self.ev().name { unimplemented!() }
    #[verifier::external_body]
    pub fn local_name(&self) -> (r: LocalName<'_>) ensures r.bytes() == self.ev().name { unimplemented!() }
}
impl<'a> BytesEnd<'a> {
    pub uninterp spec fn ev(&self) -> Ev;
    #[verifier::external_body]
    pub fn name(&self) -> (r: QName<'_>) ensures r.0@ == self.ev().name { unimplemented!() }
    #[verifier::external_body]
    pub fn local_name(&self) -> (r: LocalName<'_>) ensures r.bytes() == self.ev().name { unimplemented!() }
}
impl<'a> BytesText<'a> {
    pub uninterp spec fn ev(&self) -> Ev;
    #[verifier::external_body]
    pub fn unescape(&self) -> (r: Result<Cow<'a, str>, quick_xml::Error>) { unimplemented!() }
}

#[verifier::external_body]
pub struct XlReader<'a> { p: &'a [u8] }
impl<'a> XlReader<'a> {
    pub uninterp spec fn events(&self) -> Seq<Ev>;
    pub uninterp spec fn pos(&self) -> nat;
    #[verifier::external_body]
    pub fn read_event_into<'b>(&mut self, buf: &'b mut Vec<u8>) -> (r: Result<Event<'b>, quick_xml::Error>)
        ensures final(self).events() == old(self).events(),
    { unimplemented!() }
    #[verifier::external_body]
    pub fn read_to_end_into(&mut self, end: QName<'_>, buf: &mut Vec<u8>) -> (r: Result<(), quick_xml::Error>)
        ensures final(self).events() == old(self).events(),
    { unimplemented!() }
}

//@@ fn src/xlsx/mod.rs read_string props=C19 ret=r
//@@ sig
//@@ loop 0
        decreases xml.events().len() - xml.pos(),
//@@ loop 1
        decreases xml.events().len() - xml.pos(),
//@@ end

} // verus!
fn main() {}
