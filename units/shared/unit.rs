//@@ unit props=C15,C06
// Unit shared: xlsx shared-formula reference rewriting (src/xlsx/mod.rs), verbatim text.
#![allow(unused_imports, dead_code, unused_variables, unused_mut, unused_assignments)]
use vstd::prelude::*;

verus! {

pub mod quick_xml {
    pub struct Error;
    pub mod events { pub mod attributes { pub struct AttrError; } }
    pub mod encoding { pub struct EncodingError; }
}
pub mod zip { pub mod result { pub struct ZipError; } }
pub mod vba { pub struct VbaError; }
#[verifier::external_type_specification] #[verifier::external_body] pub struct ExIoError(std::io::Error);
#[verifier::external_type_specification] #[verifier::external_body] pub struct ExParseFloatError(std::num::ParseFloatError);
#[verifier::external_type_specification] #[verifier::external_body] pub struct ExParseIntError(std::num::ParseIntError);

//@@ item src/xlsx/mod.rs enum XlsxError
//@@ item src/xlsx/mod.rs const MAX_COLUMNS
//@@ item src/xlsx/mod.rs const MAX_ROWS

//@@ fn src/xlsx/mod.rs get_row_and_optional_column ret=r external_body
//@@ sig
    ensures true,
//@@ end

//@@ fn src/xlsx/mod.rs column_number_to_name ret=r external_body
//@@ sig
    ensures true,
//@@ end

//@@ fn src/xlsx/mod.rs get_row_column ret=r external_body
//@@ sig
    ensures true,
//@@ end

//@@ fn src/xlsx/mod.rs coordinate_to_name ret=r external_body
//@@ sig
    ensures true,
//@@ end

//@@ fn src/xlsx/mod.rs offset_cell_name props=C15 ret=r
//@@ sig
    ensures true,
//@@ end

//@@ fn src/xlsx/mod.rs replace_cell_names props=C15 entry ret=r
//@@ sig
    ensures true,
//@@ end

} // verus!
fn main() {}
