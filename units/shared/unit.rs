//@@ unit props=C15,C06
// Unit shared: xlsx shared-formula reference rewriting (src/xlsx/mod.rs: offset_cell_name, replace_cell_names, coordinate_to_name), verbatim text.
#![feature(allocator_api)]
#![allow(unused_imports, dead_code, unused_variables, unused_mut, unused_assignments)]
use vstd::prelude::*;
use vstd::std_specs::iter::IteratorSpec;

verus! {

pub mod quick_xml {
    pub struct Error;
    pub mod events { pub mod attributes { pub struct AttrError; } }
    pub mod encoding { pub struct EncodingError; }
}
pub mod zip { pub mod result { pub struct ZipError; } }
pub mod vba { pub struct VbaError; }
#[verifier::external_type_specification] #[verifier::external_body] pub struct ExIoError(std::io::Error);
#[verifier::external_type_specification] #[verifier::external_body] pub struct ExParseFloatError(std::num::ParseFloatError);
#[verifier::external_type_specification] #[verifier::external_body] pub struct ExParseIntError(std::num::ParseIntError);
#[verifier::external_type_specification] #[verifier::external_body] pub struct ExFromUtf8Error(std::string::FromUtf8Error);

//@@ item src/xlsx/mod.rs enum XlsxError
//@@ item src/xlsx/mod.rs const MAX_COLUMNS
//@@ item src/xlsx/mod.rs const MAX_ROWS

// ---------------------------------------------------------------- A1 notation (same definitions as unit a1, written from the A1 grammar)
pub open spec fn is_digit(c: u8) -> bool { 0x30 <= c <= 0x39 }
pub open spec fn is_upper(c: u8) -> bool { 0x41 <= c <= 0x5a }
pub open spec fn is_lower(c: u8) -> bool { 0x61 <= c <= 0x7a }
pub open spec fn is_letter(c: u8) -> bool { is_upper(c) || is_lower(c) }
pub open spec fn letter_val(c: u8) -> nat {
    if is_upper(c) { (c - 0x41 + 1) as nat } else { (c - 0x61 + 1) as nat }
}
pub open spec fn dec10(s: Seq<u8>) -> nat
    decreases s.len()
{
    if s.len() == 0 { 0 } else { dec10(s.drop_last()) * 10 + (s.last() - 0x30) as nat }
}
pub open spec fn b26(s: Seq<u8>) -> nat
    decreases s.len()
{
    if s.len() == 0 { 0 } else { b26(s.drop_last()) * 26 + letter_val(s.last()) }
}
pub open spec fn all_digits(s: Seq<u8>) -> bool { forall|i: int| 0 <= i < s.len() ==> is_digit(#[trigger] s[i]) }
pub open spec fn all_letters(s: Seq<u8>) -> bool { forall|i: int| 0 <= i < s.len() ==> is_letter(#[trigger] s[i]) }
pub open spec fn all_upper(s: Seq<u8>) -> bool { forall|i: int| 0 <= i < s.len() ==> is_upper(#[trigger] s[i]) }
pub open spec fn a1_shape(s: Seq<u8>, nl: int) -> bool {
    0 <= nl <= s.len() && all_letters(s.subrange(0, nl)) && all_digits(s.subrange(nl, s.len() as int))
}
pub open spec fn a1_small(s: Seq<u8>, nl: int) -> bool { a1_shape(s, nl) && s.len() - nl <= 9 && nl <= 6 }
pub open spec fn a1_value(s: Seq<u8>, nl: int) -> (u32, Option<u32>) {
    ((dec10(s.subrange(nl, s.len() as int)) - 1) as u32,
     if nl > 0 { Some((b26(s.subrange(0, nl)) - 1) as u32) } else { None })
}
/// `s` is THE A1 name of the 0-based cell (row, col): nl upper-case letters spelling col+1 in bijective base 26, then the decimal digits of row+1 (no leading zero)
pub open spec fn name_of(s: Seq<u8>, nl: int, row: int, col: int) -> bool {
    1 <= nl <= 3 && nl < s.len()
    && all_upper(s.subrange(0, nl)) && b26(s.subrange(0, nl)) == col + 1
    && all_digits(s.subrange(nl, s.len() as int)) && dec10(s.subrange(nl, s.len() as int)) == row + 1
    && s[nl] != 0x30
}
pub open spec fn is_name_of(s: Seq<u8>, row: int, col: int) -> bool { exists|nl: int| name_of(s, nl, row, col) }


pub open spec fn pow10(k: nat) -> nat decreases k { if k == 0 { 1 } else { 10 * pow10((k - 1) as nat) } }
pub open spec fn pow26(k: nat) -> nat decreases k { if k == 0 { 1 } else { 26 * pow26((k - 1) as nat) } }
proof fn lemma_dec10_bound(t: Seq<u8>)
    requires all_digits(t),
    ensures dec10(t) < pow10(t.len()),
    decreases t.len(),
{
    if t.len() > 0 {
        assert forall|i: int| 0 <= i < t.drop_last().len() implies is_digit(#[trigger] t.drop_last()[i]) by { assert(t.drop_last()[i] == t[i]); }
        lemma_dec10_bound(t.drop_last());
        assert(is_digit(t[t.len() - 1]));
    }
}
proof fn lemma_b26_bound(t: Seq<u8>)
    requires all_letters(t),
    ensures b26(t) * 25 <= 26 * (pow26(t.len()) - 1), t.len() > 0 ==> b26(t) >= 1,
    decreases t.len(),
{
    if t.len() > 0 {
        assert forall|i: int| 0 <= i < t.drop_last().len() implies is_letter(#[trigger] t.drop_last()[i]) by { assert(t.drop_last()[i] == t[i]); }
        lemma_b26_bound(t.drop_last());
        assert(is_letter(t[t.len() - 1]));
        assert(1 <= letter_val(t.last()) <= 26);
        assert(pow26(t.len()) == 26 * pow26(t.drop_last().len()));
    }
}
proof fn lemma_pow_vals()
    ensures pow10(9) == 1000000000, pow26(6) == 308915776,
{
    reveal_with_fuel(pow10, 11);
    reveal_with_fuel(pow26, 8);
}
proof fn lemma_pow_mono(a: nat, b: nat)
    requires a <= b,
    ensures pow10(a) <= pow10(b), pow26(a) <= pow26(b), pow10(a) >= 1, pow26(a) >= 1,
    decreases b,
{
    if a < b { lemma_pow_mono(a, (b - 1) as nat); }
    else if a > 0 { lemma_pow_mono((a - 1) as nat, (b - 1) as nat); }
}
/// a small A1 name denotes coordinates far below 2^32
proof fn lemma_a1_small_range(s: Seq<u8>, nl: int)
    requires a1_small(s, nl),
    ensures dec10(s.subrange(nl, s.len() as int)) < 1000000000, b26(s.subrange(0, nl)) <= 321272406,
{
    lemma_dec10_bound(s.subrange(nl, s.len() as int));
    lemma_b26_bound(s.subrange(0, nl));
    lemma_pow_vals();
    lemma_pow_mono((s.len() - nl) as nat, 9);
    lemma_pow_mono(nl as nat, 6);
}

// ---------------------------------------------------------------- callees whose contracts are PROVED in unit a1 (identical contract text)
//@@ fn src/xlsx/mod.rs get_row_and_optional_column ret=r external_body
//@@ sig
    // TRUSTED: the three clauses below are proved on the real text in unit a1 (a1/get_row_and_optional_column); unit a1 also registers the
    // C06 finding that the function panics (debug) on > 9 digits / > 6 letters -- that panic is reachable from replace_cell_names too.
    ensures
        forall|nl: int| #[trigger] a1_small(range@, nl) && dec10(range@.subrange(nl, range@.len() as int)) >= 1 ==>
            r == Ok::<(u32, Option<u32>), XlsxError>(a1_value(range@, nl)),
        forall|nl: int| #[trigger] a1_small(range@, nl) && dec10(range@.subrange(nl, range@.len() as int)) == 0 ==> r is Err,
        (forall|nl: int| !#[trigger] a1_shape(range@, nl)) ==> r is Err,
//@@ end

// (3 lines; re-verified here because the proof below needs the zero-row clause that unit a1 does not state for this wrapper)
//@@ fn src/xlsx/mod.rs get_row_column props=C15 ret=r
//@@ sig
    ensures
        //# C15.a1_cell_decode
        forall|nl: int| #[trigger] a1_small(range@, nl) && nl >= 1 && dec10(range@.subrange(nl, range@.len() as int)) >= 1 ==>
            r == Ok::<(u32, u32), XlsxError>((a1_value(range@, nl).0, (b26(range@.subrange(0, nl)) - 1) as u32)),
        //# C15.a1_cell_needs_column
        forall|nl: int| #[trigger] a1_small(range@, nl) && nl == 0 ==> r is Err,
        //# C15.a1_cell_needs_row
        forall|nl: int| #[trigger] a1_small(range@, nl) && dec10(range@.subrange(nl, range@.len() as int)) == 0 ==> r is Err,
        //# C15.a1_cell_malformed_rejected
        (forall|nl: int| !#[trigger] a1_shape(range@, nl)) ==> r is Err,
//@@ end

//@@ fn src/xlsx/mod.rs column_number_to_name ret=r external_body
//@@ sig
    // TRUSTED: proved on the real text in unit a1 (a1/column_number_to_name)
    ensures
        num >= 16384 ==> r is Err,
        num < 16384 ==> r is Ok && all_upper(r->Ok_0@) && b26(r->Ok_0@) == num + 1 && 1 <= r->Ok_0@.len() <= 3,
//@@ end

// ---------------------------------------------------------------- coordinate_to_name: to_string/into_bytes/concat are outside vstd
//@@ fn src/xlsx/mod.rs coordinate_to_name props=C15 ret=r external_body by=coordinate_to_name_rows,coordinate_to_name_cols
//@@ sig
    // TRUSTED: discharged only up to the bounds of the Kani harnesses kani/xlsxf (row < 100 x col = 27; every col < 16384 x row = 7).
    // The precondition is the no-overflow condition of `cell.0 + 1`; kani/xlsxf/coordinate_to_name_total exhibits the panic without it.
    requires
        //# C06.row_plus_one_fits
        cell.0 < u32::MAX,
    ensures
        //# C15.name_err_iff_col_out_of_range
        cell.1 >= 16384 <==> r is Err,
        //# C15.name_is_letters_then_decimal
        cell.1 < 16384 ==> r is Ok && is_name_of(r->Ok_0@, cell.0 as int, cell.1 as int),
//@@ end
proof fn witness_coordinate_to_name() { let c: (u32, u32) = (0u32, 0u32); assert(c.0 < u32::MAX); }

// ---------------------------------------------------------------- std behaviour outside vstd
pub open spec fn is_ascii_c(c: char) -> bool { (c as u32) < 0x80 }
pub open spec fn all_ascii(s: Seq<char>) -> bool { forall|i: int| 0 <= i < s.len() ==> is_ascii_c(#[trigger] s[i]) }
/// what `c as u8` makes of every char (exact for ASCII; Rust truncates the others to their low byte)
pub open spec fn lowb(s: Seq<char>) -> Seq<u8> { Seq::new(s.len(), |i: int| s[i] as u8) }

// TRUSTED: documented behaviour of char::is_ascii_alphabetic ("U+0041 'A' ..= U+005A 'Z', or U+0061 'a' ..= U+007A 'z'")
pub assume_specification[ char::is_ascii_alphabetic ](c: &char) -> (r: bool)
    ensures r == (('A' <= *c && *c <= 'Z') || ('a' <= *c && *c <= 'z'));
// TRUSTED: documented behaviour of char::is_ascii_digit ("U+0030 '0' ..= U+0039 '9'")
pub assume_specification[ char::is_ascii_digit ](c: &char) -> (r: bool)
    ensures r == ('0' <= *c && *c <= '9');
// TRUSTED: <Vec<T> as AsRef<[T]>>::as_ref is the slice of the same elements
pub assume_specification<T, A: std::alloc::Allocator>[ <Vec<T, A> as AsRef<[T]>>::as_ref ](v: &Vec<T, A>) -> (r: &[T])
    ensures r@ == v@;
/// the items an IntoIterator value yields, in order
pub uninterp spec fn iter_items<T, I>(it: I) -> Seq<T>;
// TRUSTED: documented behaviour of Vec::extend (appends every item of the iterator, in order)
pub assume_specification<T, A: std::alloc::Allocator, I: IntoIterator<Item = T>>[ <Vec<T, A> as Extend<T>>::extend ](v: &mut Vec<T, A>, it: I)
    ensures final(v)@ == old(v)@ + iter_items::<T, I>(it);
// TRUSTED: a Vec<u8> iterated by value yields its elements in order
#[verifier::external_body]
pub broadcast proof fn axiom_iter_items_vec_u8(v: Vec<u8>)
    ensures #[trigger] iter_items::<u8, Vec<u8>>(v) == v@,
{}
// TRUSTED: stands for the expression `xs.iter().map(|c| *c as u8)` collected (see the `replace` directives below): vstd's spec of
// Map gives no relation to the closure at construction time, so the four occurrences are rewritten into a call of this function.
#[verifier::external_body]
fn verif_low_bytes(xs: &[char]) -> (r: Vec<u8>)
    ensures r@ == lowb(xs@),
{
    xs.iter().map(|c| *c as u8).collect()
}
/// UTF-8 encoding
pub uninterp spec fn utf8(s: Seq<char>) -> Seq<u8>;
// TRUSTED: UTF-8 encodes every ASCII char as the byte of the same value
#[verifier::external_body]
pub proof fn axiom_utf8_ascii(s: Seq<char>)
    requires all_ascii(s),
    ensures utf8(s) == lowb(s),
{}
// TRUSTED: UTF-8 is injective
#[verifier::external_body]
pub proof fn axiom_utf8_injective(s: Seq<char>, t: Seq<char>)
    requires utf8(s) == utf8(t),
    ensures s == t,
{}
// TRUSTED: documented behaviour of String::from_utf8: Ok(the string whose UTF-8 encoding is the vector) iff the vector is valid UTF-8
pub assume_specification[ String::from_utf8 ](v: Vec<u8>) -> (r: Result<String, std::string::FromUtf8Error>)
    ensures
        r is Ok ==> utf8(r->Ok_0@) == v@,
        r is Err ==> forall|s: Seq<char>| utf8(s) != v@;

pub open spec fn bytes_ascii(v: Seq<u8>) -> bool { forall|i: int| 0 <= i < v.len() ==> #[trigger] v[i] < 0x80 }
pub open spec fn as_chars(v: Seq<u8>) -> Seq<char> { Seq::new(v.len(), |i: int| v[i] as char) }

proof fn lemma_ascii_roundtrip(v: Seq<u8>)
    requires bytes_ascii(v),
    ensures all_ascii(as_chars(v)), lowb(as_chars(v)) == v, utf8(as_chars(v)) == v,
{
    let s = as_chars(v);
    assert forall|i: int| 0 <= i < s.len() implies is_ascii_c(#[trigger] s[i]) by { assert(v[i] < 0x80); }
    assert(lowb(s) =~= v) by {
        assert forall|i: int| 0 <= i < v.len() implies lowb(s)[i] == v[i] by { assert(v[i] < 0x80); assert(s[i] == v[i] as char); }
    }
    axiom_utf8_ascii(s);
}

pub broadcast proof fn lemma_bytes_ascii_add(a: Seq<u8>, b: Seq<u8>)
    requires bytes_ascii(a), bytes_ascii(b),
    ensures #[trigger] bytes_ascii(a + b),
{}
pub broadcast proof fn lemma_bytes_ascii_push(a: Seq<u8>, x: u8)
    requires bytes_ascii(a), x < 0x80,
    ensures #[trigger] bytes_ascii(a.push(x)),
{}
pub broadcast proof fn lemma_lowb_ascii(cs: Seq<char>)
    requires all_ascii(cs),
    ensures #[trigger] bytes_ascii(lowb(cs)),
{
    assert forall|i: int| 0 <= i < lowb(cs).len() implies #[trigger] lowb(cs)[i] < 0x80 by { assert(is_ascii_c(cs[i])); }
}
pub broadcast proof fn lemma_all_ascii_push(cs: Seq<char>, c: char)
    requires all_ascii(cs), is_ascii_c(c),
    ensures #[trigger] all_ascii(cs.push(c)),
{}
// ---------------------------------------------------------------- offset_cell_name
proof fn lemma_name_ascii(v: Seq<u8>, row: int, col: int)
    requires is_name_of(v, row, col),
    ensures bytes_ascii(v),
{
    let nl = choose|nl: int| name_of(v, nl, row, col);
    assert forall|i: int| 0 <= i < v.len() implies #[trigger] v[i] < 0x80 by {
        if i < nl { assert(is_upper(v.subrange(0, nl)[i])); } else { assert(is_digit(v.subrange(nl, v.len() as int)[i - nl])); }
    }
}
/// `name` (chars) is a plain A1 reference: ASCII, nl letters then digits, row >= 1
pub open spec fn plain_ref(name: Seq<char>, nl: int) -> bool {
    all_ascii(name) && a1_small(lowb(name), nl) && nl >= 1 && dec10(lowb(name).subrange(nl, name.len() as int)) >= 1
}
pub open spec fn ref_row(name: Seq<char>, nl: int) -> int { dec10(lowb(name).subrange(nl, name.len() as int)) - 1 }
pub open spec fn ref_col(name: Seq<char>, nl: int) -> int { b26(lowb(name).subrange(0, nl)) - 1 }
/// offsets that next_formula can produce: differences of u32 coordinates computed in i64
pub open spec fn offset_small(offset: (i64, i64)) -> bool {
    -0x1_0000_0000 < offset.0 < 0x2_0000_0000 && -0x1_0000_0000 < offset.1 < 0x2_0000_0000
}

//@@ fn src/xlsx/mod.rs offset_cell_name props=C15,C06 ret=r
//@@ sig
    requires
        offset_small(offset),
    ensures
        //# C15.relative_shift
        forall|nl: int| #[trigger] plain_ref(name@, nl)
            && 0 <= ref_row(name@, nl) + offset.0 < 0xFFFF_FFFF && 0 <= ref_col(name@, nl) + offset.1 < 16384 ==>
            r is Ok && is_name_of(r->Ok_0@, ref_row(name@, nl) + offset.0, ref_col(name@, nl) + offset.1),
        //# C15.shift_out_of_columns_rejected
        // (a negative column sum is not stated: Verus leaves the out-of-range `as u32` cast unspecified)
        forall|nl: int| #[trigger] plain_ref(name@, nl)
            && 0 <= ref_row(name@, nl) + offset.0 < 0xFFFF_FFFF && 16384 <= ref_col(name@, nl) + offset.1 < 0x1_0000_0000 ==> r is Err,
        //# C15.non_reference_rejected
        forall|nl: int| all_ascii(name@) && #[trigger] a1_small(lowb(name@), nl)
            && (nl == 0 || dec10(lowb(name@).subrange(nl, name@.len() as int)) == 0) ==> r is Err,
        //# C15.malformed_rejected
        (forall|nl: int| !#[trigger] a1_shape(lowb(name@), nl)) ==> r is Err,
        //# C15.name_is_ascii
        r is Ok ==> bytes_ascii(r->Ok_0@),
//@@ replace /name\.iter\(\)\.map\(\|c\| \*c as u8\)\.collect::<Vec<_>>\(\)/ vstd's Map gives no relation to the closure; the expression is replaced by a call of verif_low_bytes, whose TRUSTED contract states what `.iter().map(|c| *c as u8).collect()` yields
verif_low_bytes(name)
//@@ before /coordinate_to_name\(/
    proof {
        assert forall|nl: int| #[trigger] plain_ref(name@, nl) implies cell.0 == ref_row(name@, nl) && cell.1 == ref_col(name@, nl) by {
            lemma_a1_small_range(lowb(name@), nl);
        }
        assert forall|v: Seq<u8>, row: int, col: int| #[trigger] is_name_of(v, row, col) implies bytes_ascii(v) by { lemma_name_ascii(v, row, col); }
    }
//@@ end
proof fn witness_offset_cell_name() { assert(offset_small((1i64, -1i64))); }

// ---------------------------------------------------------------- replace_cell_names
// Oracle for formulas that consist of ONE cell reference, written from the property: the formula is
//   ['$'] LETTERS ['$'] DIGITS        (p = 1 iff the column is absolute, m = 1 iff the row is absolute)
// and its translation by (dr, dc) is the same shape where an absolute component keeps its characters and a relative component is
// re-spelled for the moved coordinate (column letters = bijective base-26 of col+1, row = decimal of row+1 without leading zero).
pub open spec fn single_ref(sb: Seq<u8>, p: int, nl: int, m: int, nd: int) -> bool {
    0 <= p <= 1 && 1 <= nl <= 3 && 0 <= m <= 1 && 1 <= nd <= 7 && sb.len() == p + nl + m + nd
    && (p == 1 ==> sb[0] == 0x24)
    && all_upper(sb.subrange(p, p + nl))
    && (m == 1 ==> sb[p + nl] == 0x24)
    && all_digits(sb.subrange(p + nl + m, sb.len() as int))
    && dec10(sb.subrange(p + nl + m, sb.len() as int)) >= 1
}
pub open spec fn single_row(sb: Seq<u8>, p: int, nl: int, m: int) -> int { dec10(sb.subrange(p + nl + m, sb.len() as int)) - 1 }
pub open spec fn single_col(sb: Seq<u8>, p: int, nl: int) -> int { b26(sb.subrange(p, p + nl)) - 1 }
/// `ob` is the translation of the single-reference formula `sb` by (dr, dc); nlo = number of letters of the translated name
pub open spec fn single_translated(ob: Seq<u8>, nlo: int, sb: Seq<u8>, p: int, nl: int, m: int, dr: int, dc: int) -> bool {
    let lo = ob.subrange(p, p + nlo);
    let dg = ob.subrange(p + nlo + m, ob.len() as int);
    1 <= nlo <= 3 && p + nlo + m < ob.len()
    && (p == 1 ==> ob[0] == 0x24)
    && (m == 1 ==> ob[p + nlo] == 0x24)
    && (if p == 1 { lo == sb.subrange(p, p + nl) } else { all_upper(lo) && b26(lo) == single_col(sb, p, nl) + dc + 1 })
    && (if m == 1 { dg == sb.subrange(p + nl + m, sb.len() as int) }
        else { all_digits(dg) && dg[0] != 0x30 && dec10(dg) == single_row(sb, p, nl, m) + dr + 1 })
}
/// the moved components stay inside the sheet
pub open spec fn single_in_sheet(sb: Seq<u8>, p: int, nl: int, m: int, dr: int, dc: int) -> bool {
    (m == 1 || 0 <= single_row(sb, p, nl, m) + dr < 1048576) && (p == 1 || 0 <= single_col(sb, p, nl) + dc < 16384)
}

/// state of the scanner after k chars of a single-reference formula (see the loop invariant)
pub open spec fn single_state(sb: Seq<u8>, p: int, nl: int, m: int, k: int, res: Seq<u8>, cell: Seq<u8>, is_cell_row: bool) -> bool {
    if k <= p { res == sb.subrange(0, k) && cell.len() == 0 && !is_cell_row }
    else if k <= p + nl { res == sb.subrange(0, p) && cell == sb.subrange(p, k) && !is_cell_row }
    else if m == 1 { res == sb.subrange(0, p + nl + 1) && cell == sb.subrange(p + nl + 1, k) && is_cell_row == (k > p + nl + 1) }
    else { res == sb.subrange(0, p) && cell == sb.subrange(p, k) && is_cell_row }
}


// ---- facts about the scanner on a single-reference formula (pure sequence reasoning; the code is not mentioned)
proof fn lemma_single_char_class(sb: Seq<u8>, p: int, nl: int, m: int, nd: int, j: int)
    requires single_ref(sb, p, nl, m, nd), 0 <= j < sb.len(),
    ensures
        j < p ==> sb[j] == 0x24,
        p <= j < p + nl ==> is_upper(sb[j]),
        j == p + nl && m == 1 ==> sb[j] == 0x24,
        j >= p + nl + m ==> is_digit(sb[j]),
{
    if p <= j < p + nl { assert(is_upper(sb.subrange(p, p + nl)[j - p])); }
    if j >= p + nl + m { assert(is_digit(sb.subrange(p + nl + m, sb.len() as int)[j - (p + nl + m)])); }
}
proof fn lemma_step_letter(sb: Seq<u8>, p: int, nl: int, m: int, nd: int, j: int, res0: Seq<u8>, cell0: Seq<u8>, icr0: bool)
    requires single_ref(sb, p, nl, m, nd), 0 <= j < sb.len(), single_state(sb, p, nl, m, j, res0, cell0, icr0), is_letter(sb[j]),
    ensures !icr0, single_state(sb, p, nl, m, j + 1, res0, cell0.push(sb[j]), false),
{
    lemma_single_char_class(sb, p, nl, m, nd, j);
    assert(p <= j < p + nl);
    if j == p { assert(cell0 =~= sb.subrange(p, j)); }
    assert(sb.subrange(p, j + 1) =~= sb.subrange(p, j).push(sb[j]));
}
proof fn lemma_step_digit(sb: Seq<u8>, p: int, nl: int, m: int, nd: int, j: int, res0: Seq<u8>, cell0: Seq<u8>, icr0: bool)
    requires single_ref(sb, p, nl, m, nd), 0 <= j < sb.len(), single_state(sb, p, nl, m, j, res0, cell0, icr0), is_digit(sb[j]),
    ensures single_state(sb, p, nl, m, j + 1, res0, cell0.push(sb[j]), true),
{
    lemma_single_char_class(sb, p, nl, m, nd, j);
    assert(j >= p + nl + m);
    if m == 1 {
        assert(sb.subrange(p + nl + 1, j + 1) =~= sb.subrange(p + nl + 1, j).push(sb[j]));
    } else {
        assert(sb.subrange(p, j + 1) =~= sb.subrange(p, j).push(sb[j]));
    }
}
/// a `$` (the only other char of a single reference) meets a pending cell that is either empty or letters only: neither is a cell name
proof fn lemma_step_dollar(sb: Seq<u8>, p: int, nl: int, m: int, nd: int, j: int, res0: Seq<u8>, cell0: Seq<u8>, icr0: bool)
    requires single_ref(sb, p, nl, m, nd), 0 <= j < sb.len(), single_state(sb, p, nl, m, j, res0, cell0, icr0), !is_letter(sb[j]), !is_digit(sb[j]),
    ensures
        sb[j] == 0x24,
        a1_small(cell0, cell0.len() as int), dec10(cell0.subrange(cell0.len() as int, cell0.len() as int)) == 0,
        single_state(sb, p, nl, m, j + 1, (res0 + cell0).push(0x24), Seq::<u8>::empty(), false),
{
    lemma_single_char_class(sb, p, nl, m, nd, j);
    assert(cell0.subrange(cell0.len() as int, cell0.len() as int) =~= Seq::<u8>::empty());
    if j < p {
        assert(cell0 =~= Seq::<u8>::empty());
        assert((res0 + cell0).push(0x24) =~= sb.subrange(0, 1));
    } else {
        assert(j == p + nl && m == 1);
        assert(cell0 == sb.subrange(p, p + nl));
        assert(cell0.subrange(0, cell0.len() as int) =~= cell0);
        assert forall|i: int| 0 <= i < cell0.len() implies is_letter(#[trigger] cell0[i]) by { assert(is_upper(cell0[i])); }
        assert((res0 + cell0).push(0x24) =~= sb.subrange(0, p + nl + 1));
        assert(sb.subrange(p + nl + 1, p + nl + 1) =~= Seq::<u8>::empty());
    }
}
/// end of a single-reference formula: what is pending
proof fn lemma_single_final(sb: Seq<u8>, p: int, nl: int, m: int, nd: int, res: Seq<u8>, cell: Seq<u8>, icr: bool)
    requires single_ref(sb, p, nl, m, nd), single_state(sb, p, nl, m, sb.len() as int, res, cell, icr),
    ensures
        cell.len() > 0,
        m == 1 ==> a1_small(cell, 0) && res + cell == sb,
        m == 0 ==> a1_small(cell, nl) && res == sb.subrange(0, p)
            && cell.subrange(0, nl) == sb.subrange(p, p + nl) && cell.subrange(nl, cell.len() as int) == sb.subrange(p + nl, sb.len() as int),
{
    let n = sb.len() as int;
    if m == 1 {
        assert(cell == sb.subrange(p + nl + 1, n));
        assert(cell.subrange(0, 0) =~= Seq::<u8>::empty());
        assert(cell.subrange(0, cell.len() as int) =~= cell);
        assert(res + cell =~= sb);
    } else {
        assert(cell == sb.subrange(p, n));
        assert(cell.subrange(0, nl) =~= sb.subrange(p, p + nl));
        assert(cell.subrange(nl, cell.len() as int) =~= sb.subrange(p + nl, n));
        assert forall|i: int| 0 <= i < nl implies is_letter(#[trigger] cell.subrange(0, nl)[i]) by { assert(is_upper(sb.subrange(p, p + nl)[i])); }
    }
}
/// the A1 name of the moved cell IS the translation of a fully relative single reference
proof fn lemma_relative_translated(v: Seq<u8>, sb: Seq<u8>, nl: int, nd: int, dr: int, dc: int)
    requires single_ref(sb, 0, nl, 0, nd), is_name_of(v, single_row(sb, 0, nl, 0) + dr, single_col(sb, 0, nl) + dc),
    ensures exists|nlo: int| #[trigger] single_translated(v, nlo, sb, 0, nl, 0, dr, dc),
{
    let row = single_row(sb, 0, nl, 0) + dr;
    let col = single_col(sb, 0, nl) + dc;
    let nlo = choose|nlo: int| name_of(v, nlo, row, col);
    assert(v.subrange(nlo, v.len() as int)[0] == v[nlo]);
    assert(single_translated(v, nlo, sb, 0, nl, 0, dr, dc));
}
/// a fully absolute single reference is its own translation
proof fn lemma_absolute_translated(sb: Seq<u8>, nl: int, nd: int, dr: int, dc: int)
    requires single_ref(sb, 1, nl, 1, nd),
    ensures single_translated(sb, nl, sb, 1, nl, 1, dr, dc),
{
    assert(sb.len() == 1 + nl + 1 + nd);
    assert(sb[0] == 0x24 && sb[1 + nl] == 0x24);
}


// ---- a call of a function whose name has the shape LETTERS DIGITS LETTERS, e.g. DEC2BIN(): "function names ... are reproduced unchanged"
/// sb = L1 (a upper-case letters) ++ D (b digits) ++ L2 (c upper-case letters) ++ "()"
pub open spec fn call_shape(sb: Seq<u8>, a: int, b: int, c: int) -> bool {
    1 <= a <= 6 && 1 <= b <= 9 && 1 <= c <= 6 && sb.len() == a + b + c + 2
    && all_upper(sb.subrange(0, a)) && all_digits(sb.subrange(a, a + b)) && all_upper(sb.subrange(a + b, a + b + c))
    && sb[a + b + c] == 0x28 && sb[a + b + c + 1] == 0x29
}
/// state of the scanner after k chars of such a formula
pub open spec fn call_state(sb: Seq<u8>, a: int, b: int, c: int, k: int, res: Seq<u8>, cell: Seq<u8>, is_cell_row: bool) -> bool {
    if k <= a { res.len() == 0 && cell == sb.subrange(0, k) && !is_cell_row }
    else if k <= a + b { res.len() == 0 && cell == sb.subrange(0, k) && is_cell_row }
    else if k <= a + b + c { res == sb.subrange(0, a + b) && cell == sb.subrange(a + b, k) && !is_cell_row }
    else { res == sb.subrange(0, k) && cell.len() == 0 && !is_cell_row }
}
proof fn lemma_call_char_class(sb: Seq<u8>, a: int, b: int, c: int, j: int)
    requires call_shape(sb, a, b, c), 0 <= j < sb.len(),
    ensures
        j < a ==> is_upper(sb[j]),
        a <= j < a + b ==> is_digit(sb[j]),
        a + b <= j < a + b + c ==> is_upper(sb[j]),
        j == a + b + c ==> sb[j] == 0x28,
        j == a + b + c + 1 ==> sb[j] == 0x29,
{
    if j < a { assert(is_upper(sb.subrange(0, a)[j])); }
    if a <= j < a + b { assert(is_digit(sb.subrange(a, a + b)[j - a])); }
    if a + b <= j < a + b + c { assert(is_upper(sb.subrange(a + b, a + b + c)[j - (a + b)])); }
}
proof fn lemma_call_letter(sb: Seq<u8>, a: int, b: int, c: int, j: int, res0: Seq<u8>, cell0: Seq<u8>, icr0: bool)
    requires call_shape(sb, a, b, c), 0 <= j < sb.len(), call_state(sb, a, b, c, j, res0, cell0, icr0), is_letter(sb[j]),
    ensures call_state(sb, a, b, c, j + 1, if icr0 { res0 + cell0 } else { res0 }, if icr0 { seq![sb[j]] } else { cell0.push(sb[j]) }, false),
{
    lemma_call_char_class(sb, a, b, c, j);
    assert(j < a || a + b <= j < a + b + c);
    if j < a {
        assert(sb.subrange(0, j + 1) =~= sb.subrange(0, j).push(sb[j]));
    } else if j == a + b {
        assert(icr0);
        assert(res0 + cell0 =~= sb.subrange(0, a + b));
        assert(seq![sb[j]] =~= sb.subrange(a + b, j + 1));
    } else {
        assert(sb.subrange(a + b, j + 1) =~= sb.subrange(a + b, j).push(sb[j]));
    }
}
proof fn lemma_call_digit(sb: Seq<u8>, a: int, b: int, c: int, j: int, res0: Seq<u8>, cell0: Seq<u8>, icr0: bool)
    requires call_shape(sb, a, b, c), 0 <= j < sb.len(), call_state(sb, a, b, c, j, res0, cell0, icr0), is_digit(sb[j]),
    ensures call_state(sb, a, b, c, j + 1, res0, cell0.push(sb[j]), true),
{
    lemma_call_char_class(sb, a, b, c, j);
    assert(a <= j < a + b);
    assert(sb.subrange(0, j + 1) =~= sb.subrange(0, j).push(sb[j]));
}
/// `(` meets the pending letters-only cell L2, `)` an empty one: neither is a cell name, both are copied
proof fn lemma_call_other(sb: Seq<u8>, a: int, b: int, c: int, j: int, res0: Seq<u8>, cell0: Seq<u8>, icr0: bool)
    requires call_shape(sb, a, b, c), 0 <= j < sb.len(), call_state(sb, a, b, c, j, res0, cell0, icr0), !is_letter(sb[j]), !is_digit(sb[j]),
    ensures
        a1_small(cell0, cell0.len() as int), dec10(cell0.subrange(cell0.len() as int, cell0.len() as int)) == 0,
        call_state(sb, a, b, c, j + 1, (res0 + cell0).push(sb[j]), Seq::<u8>::empty(), false),
{
    lemma_call_char_class(sb, a, b, c, j);
    assert(j == a + b + c || j == a + b + c + 1) by {
        if j < a { assert(is_upper(sb[j])); } else if j < a + b { assert(is_digit(sb[j])); } else if j < a + b + c { assert(is_upper(sb[j])); }
    }
    let n0 = cell0.len() as int;
    assert(cell0.subrange(n0, n0) =~= Seq::<u8>::empty());
    assert(cell0.subrange(0, n0) =~= cell0);
    if j == a + b + c {
        assert(res0 == sb.subrange(0, a + b) && cell0 == sb.subrange(a + b, j) && !icr0);
        assert(n0 == c);
        assert forall|i: int| 0 <= i < n0 implies is_letter(#[trigger] cell0[i]) by { assert(is_upper(sb.subrange(a + b, a + b + c)[i])); }
        assert(all_letters(cell0.subrange(0, n0)));
        assert(all_digits(cell0.subrange(n0, n0)));
        assert(a1_shape(cell0, n0));
        assert((res0 + cell0).push(sb[j]) =~= sb.subrange(0, j + 1));
    } else {
        assert(res0 == sb.subrange(0, j) && n0 == 0);
        assert(cell0 =~= Seq::<u8>::empty());
        assert(a1_shape(cell0, 0));
        assert((res0 + cell0).push(sb[j]) =~= sb.subrange(0, j + 1));
    }
}

//@@ fn src/xlsx/mod.rs replace_cell_names props=C15,C06 ret=r
//@@ sig
    requires
        offset_small(offset),
    ensures
        //# C15.non_reference_text_never_fails
        r is Ok,
        //# C15.ascii_formula_never_fails
        all_ascii(s@) ==> r is Ok && all_ascii(r->Ok_0@),
        //# C15.single_reference_translated
        forall|p: int, nl: int, m: int, nd: int| all_ascii(s@) && #[trigger] single_ref(lowb(s@), p, nl, m, nd)
            && single_in_sheet(lowb(s@), p, nl, m, offset.0 as int, offset.1 as int) ==>
            r is Ok && all_ascii(r->Ok_0@)
            && exists|nlo: int| #[trigger] single_translated(lowb(r->Ok_0@), nlo, lowb(s@), p, nl, m, offset.0 as int, offset.1 as int),
        //# C15.single_reference_translated_uniform
        forall|p: int, nl: int, m: int, nd: int| all_ascii(s@) && #[trigger] single_ref(lowb(s@), p, nl, m, nd) && p == m
            && single_in_sheet(lowb(s@), p, nl, m, offset.0 as int, offset.1 as int) ==>
            r is Ok && all_ascii(r->Ok_0@)
            && exists|nlo: int| #[trigger] single_translated(lowb(r->Ok_0@), nlo, lowb(s@), p, nl, m, offset.0 as int, offset.1 as int),
        //# C15.function_name_digit_letter_kept
        forall|a: int, b: int, c: int| all_ascii(s@) && #[trigger] call_shape(lowb(s@), a, b, c) ==>
            r is Ok && all_ascii(r->Ok_0@) && lowb(r->Ok_0@) == lowb(s@),
//@@ body
    broadcast use {axiom_iter_items_vec_u8, lemma_bytes_ascii_add, lemma_bytes_ascii_push, lemma_lowb_ascii, lemma_all_ascii_push};
    let ghost sb = lowb(s@);
    let ghost mut k: int = 0;
//@@ before /for c in s\.chars\(\)/
    proof {
        assert(lowb(cell@) =~= Seq::<u8>::empty());
        assert forall|p: int, nl: int, m: int, nd: int| #[trigger] single_ref(sb, p, nl, m, nd) implies
            single_state(sb, p, nl, m, 0, res@, lowb(cell@), is_cell_row) by { assert(sb.subrange(0, 0) =~= Seq::<u8>::empty()); }
        assert forall|a: int, b: int, c: int| #[trigger] call_shape(sb, a, b, c) implies
            call_state(sb, a, b, c, 0, res@, lowb(cell@), is_cell_row) by { assert(sb.subrange(0, 0) =~= Seq::<u8>::empty()); }
    }
//@@ r6 0
//@@ loop 0
        invariant
            0 <= k <= s@.len(),
            __it0.obeys_prophetic_iter_laws(),
            __it0.remaining() == s@.skip(k),
            offset_small(offset),
            all_ascii(s@) ==> bytes_ascii(res@) && all_ascii(cell@),
            sb == lowb(s@),
            all_ascii(s@) ==> forall|p: int, nl: int, m: int, nd: int| #[trigger] single_ref(sb, p, nl, m, nd) ==>
                !in_quote && single_state(sb, p, nl, m, k, res@, lowb(cell@), is_cell_row),
            all_ascii(s@) ==> forall|a: int, b: int, c: int| #[trigger] call_shape(sb, a, b, c) ==>
                !in_quote && call_state(sb, a, b, c, k, res@, lowb(cell@), is_cell_row),
        ensures k == s@.len(),
        decreases s@.len() - k,
//@@ before /if c == /
        broadcast use {axiom_iter_items_vec_u8, lemma_bytes_ascii_add, lemma_bytes_ascii_push, lemma_lowb_ascii, lemma_all_ascii_push};
        let ghost res0 = res@;
        let ghost cell0 = cell@;
        let ghost icr0 = is_cell_row;
        let ghost inq0 = in_quote;
        proof { k = k + 1; assert(c == s@.skip(k - 1)[0]); assert(c == s@[k - 1]); if all_ascii(s@) { assert(is_ascii_c(s@[k - 1])); assert(sb[k - 1] == c as u8); }
            // on a single-reference formula the current char is `$`, an upper-case letter or a digit: never a quote
            assert forall|p: int, nl: int, m: int, nd: int| all_ascii(s@) && #[trigger] single_ref(sb, p, nl, m, nd) implies c != '"' by {
                lemma_single_char_class(sb, p, nl, m, nd, k - 1);
            }
            assert forall|a: int, b: int, c2: int| all_ascii(s@) && #[trigger] call_shape(sb, a, b, c2) implies c != '"' by {
                lemma_call_char_class(sb, a, b, c2, k - 1);
            }
        }
//@@ before /continue;/
            proof {
                assert(all_ascii(s@) ==> forall|p: int, nl: int, m: int, nd: int| !#[trigger] single_ref(sb, p, nl, m, nd));
                assert(all_ascii(s@) ==> forall|a: int, b: int, c2: int| !#[trigger] call_shape(sb, a, b, c2));
            }
//@@ after /cell\.push\(c\);/#0of2
            proof {
                if all_ascii(s@) {
                    assert forall|p: int, nl: int, m: int, nd: int| #[trigger] single_ref(sb, p, nl, m, nd) implies
                        !in_quote && single_state(sb, p, nl, m, k, res@, lowb(cell@), is_cell_row) by {
                        lemma_step_letter(sb, p, nl, m, nd, k - 1, res0, lowb(cell0), icr0);
                        assert(!icr0);
                        assert(lowb(cell@) =~= lowb(cell0).push(c as u8));
                    }
                    assert forall|a: int, b: int, c2: int| #[trigger] call_shape(sb, a, b, c2) implies
                        !in_quote && call_state(sb, a, b, c2, k, res@, lowb(cell@), is_cell_row) by {
                        lemma_call_letter(sb, a, b, c2, k - 1, res0, lowb(cell0), icr0);
                        if icr0 { assert(lowb(cell@) =~= seq![c as u8]); } else { assert(lowb(cell@) =~= lowb(cell0).push(c as u8)); }
                    }
                }
            }
//@@ after /cell\.push\(c\);/#1of2
            proof {
                if all_ascii(s@) {
                    assert(lowb(cell@) =~= lowb(cell0).push(c as u8));
                    assert forall|p: int, nl: int, m: int, nd: int| #[trigger] single_ref(sb, p, nl, m, nd) implies
                        !in_quote && single_state(sb, p, nl, m, k, res@, lowb(cell@), is_cell_row) by {
                        lemma_step_digit(sb, p, nl, m, nd, k - 1, res0, lowb(cell0), icr0);
                    }
                    assert forall|a: int, b: int, c2: int| #[trigger] call_shape(sb, a, b, c2) implies
                        !in_quote && call_state(sb, a, b, c2, k, res@, lowb(cell@), is_cell_row) by {
                        lemma_call_digit(sb, a, b, c2, k - 1, res0, lowb(cell0), icr0);
                    }
                }
            }
//@@ before /if let Ok\(cell_name\) = /#0of2
            proof {
                if all_ascii(s@) {
                    assert forall|p: int, nl: int, m: int, nd: int| #[trigger] single_ref(sb, p, nl, m, nd) implies
                        a1_small(lowb(cell0), cell0.len() as int) && dec10(lowb(cell0).subrange(cell0.len() as int, cell0.len() as int)) == 0 by {
                        lemma_step_dollar(sb, p, nl, m, nd, k - 1, res0, lowb(cell0), icr0);
                    }
                    assert forall|a: int, b: int, c2: int| #[trigger] call_shape(sb, a, b, c2) implies
                        a1_small(lowb(cell0), cell0.len() as int) && dec10(lowb(cell0).subrange(cell0.len() as int, cell0.len() as int)) == 0 by {
                        lemma_call_other(sb, a, b, c2, k - 1, res0, lowb(cell0), icr0);
                    }
                }
            }
//@@ after /res\.push\(c as u8\);/#1of2
            proof {
                if all_ascii(s@) {
                    assert(lowb(cell@) =~= Seq::<u8>::empty());
                    assert forall|p: int, nl: int, m: int, nd: int| #[trigger] single_ref(sb, p, nl, m, nd) implies
                        !in_quote && single_state(sb, p, nl, m, k, res@, lowb(cell@), is_cell_row) by {
                        lemma_step_dollar(sb, p, nl, m, nd, k - 1, res0, lowb(cell0), icr0);
                        assert(res@ == (res0 + lowb(cell0)).push(0x24));
                    }
                    assert forall|a: int, b: int, c2: int| #[trigger] call_shape(sb, a, b, c2) implies
                        !in_quote && call_state(sb, a, b, c2, k, res@, lowb(cell@), is_cell_row) by {
                        lemma_call_other(sb, a, b, c2, k - 1, res0, lowb(cell0), icr0);
                        assert(res@ == (res0 + lowb(cell0)).push(sb[k - 1]));
                    }
                }
            }
//@@ before /if !cell\.is_empty\(\)/
    let ghost res1 = res@;
    let ghost cell1 = cell@;
    proof {
        assert(k == s@.len());
        if all_ascii(s@) {
            assert forall|p: int, nl: int, m: int, nd: int| #[trigger] single_ref(sb, p, nl, m, nd) implies
                cell1.len() > 0 && (m == 1 ==> a1_small(lowb(cell1), 0) && res1 + lowb(cell1) == sb)
                && (m == 0 ==> plain_ref(cell1, nl) && res1 == sb.subrange(0, p) && ref_row(cell1, nl) == single_row(sb, p, nl, m) && ref_col(cell1, nl) == single_col(sb, p, nl)) by {
                lemma_single_final(sb, p, nl, m, nd, res1, lowb(cell1), is_cell_row);
            }
            assert forall|a: int, b: int, c2: int| #[trigger] call_shape(sb, a, b, c2) implies cell1.len() == 0 && res1 == sb by {
                assert(sb.subrange(0, sb.len() as int) =~= sb);
            }
        }
    }

//@@ before /match String::from_utf8/
    proof {
        if all_ascii(s@) {
            assert forall|p: int, nl: int, m: int, nd: int| #[trigger] single_ref(sb, p, nl, m, nd) && p == m
                && single_in_sheet(sb, p, nl, m, offset.0 as int, offset.1 as int) implies
                exists|nlo: int| #[trigger] single_translated(res@, nlo, sb, p, nl, m, offset.0 as int, offset.1 as int) by {
                if m == 1 {
                    assert(res@ == sb);
                    lemma_absolute_translated(sb, nl, nd, offset.0 as int, offset.1 as int);
                } else {
                    assert(res1 =~= Seq::<u8>::empty());
                    lemma_relative_translated(res@, sb, nl, nd, offset.0 as int, offset.1 as int);
                }
            }
        }
        if bytes_ascii(res@) {
            lemma_ascii_roundtrip(res@);
            assert forall|t: Seq<char>| utf8(t) == res@ implies t == as_chars(res@) by { axiom_utf8_injective(t, as_chars(res@)); }
        }
    }
//@@ replace /cell\.iter\(\)\.map\(\|c\| \*c as u8\)/#0of3 vstd's Map gives no relation to the closure; replaced by verif_low_bytes (TRUSTED contract: what `.iter().map(|c| *c as u8)` yields)
verif_low_bytes(cell.as_slice())
//@@ replace /cell\.iter\(\)\.map\(\|c\| \*c as u8\)/#1of3 same rewrite
verif_low_bytes(cell.as_slice())
//@@ replace /cell\.iter\(\)\.map\(\|c\| \*c as u8\)/#2of3 same rewrite
verif_low_bytes(cell.as_slice())
//@@ end
proof fn witness_replace_cell_names() { assert(offset_small((0i64, 3i64))); }
/// the function-call shape is inhabited: "DEC2BIN()"
proof fn witness_call_shape()
    ensures call_shape(seq![0x44u8, 0x45, 0x43, 0x32, 0x42, 0x49, 0x4e, 0x28, 0x29], 3, 1, 3),
{
    let v = seq![0x44u8, 0x45, 0x43, 0x32, 0x42, 0x49, 0x4e, 0x28, 0x29];
    assert(v.subrange(0, 3) =~= seq![0x44u8, 0x45, 0x43]);
    assert(v.subrange(3, 4) =~= seq![0x32u8]);
    assert(v.subrange(4, 7) =~= seq![0x42u8, 0x49, 0x4e]);
}
/// the single-reference shapes are inhabited: "$B$7" (absolute), "AB12" (relative)
proof fn witness_single_ref()
    ensures single_ref(seq![0x24u8, 0x42, 0x24, 0x37], 1, 1, 1, 1), single_ref(seq![0x41u8, 0x42, 0x31, 0x32], 0, 2, 0, 2),
        single_row(seq![0x41u8, 0x42, 0x31, 0x32], 0, 2, 0) == 11, single_col(seq![0x41u8, 0x42, 0x31, 0x32], 0, 2) == 27,
{
    let a = seq![0x24u8, 0x42, 0x24, 0x37];
    assert(a.subrange(1, 2) =~= seq![0x42u8]);
    assert(a.subrange(3, 4) =~= seq![0x37u8]);
    assert(seq![0x37u8].drop_last() =~= Seq::<u8>::empty());
    let b = seq![0x41u8, 0x42, 0x31, 0x32];
    assert(b.subrange(0, 2) =~= seq![0x41u8, 0x42]);
    assert(b.subrange(2, 4) =~= seq![0x31u8, 0x32]);
    assert(seq![0x31u8, 0x32].drop_last() =~= seq![0x31u8]);
    assert(seq![0x31u8].drop_last() =~= Seq::<u8>::empty());
    assert(seq![0x41u8, 0x42].drop_last() =~= seq![0x41u8]);
    assert(seq![0x41u8].drop_last() =~= Seq::<u8>::empty());
    reveal_with_fuel(dec10, 4);
    reveal_with_fuel(b26, 4);
}

} // verus!
fn main() {}
