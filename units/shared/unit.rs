//@@ unit props=C15,C06,C14 rlimit=150
// Unit shared: xlsx shared-formula reference rewriting (src/xlsx/mod.rs: offset_cell_name, offset_cell_reference, replace_cell_names, coordinate_to_name), verbatim text.
#![feature(allocator_api)]
#![allow(unused_imports, dead_code, unused_variables, unused_mut, unused_assignments)]
use vstd::prelude::*;
use vstd::std_specs::iter::IteratorSpec;

verus! {

pub mod quick_xml {
    pub struct Error;
    pub mod events { pub mod attributes { pub struct AttrError; } }
    pub mod encoding { pub struct EncodingError; }
}
pub mod zip { pub mod result { pub struct ZipError; } }
pub mod vba { pub struct VbaError; }
#[verifier::external_type_specification] #[verifier::external_body] pub struct ExIoError(std::io::Error);
#[verifier::external_type_specification] #[verifier::external_body] pub struct ExParseFloatError(std::num::ParseFloatError);
#[verifier::external_type_specification] #[verifier::external_body] pub struct ExParseIntError(std::num::ParseIntError);
#[verifier::external_type_specification] #[verifier::external_body] pub struct ExFromUtf8Error(std::string::FromUtf8Error);

//@@ item src/xlsx/mod.rs enum XlsxError
//@@ item src/xlsx/mod.rs const MAX_COLUMNS
//@@ item src/xlsx/mod.rs const MAX_ROWS

// ---------------------------------------------------------------- A1 notation (same definitions as unit a1, written from the A1 grammar)
pub open spec fn is_digit(c: u8) -> bool { 0x30 <= c <= 0x39 }
pub open spec fn is_upper(c: u8) -> bool { 0x41 <= c <= 0x5a }
pub open spec fn is_lower(c: u8) -> bool { 0x61 <= c <= 0x7a }
pub open spec fn is_letter(c: u8) -> bool { is_upper(c) || is_lower(c) }
pub open spec fn letter_val(c: u8) -> nat {
    if is_upper(c) { (c - 0x41 + 1) as nat } else { (c - 0x61 + 1) as nat }
}
pub open spec fn dec10(s: Seq<u8>) -> nat
    decreases s.len()
{
    if s.len() == 0 { 0 } else { dec10(s.drop_last()) * 10 + (s.last() - 0x30) as nat }
}
pub open spec fn b26(s: Seq<u8>) -> nat
    decreases s.len()
{
    if s.len() == 0 { 0 } else { b26(s.drop_last()) * 26 + letter_val(s.last()) }
}
pub open spec fn all_digits(s: Seq<u8>) -> bool { forall|i: int| 0 <= i < s.len() ==> is_digit(#[trigger] s[i]) }
pub open spec fn all_letters(s: Seq<u8>) -> bool { forall|i: int| 0 <= i < s.len() ==> is_letter(#[trigger] s[i]) }
pub open spec fn all_upper(s: Seq<u8>) -> bool { forall|i: int| 0 <= i < s.len() ==> is_upper(#[trigger] s[i]) }
pub open spec fn a1_shape(s: Seq<u8>, nl: int) -> bool {
    0 <= nl <= s.len() && all_letters(s.subrange(0, nl)) && all_digits(s.subrange(nl, s.len() as int))
}
pub open spec fn a1_small(s: Seq<u8>, nl: int) -> bool { a1_shape(s, nl) && s.len() - nl <= 9 && nl <= 6 }
pub open spec fn a1_value(s: Seq<u8>, nl: int) -> (u32, Option<u32>) {
    ((dec10(s.subrange(nl, s.len() as int)) - 1) as u32,
     if nl > 0 { Some((b26(s.subrange(0, nl)) - 1) as u32) } else { None })
}
/// `s` is THE A1 name of the 0-based cell (row, col): nl upper-case letters spelling col+1 in bijective base 26, then the decimal digits of row+1 (no leading zero)
pub open spec fn name_of(s: Seq<u8>, nl: int, row: int, col: int) -> bool {
    1 <= nl <= 3 && nl < s.len()
    && all_upper(s.subrange(0, nl)) && b26(s.subrange(0, nl)) == col + 1
    && all_digits(s.subrange(nl, s.len() as int)) && dec10(s.subrange(nl, s.len() as int)) == row + 1
    && s[nl] != 0x30
}
pub open spec fn is_name_of(s: Seq<u8>, row: int, col: int) -> bool { exists|nl: int| name_of(s, nl, row, col) }


pub open spec fn pow10(k: nat) -> nat decreases k { if k == 0 { 1 } else { 10 * pow10((k - 1) as nat) } }
pub open spec fn pow26(k: nat) -> nat decreases k { if k == 0 { 1 } else { 26 * pow26((k - 1) as nat) } }
proof fn lemma_dec10_bound(t: Seq<u8>)
    requires all_digits(t),
    ensures dec10(t) < pow10(t.len()),
    decreases t.len(),
{
    if t.len() > 0 {
        assert forall|i: int| 0 <= i < t.drop_last().len() implies is_digit(#[trigger] t.drop_last()[i]) by { assert(t.drop_last()[i] == t[i]); }
        lemma_dec10_bound(t.drop_last());
        assert(is_digit(t[t.len() - 1]));
    }
}
proof fn lemma_b26_bound(t: Seq<u8>)
    requires all_letters(t),
    ensures b26(t) * 25 <= 26 * (pow26(t.len()) - 1), t.len() > 0 ==> b26(t) >= 1,
    decreases t.len(),
{
    if t.len() > 0 {
        assert forall|i: int| 0 <= i < t.drop_last().len() implies is_letter(#[trigger] t.drop_last()[i]) by { assert(t.drop_last()[i] == t[i]); }
        lemma_b26_bound(t.drop_last());
        assert(is_letter(t[t.len() - 1]));
        assert(1 <= letter_val(t.last()) <= 26);
        assert(pow26(t.len()) == 26 * pow26(t.drop_last().len()));
    }
}
proof fn lemma_pow_vals()
    ensures pow10(9) == 1000000000, pow26(6) == 308915776,
{
    reveal_with_fuel(pow10, 11);
    reveal_with_fuel(pow26, 8);
}
proof fn lemma_pow_mono(a: nat, b: nat)
    requires a <= b,
    ensures pow10(a) <= pow10(b), pow26(a) <= pow26(b), pow10(a) >= 1, pow26(a) >= 1,
    decreases b,
{
    if a < b { lemma_pow_mono(a, (b - 1) as nat); }
    else if a > 0 { lemma_pow_mono((a - 1) as nat, (b - 1) as nat); }
}
/// a small A1 name denotes coordinates far below 2^32
proof fn lemma_a1_small_range(s: Seq<u8>, nl: int)
    requires a1_small(s, nl),
    ensures dec10(s.subrange(nl, s.len() as int)) < 1000000000, b26(s.subrange(0, nl)) <= 321272406,
{
    lemma_dec10_bound(s.subrange(nl, s.len() as int));
    lemma_b26_bound(s.subrange(0, nl));
    lemma_pow_vals();
    lemma_pow_mono((s.len() - nl) as nat, 9);
    lemma_pow_mono(nl as nat, 6);
}

// ---------------------------------------------------------------- callees whose contracts are PROVED in unit a1 (identical contract text)
// (callee of get_row_and_optional_column's body, which rustc still type-checks; under contract in unit a1)
//@@ fn src/xlsx/mod.rs add_digit external_body
//@@ end
//@@ fn src/xlsx/mod.rs get_row_and_optional_column ret=r external_body
//@@ sig
    // TRUSTED: the three clauses below are proved on the real text in unit a1 (a1/get_row_and_optional_column); unit a1 also registers the
    // C06 finding that the function panics (debug) on > 9 digits / > 6 letters -- that panic is reachable from replace_cell_names too.
    ensures
        forall|nl: int| #[trigger] a1_small(range@, nl) && dec10(range@.subrange(nl, range@.len() as int)) >= 1 ==>
            r == Ok::<(u32, Option<u32>), XlsxError>(a1_value(range@, nl)),
        forall|nl: int| #[trigger] a1_small(range@, nl) && dec10(range@.subrange(nl, range@.len() as int)) == 0 ==> r is Err,
        (forall|nl: int| !#[trigger] a1_shape(range@, nl)) ==> r is Err,
//@@ end

// (3 lines; re-verified here because the proof below needs the zero-row clause that unit a1 does not state for this wrapper)
//@@ fn src/xlsx/mod.rs get_row_column props=C15,C14 ret=r
//@@ sig
    ensures
        //# C15,C14.a1_cell_decode
        forall|nl: int| #[trigger] a1_small(range@, nl) && nl >= 1 && dec10(range@.subrange(nl, range@.len() as int)) >= 1 ==>
            r == Ok::<(u32, u32), XlsxError>((a1_value(range@, nl).0, (b26(range@.subrange(0, nl)) - 1) as u32)),
        //# C15,C14.a1_cell_needs_column
        forall|nl: int| #[trigger] a1_small(range@, nl) && nl == 0 ==> r is Err,
        //# C15,C14.a1_cell_needs_row
        forall|nl: int| #[trigger] a1_small(range@, nl) && dec10(range@.subrange(nl, range@.len() as int)) == 0 ==> r is Err,
        //# C15,C14.a1_cell_malformed_rejected
        (forall|nl: int| !#[trigger] a1_shape(range@, nl)) ==> r is Err,
//@@ end

//@@ fn src/xlsx/mod.rs column_number_to_name ret=r external_body
//@@ sig
    // TRUSTED: proved on the real text in unit a1 (a1/column_number_to_name)
    ensures
        num >= 16384 ==> r is Err,
        num < 16384 ==> r is Ok && all_upper(r->Ok_0@) && b26(r->Ok_0@) == num + 1 && 1 <= r->Ok_0@.len() <= 3,
//@@ end

// ---------------------------------------------------------------- coordinate_to_name: real body under Verus
// Trusted here (std, documented): `u64::to_string` renders decimal digits without leading zeros (`dec_digits`, a constructive spec;
// vstd's own to_string contract exposes `to_string_from_display_ensures`), `String::into_bytes` of an ASCII string is its chars as
// bytes, `[a, b].concat()` is `a ++ b`.  The Kani harnesses kani/xlsxf/coordinate_to_name_* stay as bounded regression checks.
pub open spec fn dec_digits(n: nat) -> Seq<u8>
    decreases n
{
    if n < 10 { seq![(0x30 + n) as u8] } else { dec_digits(n / 10).push((0x30 + n % 10) as u8) }
}
proof fn lemma_dec_digits(n: nat)
    ensures all_digits(dec_digits(n)), dec10(dec_digits(n)) == n, dec_digits(n).len() >= 1, n >= 1 ==> dec_digits(n)[0] != 0x30,
    decreases n,
{
    if n < 10 {
        let s = dec_digits(n);
        assert(s.len() == 1 && s[0] == (0x30 + n) as u8);
        assert(s.drop_last() =~= Seq::<u8>::empty());
        assert(dec10(s.drop_last()) == 0);
    } else {
        lemma_dec_digits(n / 10);
        let t = dec_digits(n / 10);
        let s = dec_digits(n);
        assert(s == t.push((0x30 + n % 10) as u8));
        assert(s.drop_last() =~= t);
        assert(s.last() == (0x30 + n % 10) as u8);
        assert(s[0] == t[0]);
        assert(n == (n / 10) * 10 + n % 10);
    }
}
pub broadcast axiom fn axiom_display_u64(x: &u64, r: String)
    ensures #[trigger] vstd::string::to_string_from_display_ensures::<u64>(x, r) ==>
        (forall|i: int| 0 <= i < r@.len() ==> (r@[i] as u32) < 0x80)
        && Seq::new(r@.len(), |i: int| r@[i] as u8) == dec_digits(*x as nat);
pub assume_specification[ String::into_bytes ](s: String) -> (r: Vec<u8>)
    ensures (forall|i: int| 0 <= i < s@.len() ==> (s@[i] as u32) < 0x80) ==> r@ == Seq::new(s@.len(), |i: int| s@[i] as u8);
#[verifier::external_trait_specification]
pub trait ExConcat<Item: ?Sized> { type ExternalTraitSpecificationFor: std::slice::Concat<Item>; type Output; }
pub uninterp spec fn concat_of<T, Item: ?Sized>(s: &[T]) -> <[T] as std::slice::Concat<Item>>::Output where [T]: std::slice::Concat<Item>;
pub assume_specification<T, Item: ?Sized>[ <[T]>::concat::<Item> ](s: &[T]) -> (r: <[T] as std::slice::Concat<Item>>::Output)
    where [T]: std::slice::Concat<Item>
    ensures r == concat_of::<T, Item>(s);
pub broadcast axiom fn axiom_concat2(s: &[Vec<u8>])
    ensures s@.len() == 2 ==> (#[trigger] concat_of::<Vec<u8>, u8>(s))@ == s@[0]@ + s@[1]@;

//@@ fn src/xlsx/mod.rs coordinate_to_name props=C15,C14 ret=r
//@@ sig
    // No precondition: `cell.0 as u64 + 1` cannot overflow (discharged as an implicit obligation).
    ensures
        //# C15,C14.name_err_iff_col_out_of_range
        cell.1 >= 16384 <==> r is Err,
        //# C15,C14.name_is_letters_then_decimal
        cell.1 < 16384 ==> r is Ok && is_name_of(r->Ok_0@, cell.0 as int, cell.1 as int),
//@@ body
    broadcast use axiom_display_u64, axiom_concat2;
    let ghost rc = cell;
//@@ before /Ok\(cell\.concat/
    proof {
        let a = cell@[0]@; let d = cell@[1]@;
        lemma_dec_digits(rc.0 as nat + 1);
        assert(d == dec_digits(rc.0 as nat + 1));
        assert((a + d).subrange(0, a.len() as int) =~= a);
        assert((a + d).subrange(a.len() as int, (a + d).len() as int) =~= d);
        assert((a + d)[a.len() as int] == d[0]);
        assert(name_of(a + d, a.len() as int, rc.0 as int, rc.1 as int));
    }
//@@ end

// ---------------------------------------------------------------- std behaviour outside vstd
pub open spec fn is_ascii_c(c: char) -> bool { (c as u32) < 0x80 }
pub open spec fn all_ascii(s: Seq<char>) -> bool { forall|i: int| 0 <= i < s.len() ==> is_ascii_c(#[trigger] s[i]) }
/// what `c as u8` makes of every char (exact for ASCII; Rust truncates the others to their low byte)
pub open spec fn lowb(s: Seq<char>) -> Seq<u8> { Seq::new(s.len(), |i: int| s[i] as u8) }

// TRUSTED: documented behaviour of char::is_ascii_alphabetic ("U+0041 'A' ..= U+005A 'Z', or U+0061 'a' ..= U+007A 'z'")
pub assume_specification[ char::is_ascii_alphabetic ](c: &char) -> (r: bool)
    ensures r == (('A' <= *c && *c <= 'Z') || ('a' <= *c && *c <= 'z'));
// TRUSTED: char::is_alphabetic (Unicode `Alphabetic` property): on ASCII it is is_ascii_alphabetic; nothing is said about other chars, so a
// scanner that uses it where the code should use the ASCII test is decided (and fails) instead of being rejected as an unknown method
pub assume_specification[ char::is_alphabetic ](c: char) -> (r: bool)
    ensures is_ascii_c(c) ==> r == (('A' <= c && c <= 'Z') || ('a' <= c && c <= 'z'));
// TRUSTED: documented behaviour of char::is_ascii_digit ("U+0030 '0' ..= U+0039 '9'")
pub assume_specification[ char::is_ascii_digit ](c: &char) -> (r: bool)
    ensures r == ('0' <= *c && *c <= '9');
// TRUSTED: documented behaviour of char::is_ascii_alphanumeric ("U+0041 'A' ..= U+005A 'Z', or U+0061 'a' ..= U+007A 'z', or U+0030 '0' ..= U+0039 '9'")
pub assume_specification[ char::is_ascii_alphanumeric ](c: &char) -> (r: bool)
    ensures r == (('A' <= *c && *c <= 'Z') || ('a' <= *c && *c <= 'z') || ('0' <= *c && *c <= '9'));
// TRUSTED: documented behaviour of char::is_ascii ("checks if the value is within the ASCII range")
pub assume_specification[ char::is_ascii ](c: &char) -> (r: bool)
    ensures r == is_ascii_c(*c);
/// the chars an iterator over `&char` yields, in order
pub uninterp spec fn iter_chars<I>(it: I) -> Seq<char>;
// TRUSTED: documented behaviour of String::extend (appends every char of the iterator, in order)
pub assume_specification<'a, I: IntoIterator<Item = &'a char>>[ <String as Extend<&'a char>>::extend ](s: &mut String, it: I)
    ensures final(s)@ == old(s)@ + iter_chars::<I>(it);
// TRUSTED: a slice iterator yields the elements it has not yielded yet, in order
#[verifier::external_body]
pub broadcast proof fn axiom_iter_chars_slice<'a>(it: std::slice::Iter<'a, char>)
    ensures #[trigger] iter_chars::<std::slice::Iter<'a, char>>(it) == it.remaining().map_values(|c: &char| *c),
{}
// TRUSTED: stands for the expression `xs.iter().map(|c| *c as u8)` collected (see the `replace` directives below): vstd's spec of
// Map gives no relation to the closure at construction time, so the four occurrences are rewritten into a call of this function.
#[verifier::external_body]
fn verif_low_bytes(xs: &[char]) -> (r: Vec<u8>)
    ensures r@ == lowb(xs@),
{
    xs.iter().map(|c| *c as u8).collect()
}
pub open spec fn bytes_ascii(v: Seq<u8>) -> bool { forall|i: int| 0 <= i < v.len() ==> #[trigger] v[i] < 0x80 }
pub open spec fn as_chars(v: Seq<u8>) -> Seq<char> { Seq::new(v.len(), |i: int| v[i] as char) }

proof fn lemma_ascii_roundtrip(v: Seq<u8>)
    requires bytes_ascii(v),
    ensures all_ascii(as_chars(v)), lowb(as_chars(v)) == v,
{
    let s = as_chars(v);
    assert forall|i: int| 0 <= i < s.len() implies is_ascii_c(#[trigger] s[i]) by { assert(v[i] < 0x80); }
    assert(lowb(s) =~= v) by {
        assert forall|i: int| 0 <= i < v.len() implies lowb(s)[i] == v[i] by { assert(v[i] < 0x80); assert(s[i] == v[i] as char); }
    }
}

pub broadcast proof fn lemma_bytes_ascii_add(a: Seq<u8>, b: Seq<u8>)
    requires bytes_ascii(a), bytes_ascii(b),
    ensures #[trigger] bytes_ascii(a + b),
{}
pub broadcast proof fn lemma_bytes_ascii_push(a: Seq<u8>, x: u8)
    requires bytes_ascii(a), x < 0x80,
    ensures #[trigger] bytes_ascii(a.push(x)),
{}
pub broadcast proof fn lemma_lowb_ascii(cs: Seq<char>)
    requires all_ascii(cs),
    ensures #[trigger] bytes_ascii(lowb(cs)),
{
    assert forall|i: int| 0 <= i < lowb(cs).len() implies #[trigger] lowb(cs)[i] < 0x80 by { assert(is_ascii_c(cs[i])); }
}
pub broadcast proof fn lemma_all_ascii_push(cs: Seq<char>, c: char)
    requires all_ascii(cs), is_ascii_c(c),
    ensures #[trigger] all_ascii(cs.push(c)),
{}
// ---------------------------------------------------------------- offset_cell_name
proof fn lemma_name_ascii(v: Seq<u8>, row: int, col: int)
    requires is_name_of(v, row, col),
    ensures bytes_ascii(v),
{
    let nl = choose|nl: int| name_of(v, nl, row, col);
    assert forall|i: int| 0 <= i < v.len() implies #[trigger] v[i] < 0x80 by {
        if i < nl { assert(is_upper(v.subrange(0, nl)[i])); } else { assert(is_digit(v.subrange(nl, v.len() as int)[i - nl])); }
    }
}
/// `name` (chars) is a plain A1 reference: ASCII, nl letters then digits, row >= 1
pub open spec fn plain_ref(name: Seq<char>, nl: int) -> bool {
    all_ascii(name) && a1_small(lowb(name), nl) && nl >= 1 && dec10(lowb(name).subrange(nl, name.len() as int)) >= 1
}
pub open spec fn ref_row(name: Seq<char>, nl: int) -> int { dec10(lowb(name).subrange(nl, name.len() as int)) - 1 }
pub open spec fn ref_col(name: Seq<char>, nl: int) -> int { b26(lowb(name).subrange(0, nl)) - 1 }
/// offsets that next_formula can produce: differences of u32 coordinates computed in i64
pub open spec fn offset_small(offset: (i64, i64)) -> bool {
    -0x1_0000_0000 < offset.0 < 0x2_0000_0000 && -0x1_0000_0000 < offset.1 < 0x2_0000_0000
}

//@@ fn src/xlsx/mod.rs offset_cell_name props=C15,C06,C14 ret=r
//@@ sig
    requires
        offset_small(offset),
    ensures
        //# C15,C14.relative_shift
        forall|nl: int| #[trigger] plain_ref(name@, nl)
            && 0 <= ref_row(name@, nl) + offset.0 <= 0xFFFF_FFFF && 0 <= ref_col(name@, nl) + offset.1 < 16384 ==>
            r is Ok && is_name_of(r->Ok_0@, ref_row(name@, nl) + offset.0, ref_col(name@, nl) + offset.1),
        //# C15,C06.shift_out_of_sheet_rejected
        // (a reference moved above row 1, left of column A, right of column XFD or beyond the u32 rows is an error, not a wrapped name)
        forall|nl: int| #[trigger] plain_ref(name@, nl)
            && !(0 <= ref_row(name@, nl) + offset.0 <= 0xFFFF_FFFF && 0 <= ref_col(name@, nl) + offset.1 < 16384) ==> r is Err,
        //# C15,C14.non_reference_rejected
        forall|nl: int| all_ascii(name@) && #[trigger] a1_small(lowb(name@), nl)
            && (nl == 0 || dec10(lowb(name@).subrange(nl, name@.len() as int)) == 0) ==> r is Err,
        //# C15,C14.malformed_rejected
        (forall|nl: int| !#[trigger] a1_shape(lowb(name@), nl)) ==> r is Err,
        //# C15,C14.name_is_ascii
        r is Ok ==> bytes_ascii(r->Ok_0@),
//@@ replace /name\.iter\(\)\.map\(\|c\| \*c as u8\)\.collect::<Vec<_>>\(\)/ vstd's Map gives no relation to the closure; the expression is replaced by a call of verif_low_bytes, whose TRUSTED contract states what `.iter().map(|c| *c as u8).collect()` yields
verif_low_bytes(name)
//@@ before /match \(row/
    proof {
        assert forall|nl: int| #[trigger] plain_ref(name@, nl) implies cell.0 == ref_row(name@, nl) && cell.1 == ref_col(name@, nl) by {
            lemma_a1_small_range(lowb(name@), nl);
        }
        assert forall|v: Seq<u8>, row: int, col: int| #[trigger] is_name_of(v, row, col) implies bytes_ascii(v) by { lemma_name_ascii(v, row, col); }
    }
//@@ end
proof fn witness_offset_cell_name() { assert(offset_small((1i64, -1i64))); }

// ---------------------------------------------------------------- replace_cell_names
// Oracle for formulas that consist of ONE cell reference, written from the property: the formula is
//   ['$'] LETTERS ['$'] DIGITS        (p = 1 iff the column is absolute, m = 1 iff the row is absolute)
// and its translation by (dr, dc) is the same shape where an absolute component keeps its characters and a relative component is
// re-spelled for the moved coordinate (column letters = bijective base-26 of col+1, row = decimal of row+1 without leading zero).
#[verifier::opaque]
pub open spec fn single_ref(sb: Seq<u8>, p: int, nl: int, m: int, nd: int) -> bool {
    0 <= p <= 1 && 1 <= nl <= 3 && 0 <= m <= 1 && 1 <= nd <= 7 && sb.len() == p + nl + m + nd
    && (p == 1 ==> sb[0] == 0x24)
    && all_upper(sb.subrange(p, p + nl))
    && (m == 1 ==> sb[p + nl] == 0x24)
    && all_digits(sb.subrange(p + nl + m, sb.len() as int))
    && dec10(sb.subrange(p + nl + m, sb.len() as int)) >= 1
}
pub open spec fn single_row(sb: Seq<u8>, p: int, nl: int, m: int) -> int { dec10(sb.subrange(p + nl + m, sb.len() as int)) - 1 }
pub open spec fn single_col(sb: Seq<u8>, p: int, nl: int) -> int { b26(sb.subrange(p, p + nl)) - 1 }
/// `ob` is the translation of the single-reference formula `sb` by (dr, dc); nlo = number of letters of the translated name
#[verifier::opaque]
pub open spec fn single_translated(ob: Seq<u8>, nlo: int, sb: Seq<u8>, p: int, nl: int, m: int, dr: int, dc: int) -> bool {
    let lo = ob.subrange(p, p + nlo);
    let dg = ob.subrange(p + nlo + m, ob.len() as int);
    1 <= nlo <= 3 && p + nlo + m < ob.len()
    && (p == 1 ==> ob[0] == 0x24)
    && (m == 1 ==> ob[p + nlo] == 0x24)
    && (if p == 1 { lo == sb.subrange(p, p + nl) } else { all_upper(lo) && b26(lo) == single_col(sb, p, nl) + dc + 1 })
    && (if m == 1 { dg == sb.subrange(p + nl + m, sb.len() as int) }
        else { all_digits(dg) && dg[0] != 0x30 && dec10(dg) == single_row(sb, p, nl, m) + dr + 1 })
}
/// the column exists (A..XFD: beyond it the letters+digits are a name, not a cell reference) and the moved components stay inside the sheet
pub open spec fn single_in_sheet(sb: Seq<u8>, p: int, nl: int, m: int, dr: int, dc: int) -> bool {
    single_col(sb, p, nl) < 16384
    && (m == 1 || 0 <= single_row(sb, p, nl, m) + dr < 1048576) && (p == 1 || 0 <= single_col(sb, p, nl) + dc < 16384)
}

// ---- facts about a single-reference formula (pure sequence reasoning; the code is not mentioned)
proof fn lemma_single_bounds(sb: Seq<u8>, p: int, nl: int, m: int, nd: int)
    requires single_ref(sb, p, nl, m, nd),
    ensures 0 <= p <= 1, 1 <= nl <= 3, 0 <= m <= 1, 1 <= nd <= 7, sb.len() == p + nl + m + nd,
{
    reveal(single_ref);
}
proof fn lemma_single_char_class(sb: Seq<u8>, p: int, nl: int, m: int, nd: int, j: int)
    requires single_ref(sb, p, nl, m, nd), 0 <= j < sb.len(),
    ensures
        j < p ==> sb[j] == 0x24,
        p <= j < p + nl ==> is_upper(sb[j]),
        j == p + nl && m == 1 ==> sb[j] == 0x24,
        j >= p + nl + m ==> is_digit(sb[j]),
{
    reveal(single_ref);
    if p <= j < p + nl { assert(is_upper(sb.subrange(p, p + nl)[j - p])); }
    if j >= p + nl + m { assert(is_digit(sb.subrange(p + nl + m, sb.len() as int)[j - (p + nl + m)])); }
}
/// `v` is nlo upper-case letters followed by at least one digit
pub open spec fn has_split(v: Seq<u8>, nlo: int) -> bool {
    1 <= nlo <= 3 && nlo < v.len() && all_upper(v.subrange(0, nlo)) && all_digits(v.subrange(nlo, v.len() as int))
}
pub open spec fn alpha_c(c: char) -> bool { ('A' <= c && c <= 'Z') || ('a' <= c && c <= 'z') }
pub open spec fn digit_c(c: char) -> bool { '0' <= c && c <= '9' }
/// where the parser of offset_cell_reference stops on a name (facts the two scanning loops establish)
pub open spec fn parse_stops(nm: Seq<char>, abs_col: bool, col_end: int, abs_row: bool, row_end: int) -> bool {
    let cs = if abs_col { 1int } else { 0int };
    let rs = if abs_row { col_end + 1 } else { col_end };
    abs_col == (nm.len() > 0 && nm[0] == '$')
    && cs <= col_end <= nm.len()
    && (forall|i: int| cs <= i < col_end ==> alpha_c(#[trigger] nm[i]))
    && (col_end == nm.len() || !alpha_c(nm[col_end]))
    && abs_row == (col_end < nm.len() && nm[col_end] == '$')
    && rs <= row_end <= nm.len()
    && (forall|i: int| rs <= i < row_end ==> digit_c(#[trigger] nm[i]))
    && (row_end == nm.len() || !digit_c(nm[row_end]))
}
/// on a single reference the parser finds exactly the `$`s, the letters and the digits of the grammar
proof fn lemma_parse_positions(nm: Seq<char>, p: int, nl: int, m: int, nd: int, abs_col: bool, col_end: int, abs_row: bool, row_end: int)
    requires all_ascii(nm), single_ref(lowb(nm), p, nl, m, nd), parse_stops(nm, abs_col, col_end, abs_row, row_end),
    ensures abs_col == (p == 1), col_end == p + nl, abs_row == (m == 1), row_end == nm.len(),
{
    reveal(single_ref);
    let sb = lowb(nm);
    assert forall|j: int| 0 <= j < nm.len() implies
        (j < p ==> nm[j] == '$') && (p <= j < p + nl ==> alpha_c(nm[j]) && nm[j] != '$')
        && (j == p + nl && m == 1 ==> nm[j] == '$') && (j >= p + nl + m ==> digit_c(nm[j]) && !alpha_c(nm[j]) && nm[j] != '$') by {
        lemma_single_char_class(sb, p, nl, m, nd, j);
        assert(is_ascii_c(nm[j]));
        assert(sb[j] == nm[j] as u8);
    }
    assert(abs_col == (p == 1)) by { if p == 1 { assert(nm[0] == '$'); } else { assert(nm[0] != '$'); } }
    if col_end < p + nl { assert(alpha_c(nm[col_end])); }
    if col_end > p + nl { assert(alpha_c(nm[p + nl])); if m == 1 { assert(nm[p + nl] == '$'); } else { assert(digit_c(nm[p + nl])); } }
    assert(col_end == p + nl);
    assert(abs_row == (m == 1)) by { if m == 1 { assert(nm[p + nl] == '$'); } else { assert(nm[p + nl] != '$'); } }
    if row_end < nm.len() { assert(digit_c(nm[row_end])); }
}
/// the A1 name (letters ++ digits, `$`s dropped) of a single reference is a plain reference to the same cell
proof fn lemma_single_plain(nm: Seq<char>, p: int, nl: int, m: int, nd: int, a1: Seq<char>)
    requires all_ascii(nm), single_ref(lowb(nm), p, nl, m, nd), a1 == nm.subrange(p, p + nl) + nm.subrange(p + nl + m, nm.len() as int),
    ensures plain_ref(a1, nl), ref_row(a1, nl) == single_row(lowb(nm), p, nl, m), ref_col(a1, nl) == single_col(lowb(nm), p, nl),
{
    reveal(single_ref);
    let sb = lowb(nm);
    let n = nm.len() as int;
    assert forall|i: int| 0 <= i < a1.len() implies is_ascii_c(#[trigger] a1[i]) by {
        if i < nl { assert(is_ascii_c(nm[p + i])); } else { assert(is_ascii_c(nm[p + nl + m + (i - nl)])); }
    }
    assert(lowb(a1).subrange(0, nl) =~= sb.subrange(p, p + nl));
    assert(lowb(a1).subrange(nl, a1.len() as int) =~= sb.subrange(p + nl + m, n));
    assert forall|i: int| 0 <= i < nl implies is_letter(#[trigger] sb.subrange(p, p + nl)[i]) by { assert(is_upper(sb.subrange(p, p + nl)[i])); }
}
proof fn lemma_sub_ascii(x: Seq<char>, i: int, j: int)
    requires all_ascii(x), 0 <= i <= j <= x.len(),
    ensures all_ascii(x.subrange(i, j)),
{
    assert forall|k: int| 0 <= k < j - i implies is_ascii_c(#[trigger] x.subrange(i, j)[k]) by { assert(is_ascii_c(x[i + k])); }
}
proof fn lemma_concat_ascii(x: Seq<char>, y: Seq<char>)
    requires all_ascii(x), all_ascii(y),
    ensures all_ascii(x + y),
{
    assert forall|k: int| 0 <= k < (x + y).len() implies is_ascii_c(#[trigger] (x + y)[k]) by {
        if k < x.len() { assert(is_ascii_c(x[k])); } else { assert(is_ascii_c(y[k - x.len()])); }
    }
}
proof fn lemma_concat_sub(x: Seq<u8>, y: Seq<u8>, i: int, j: int)
    requires 0 <= i <= x.len(), 0 <= j <= y.len(),
    ensures (x + y).subrange(i, x.len() as int) == x.subrange(i, x.len() as int),
        (x + y).subrange(x.len() + j, (x + y).len() as int) == y.subrange(j, y.len() as int),
{
    assert((x + y).subrange(i, x.len() as int) =~= x.subrange(i, x.len() as int));
    assert((x + y).subrange(x.len() + j, (x + y).len() as int) =~= y.subrange(j, y.len() as int));
}
/// putting the pieces together: `ob` = (kept `$`+letters | moved letters) ++ (kept `$`+digits | moved digits) IS the translation
proof fn lemma_assemble(sb: Seq<u8>, p: int, nl: int, m: int, nd: int, cn: Seq<u8>, nlo: int, dr: int, dc: int, ob: Seq<u8>)
    requires
        single_ref(sb, p, nl, m, nd),
        name_of(cn, nlo, single_row(sb, p, nl, m) + (if m == 1 { 0 } else { dr }), single_col(sb, p, nl) + (if p == 1 { 0 } else { dc })),
        ob == (if p == 1 { sb.subrange(0, 1 + nl) } else { cn.subrange(0, nlo) }) + (if m == 1 { sb.subrange(p + nl, sb.len() as int) } else { cn.subrange(nlo, cn.len() as int) }),
    ensures single_translated(ob, if p == 1 { nl } else { nlo }, sb, p, nl, m, dr, dc),
{
    reveal(single_ref); reveal(single_translated);
    let n = sb.len() as int;
    let nlo2 = if p == 1 { nl } else { nlo };
    let first = if p == 1 { sb.subrange(0, 1 + nl) } else { cn.subrange(0, nlo) };
    let second = if m == 1 { sb.subrange(p + nl, n) } else { cn.subrange(nlo, cn.len() as int) };
    assert(first.len() == p + nlo2);
    assert(second.len() >= m + 1);
    lemma_concat_sub(first, second, p, m);
    let lo = ob.subrange(p, p + nlo2);
    let dg = ob.subrange(p + nlo2 + m, ob.len() as int);
    assert(lo == first.subrange(p, first.len() as int));
    assert(dg == second.subrange(m, second.len() as int));
    if p == 1 {
        assert(ob[0] == first[0]);
        assert(first[0] == sb[0]);
        assert(first.subrange(1, first.len() as int) =~= sb.subrange(1, 1 + nl));
    } else {
        assert(first.subrange(0, first.len() as int) =~= first);
    }
    if m == 1 {
        assert(ob[p + nlo2] == second[0]);
        assert(second[0] == sb[p + nl]);
        assert(second.subrange(1, second.len() as int) =~= sb.subrange(p + nl + 1, n));
    } else {
        assert(second.subrange(0, second.len() as int) =~= second);
        assert(dg[0] == cn[nlo]);
    }
}
/// the same on chars: what offset_cell_reference returns for a single reference is its translation
proof fn lemma_reference_translated(nm: Seq<char>, p: int, nl: int, m: int, nd: int, cn: Seq<u8>, nlo: int, dr: int, dc: int, res: Seq<char>)
    requires
        all_ascii(nm), single_ref(lowb(nm), p, nl, m, nd), bytes_ascii(cn),
        name_of(cn, nlo, single_row(lowb(nm), p, nl, m) + (if m == 1 { 0 } else { dr }), single_col(lowb(nm), p, nl) + (if p == 1 { 0 } else { dc })),
        res == (if p == 1 { nm.subrange(0, 1 + nl) } else { as_chars(cn).subrange(0, nlo) })
            + (if m == 1 { nm.subrange(p + nl, nm.len() as int) } else { as_chars(cn).subrange(nlo, cn.len() as int) }),
    ensures single_translated(lowb(res), if p == 1 { nl } else { nlo }, lowb(nm), p, nl, m, dr, dc),
{
    reveal(single_ref);
    let sb = lowb(nm);
    lemma_ascii_roundtrip(cn);
    let first = if p == 1 { nm.subrange(0, 1 + nl) } else { as_chars(cn).subrange(0, nlo) };
    let second = if m == 1 { nm.subrange(p + nl, nm.len() as int) } else { as_chars(cn).subrange(nlo, cn.len() as int) };
    let fb = if p == 1 { sb.subrange(0, 1 + nl) } else { cn.subrange(0, nlo) };
    let sb2 = if m == 1 { sb.subrange(p + nl, sb.len() as int) } else { cn.subrange(nlo, cn.len() as int) };
    assert(lowb(first) =~= fb);
    assert(lowb(second) =~= sb2);
    assert(lowb(res) =~= fb + sb2);
    lemma_assemble(sb, p, nl, m, nd, cn, nlo, dr, dc, lowb(res));
}
/// the letters/digits split of a name is unique
proof fn lemma_split_unique(cn: Seq<u8>, x: int, y: int)
    requires has_split(cn, x), has_split(cn, y),
    ensures x == y,
{
    if x < y { assert(is_upper(cn.subrange(0, y)[x])); assert(is_digit(cn.subrange(x, cn.len() as int)[0])); }
    if x > y { assert(is_upper(cn.subrange(0, x)[y])); assert(is_digit(cn.subrange(y, cn.len() as int)[0])); }
}

proof fn witness_offset_cell_reference() { assert(offset_small((-2i64, 5i64))); }

// ---- a call of a function whose name has the shape LETTERS DIGITS [LETTERS], e.g. DEC2BIN(), LOG10(): "function names ... are reproduced unchanged"
/// sb = L1 (a upper-case letters) ++ D (b digits) ++ L2 (c upper-case letters, possibly none) ++ "()"
pub open spec fn call_shape(sb: Seq<u8>, a: int, b: int, c: int) -> bool {
    1 <= a <= 6 && 1 <= b <= 9 && 0 <= c <= 6 && sb.len() == a + b + c + 2
    && all_upper(sb.subrange(0, a)) && all_digits(sb.subrange(a, a + b)) && all_upper(sb.subrange(a + b, a + b + c))
    && sb[a + b + c] == 0x28 && sb[a + b + c + 1] == 0x29
}
proof fn lemma_call_char_class(sb: Seq<u8>, a: int, b: int, c: int, j: int)
    requires call_shape(sb, a, b, c), 0 <= j < sb.len(),
    ensures
        j < a ==> is_upper(sb[j]),
        a <= j < a + b ==> is_digit(sb[j]),
        a + b <= j < a + b + c ==> is_upper(sb[j]),
        j == a + b + c ==> sb[j] == 0x28,
        j == a + b + c + 1 ==> sb[j] == 0x29,
{
    if j < a { assert(is_upper(sb.subrange(0, a)[j])); }
    if a <= j < a + b { assert(is_digit(sb.subrange(a, a + b)[j - a])); }
    if a + b <= j < a + b + c { assert(is_upper(sb.subrange(a + b, a + b + c)[j - (a + b)])); }
}
/// a name character of the scanner: letters, digits, `$`, `_`, `.` and everything outside ASCII
pub open spec fn name_c(c: char) -> bool { alpha_c(c) || digit_c(c) || c == '$' || c == '_' || c == '.' || !is_ascii_c(c) }
/// a string literal: `"`, any chars but `"` (ASCII or not), `"`
pub open spec fn string_literal(s: Seq<char>) -> bool {
    s.len() >= 2 && s[0] == '"' && s[s.len() - 1] == '"' && forall|i: int| 0 < i < s.len() - 1 ==> #[trigger] s[i] != '"'
}

// (child modules: smaller proof context; the inner one sees the private function of the outer one)
pub mod ocr { use super::*;
//@@ fn src/xlsx/mod.rs offset_cell_reference props=C15,C06,C14 ret=r
//@@ sig
    requires
        offset_small(offset),
    ensures
        //# C15,C14.reference_translated
        forall|p: int, nl: int, m: int, nd: int| all_ascii(name@) && #[trigger] single_ref(lowb(name@), p, nl, m, nd)
            && single_in_sheet(lowb(name@), p, nl, m, offset.0 as int, offset.1 as int) ==>
            r is Ok && exists|nlo: int| #[trigger] single_translated(lowb(r->Ok_0@), nlo, lowb(name@), p, nl, m, offset.0 as int, offset.1 as int),
        //# C15,C14.empty_name_rejected
        name@.len() == 0 ==> r is Err,
        //# C15,C14.reference_is_ascii
        all_ascii(name@) && r is Ok ==> all_ascii(r->Ok_0@),
//@@ body
    let ghost nm = name@;
    let ghost sb = lowb(name@);
//@@ loop 0
        invariant
            nm == name@, col_start <= col_end <= name.len(),
            forall|i: int| col_start <= i < col_end ==> alpha_c(#[trigger] nm[i]),
        decreases name.len() - col_end,
//@@ loop 1
        invariant
            nm == name@, row_start <= row_end <= name.len(),
            forall|i: int| row_start <= i < row_end ==> digit_c(#[trigger] nm[i]),
        decreases name.len() - row_end,
//@@ before /if row_end < name\.len\(\)/
    proof {
        assert(parse_stops(nm, abs_col, col_end as int, abs_row, row_end as int));
        assert forall|p: int, nl: int, m: int, nd: int| all_ascii(nm) && #[trigger] single_ref(sb, p, nl, m, nd) implies
            abs_col == (p == 1) && col_end == p + nl && abs_row == (m == 1) && row_end == nm.len() by {
            lemma_parse_positions(nm, p, nl, m, nd, abs_col, col_end as int, abs_row, row_end as int);
        }
    }
//@@ before /let cell_name = offset_cell_name/
    proof {
        assert(a1@ =~= nm.subrange(col_start as int, col_end as int) + nm.subrange(row_start as int, nm.len() as int));
        assert(offset_small(shift));
        if all_ascii(nm) {
            assert forall|i: int| 0 <= i < a1@.len() implies is_ascii_c(#[trigger] a1@[i]) by {
                if i < col_end - col_start { assert(is_ascii_c(nm[col_start + i])); } else { assert(is_ascii_c(nm[row_start + (i - (col_end - col_start))])); }
            }
        }
        if nm.len() == 0 {
            assert(a1@.len() == 0);
            assert(lowb(a1@).subrange(0, 0) =~= Seq::<u8>::empty());
            assert(a1_small(lowb(a1@), 0));
        }
        assert forall|p: int, nl: int, m: int, nd: int| all_ascii(nm) && #[trigger] single_ref(sb, p, nl, m, nd)
            && single_in_sheet(sb, p, nl, m, offset.0 as int, offset.1 as int) implies
            plain_ref(a1@, nl) && ref_row(a1@, nl) == single_row(sb, p, nl, m) && ref_col(a1@, nl) == single_col(sb, p, nl)
            && 0 <= ref_row(a1@, nl) + shift.0 <= 0xFFFF_FFFF && 0 <= ref_col(a1@, nl) + shift.1 < 16384 by {
            lemma_single_bounds(sb, p, nl, m, nd);
            lemma_single_plain(nm, p, nl, m, nd, a1@);
            lemma_a1_small_range(lowb(a1@), nl);
        }
    }
//@@ before /let mut moved = Vec::new\(\)/
    let ghost cn = cell_name@;
    proof {
        assert forall|v: Seq<u8>, row: int, col: int| #[trigger] is_name_of(v, row, col) implies bytes_ascii(v) by { lemma_name_ascii(v, row, col); }
        lemma_ascii_roundtrip(cn);
    }
//@@ loop 2 it
        invariant
            it.seq() == cn,
            moved@ == as_chars(cn.subrange(0, it.index@ as int)),
//@@ before /moved\.push\(c as char\)/
        proof { assert(as_chars(cn.subrange(0, it.index@ + 1)) =~= as_chars(cn.subrange(0, it.index@ as int)).push(c as char)); }
//@@ before /let mut digits = 0/
    proof { assert(cn.subrange(0, cn.len() as int) =~= cn); }
    let ghost nlo0 = choose|nlo: int| has_split(cn, nlo);
    let ghost named = exists|nlo: int| has_split(cn, nlo);
//@@ loop 3
        invariant
            moved@ == as_chars(cn), digits <= moved.len(),
            named == (exists|nlo: int| has_split(cn, nlo)),
            named ==> has_split(cn, nlo0) && digits <= nlo0,
            forall|i: int| 0 <= i < digits ==> alpha_c(#[trigger] moved@[i]),
        decreases moved.len() - digits,
//@@ before /digits \+= 1/
        proof {
            if named {
                if digits == nlo0 { assert(is_digit(cn.subrange(nlo0, cn.len() as int)[0])); assert(moved@[digits as int] == cn[nlo0] as char); assert(false); }
            }
        }
//@@ before /Ok\(res\)/
    proof {
        if named {
            if digits < nlo0 { assert(is_upper(cn.subrange(0, nlo0)[digits as int])); assert(moved@[digits as int] == cn[digits as int] as char); assert(false); }
            assert(digits == nlo0);
        }
        let first = if abs_col { nm.subrange(0, col_end as int) } else { moved@.subrange(0, digits as int) };
        let second = if abs_row { nm.subrange(col_end as int, nm.len() as int) } else { moved@.subrange(digits as int, moved@.len() as int) };
        assert(res@ =~= first + second);
        if all_ascii(nm) {
            lemma_sub_ascii(nm, 0, col_end as int); lemma_sub_ascii(nm, col_end as int, nm.len() as int);
            lemma_sub_ascii(as_chars(cn), 0, digits as int); lemma_sub_ascii(as_chars(cn), digits as int, cn.len() as int);
            lemma_concat_ascii(first, second);
        }
        assert forall|p: int, nl: int, m: int, nd: int| all_ascii(nm) && #[trigger] single_ref(sb, p, nl, m, nd)
            && single_in_sheet(sb, p, nl, m, offset.0 as int, offset.1 as int) implies
            exists|nlo: int| #[trigger] single_translated(lowb(res@), nlo, sb, p, nl, m, offset.0 as int, offset.1 as int) by {
            let rr = single_row(sb, p, nl, m) + (if m == 1 { 0 } else { offset.0 as int });
            let cc = single_col(sb, p, nl) + (if p == 1 { 0 } else { offset.1 as int });
            assert(plain_ref(a1@, nl));
            assert(is_name_of(cn, rr, cc));
            let nlo = choose|nlo: int| name_of(cn, nlo, rr, cc);
            assert(has_split(cn, nlo));
            lemma_split_unique(cn, nlo, nlo0);
            assert(abs_col == (p == 1) && col_end == p + nl && abs_row == (m == 1) && digits == nlo);
            assert(first == (if p == 1 { nm.subrange(0, 1 + nl) } else { as_chars(cn).subrange(0, nlo) }));
            assert(second == (if m == 1 { nm.subrange(p + nl, nm.len() as int) } else { as_chars(cn).subrange(nlo, cn.len() as int) }));
            lemma_reference_translated(nm, p, nl, m, nd, cn, nlo, offset.0 as int, offset.1 as int, res@);
        }
        // (hint: the view of the returned value)
        let g: Result<Vec<char>, XlsxError> = Ok(res);
        assert(g->Ok_0@ == res@);
        assert(forall|p: int, nl: int, m: int, nd: int| all_ascii(name@) && #[trigger] single_ref(lowb(name@), p, nl, m, nd)
            && single_in_sheet(lowb(name@), p, nl, m, offset.0 as int, offset.1 as int) ==>
            g is Ok && exists|nlo: int| #[trigger] single_translated(lowb(g->Ok_0@), nlo, lowb(name@), p, nl, m, offset.0 as int, offset.1 as int));
    }
//@@ end
pub mod rcn { use super::*;
//@@ fn src/xlsx/mod.rs replace_cell_names props=C15,C06,C14 ret=r
//@@ sig
    requires
        offset_small(offset),
    ensures
        //# C15,C14.non_reference_text_never_fails
        r is Ok,
        //# C15,C14.ascii_formula_never_fails
        all_ascii(s@) ==> r is Ok && all_ascii(r->Ok_0@),
        //# C15,C14.single_reference_translated
        forall|p: int, nl: int, m: int, nd: int| all_ascii(s@) && #[trigger] single_ref(lowb(s@), p, nl, m, nd)
            && single_in_sheet(lowb(s@), p, nl, m, offset.0 as int, offset.1 as int) ==>
            r is Ok && all_ascii(r->Ok_0@)
            && exists|nlo: int| #[trigger] single_translated(lowb(r->Ok_0@), nlo, lowb(s@), p, nl, m, offset.0 as int, offset.1 as int),
        //# C15,C14.function_name_digit_letter_kept
        forall|a: int, b: int, c: int| all_ascii(s@) && #[trigger] call_shape(lowb(s@), a, b, c) ==>
            r is Ok && all_ascii(r->Ok_0@) && lowb(r->Ok_0@) == lowb(s@),
        //# C15,C14.string_literal_kept
        // (whatever it contains: cell-like text, non-ASCII characters)
        string_literal(s@) ==> r is Ok && r->Ok_0@ == s@,
//@@ body
    broadcast use {axiom_iter_chars_slice, lemma_all_ascii_push};
    let ghost sb = lowb(s@);
    let ghost mut k: int = 0;
//@@ before /for c in s\.chars\(\)/
    proof {
        assert(s@.subrange(0, 0) =~= Seq::<char>::empty());
    }
//@@ r6 0
//@@ loop 0
        invariant
            0 <= k <= s@.len(),
            __it0.obeys_prophetic_iter_laws(),
            __it0.remaining() == s@.skip(k),
            offset_small(offset),
            sb == lowb(s@),
            all_ascii(s@) ==> all_ascii(res@) && all_ascii(name@),
            // one reference: everything so far is the pending name
            all_ascii(s@) ==> forall|p: int, nl: int, m: int, nd: int| #[trigger] single_ref(sb, p, nl, m, nd) ==>
                quote is None && res@.len() == 0 && name@ == s@.subrange(0, k),
            // NAME(): the name is pending up to `(`, then everything is copied
            all_ascii(s@) ==> forall|a: int, b: int, c: int| #[trigger] call_shape(sb, a, b, c) ==>
                quote is None && (if k <= a + b + c { res@.len() == 0 && name@ == s@.subrange(0, k) } else { res@ == s@.subrange(0, k) && name@.len() == 0 }),
            // "...": copied, inside the quote until its last char
            string_literal(s@) ==> name@.len() == 0 && res@ == s@.subrange(0, k) && (quote == (if 0 < k < s@.len() { Some('"') } else { None::<char> })),
        ensures k == s@.len(),
        decreases s@.len() - k,
//@@ before /if let Some\(q\) = quote/
        broadcast use {axiom_iter_chars_slice, lemma_all_ascii_push};
        let ghost res0 = res@;
        let ghost name0 = name@;
        proof { k = k + 1; assert(c == s@.skip(k - 1)[0]); assert(c == s@[k - 1]);
            assert(s@.subrange(0, k) =~= s@.subrange(0, k - 1).push(c));
            if all_ascii(s@) { assert(is_ascii_c(s@[k - 1])); assert(sb[k - 1] == c as u8); }
            assert forall|p: int, nl: int, m: int, nd: int| all_ascii(s@) && #[trigger] single_ref(sb, p, nl, m, nd) implies name_c(c) by {
                lemma_single_bounds(sb, p, nl, m, nd);
                lemma_single_char_class(sb, p, nl, m, nd, k - 1);
            }
            assert forall|a: int, b: int, c2: int| all_ascii(s@) && #[trigger] call_shape(sb, a, b, c2) implies
                (k - 1 < a + b + c2 ==> name_c(c)) && (k - 1 == a + b + c2 ==> c == '(') && (k - 1 == a + b + c2 + 1 ==> c == ')') by {
                lemma_call_char_class(sb, a, b, c2, k - 1);
            }
        }
//@@ before /res\.extend\(name\.iter\(\)\);/#0of2
            let ghost name1 = name@;
//@@ after /res\.extend\(name\.iter\(\)\);/#0of2
            proof {
                assert(res@ == res0 + name1);
                if all_ascii(s@) {
                    assert forall|i: int| 0 <= i < res@.len() implies is_ascii_c(#[trigger] res@[i]) by {
                        if i < res0.len() { assert(is_ascii_c(res0[i])); } else { assert(is_ascii_c(name1[i - res0.len()])); }
                    }
                    assert forall|a: int, b: int, c2: int| #[trigger] call_shape(sb, a, b, c2) implies res@ =~= s@.subrange(0, k - 1) by { }
                }
            }
//@@ before /Ok\(res\)/
    proof {
        assert(k == s@.len());
        assert(s@.subrange(0, k) =~= s@);
        if all_ascii(s@) {
            assert forall|i: int| 0 <= i < res@.len() implies is_ascii_c(#[trigger] res@[i]) by {
                if i < res2.len() { assert(is_ascii_c(res2[i])); } else { assert(is_ascii_c(name2[i - res2.len()])); }
            }
            assert forall|a: int, b: int, c2: int| #[trigger] call_shape(sb, a, b, c2) implies lowb(res@) == sb by { assert(res@ =~= s@); }
            assert forall|p: int, nl: int, m: int, nd: int| #[trigger] single_ref(sb, p, nl, m, nd)
                && single_in_sheet(sb, p, nl, m, offset.0 as int, offset.1 as int) implies
                exists|nlo: int| #[trigger] single_translated(lowb(res@), nlo, sb, p, nl, m, offset.0 as int, offset.1 as int) by {
                assert(res@ =~= name2);
            }
        }
        if string_literal(s@) { assert(res@ =~= s@); }
    }
//@@ before /res\.extend\(name\.iter\(\)\);/#1of2
    let ghost res2 = res@;
    let ghost name2 = name@;
//@@ end
} // mod rcn
} // mod ocr
proof fn witness_replace_cell_names() { assert(offset_small((0i64, 3i64))); }
/// the function-call shape is inhabited: "DEC2BIN()"
proof fn witness_call_shape()
    ensures call_shape(seq![0x44u8, 0x45, 0x43, 0x32, 0x42, 0x49, 0x4e, 0x28, 0x29], 3, 1, 3),
{
    let v = seq![0x44u8, 0x45, 0x43, 0x32, 0x42, 0x49, 0x4e, 0x28, 0x29];
    assert(v.subrange(0, 3) =~= seq![0x44u8, 0x45, 0x43]);
    assert(v.subrange(3, 4) =~= seq![0x32u8]);
    assert(v.subrange(4, 7) =~= seq![0x42u8, 0x49, 0x4e]);
}
/// the single-reference shapes are inhabited: "$B$7" (absolute), "AB12" (relative)
proof fn witness_single_ref()
    ensures single_ref(seq![0x24u8, 0x42, 0x24, 0x37], 1, 1, 1, 1), single_ref(seq![0x41u8, 0x42, 0x31, 0x32], 0, 2, 0, 2),
        single_row(seq![0x41u8, 0x42, 0x31, 0x32], 0, 2, 0) == 11, single_col(seq![0x41u8, 0x42, 0x31, 0x32], 0, 2) == 27,
{
    reveal(single_ref);
    let a = seq![0x24u8, 0x42, 0x24, 0x37];
    assert(a.subrange(1, 2) =~= seq![0x42u8]);
    assert(a.subrange(3, 4) =~= seq![0x37u8]);
    assert(seq![0x37u8].drop_last() =~= Seq::<u8>::empty());
    let b = seq![0x41u8, 0x42, 0x31, 0x32];
    assert(b.subrange(0, 2) =~= seq![0x41u8, 0x42]);
    assert(b.subrange(2, 4) =~= seq![0x31u8, 0x32]);
    assert(seq![0x31u8, 0x32].drop_last() =~= seq![0x31u8]);
    assert(seq![0x31u8].drop_last() =~= Seq::<u8>::empty());
    assert(seq![0x41u8, 0x42].drop_last() =~= seq![0x41u8]);
    assert(seq![0x41u8].drop_last() =~= Seq::<u8>::empty());
    reveal_with_fuel(dec10, 4);
    reveal_with_fuel(b26, 4);
}

} // verus!
fn main() {}
