//@@ unit props=C16,C10,C03,C14,C07,C19,C06
// Unit xlsbwb: the workbook-level record loops of the xlsb reader (src/xlsb/mod.rs): read_workbook, read_styles,
// read_shared_strings, worksheet_cells_reader, worksheet_formula -- verbatim text, against the ghost byte-stream model of unit xlsbrec.
#![allow(unused_imports, dead_code, unused_variables, unused_mut, unused_assignments)]
#![feature(allocator_api)]
use vstd::prelude::*;
use std::borrow::Cow;
use std::ops::Deref;
use std::io::{Read, Seek};
use std::collections::BTreeMap;
use vstd::std_specs::iter::IteratorSpec;

verus! {

global size_of usize == 8;   // checked by rustc against the target (x86_64)

// ---- stand-ins for foreign error payload types (opaque; never inspected by the verified code)
pub mod quick_xml {
    pub struct Error;
    pub mod events { pub mod attributes { pub struct AttrError; } }
    pub mod encoding { pub struct EncodingError; }
}
pub mod zip { pub mod result { pub struct ZipError; } }
pub mod vba { pub struct VbaError; }
#[verifier::external_type_specification] #[verifier::external_body] pub struct ExIoError(std::io::Error);
#[verifier::external_trait_specification] pub trait ExRead { type ExternalTraitSpecificationFor: std::io::Read; }
#[verifier::external_trait_specification] pub trait ExSeek { type ExternalTraitSpecificationFor: std::io::Seek; }

//@@ item src/xlsb/mod.rs enum XlsbError
// what `from_err!(std::io::Error, XlsbError, Io)` (macro of src/utils.rs) expands to, `e.into()` being the identity here
impl From<std::io::Error> for XlsbError { fn from(e: std::io::Error) -> (r: XlsbError) { XlsbError::Io(e) } }
impl vstd::std_specs::convert::FromSpecImpl<std::io::Error> for XlsbError {
    open spec fn obeys_from_spec() -> bool { true }
    open spec fn from_spec(e: std::io::Error) -> Self { XlsbError::Io(e) }
}

// ---- A-io: ghost byte-stream model of the reader behind RecordIter (mirror of unit xlsbrec)
// TRUSTED: A-io -- `ZipFile` / `BufReader` are stand-ins for zip::read::ZipFile and std::io::BufReader (never touched directly here)
#[verifier::external_body]
pub struct ZipFile<'a> { _p: core::marker::PhantomData<&'a ()> }
#[verifier::external_body]
#[verifier::reject_recursive_types(R)]
pub struct BufReader<R> { _p: core::marker::PhantomData<R> }
impl<R> BufReader<R> {
    /// bytes not yet consumed
    pub uninterp spec fn rem(&self) -> Seq<u8>;
    // TRUSTED: A-io (only needed so that the bodies of the external_body RecordIter methods below type-check)
    #[verifier::external_body]
    pub fn read_exact(&mut self, buf: &mut [u8]) -> (r: Result<(), std::io::Error>)
    { unimplemented!() }
}

// ---- [MS-XLSB] 2.1.4 Record (definitions copied from unit xlsbrec, where the readers are proved against them)
pub open spec fn lo7(b: u8) -> int { (b % 128) as int }
pub open spec fn cont(b: u8) -> bool { b >= 128 }
pub open spec fn pow128(i: nat) -> int decreases i { if i == 0 { 1 } else { 128 * pow128((i - 1) as nat) } }
pub open spec fn vsum(s: Seq<u8>, n: nat) -> int decreases n {
    if n == 0 { 0 } else { vsum(s, (n - 1) as nat) + lo7(s[n - 1]) * pow128((n - 1) as nat) }
}
pub open spec fn vhdr_from(s: Seq<u8>, i: nat, max: nat) -> nat decreases max - i {
    if i + 1 >= max || i >= s.len() || !cont(s[i as int]) { i + 1 } else { vhdr_from(s, i + 1, max) }
}
pub open spec fn vhdr(s: Seq<u8>, max: nat) -> nat { vhdr_from(s, 0, max) }
pub open spec fn vcomplete(s: Seq<u8>, max: nat) -> bool { s.len() >= vhdr(s, max) }
pub open spec fn varint_type(s: Seq<u8>) -> int { vsum(s, vhdr(s, 2)) }
pub open spec fn varint_len(s: Seq<u8>) -> int { vsum(s, vhdr(s, 4)) }
pub open spec fn rec_tl(s: Seq<u8>) -> nat { vhdr(s, 2) }
pub open spec fn rec_typ(s: Seq<u8>) -> int { varint_type(s) }
pub open spec fn rec_sl(s: Seq<u8>) -> nat { vhdr(s.skip(rec_tl(s) as int), 4) }
pub open spec fn rec_len(s: Seq<u8>) -> int { varint_len(s.skip(rec_tl(s) as int)) }
pub open spec fn rec_total(s: Seq<u8>) -> int { rec_tl(s) + rec_sl(s) + rec_len(s) }
/// a complete record is present at the head of s
pub open spec fn rec_ok(s: Seq<u8>) -> bool {
    vcomplete(s, 2) && vcomplete(s.skip(rec_tl(s) as int), 4) && s.len() >= rec_total(s)
}
pub open spec fn rec_payload(s: Seq<u8>) -> Seq<u8> { s.subrange((rec_tl(s) + rec_sl(s)) as int, rec_total(s)) }
pub open spec fn rec_rest(s: Seq<u8>) -> Seq<u8> { s.skip(rec_total(s)) }

proof fn lemma_pow128_pos(i: nat) ensures pow128(i) > 0 decreases i { if i > 0 { lemma_pow128_pos((i - 1) as nat); } }
proof fn lemma_vsum_nonneg(s: Seq<u8>, n: nat)
    ensures vsum(s, n) >= 0,
    decreases n,
{
    if n > 0 {
        lemma_vsum_nonneg(s, (n - 1) as nat);
        lemma_pow128_pos((n - 1) as nat);
        assert(lo7(s[n - 1]) * pow128((n - 1) as nat) >= 0) by (nonlinear_arith) requires lo7(s[n - 1]) >= 0, pow128((n - 1) as nat) > 0;
    }
}
proof fn lemma_vhdr_from_lb(s: Seq<u8>, i: nat, max: nat)
    ensures vhdr_from(s, i, max) >= i + 1, i + 1 <= max ==> vhdr_from(s, i, max) <= max,
    decreases max - i,
{
    if !(i + 1 >= max || i >= s.len() || !cont(s[i as int])) { lemma_vhdr_from_lb(s, i + 1, max); }
}
/// every record occupies at least 2 bytes
proof fn lemma_rec_total(s: Seq<u8>)
    ensures rec_total(s) >= 2, rec_tl(s) >= 1, rec_tl(s) <= 2, rec_sl(s) >= 1, rec_len(s) >= 0,
{
    lemma_vhdr_from_lb(s, 0, 2);
    lemma_vhdr_from_lb(s.skip(rec_tl(s) as int), 0, 4);
    lemma_vsum_nonneg(s.skip(rec_tl(s) as int), rec_sl(s));
}
/// the stream after n whole records (None if it ends, or a record is truncated, before that)
pub open spec fn skip_n(s: Seq<u8>, n: nat) -> Option<Seq<u8>> decreases n {
    if n == 0 { Some(s) } else if rec_ok(s) { skip_n(rec_rest(s), (n - 1) as nat) } else { None }
}
proof fn lemma_skip_n_step(s: Seq<u8>, n: nat)
    requires skip_n(s, n) is Some, rec_ok(skip_n(s, n)->Some_0),
    ensures skip_n(s, n + 1) == Some(rec_rest(skip_n(s, n)->Some_0)),
    decreases n,
{
    if n == 0 {
        assert(skip_n(rec_rest(s), 0) == Some(rec_rest(s)));
    } else {
        lemma_skip_n_step(rec_rest(s), (n - 1) as nat);
    }
}
/// what `read_type` followed by `fill_buffer` consume is exactly one record
proof fn lemma_rec_read(s: Seq<u8>)
    requires
        vcomplete(s, 2), vcomplete(s.skip(vhdr(s, 2) as int), 4),
        s.skip(vhdr(s, 2) as int).len() >= vhdr(s.skip(vhdr(s, 2) as int), 4) + varint_len(s.skip(vhdr(s, 2) as int)),
    ensures
        rec_ok(s), rec_total(s) >= 2, rec_rest(s).len() < s.len(), rec_len(s) >= 0,
        s.skip(rec_tl(s) as int).skip(rec_sl(s) + rec_len(s)) == rec_rest(s),
        s.skip(rec_tl(s) as int).subrange(rec_sl(s) as int, rec_sl(s) + rec_len(s)) == rec_payload(s),
{
    lemma_rec_total(s);
    lemma_vsum_nonneg(s.skip(rec_tl(s) as int), rec_sl(s));
    assert(s.skip(rec_tl(s) as int).skip(rec_sl(s) + rec_len(s)) =~= rec_rest(s));
    assert(s.skip(rec_tl(s) as int).subrange(rec_sl(s) as int, rec_sl(s) + rec_len(s)) =~= rec_payload(s));
}
/// t is a record boundary of the stream s: reached from s by consuming k whole records
pub open spec fn boundary(s: Seq<u8>, k: nat, t: Seq<u8>) -> bool { skip_n(s, k) == Some(t) }

//@@ item src/xlsb/mod.rs struct RecordIter
impl<'a> RecordIter<'a> {
    pub closed spec fn rem(&self) -> Seq<u8> { self.r.rem() }
}

// ---- A-zip: the zip container
// TRUSTED: A-zip -- `ZipArchive` is a stand-in for zip::read::ZipArchive; a part is a finite byte string determined by the archive
// and the part name; reading a part does not change what any part contains.
#[verifier::external_body]
#[verifier::accept_recursive_types(RS)]
pub struct ZipArchive<RS> { _p: core::marker::PhantomData<RS> }
/// bytes of the part `path` of the archive; None: the part cannot be opened (absent, or a zip-level error)
pub uninterp spec fn part_bytes<RS>(zip: ZipArchive<RS>, path: Seq<char>) -> Option<Seq<u8>>;
/// the part is absent (as opposed to unreadable)
pub uninterp spec fn part_absent<RS>(zip: ZipArchive<RS>, path: Seq<char>) -> bool;

impl<'a> RecordIter<'a> {
    // TRUSTED: A-zip -- stand-in with the signature of src/xlsb/mod.rs RecordIter::from_zip (`zip.by_name(path)` wrapped into a
    // BufReader): the iterator reads the bytes of the part from its start; absent part => Err(FileNotFound(path)), other zip error => Err(Zip)
    #[verifier::external_body]
    fn from_zip<RS: Read + Seek>(zip: &'a mut ZipArchive<RS>, path: &str) -> (r: Result<RecordIter<'a>, XlsbError>)
        ensures
            r is Ok <==> part_bytes(*old(zip), path@) is Some,
            r is Ok ==> r->Ok_0.rem() == part_bytes(*old(zip), path@)->Some_0,
            r is Err ==> (if part_absent(*old(zip), path@) { r->Err_0 is FileNotFound && r->Err_0->FileNotFound_0@ == path@ } else { r->Err_0 is Zip }),
            forall|p: Seq<char>| part_bytes(*final(zip), p) == part_bytes(*old(zip), p) && part_absent(*final(zip), p) == part_absent(*old(zip), p),
    { unimplemented!() }
}
//@@ impl src/xlsb/mod.rs RecordIter
// TRUSTED: proved in unit xlsbrec (C03.read_u8_ok, C03.read_u8_err); not called by the functions of this unit
//@@ fn src/xlsb/mod.rs RecordIter::read_u8 external_body ret=r
//@@ end
// TRUSTED: proved in unit xlsbrec (C03.varint_type, C03.type_advance, C03.type_err)
//@@ fn src/xlsb/mod.rs RecordIter::read_type external_body ret=r
//@@ sig
    ensures
        r is Ok ==> vcomplete(old(self).rem(), 2) && r->Ok_0 as int == varint_type(old(self).rem()),
        r is Ok ==> final(self).rem() == old(self).rem().skip(vhdr(old(self).rem(), 2) as int),
        r is Err ==> !vcomplete(old(self).rem(), 2),
//@@ end
// TRUSTED: proved in unit xlsbrec (C03.fill_len, fill_avail, fill_payload, fill_advance, fill_buf_frame, fill_err)
//@@ fn src/xlsb/mod.rs RecordIter::fill_buffer external_body ret=r
//@@ sig
    ensures
        r is Ok ==> vcomplete(old(self).rem(), 4) && r->Ok_0 as int == varint_len(old(self).rem()),
        r is Ok ==> old(self).rem().len() >= vhdr(old(self).rem(), 4) + varint_len(old(self).rem()),
        r is Ok ==> final(buf)@.len() >= r->Ok_0 && final(buf)@.subrange(0, r->Ok_0 as int)
            == old(self).rem().subrange(vhdr(old(self).rem(), 4) as int, vhdr(old(self).rem(), 4) + varint_len(old(self).rem())),
        r is Ok ==> final(self).rem() == old(self).rem().skip(vhdr(old(self).rem(), 4) + varint_len(old(self).rem())),
        r is Ok ==> final(buf)@.len() == (if old(buf)@.len() < r->Ok_0 { r->Ok_0 as int } else { old(buf)@.len() as int })
            && final(buf)@.skip(r->Ok_0 as int) =~= (if old(buf)@.len() < r->Ok_0 { Seq::<u8>::empty() } else { old(buf)@.skip(r->Ok_0 as int) }),
        r is Err ==> !vcomplete(old(self).rem(), 4) || old(self).rem().len() < vhdr(old(self).rem(), 4) + varint_len(old(self).rem()),
//@@ end
// TRUSTED: proved in unit xlsbrec (C03.skip_whole_records, C03.skip_err)
//@@ fn src/xlsb/mod.rs RecordIter::next_skip_blocks external_body ret=r
//@@ sig
    ensures
        r is Ok ==> exists|k: nat, t: Seq<u8>| #[trigger] boundary(old(self).rem(), k, t) && rec_ok(t) && rec_typ(t) == record_type
            && r->Ok_0 as int == rec_len(t) && final(buf)@.len() >= r->Ok_0
            && final(buf)@.subrange(0, r->Ok_0 as int) == rec_payload(t) && final(self).rem() == rec_rest(t),
        r is Err ==> exists|k: nat, t: Seq<u8>| #[trigger] boundary(old(self).rem(), k, t) && !rec_ok(t),
//@@ end
//@@ endimpl

// ---- A-enc: UTF-16LE decoding (encoding_rs::UTF_16LE.decode) and Cow<str> (mirror of unit xlsbrec)
// TRUSTED: A-enc -- `dec16` stands for encoding_rs' UTF-16LE decoder; nothing is assumed about it beyond being a function of the bytes.
pub uninterp spec fn dec16(s: Seq<u8>) -> Seq<char>;
/// the text of a Cow<str>
pub uninterp spec fn cow_chars(c: Cow<'_, str>) -> Seq<char>;
// TRUSTED: A-std -- Cow::into_owned returns the owned form of the same text
pub uninterp spec fn cow_owned<B: std::borrow::ToOwned + ?Sized>(c: Cow<'_, B>) -> <B as std::borrow::ToOwned>::Owned;
pub assume_specification<'a, B> [std::borrow::Cow::<'_, B>::into_owned] (c: std::borrow::Cow<'a, B>) -> (r: <B as std::borrow::ToOwned>::Owned)
    where B: std::marker::MetaSized + std::borrow::ToOwned + ?Sized,
    ensures r == cow_owned(c);
// TRUSTED: A-std -- for B = str the owned form is the String with the same characters
#[verifier::external_body]
pub proof fn axiom_cow_owned_str_all()
    ensures forall|c: Cow<'_, str>| (#[trigger] cow_owned::<str>(c))@ == cow_chars(c),
{}
pub struct Encoding;
pub struct Utf16LeStandIn;
pub const UTF_16LE: Utf16LeStandIn = Utf16LeStandIn;
impl Utf16LeStandIn {
    // TRUSTED: A-enc
    #[verifier::external_body]
    pub fn decode<'a>(&self, bytes: &'a [u8]) -> (r: (Cow<'a, str>, Encoding, bool))
        ensures cow_chars(r.0) == dec16(bytes@),
    { unimplemented!() }
}

//@@ include common/bytes.rs

// TRUSTED: proved in unit xlsbrec (C03,C19.wide_str_err_iff, wide_str_err_shape, wide_str_len, wide_str_text); the requires is the
// implicit obligation of its first statement `read_u32(buf)` (registered there as a finding of wide_str on a buffer shorter than 4)
//@@ fn src/xlsb/mod.rs wide_str external_body ret=r
//@@ sig
    requires buf@.len() >= 4,
    ensures
        r is Err <==> buf@.len() < 4 + 2 * le32(buf@),
        r is Err ==> r->Err_0 is WideStr && *final(str_len) == *old(str_len),
        r is Ok ==> *final(str_len) == 4 + 2 * le32(buf@),
        r is Ok ==> cow_chars(r->Ok_0) == dec16(buf@.subrange(4, 4 + 2 * le32(buf@))),
//@@ end

//@@ item src/lib.rs enum SheetType
//@@ item src/lib.rs enum SheetVisible
//@@ item src/lib.rs struct Sheet
//@@ item src/lib.rs struct Metadata
//@@ item src/lib.rs enum HeaderRow keep_attrs
//@@ item src/formats.rs enum CellFormat
//@@ item src/xlsb/mod.rs struct XlsbOptions
//@@ item src/xlsb/mod.rs struct Xlsb cfg_off=picture

// ---- A-chunks (same declaration as unit cfb)
#[verifier::external_type_specification] #[verifier::external_body] #[verifier::reject_recursive_types(T)]
pub struct ExChunks<'a, T: 'a>(std::slice::Chunks<'a, T>);
/// consecutive chunks of `n` elements, the last one possibly shorter
pub open spec fn chunk_seq<T>(s: Seq<T>, n: int) -> Seq<Seq<T>> {
    Seq::new(((s.len() + n - 1) / n) as nat, |i: int| s.subrange(i * n, if (i + 1) * n <= s.len() { (i + 1) * n } else { s.len() as int }))
}
// TRUSTED: (A-chunks) documented behaviour of `<[T]>::chunks`: panics for n == 0, otherwise yields `chunk_seq(s, n)` in order
pub assume_specification<T>[ <[T]>::chunks ](s: &[T], n: usize) -> (r: std::slice::Chunks<'_, T>)
    requires n != 0,
    ensures
        IteratorSpec::obeys_prophetic_iter_laws(&r),
        IteratorSpec::remaining(&r).len() == chunk_seq(s@, n as int).len(),
        forall|i: int| 0 <= i < chunk_seq(s@, n as int).len() ==> (#[trigger] IteratorSpec::remaining(&r)[i])@ == chunk_seq(s@, n as int)[i];

// ---- A-str: `str::split(char).nth(n)`
/// the substrings of s separated by the character sep, in order (std doc of str::split: "An iterator over substrings of this string
/// slice, separated by characters matched by a pattern")
pub uninterp spec fn split_seq(s: Seq<char>, sep: char) -> Seq<Seq<char>>;
// TRUSTED: the body is the real expression `path.split('/').nth(1)` moved into a function, because Verus has no `assume_specification`
// for provided trait methods (`Iterator::nth` of str::Split).  Iterator::nth doc: "Returns the nth element of the iterator [...] nth()
// will return None if n is greater than or equal to the length of the iterator."
#[verifier::external_body]
fn verif_split_nth<'a>(s: &'a str, sep: char, n: usize) -> (r: Option<&'a str>)
    ensures
        r is Some <==> n < split_seq(s@, sep).len(),
        r is Some ==> r->Some_0@ == split_seq(s@, sep)[n as int],
{ s.split(sep).nth(n) }

// ---- formula rendering (src/xlsb/mod.rs parse_formula; units xlsbf / formula): uninterpreted here
/// text of the token stream `rgce` given the extern-sheet names and the defined names declared so far; None: rejected
pub uninterp spec fn formula_text(rgce: Seq<u8>, sheets: Seq<Seq<char>>, names: Seq<(Seq<char>, Seq<char>)>) -> Option<Seq<char>>;
pub open spec fn pairs(v: Seq<(String, String)>) -> Seq<(Seq<char>, Seq<char>)> { v.map_values(|p: (String, String)| (p.0@, p.1@)) }
// TRUSTED: stand-in with the signature of src/xlsb/mod.rs parse_formula: a function of its three arguments (its panics on hostile token
// bytes are findings of unit xlsbf, not repeated here)
#[verifier::external_body]
fn parse_formula(rgce: &[u8], sheets: &[String], names: &[(String, String)]) -> (r: Result<String, XlsbError>)
    ensures
        match formula_text(rgce@, strs(sheets@), pairs(names@)) { Some(t) => r is Ok && r->Ok_0@ == t, None => r is Err },
{ unimplemented!() }


// ---- A-std: Cow<str> as a str (Deref / AsRef / Display)
// TRUSTED: A-std -- `Cow::deref` / `Cow::as_ref` yield the borrowed or owned content; `cow_ref` names it
pub uninterp spec fn cow_ref<'a, 'b, B: ?Sized + ToOwned>(c: &'b Cow<'a, B>) -> &'b B;
pub assume_specification<'a, 'b, B: ?Sized + ToOwned>[ <Cow<'a, B> as Deref>::deref ](c: &'b Cow<'a, B>) -> (r: &'b B)
    ensures r == cow_ref(c);
pub assume_specification<'a, 'b, T: ?Sized + ToOwned>[ <Cow<'a, T> as AsRef<T>>::as_ref ](c: &'b Cow<'a, T>) -> (r: &'b T)
    ensures r == cow_ref(c);
// TRUSTED: A-std -- the str behind a Cow<str> has the Cow's text; `to_string()` (blanket impl over Display; "Display for Cow<B>
// delegates to the borrowed or owned value") builds the String with the same text
#[verifier::external_body]
pub proof fn axiom_cow_str()
    ensures
        forall|c: Cow<'_, str>| (#[trigger] cow_ref::<str>(&c))@ == cow_chars(c),
        forall|c: Cow<'_, str>, r: String| #[trigger] vstd::string::to_string_from_display_ensures::<Cow<'_, str>>(&c, r) ==> r@ == cow_chars(c),
{}
// TRUSTED: A-std -- a str is determined by its characters (needed because Verus compiles a string-literal pattern `Some("worksheets")`
// into an equality test between `&str` values, while contracts speak of character sequences)
#[verifier::external_body]
pub proof fn axiom_str_ext()
    ensures forall|a: &str, b: &str| #[trigger] a@ == #[trigger] b@ ==> a == b,
{}

// ---- the relationship table (xl/_rels/workbook.bin.rels): relationship Id (UTF-8 bytes) -> Target
/// target registered under the Id whose UTF-8 bytes are `key`
pub open spec fn rel_lookup(m: Map<Vec<u8>, String>, key: Seq<u8>) -> Option<Seq<char>> {
    if exists|k: Vec<u8>| m.contains_key(k) && k@ == key {
        Some(m[choose|k: Vec<u8>| m.contains_key(k) && k@ == key]@)
    } else { None }
}
// TRUSTED: the body is the real expression `relationships[relid.as_bytes()]` moved into a function: vstd gives `Index` of BTreeMap no
// specification (and `IndexSpecImpl` cannot be implemented for a foreign type).  std doc of `impl Index<&Q> for BTreeMap<K, V>`:
// "Returns a reference to the value corresponding to the supplied key. Panics if the key is not present in the BTreeMap."
// (keys compare by content: `Borrow<[u8]> for Vec<u8>`)
#[verifier::external_body]
fn verif_rel_index<'a>(m: &'a BTreeMap<Vec<u8>, String>, key: &[u8]) -> (r: &'a String)
    requires rel_lookup(m@, key@) is Some,
    ensures r@ == rel_lookup(m@, key@)->Some_0,
{ &m[key] }
// TRUSTED: the body is the real expression `format!("xl/{}", target)` (Verus accepts `format!` but knows nothing of the result)
#[verifier::external_body]
fn verif_xl_path(target: &String) -> (r: String)
    ensures r@ == "xl/"@ + target@,
{ format!("xl/{}", target) }

// =====================================================================================================================
// SPECIFICATION of xl/workbook.bin ([MS-XLSB] 2.1.7.61 Workbook part), first half: up to BrtEndBundleShs
// =====================================================================================================================
/// XLWideString at offset off of p: cch u32, then 2*cch bytes of UTF-16LE ([MS-XLSB] 2.5.168)
pub open spec fn ws_ok(p: Seq<u8>, off: int) -> bool { off >= 0 && p.len() >= off + 4 && p.len() >= off + 4 + 2 * le32(p.subrange(off, off + 4)) }
pub open spec fn ws_end(p: Seq<u8>, off: int) -> int { off + 4 + 2 * le32(p.subrange(off, off + 4)) }
pub open spec fn ws_text(p: Seq<u8>, off: int) -> Seq<char> { dec16(p.subrange(off + 4, ws_end(p, off))) }

/// a sheet as the workbook declares it
pub ghost struct SheetDecl { pub name: Seq<char>, pub path: Seq<char>, pub typ: SheetType, pub visible: SheetVisible }
/// BrtBundleSh.hsState ([MS-XLSB] 2.4.304 / ST_SheetState): 0 visible, 1 hidden, 2 very hidden
pub open spec fn hs_visible(hs: int) -> Option<SheetVisible> {
    if hs == 0 { Some(SheetVisible::Visible) } else if hs == 1 { Some(SheetVisible::Hidden) } else if hs == 2 { Some(SheetVisible::VeryHidden) } else { None }
}
/// the kind of a sheet is the kind of its part; the part's folder tells it ([MS-XLSB] 2.1.7: worksheets/, chartsheets/, dialogsheets/,
/// macrosheets/ hold the Worksheet, Chartsheet, Dialogsheet and Macro Sheet parts)
pub open spec fn folder_type(path: Seq<char>) -> Option<SheetType> {
    let segs = split_seq(path, '/');
    if segs.len() <= 1 { None }
    else if segs[1] == "worksheets"@ { Some(SheetType::WorkSheet) }
    else if segs[1] == "chartsheets"@ { Some(SheetType::ChartSheet) }
    else if segs[1] == "dialogsheets"@ { Some(SheetType::DialogSheet) }
    else if segs[1] == "macrosheets"@ { Some(SheetType::MacroSheet) }
    else { None }
}
/// BrtBundleSh ([MS-XLSB] 2.4.304): hsState u32 @0, iTabID u32 @4, strRelID XLNullableWideString @8, strName XLWideString after it.
/// Layout complete, the relationship id not NULL and present in the relationship part (a sheet without part, a dangling
/// relationship: outside the property's domain -- C06 only)
pub open spec fn bundle_wf(p: Seq<u8>, rels: Map<Vec<u8>, String>) -> bool {
    p.len() >= 12 && le32(p.subrange(8, 12)) != 0xFFFF_FFFF && ws_ok(p, 8) && ws_ok(p, ws_end(p, 8))
    && rel_lookup(rels, vstd::utf8::encode_utf8(ws_text(p, 8))) is Some
}
/// the sheet a well-formed BrtBundleSh declares; None: unknown hsState or part folder (the reader must reject)
pub open spec fn bundle_decl(p: Seq<u8>, rels: Map<Vec<u8>, String>) -> Option<SheetDecl> {
    match rel_lookup(rels, vstd::utf8::encode_utf8(ws_text(p, 8))) {
        None => None,
        Some(target) => {
            let path = "xl/"@ + target;
            match (hs_visible(le32(p.subrange(0, 4))), folder_type(path)) {
                (Some(v), Some(t)) => Some(SheetDecl { name: ws_text(p, ws_end(p, 8)), path, typ: t, visible: v }),
                _ => None,
            }
        }
    }
}
pub ghost struct WbSt { pub is_1904: bool, pub sheets: Seq<SheetDecl> }
pub enum Wb1 {
    /// BrtEndBundleShs reached: date system, sheets in record order, stream after that record
    Done { st: WbSt, rest: Seq<u8> },
    /// the stream ends (or a record is truncated) first
    Truncated,
    /// a BrtWbProp / BrtBundleSh whose payload is shorter than its layout (or NULL relationship id): outside the property's domain
    Malformed,
    /// a BrtBundleSh the reader must reject
    Rejected,
}
/// the record stream s of workbook.bin up to BrtEndBundleShs, written from the format: BrtWbProp 0x0099 sets the date system (bit 0 of
/// its flags = f1904), each BrtBundleSh 0x009C declares one sheet, BrtEndBundleShs 0x0090 ends the list, every other record kind is
/// passed over whole ([MS-XLSB] 2.1.4: a reader skips the size and payload of records it does not interpret)
#[verifier::opaque]
pub open spec fn wb1(s: Seq<u8>, st: WbSt, rels: Map<Vec<u8>, String>) -> Wb1 decreases s.len() {
    if !rec_ok(s) || rec_rest(s).len() >= s.len() { Wb1::Truncated }   // (second disjunct never true: lemma_rec_total)
    else if rec_typ(s) == 0x0099 {
        if rec_payload(s).len() < 1 { Wb1::Malformed }
        else { wb1(rec_rest(s), WbSt { is_1904: rec_payload(s)[0] % 2 == 1, ..st }, rels) }
    }
    else if rec_typ(s) == 0x009C {
        if !bundle_wf(rec_payload(s), rels) { Wb1::Malformed }
        else {
            match bundle_decl(rec_payload(s), rels) {
                None => Wb1::Rejected,
                Some(d) => wb1(rec_rest(s), WbSt { sheets: st.sheets.push(d), ..st }, rels),
            }
        }
    }
    else if rec_typ(s) == 0x0090 { Wb1::Done { st, rest: rec_rest(s) } }
    else { wb1(rec_rest(s), st, rels) }
}
/// one unfolding of wb1
proof fn lemma_wb1_step(s: Seq<u8>, st: WbSt, rels: Map<Vec<u8>, String>)
    ensures wb1(s, st, rels) == (
        if !rec_ok(s) || rec_rest(s).len() >= s.len() { Wb1::Truncated }
        else if rec_typ(s) == 0x0099 {
            if rec_payload(s).len() < 1 { Wb1::Malformed }
            else { wb1(rec_rest(s), WbSt { is_1904: rec_payload(s)[0] % 2 == 1, ..st }, rels) }
        }
        else if rec_typ(s) == 0x009C {
            if !bundle_wf(rec_payload(s), rels) { Wb1::Malformed }
            else {
                match bundle_decl(rec_payload(s), rels) {
                    None => Wb1::Rejected,
                    Some(d) => wb1(rec_rest(s), WbSt { sheets: st.sheets.push(d), ..st }, rels),
                }
            }
        }
        else if rec_typ(s) == 0x0090 { Wb1::Done { st, rest: rec_rest(s) } }
        else { wb1(rec_rest(s), st, rels) }),
{
    reveal(wb1);
}
/// the reader's two sheet lists show the declared sheets ds, in order: name, kind, visibility (metadata) and name, part path
pub open spec fn sheets_ok(ms: Seq<Sheet>, ss: Seq<(String, String)>, ds: Seq<SheetDecl>) -> bool {
    ms.len() == ds.len() && ss.len() == ds.len()
    && forall|i: int| 0 <= i < ds.len() ==> (#[trigger] ms[i]).name@ == ds[i].name && ms[i].typ == ds[i].typ && ms[i].visible == ds[i].visible
        && (#[trigger] ss[i]).0@ == ds[i].name && ss[i].1@ == ds[i].path
}
pub open spec fn wb_path() -> Seq<char> { "xl/workbook.bin"@ }
proof fn lemma_bit0(b: u8)
    ensures ((b & 0x1) != 0) == (b % 2 == 1),
{
    assert(((b & 0x1) != 0) == (b % 2 == 1)) by (bit_vector);
}

pub open spec fn strs(v: Seq<String>) -> Seq<Seq<char>> { v.map_values(|s: String| s@) }

//@@ impl src/xlsb/mod.rs Xlsb
//@@ fn src/xlsb/mod.rs Xlsb::read_shared_strings props=C19,C03 entry ret=r
//@@ sig
    ensures
        true,
//@@ end
//@@ fn src/xlsb/mod.rs Xlsb::read_workbook props=C16,C03,C14 entry ret=r
//@@ sig
    ensures
        //# C16.workbook_part_missing
        part_bytes(old(self).zip, wb_path()) is None ==> r is Err,
        //# C16.wbprop_1904
        ({ let w = wb1(part_bytes(old(self).zip, wb_path())->Some_0, WbSt { is_1904: old(self).is_1904, sheets: Seq::empty() }, relationships@);
           part_bytes(old(self).zip, wb_path()) is Some && w is Done && r is Ok ==> final(self).is_1904 == w->st.is_1904 }),
        //# C16.bundle_sheets_in_order
        ({ let w = wb1(part_bytes(old(self).zip, wb_path())->Some_0, WbSt { is_1904: old(self).is_1904, sheets: Seq::empty() }, relationships@);
           part_bytes(old(self).zip, wb_path()) is Some && w is Done && r is Ok ==>
             sheets_ok(final(self).metadata.sheets@.skip(old(self).metadata.sheets@.len() as int),
                       final(self).sheets@.skip(old(self).sheets@.len() as int), w->st.sheets) }),
        //# C16.sheets_frame
        r is Ok ==> final(self).metadata.sheets@.len() >= old(self).metadata.sheets@.len()
            && final(self).metadata.sheets@.take(old(self).metadata.sheets@.len() as int) == old(self).metadata.sheets@
            && final(self).sheets@.len() >= old(self).sheets@.len()
            && final(self).sheets@.take(old(self).sheets@.len() as int) == old(self).sheets@,
        //# C16.sheet_list_truncated_is_error
        ({ let w = wb1(part_bytes(old(self).zip, wb_path())->Some_0, WbSt { is_1904: old(self).is_1904, sheets: Seq::empty() }, relationships@);
           part_bytes(old(self).zip, wb_path()) is Some && (w is Truncated || w is Rejected) ==> r is Err }),
        //# C07.workbook_read_frame
        final(self).strings@ == old(self).strings@ && final(self).formats@ == old(self).formats@,
//@@ after /let mut buf = Vec::with_capacity\(1024\);/
        let ghost s0 = iter.rem();
        let ghost rels = relationships@;
        let ghost st0 = WbSt { is_1904: self.is_1904, sheets: Seq::empty() };
        let ghost mut st = st0;
        let ghost mut cur = s0;
        let ghost m0 = self.metadata.sheets@.len() as int;
        let ghost n0 = self.sheets@.len() as int;
        proof {
            assert(self.metadata.sheets@.skip(m0) =~= Seq::<Sheet>::empty());
            assert(self.sheets@.skip(n0) =~= Seq::<(String, String)>::empty());
            assert(self.metadata.sheets@.take(m0) =~= self.metadata.sheets@);
            assert(self.sheets@.take(n0) =~= self.sheets@);
        }
//@@ loop 0
            invariant_except_break
                // the reader is at a record boundary at the top of every iteration: `cur` only ever advances by whole records
                //# C03.unknown_records_skipped_whole
                cur == iter.rem(),
                buf@.len() == 0,
                wb1(s0, st0, rels) is Malformed || wb1(s0, st0, rels) == wb1(cur, st, rels),
            invariant
                self.is_1904 == st.is_1904,
                sheets_ok(self.metadata.sheets@.skip(m0), self.sheets@.skip(n0), st.sheets),
                self.metadata.sheets@.len() >= m0, self.metadata.sheets@.take(m0) == old(self).metadata.sheets@,
                self.sheets@.len() >= n0, self.sheets@.take(n0) == old(self).sheets@,
                m0 == old(self).metadata.sheets@.len(), n0 == old(self).sheets@.len(),
                self.strings@ == old(self).strings@, self.formats@ == old(self).formats@,
                self.extern_sheets@ == old(self).extern_sheets@,
                rels == relationships@,
            ensures
                wb1(s0, st0, rels) is Malformed || wb1(s0, st0, rels) is Truncated || wb1(s0, st0, rels) == (Wb1::Done { st, rest: cur }),
                cur == iter.rem(),
            decreases iter.rem().len(),
//@@ before /match iter\.read_type\(\)\? \{/
            let ghost h = cur;
            proof { lemma_wb1_step(h, st, rels); lemma_rec_total(h); }
//@@ after /let _ = iter\.fill_buffer\(&mut buf\)\?;/
                    proof {
                        lemma_rec_read(h);
                        assert(buf@ =~= rec_payload(h));
                        cur = rec_rest(h);
                    }
//@@ after /self\.is_1904 = [^;]*;/
                    proof {
                        lemma_bit0(buf@[0]);
                        // BrtWbProp: f1904 is bit 0 of the first flag byte
                        //# C16.wbprop_f1904_bit
                        assert(self.is_1904 == (rec_payload(h)[0] % 2 == 1));
                        st = WbSt { is_1904: rec_payload(h)[0] % 2 == 1, ..st };
                    }
//@@ after /let len = iter\.fill_buffer\(&mut buf\)\?;/#0of2
                    let ghost pl = rec_payload(h);
                    proof {
                        lemma_rec_read(h);
                        assert(buf@ =~= pl);
                        cur = rec_rest(h);
                    }
//@@ before /let name = wide_str\(&buf\[12 \+ rel_len/
                        proof {
                            axiom_cow_str(); axiom_cow_owned_str_all(); axiom_str_ext();
                        }
//@@ before /self\.metadata\.sheets\.push\(Sheet/
                        let ghost ms_before = self.metadata.sheets@;
                        let ghost ss_before = self.sheets@;
                        proof {
                            if pl.len() >= 12 {
                                assert(pl.subrange(8, len as int).subrange(0, 4) =~= pl.subrange(8, 12));
                                assert(buf@.subrange(0, 4) =~= pl.subrange(0, 4));
                            }
                            if bundle_wf(pl, rels) {
                                let e = ws_end(pl, 8);
                                assert(e == 12 + rel_len);
                                assert(buf@.subrange(12, 12 + rel_len as int) =~= pl.subrange(12, e));
                                assert(pl.subrange(e, len as int).subrange(0, 4) =~= pl.subrange(e, e + 4));
                                assert(pl.subrange(e, len as int).subrange(4, 4 + 2 * le32(pl.subrange(e, e + 4))) =~= pl.subrange(e + 4, ws_end(pl, e)));
                                // one sheet per BrtBundleSh, with the declared name, visibility, part path and kind
                                //# C16.bundle_sheet_name
                                assert(cow_chars(name) == ws_text(pl, e));
                                //# C16.bundle_sheet_visibility
                                assert(hs_visible(le32(pl.subrange(0, 4))) == Some(visible));
                                //# C16.bundle_sheet_path
                                assert(path@ == "xl/"@ + rel_lookup(rels, vstd::utf8::encode_utf8(ws_text(pl, 8)))->Some_0);
                                //# C16.bundle_sheet_kind
                                assert(folder_type(path@) == Some(typ));
                            }
                        }
//@@ after /self\.sheets\.push\(\(name\.into_owned\(\), path\)\);/
                        proof {
                            if bundle_wf(pl, rels) {
                                let d = bundle_decl(pl, rels)->Some_0;
                                assert(bundle_decl(pl, rels) is Some);
                                let ds = st.sheets.push(d);
                                assert(self.metadata.sheets@.skip(m0) =~= ms_before.skip(m0).push(self.metadata.sheets@.last()));
                                assert(self.sheets@.skip(n0) =~= ss_before.skip(n0).push(self.sheets@.last()));
                                assert(self.metadata.sheets@.take(m0) =~= ms_before.take(m0));
                                assert(self.sheets@.take(n0) =~= ss_before.take(n0));
                                //# C16.bundle_sheet_appended_in_order
                                assert(sheets_ok(self.metadata.sheets@.skip(m0), self.sheets@.skip(n0), ds));
                                st = WbSt { sheets: ds, ..st };
                            } else {
                                assert(self.metadata.sheets@.take(m0) =~= ms_before.take(m0));
                                assert(self.sheets@.take(n0) =~= ss_before.take(n0));
                                assert(self.metadata.sheets@.skip(m0) =~= ms_before.skip(m0).push(self.metadata.sheets@.last()));
                                assert(self.sheets@.skip(n0) =~= ss_before.skip(n0).push(self.sheets@.last()));
                            }
                        }
//@@ before /break,/
{ proof {
                    // BrtEndBundleShs is a record like any other: its size field (and payload) belong to it
                    cur = rec_rest(h);
                }
                //# C03.end_bundle_record_skipped_whole
                assert(iter.rem() == rec_rest(h));
//@@ after /=> break/
 }
//@@ loop 1
            decreases iter.rem().len(),
//@@ replace /path\.split\('.'\)\.nth\(1\)/ no assume_specification for provided trait methods (Iterator::nth of str::Split): the expression is moved into a trusted wrapper whose body is the same expression
verif_split_nth(&path, '/', 1)
//@@ replace /format!\("xl.\{\}", / Verus knows nothing of the String `format!` builds: the expression is moved into a trusted wrapper whose body is the same expression
verif_xl_path(&
//@@ replace /relationships\[([^\]]*)\]/ vstd has no specification for `Index` of BTreeMap: the expression is moved into a trusted wrapper whose body is the same expression
verif_rel_index(relationships, \g<1>)
//@@ replace /&buf\[0\] &/ Verus has no `BitAnd<u8> for &u8` (std: `&a & b` is `*a & b`); same index, same operand
buf[0] &
//@@ end
//@@ endimpl

} // verus!
fn main() {}
