//@@ unit props=C16,C10,C03,C14,C07,C19,C06,C11 rlimit=200
// Unit xlsbwb: the workbook-level record loops of the xlsb reader (src/xlsb/mod.rs): read_workbook, read_styles,
// read_shared_strings, worksheet_cells_reader, worksheet_formula -- verbatim text, against the ghost byte-stream model of unit xlsbrec.
#![allow(unused_imports, dead_code, unused_variables, unused_mut, unused_assignments)]
#![feature(allocator_api)]
use vstd::prelude::*;
use std::borrow::Cow;
use std::ops::Deref;
use std::io::{Read, Seek};
use std::collections::BTreeMap;
use vstd::std_specs::iter::IteratorSpec;

verus! {

global size_of usize == 8;   // checked by rustc against the target (x86_64)

// ---- stand-ins for foreign error payload types (opaque; never inspected by the verified code)
pub mod quick_xml {
    pub struct Error;
    pub mod events { pub mod attributes { pub struct AttrError; } }
    pub mod encoding { pub struct EncodingError; }
}
pub mod zip { pub mod result { pub struct ZipError; } }
pub mod vba { pub struct VbaError; }
#[verifier::external_type_specification] #[verifier::external_body] pub struct ExIoError(std::io::Error);
#[verifier::external_trait_specification] pub trait ExRead { type ExternalTraitSpecificationFor: std::io::Read; }
#[verifier::external_trait_specification] pub trait ExSeek { type ExternalTraitSpecificationFor: std::io::Seek; }

//@@ item src/xlsb/mod.rs enum XlsbError
// what `from_err!(std::io::Error, XlsbError, Io)` (macro of src/utils.rs) expands to, `e.into()` being the identity here
impl From<std::io::Error> for XlsbError { fn from(e: std::io::Error) -> (r: XlsbError) { XlsbError::Io(e) } }
impl vstd::std_specs::convert::FromSpecImpl<std::io::Error> for XlsbError {
    open spec fn obeys_from_spec() -> bool { true }
    open spec fn from_spec(e: std::io::Error) -> Self { XlsbError::Io(e) }
}

// ---- A-io: ghost byte-stream model of the reader behind RecordIter (mirror of unit xlsbrec)
// TRUSTED: A-io -- `ZipFile` / `BufReader` are stand-ins for zip::read::ZipFile and std::io::BufReader (never touched directly here)
#[verifier::external_body]
pub struct ZipFile<'a> { _p: core::marker::PhantomData<&'a ()> }
#[verifier::external_body]
#[verifier::reject_recursive_types(R)]
pub struct BufReader<R> { _p: core::marker::PhantomData<R> }
impl<R> BufReader<R> {
    /// bytes not yet consumed
    pub uninterp spec fn rem(&self) -> Seq<u8>;
    // TRUSTED: A-io (only needed so that the bodies of the external_body RecordIter methods below type-check)
    #[verifier::external_body]
    pub fn read_exact(&mut self, buf: &mut [u8]) -> (r: Result<(), std::io::Error>)
    { unimplemented!() }
}

// ---- [MS-XLSB] 2.1.4 Record (definitions copied from unit xlsbrec, where the readers are proved against them)
pub open spec fn lo7(b: u8) -> int { (b % 128) as int }
pub open spec fn cont(b: u8) -> bool { b >= 128 }
pub open spec fn pow128(i: nat) -> int decreases i { if i == 0 { 1 } else { 128 * pow128((i - 1) as nat) } }
pub open spec fn vsum(s: Seq<u8>, n: nat) -> int decreases n {
    if n == 0 { 0 } else { vsum(s, (n - 1) as nat) + lo7(s[n - 1]) * pow128((n - 1) as nat) }
}
pub open spec fn vhdr_from(s: Seq<u8>, i: nat, max: nat) -> nat decreases max - i {
    if i + 1 >= max || i >= s.len() || !cont(s[i as int]) { i + 1 } else { vhdr_from(s, i + 1, max) }
}
pub open spec fn vhdr(s: Seq<u8>, max: nat) -> nat { vhdr_from(s, 0, max) }
pub open spec fn vcomplete(s: Seq<u8>, max: nat) -> bool { s.len() >= vhdr(s, max) }
pub open spec fn varint_type(s: Seq<u8>) -> int { vsum(s, vhdr(s, 2)) }
pub open spec fn varint_len(s: Seq<u8>) -> int { vsum(s, vhdr(s, 4)) }
pub open spec fn rec_tl(s: Seq<u8>) -> nat { vhdr(s, 2) }
pub open spec fn rec_typ(s: Seq<u8>) -> int { varint_type(s) }
pub open spec fn rec_sl(s: Seq<u8>) -> nat { vhdr(s.skip(rec_tl(s) as int), 4) }
pub open spec fn rec_len(s: Seq<u8>) -> int { varint_len(s.skip(rec_tl(s) as int)) }
pub open spec fn rec_total(s: Seq<u8>) -> int { rec_tl(s) + rec_sl(s) + rec_len(s) }
/// a complete record is present at the head of s
pub open spec fn rec_ok(s: Seq<u8>) -> bool {
    vcomplete(s, 2) && vcomplete(s.skip(rec_tl(s) as int), 4) && s.len() >= rec_total(s)
}
pub open spec fn rec_payload(s: Seq<u8>) -> Seq<u8> { s.subrange((rec_tl(s) + rec_sl(s)) as int, rec_total(s)) }
pub open spec fn rec_rest(s: Seq<u8>) -> Seq<u8> { s.skip(rec_total(s)) }

proof fn lemma_pow128_pos(i: nat) ensures pow128(i) > 0 decreases i { if i > 0 { lemma_pow128_pos((i - 1) as nat); } }
proof fn lemma_vsum_nonneg(s: Seq<u8>, n: nat)
    ensures vsum(s, n) >= 0,
    decreases n,
{
    if n > 0 {
        lemma_vsum_nonneg(s, (n - 1) as nat);
        lemma_pow128_pos((n - 1) as nat);
        assert(lo7(s[n - 1]) * pow128((n - 1) as nat) >= 0) by (nonlinear_arith) requires lo7(s[n - 1]) >= 0, pow128((n - 1) as nat) > 0;
    }
}
proof fn lemma_vhdr_from_lb(s: Seq<u8>, i: nat, max: nat)
    ensures vhdr_from(s, i, max) >= i + 1, i + 1 <= max ==> vhdr_from(s, i, max) <= max,
    decreases max - i,
{
    if !(i + 1 >= max || i >= s.len() || !cont(s[i as int])) { lemma_vhdr_from_lb(s, i + 1, max); }
}
/// every record occupies at least 2 bytes
proof fn lemma_rec_total(s: Seq<u8>)
    ensures rec_total(s) >= 2, rec_tl(s) >= 1, rec_tl(s) <= 2, rec_sl(s) >= 1, rec_len(s) >= 0,
{
    lemma_vhdr_from_lb(s, 0, 2);
    lemma_vhdr_from_lb(s.skip(rec_tl(s) as int), 0, 4);
    lemma_vsum_nonneg(s.skip(rec_tl(s) as int), rec_sl(s));
}
/// the stream after n whole records (None if it ends, or a record is truncated, before that)
pub open spec fn skip_n(s: Seq<u8>, n: nat) -> Option<Seq<u8>> decreases n {
    if n == 0 { Some(s) } else if rec_ok(s) { skip_n(rec_rest(s), (n - 1) as nat) } else { None }
}
proof fn lemma_skip_n_step(s: Seq<u8>, n: nat)
    requires skip_n(s, n) is Some, rec_ok(skip_n(s, n)->Some_0),
    ensures skip_n(s, n + 1) == Some(rec_rest(skip_n(s, n)->Some_0)),
    decreases n,
{
    if n == 0 {
        assert(skip_n(rec_rest(s), 0) == Some(rec_rest(s)));
    } else {
        lemma_skip_n_step(rec_rest(s), (n - 1) as nat);
    }
}
/// what `read_type` followed by `fill_buffer` consume is exactly one record
proof fn lemma_rec_read(s: Seq<u8>)
    requires
        vcomplete(s, 2), vcomplete(s.skip(vhdr(s, 2) as int), 4),
        s.skip(vhdr(s, 2) as int).len() >= vhdr(s.skip(vhdr(s, 2) as int), 4) + varint_len(s.skip(vhdr(s, 2) as int)),
    ensures
        rec_ok(s), rec_total(s) >= 2, rec_rest(s).len() < s.len(), rec_len(s) >= 0,
        s.skip(rec_tl(s) as int).skip(rec_sl(s) + rec_len(s)) == rec_rest(s),
        s.skip(rec_tl(s) as int).subrange(rec_sl(s) as int, rec_sl(s) + rec_len(s)) == rec_payload(s),
{
    lemma_rec_total(s);
    lemma_vsum_nonneg(s.skip(rec_tl(s) as int), rec_sl(s));
    assert(s.skip(rec_tl(s) as int).skip(rec_sl(s) + rec_len(s)) =~= rec_rest(s));
    assert(s.skip(rec_tl(s) as int).subrange(rec_sl(s) as int, rec_sl(s) + rec_len(s)) =~= rec_payload(s));
}
/// t is a record boundary of the stream s: reached from s by consuming k whole records
pub open spec fn boundary(s: Seq<u8>, k: nat, t: Seq<u8>) -> bool { skip_n(s, k) == Some(t) }


// ---- "the first record of kind t" ([MS-XLSB] 2.1.4 framing): what next_skip_blocks must deliver
/// t opens a block the caller asked to skip
pub open spec fn is_start(bounds: Seq<(u16, Option<u16>)>, t: int) -> bool { exists|i: int| 0 <= i < bounds.len() && (#[trigger] bounds[i]).0 as int == t }
pub enum First {
    /// `at`: the stream positioned at the first record of the requested kind (all records before it are whole records of other kinds)
    Found { at: Seq<u8> },
    /// the stream ends, or a record is truncated, first
    Truncated,
    /// a record kind that opens a skip block comes first (block skipping is specified by unit xlsbrec only as "stops at a boundary")
    Blocked,
}
#[verifier::opaque]
pub open spec fn first_of(s: Seq<u8>, t: int, bounds: Seq<(u16, Option<u16>)>) -> First decreases s.len() {
    if !rec_ok(s) || rec_rest(s).len() >= s.len() { First::Truncated }
    else if rec_typ(s) == t { First::Found { at: s } }
    else if is_start(bounds, rec_typ(s)) { First::Blocked }
    else { first_of(rec_rest(s), t, bounds) }
}
proof fn lemma_first_of_step(s: Seq<u8>, t: int, bounds: Seq<(u16, Option<u16>)>)
    ensures first_of(s, t, bounds) == (
        if !rec_ok(s) || rec_rest(s).len() >= s.len() { First::Truncated }
        else if rec_typ(s) == t { First::Found { at: s } }
        else if is_start(bounds, rec_typ(s)) { First::Blocked }
        else { first_of(rec_rest(s), t, bounds) }),
{
    reveal(first_of);
}
//@@ item src/xlsb/mod.rs struct RecordIter
impl<'a> RecordIter<'a> {
    pub closed spec fn rem(&self) -> Seq<u8> { self.r.rem() }
}

// ---- A-zip: the zip container
// TRUSTED: A-zip -- `ZipArchive` is a stand-in for zip::read::ZipArchive; a part is a finite byte string determined by the archive
// and the part name; reading a part does not change what any part contains.
#[verifier::external_body]
#[verifier::accept_recursive_types(RS)]
pub struct ZipArchive<RS> { _p: core::marker::PhantomData<RS> }
/// bytes of the part `path` of the archive; None: the part cannot be opened (absent, or a zip-level error)
pub uninterp spec fn part_bytes<RS>(zip: ZipArchive<RS>, path: Seq<char>) -> Option<Seq<u8>>;
/// the part is absent (as opposed to unreadable)
pub uninterp spec fn part_absent<RS>(zip: ZipArchive<RS>, path: Seq<char>) -> bool;

impl<'a> RecordIter<'a> {
    // TRUSTED: A-zip -- stand-in with the signature of src/xlsb/mod.rs RecordIter::from_zip (`zip.by_name(path)` wrapped into a
    // BufReader): the iterator reads the bytes of the part from its start; absent part => Err(FileNotFound(path)), other zip error => Err(Zip)
    #[verifier::external_body]
    fn from_zip<RS: Read + Seek>(zip: &'a mut ZipArchive<RS>, path: &str) -> (r: Result<RecordIter<'a>, XlsbError>)
        ensures
            r is Ok <==> part_bytes(*old(zip), path@) is Some,
            r is Ok ==> r->Ok_0.rem() == part_bytes(*old(zip), path@)->Some_0,
            r is Err ==> (if part_absent(*old(zip), path@) { r->Err_0 is FileNotFound && r->Err_0->FileNotFound_0@ == path@ } else { r->Err_0 is Zip }),
            forall|p: Seq<char>| part_bytes(*final(zip), p) == part_bytes(*old(zip), p) && part_absent(*final(zip), p) == part_absent(*old(zip), p),
    { unimplemented!() }
}
//@@ impl src/xlsb/mod.rs RecordIter
// TRUSTED: proved in unit xlsbrec (C03.read_u8_ok, C03.read_u8_err); not called by the functions of this unit
//@@ fn src/xlsb/mod.rs RecordIter::read_u8 external_body ret=r
//@@ end
// TRUSTED: proved in unit xlsbrec (C03.varint_type, C03.type_advance, C03.type_err)
//@@ fn src/xlsb/mod.rs RecordIter::read_type external_body ret=r
//@@ sig
    ensures
        r is Ok ==> vcomplete(old(self).rem(), 2) && r->Ok_0 as int == varint_type(old(self).rem()),
        r is Ok ==> final(self).rem() == old(self).rem().skip(vhdr(old(self).rem(), 2) as int),
        r is Err ==> !vcomplete(old(self).rem(), 2),
//@@ end
// TRUSTED: proved in unit xlsbrec (C03.fill_len, fill_avail, fill_payload, fill_advance, fill_buf_frame, fill_err)
//@@ fn src/xlsb/mod.rs RecordIter::fill_buffer external_body ret=r
//@@ sig
    ensures
        r is Ok ==> vcomplete(old(self).rem(), 4) && r->Ok_0 as int == varint_len(old(self).rem()),
        r is Ok ==> old(self).rem().len() >= vhdr(old(self).rem(), 4) + varint_len(old(self).rem()),
        r is Ok ==> final(buf)@.len() >= r->Ok_0 && final(buf)@.subrange(0, r->Ok_0 as int)
            == old(self).rem().subrange(vhdr(old(self).rem(), 4) as int, vhdr(old(self).rem(), 4) + varint_len(old(self).rem())),
        r is Ok ==> final(self).rem() == old(self).rem().skip(vhdr(old(self).rem(), 4) + varint_len(old(self).rem())),
        r is Ok ==> final(buf)@.len() == (if old(buf)@.len() < r->Ok_0 { r->Ok_0 as int } else { old(buf)@.len() as int })
            && final(buf)@.skip(r->Ok_0 as int) =~= (if old(buf)@.len() < r->Ok_0 { Seq::<u8>::empty() } else { old(buf)@.skip(r->Ok_0 as int) }),
        r is Err ==> !vcomplete(old(self).rem(), 4) || old(self).rem().len() < vhdr(old(self).rem(), 4) + varint_len(old(self).rem()),
//@@ end
// next_skip_blocks: unit xlsbrec proves "stops at a record boundary, at a record of the requested type"; the workbook-level loops need
// WHICH record (the first one), so the function is put under a stronger contract here (callees read_type / fill_buffer as above).
//@@ fn src/xlsb/mod.rs RecordIter::next_skip_blocks props=C03,C19,C10 entry ret=r
//@@ sig
    ensures
        // the record returned is the FIRST record of the requested kind; everything before it is passed over whole
        //# C03,C19.skip_to_first_record
        first_of(old(self).rem(), record_type as int, bounds@) is Found ==> r is Ok && ({
            let t = first_of(old(self).rem(), record_type as int, bounds@)->at;
            r->Ok_0 as int == rec_len(t) && final(buf)@.len() >= r->Ok_0
            && final(buf)@.subrange(0, r->Ok_0 as int) == rec_payload(t) && final(self).rem() == rec_rest(t) }),
        //# C03,C19.skip_truncated_is_error
        first_of(old(self).rem(), record_type as int, bounds@) is Truncated ==> r is Err,
        // the buffer never shrinks (stale bytes of longer earlier records stay behind the payload) and holds the whole record returned
        //# C03.skip_buffer_monotone
        r is Ok ==> final(buf)@.len() >= old(buf)@.len(),
        //# C06.skip_record_within_buffer
        r is Ok ==> final(buf)@.len() >= r->Ok_0,
        // termination of the callers' loops: every successful call consumes at least one record
        //# C03,C06.skip_advances
        r is Ok ==> final(self).rem().len() < old(self).rem().len(),
//@@ body
        let ghost s0 = self.rem();
        let ghost mut cur = self.rem();
        let ghost b0 = buf@.len();
//@@ loop 0
            invariant
                //# C03.skip_scan_in_step
                s0 == old(self).rem(), b0 == old(buf)@.len(),
                cur == self.rem(),
                cur.len() <= s0.len(),
                buf@.len() >= b0,
                first_of(s0, record_type as int, bounds@) is Blocked || first_of(s0, record_type as int, bounds@) == first_of(cur, record_type as int, bounds@),
            decreases self.rem().len(),
//@@ before /let typ = /
            let ghost h = cur;
            proof { lemma_first_of_step(h, record_type as int, bounds@); lemma_rec_total(h); }
//@@ before /if typ == record_type/
            proof { lemma_rec_read(h); cur = rec_rest(h); }
//@@ closure 0
    -> (res: bool) ensures res == (b.0 == typ)
//@@ closure 1
    -> (res: Option<u16>) ensures res == b.1
//@@ before /while self\.read_type\(\)\? != end/
                proof { assert(is_start(bounds@, typ as int)); }
//@@ loop 1
                    invariant
                        //# C03.skip_block_in_step
                        s0 == old(self).rem(), b0 == old(buf)@.len(),
                        first_of(s0, record_type as int, bounds@) is Blocked,
                        buf@.len() >= b0,
                        cur == self.rem(),
                        cur.len() < h.len(),
                    decreases self.rem().len(),
//@@ after /let _ = self\.fill_buffer\(buf\)\?;/#0of2
                    proof { lemma_rec_read(cur); cur = rec_rest(cur); }
//@@ after /let _ = self\.fill_buffer\(buf\)\?;/#1of2
                proof { lemma_rec_read(cur); cur = rec_rest(cur); }
//@@ end
//@@ endimpl

// ---- A-enc: UTF-16LE decoding (encoding_rs::UTF_16LE.decode) and Cow<str> (mirror of unit xlsbrec)
// TRUSTED: A-enc -- `dec16` stands for encoding_rs' UTF-16LE decoder; nothing is assumed about it beyond being a function of the bytes.
pub uninterp spec fn dec16(s: Seq<u8>) -> Seq<char>;
// TRUSTED: A-enc (as in unit xlsbrec) -- `Encoding::decode` decodes "with BOM sniffing": an input that starts with the BOM of UTF-8,
// UTF-16LE or UTF-16BE loses it and is decoded in the BOM's encoding; `dec_sniffed` stands for that result (uninterpreted)
pub uninterp spec fn dec_sniffed(s: Seq<u8>) -> Seq<char>;
#[verifier::opaque]   // never unfolded here: only "the same bytes have the same answer" is used
pub open spec fn has_bom(s: Seq<u8>) -> bool {
    (s.len() >= 2 && s[0] == 0xFF && s[1] == 0xFE) || (s.len() >= 2 && s[0] == 0xFE && s[1] == 0xFF)
    || (s.len() >= 3 && s[0] == 0xEF && s[1] == 0xBB && s[2] == 0xBF)
}
/// the text of a Cow<str>
pub uninterp spec fn cow_chars(c: Cow<'_, str>) -> Seq<char>;
// TRUSTED: A-std -- Cow::into_owned returns the owned form of the same text
pub uninterp spec fn cow_owned<B: std::borrow::ToOwned + ?Sized>(c: Cow<'_, B>) -> <B as std::borrow::ToOwned>::Owned;
pub assume_specification<'a, B> [std::borrow::Cow::<'_, B>::into_owned] (c: std::borrow::Cow<'a, B>) -> (r: <B as std::borrow::ToOwned>::Owned)
    where B: std::marker::MetaSized + std::borrow::ToOwned + ?Sized,
    ensures r == cow_owned(c);
// TRUSTED: A-std -- `String == str` compares the contents (alloc::string: `impl PartialEq<str> for String`); vstd leaves the
// PartialEqSpec of this pair uninterpreted
#[verifier::external_body]
pub proof fn axiom_string_eq_str()
    ensures
        <String as vstd::std_specs::cmp::PartialEqSpec<str>>::obeys_eq_spec(),
        forall|a: String, b: &str| #[trigger] <String as vstd::std_specs::cmp::PartialEqSpec<str>>::eq_spec(&a, b) == (a@ == b@),
{}
// TRUSTED: A-std -- str::eq_ignore_ascii_case doc: "Checks that two strings are an ASCII case-insensitive match" (not called by the
// unchanged code; declared so that an edit of the sheet lookup to a case-insensitive comparison is decided instead of rejected)
pub uninterp spec fn ascii_lower(s: Seq<char>) -> Seq<char>;
pub assume_specification[ str::eq_ignore_ascii_case ](a: &str, b: &str) -> (r: bool)
    ensures r == (ascii_lower(a@) == ascii_lower(b@));
// TRUSTED: A-std -- Option::copied doc: "Maps an Option<&T> to an Option<T> by copying the contents of the option."
pub assume_specification<'a, T: Copy>[ Option::<&'a T>::copied ](o: Option<&'a T>) -> (r: Option<T>)
    ensures r == (match o { Some(x) => Some(*x), None => None });
// TRUSTED: A-std -- for B = str the owned form is the String with the same characters
#[verifier::external_body]
pub proof fn axiom_cow_owned_str_all()
    ensures forall|c: Cow<'_, str>| (#[trigger] cow_owned::<str>(c))@ == cow_chars(c),
{}
pub struct Encoding;
pub struct Utf16LeStandIn;
pub const UTF_16LE: Utf16LeStandIn = Utf16LeStandIn;
impl Utf16LeStandIn {
    // TRUSTED: A-enc
    #[verifier::external_body]
    pub fn decode<'a>(&self, bytes: &'a [u8]) -> (r: (Cow<'a, str>, Encoding, bool))
        ensures cow_chars(r.0) == (if has_bom(bytes@) { dec_sniffed(bytes@) } else { dec16(bytes@) }),
    { unimplemented!() }
    // TRUSTED: A-enc -- encoding_rs: "Decode complete input to Cow<'a, str> without BOM handling" (only needed so that the body of the
    // external_body wide_str type-checks)
    #[verifier::external_body]
    pub fn decode_without_bom_handling<'a>(&self, bytes: &'a [u8]) -> (r: (Cow<'a, str>, bool))
        ensures cow_chars(r.0) == dec16(bytes@),
    { unimplemented!() }
}

//@@ include common/bytes.rs

// TRUSTED: proved in unit xlsbrec (C03,C19.wide_str_err_iff, wide_str_err_shape, wide_str_len, wide_str_text)
//@@ fn src/xlsb/mod.rs wide_str external_body ret=r
//@@ sig
    ensures
        r is Err <==> (buf@.len() < 4 || buf@.len() < 4 + 2 * le32(buf@)),
        r is Err ==> r->Err_0 is WideStr && *final(str_len) == *old(str_len),
        r is Ok ==> *final(str_len) == 4 + 2 * le32(buf@),
        r is Ok ==> cow_chars(r->Ok_0) == dec16(buf@.subrange(4, 4 + 2 * le32(buf@))),
//@@ end

// (rule r4) the text of an error message: an arbitrary String
#[verifier::external_body] fn verif_opaque_string() -> String { String::new() }
// the length guard of the record readers: Err(Unrecognized) exactly when the record is shorter than what is about to be read
//@@ fn src/xlsb/mod.rs check_len props=C06 ret=r r4
//@@ sig
    ensures
        //# C06.check_len_err_iff_short
        r is Err <==> len < min,
        //# C06.check_len_err_shape
        r is Err ==> r->Err_0 is Unrecognized,
//@@ end

//@@ item src/lib.rs enum SheetType
//@@ item src/lib.rs enum SheetVisible
//@@ item src/lib.rs struct Sheet
//@@ item src/lib.rs struct Metadata
//@@ item src/lib.rs enum HeaderRow keep_attrs
//@@ item src/formats.rs enum CellFormat keep_attrs
//@@ item src/xlsb/mod.rs struct XlsbOptions
//@@ item src/xlsb/mod.rs struct Xlsb cfg_off=picture

// ---- A-chunks (same declaration as unit cfb)
#[verifier::external_type_specification] #[verifier::external_body] #[verifier::reject_recursive_types(T)]
pub struct ExChunks<'a, T: 'a>(std::slice::Chunks<'a, T>);
/// consecutive chunks of `n` elements, the last one possibly shorter
pub open spec fn chunk_seq<T>(s: Seq<T>, n: int) -> Seq<Seq<T>> {
    Seq::new(((s.len() + n - 1) / n) as nat, |i: int| s.subrange(i * n, if (i + 1) * n <= s.len() { (i + 1) * n } else { s.len() as int }))
}
// TRUSTED: (A-chunks) documented behaviour of `<[T]>::chunks`: panics for n == 0, otherwise yields `chunk_seq(s, n)` in order
pub assume_specification<T>[ <[T]>::chunks ](s: &[T], n: usize) -> (r: std::slice::Chunks<'_, T>)
    requires n != 0,
    ensures
        IteratorSpec::obeys_prophetic_iter_laws(&r),
        IteratorSpec::remaining(&r).len() == chunk_seq(s@, n as int).len(),
        forall|i: int| 0 <= i < chunk_seq(s@, n as int).len() ==> (#[trigger] IteratorSpec::remaining(&r)[i])@ == chunk_seq(s@, n as int)[i];

// ---- A-str: `str::split(char).nth(n)`
/// the substrings of s separated by the character sep, in order (std doc of str::split: "An iterator over substrings of this string
/// slice, separated by characters matched by a pattern")
pub uninterp spec fn split_seq(s: Seq<char>, sep: char) -> Seq<Seq<char>>;
// TRUSTED: the body is the real expression `path.split('/').nth(1)` moved into a function, because Verus has no `assume_specification`
// for provided trait methods (`Iterator::nth` of str::Split).  Iterator::nth doc: "Returns the nth element of the iterator [...] nth()
// will return None if n is greater than or equal to the length of the iterator."
#[verifier::external_body]
fn verif_split_nth<'a>(s: &'a str, sep: char, n: usize) -> (r: Option<&'a str>)
    ensures
        r is Some <==> n < split_seq(s@, sep).len(),
        r is Some ==> r->Some_0@ == split_seq(s@, sep)[n as int],
{ s.split(sep).nth(n) }

// ---- formula rendering (src/xlsb/mod.rs parse_formula; units xlsbf / formula): uninterpreted here
/// text of the token stream `rgce` given the extern-sheet names and the defined names declared so far; None: rejected
pub uninterp spec fn formula_text(rgce: Seq<u8>, sheets: Seq<Seq<char>>, names: Seq<(Seq<char>, Seq<char>)>) -> Option<Seq<char>>;
pub open spec fn pairs(v: Seq<(String, String)>) -> Seq<(Seq<char>, Seq<char>)> { v.map_values(|p: (String, String)| (p.0@, p.1@)) }
// TRUSTED: stand-in with the signature of src/xlsb/mod.rs parse_formula: a function of its three arguments (its panics on hostile token
// bytes are findings of unit xlsbf, not repeated here)
#[verifier::external_body]
fn parse_formula(rgce: &[u8], sheets: &[String], names: &[(String, String)]) -> (r: Result<String, XlsbError>)
    ensures
        match formula_text(rgce@, strs(sheets@), pairs(names@)) { Some(t) => r is Ok && r->Ok_0@ == t, None => r is Err },
{ unimplemented!() }


// ---- A-std: Cow<str> as a str (Deref / AsRef / Display)
// TRUSTED: A-std -- `Cow::deref` / `Cow::as_ref` yield the borrowed or owned content; `cow_ref` names it
pub uninterp spec fn cow_ref<'a, 'b, B: ?Sized + ToOwned>(c: &'b Cow<'a, B>) -> &'b B;
pub assume_specification<'a, 'b, B: ?Sized + ToOwned>[ <Cow<'a, B> as Deref>::deref ](c: &'b Cow<'a, B>) -> (r: &'b B)
    ensures r == cow_ref(c);
pub assume_specification<'a, 'b, T: ?Sized + ToOwned>[ <Cow<'a, T> as AsRef<T>>::as_ref ](c: &'b Cow<'a, T>) -> (r: &'b T)
    ensures r == cow_ref(c);
// TRUSTED: A-std -- the str behind a Cow<str> has the Cow's text; `to_string()` (blanket impl over Display; "Display for Cow<B>
// delegates to the borrowed or owned value") builds the String with the same text
#[verifier::external_body]
pub proof fn axiom_cow_str()
    ensures
        forall|c: Cow<'_, str>| (#[trigger] cow_ref::<str>(&c))@ == cow_chars(c),
        forall|c: Cow<'_, str>, r: String| #[trigger] vstd::string::to_string_from_display_ensures::<Cow<'_, str>>(&c, r) ==> r@ == cow_chars(c),
{}
// TRUSTED: A-std -- a str is determined by its characters (needed because Verus compiles a string-literal pattern `Some("worksheets")`
// into an equality test between `&str` values, while contracts speak of character sequences)
#[verifier::external_body]
pub proof fn axiom_str_ext(lit: &str)
    ensures forall|a: &str| #[trigger] a@ == lit@ ==> a == lit,
{}

// ---- the relationship table (xl/_rels/workbook.bin.rels): relationship Id (UTF-8 bytes) -> Target
/// target registered under the Id whose UTF-8 bytes are `key`
pub open spec fn rel_lookup(m: Map<Vec<u8>, String>, key: Seq<u8>) -> Option<Seq<char>> {
    if exists|k: Vec<u8>| #[trigger] m.contains_key(k) && k@ == key {
        Some(m[choose|k: Vec<u8>| #[trigger] m.contains_key(k) && k@ == key]@)
    } else { None }
}
// TRUSTED: the body is the real expression `relationships.get(relid.as_bytes())` moved into a function: vstd's specification of
// BTreeMap::get demands `obeys_cmp::<K>()` / `borrowed_key_ordering_matches::<K, Q>()`, which it does not provide for Vec<u8> / [u8].
// std doc of BTreeMap::get: "Returns a reference to the value corresponding to the key. The key may be any borrowed form of the map's
// key type, but the ordering on the borrowed form must match the ordering on the key type." (keys compare by content: `Borrow<[u8]> for Vec<u8>`)
#[verifier::external_body]
fn verif_rel_get<'a>(m: &'a BTreeMap<Vec<u8>, String>, key: &[u8]) -> (r: Option<&'a String>)
    ensures
        r is Some <==> rel_lookup(m@, key@) is Some,
        r is Some ==> r->Some_0@ == rel_lookup(m@, key@)->Some_0,
{ m.get(key) }
// TRUSTED: the body is the real expression `format!("xl/{}", target)` (Verus accepts `format!` but knows nothing of the result)
#[verifier::external_body]
fn verif_xl_path(target: &String) -> (r: String)
    ensures r@ == "xl/"@ + target@,
{ format!("xl/{}", target) }

// =====================================================================================================================
// SPECIFICATION of xl/workbook.bin ([MS-XLSB] 2.1.7.61 Workbook part), first half: up to BrtEndBundleShs
// =====================================================================================================================
/// XLWideString at offset off of p: cch u32, then 2*cch bytes of UTF-16LE ([MS-XLSB] 2.5.168)
pub open spec fn ws_ok(p: Seq<u8>, off: int) -> bool { off >= 0 && p.len() >= off + 4 && p.len() >= off + 4 + 2 * le32(p.subrange(off, off + 4)) }
pub open spec fn ws_end(p: Seq<u8>, off: int) -> int { off + 4 + 2 * le32(p.subrange(off, off + 4)) }
pub open spec fn ws_text(p: Seq<u8>, off: int) -> Seq<char> { dec16(p.subrange(off + 4, ws_end(p, off))) }

/// a sheet as the workbook declares it
pub ghost struct SheetDecl { pub name: Seq<char>, pub path: Seq<char>, pub typ: SheetType, pub visible: SheetVisible }
/// BrtBundleSh.hsState ([MS-XLSB] 2.4.304 / ST_SheetState): 0 visible, 1 hidden, 2 very hidden
pub open spec fn hs_visible(hs: int) -> Option<SheetVisible> {
    if hs == 0 { Some(SheetVisible::Visible) } else if hs == 1 { Some(SheetVisible::Hidden) } else if hs == 2 { Some(SheetVisible::VeryHidden) } else { None }
}
/// the kind of a sheet is the kind of its part; the part's folder tells it ([MS-XLSB] 2.1.7: worksheets/, chartsheets/, dialogsheets/,
/// macrosheets/ hold the Worksheet, Chartsheet, Dialogsheet and Macro Sheet parts)
pub open spec fn folder_type(path: Seq<char>) -> Option<SheetType> {
    let segs = split_seq(path, '/');
    if segs.len() <= 1 { None }
    else if segs[1] == "worksheets"@ { Some(SheetType::WorkSheet) }
    else if segs[1] == "chartsheets"@ { Some(SheetType::ChartSheet) }
    else if segs[1] == "dialogsheets"@ { Some(SheetType::DialogSheet) }
    else if segs[1] == "macrosheets"@ { Some(SheetType::MacroSheet) }
    else { None }
}
/// BrtBundleSh ([MS-XLSB] 2.4.304): hsState u32 @0, iTabID u32 @4, strRelID XLNullableWideString @8, strName XLWideString after it.
/// Layout complete, the relationship id not NULL and present in the relationship part (a sheet without part, a dangling
/// relationship: outside the property's domain -- C06 only)
pub open spec fn bundle_wf(p: Seq<u8>, rels: Map<Vec<u8>, String>) -> bool {
    p.len() >= 12 && le32(p.subrange(8, 12)) != 0xFFFF_FFFF && ws_ok(p, 8) && ws_ok(p, ws_end(p, 8))
    && rel_lookup(rels, vstd::utf8::encode_utf8(ws_text(p, 8))) is Some
}
/// the record ends before its fixed part, or before one of the two strings it declares (a NULL relationship id has no characters)
pub open spec fn bundle_short(p: Seq<u8>) -> bool {
    p.len() < 12 || (le32(p.subrange(8, 12)) != 0xFFFF_FFFF && (!ws_ok(p, 8) || !ws_ok(p, ws_end(p, 8))))
}
/// the sheet a well-formed BrtBundleSh declares; None: unknown hsState or part folder (the reader must reject)
pub open spec fn bundle_decl(p: Seq<u8>, rels: Map<Vec<u8>, String>) -> Option<SheetDecl> {
    match rel_lookup(rels, vstd::utf8::encode_utf8(ws_text(p, 8))) {
        None => None,
        Some(target) => {
            let path = "xl/"@ + target;
            match (hs_visible(le32(p.subrange(0, 4))), folder_type(path)) {
                (Some(v), Some(t)) => Some(SheetDecl { name: ws_text(p, ws_end(p, 8)), path, typ: t, visible: v }),
                _ => None,
            }
        }
    }
}
pub ghost struct WbSt { pub is_1904: bool, pub sheets: Seq<SheetDecl> }
pub enum Wb1 {
    /// BrtEndBundleShs reached: date system, sheets in record order, stream after that record
    Done { st: WbSt, rest: Seq<u8> },
    /// the stream ends (or a record is truncated) first
    Truncated,
    /// a BrtWbProp / BrtBundleSh whose payload is shorter than its layout: the reader must reject
    Short,
    /// a BrtBundleSh with a NULL or dangling relationship id: outside the property's domain
    Malformed,
    /// a BrtBundleSh the reader must reject
    Rejected,
}
/// the record stream s of workbook.bin up to BrtEndBundleShs, written from the format: BrtWbProp 0x0099 sets the date system (bit 0 of
/// its flags = f1904), each BrtBundleSh 0x009C declares one sheet, BrtEndBundleShs 0x0090 ends the list, every other record kind is
/// passed over whole ([MS-XLSB] 2.1.4: a reader skips the size and payload of records it does not interpret)
#[verifier::opaque]
pub open spec fn wb1(s: Seq<u8>, st: WbSt, rels: Map<Vec<u8>, String>) -> Wb1 decreases s.len() {
    if !rec_ok(s) || rec_rest(s).len() >= s.len() { Wb1::Truncated }   // (second disjunct never true: lemma_rec_total)
    else if rec_typ(s) == 0x0099 {
        if rec_payload(s).len() < 1 { Wb1::Short }
        else { wb1(rec_rest(s), WbSt { is_1904: rec_payload(s)[0] % 2 == 1, ..st }, rels) }
    }
    else if rec_typ(s) == 0x009C {
        if bundle_short(rec_payload(s)) { Wb1::Short }
        else if !bundle_wf(rec_payload(s), rels) { Wb1::Malformed }
        else {
            match bundle_decl(rec_payload(s), rels) {
                None => Wb1::Rejected,
                Some(d) => wb1(rec_rest(s), WbSt { sheets: st.sheets.push(d), ..st }, rels),
            }
        }
    }
    else if rec_typ(s) == 0x0090 { Wb1::Done { st, rest: rec_rest(s) } }
    else { wb1(rec_rest(s), st, rels) }
}
/// one unfolding of wb1
proof fn lemma_wb1_step(s: Seq<u8>, st: WbSt, rels: Map<Vec<u8>, String>)
    ensures wb1(s, st, rels) == (
        if !rec_ok(s) || rec_rest(s).len() >= s.len() { Wb1::Truncated }
        else if rec_typ(s) == 0x0099 {
            if rec_payload(s).len() < 1 { Wb1::Short }
            else { wb1(rec_rest(s), WbSt { is_1904: rec_payload(s)[0] % 2 == 1, ..st }, rels) }
        }
        else if rec_typ(s) == 0x009C {
            if bundle_short(rec_payload(s)) { Wb1::Short }
            else if !bundle_wf(rec_payload(s), rels) { Wb1::Malformed }
            else {
                match bundle_decl(rec_payload(s), rels) {
                    None => Wb1::Rejected,
                    Some(d) => wb1(rec_rest(s), WbSt { sheets: st.sheets.push(d), ..st }, rels),
                }
            }
        }
        else if rec_typ(s) == 0x0090 { Wb1::Done { st, rest: rec_rest(s) } }
        else { wb1(rec_rest(s), st, rels) }),
{
    reveal(wb1);
}
/// the reader's two sheet lists show the declared sheets ds, in order: name, kind, visibility (metadata) and name, part path
pub open spec fn sheets_ok(ms: Seq<Sheet>, ss: Seq<(String, String)>, ds: Seq<SheetDecl>) -> bool {
    ms.len() == ds.len() && ss.len() == ds.len()
    && (forall|i: int| 0 <= i < ds.len() ==> (#[trigger] ms[i]).name@ == ds[i].name && ms[i].typ == ds[i].typ && ms[i].visible == ds[i].visible)
    && (forall|i: int| 0 <= i < ds.len() ==> (#[trigger] ss[i]).0@ == ds[i].name && ss[i].1@ == ds[i].path)
}
pub open spec fn wb_path() -> Seq<char> { "xl/workbook.bin"@ }
pub open spec fn decl_names(ds: Seq<SheetDecl>) -> Seq<Seq<char>> { ds.map_values(|d: SheetDecl| d.name) }
proof fn lemma_bit0(b: u8)
    ensures ((b & 0x1) != 0) == (b % 2 == 1),
{
    assert(((b & 0x1) != 0) == (b % 2 == 1)) by (bit_vector);
}


/// le32 looks at the first four bytes only
proof fn lemma_le32_sub(p: Seq<u8>, a: int, b: int)
    requires 0 <= a, a + 4 <= b <= p.len(),
    ensures le32(p.subrange(a, b)) == le32(p.subrange(a, a + 4)),
{
    let x = p.subrange(a, b); let y = p.subrange(a, a + 4);
    assert(x[0] == y[0] && x[1] == y[1] && x[2] == y[2] && x[3] == y[3]);
}
/// what `wide_str(&buf[off..len])` sees is the XLWideString at offset off of the payload
proof fn lemma_ws_sub(p: Seq<u8>, off: int, sub: Seq<u8>)
    requires 0 <= off, off + 4 <= p.len(), sub == p.subrange(off, p.len() as int),
    ensures
        le32(sub) == le32(p.subrange(off, off + 4)),
        (sub.len() >= 4 + 2 * le32(sub)) == ws_ok(p, off),
        ws_ok(p, off) ==> sub.subrange(4, 4 + 2 * le32(sub)) == p.subrange(off + 4, ws_end(p, off)),
{
    lemma_le32_sub(p, off, p.len() as int);
    if ws_ok(p, off) {
        assert(sub.subrange(4, 4 + 2 * le32(sub)) =~= p.subrange(off + 4, ws_end(p, off)));
    }
}
/// the byte-offset bookkeeping of the BrtBundleSh arm, in terms of the record layout
proof fn lemma_bundle_arm(pl: Seq<u8>, rl32: int, relid_bytes: Seq<u8>, hs: int, name_sub: Seq<u8>)
    requires
        pl.len() >= 12 ==> rl32 == le32(pl.subrange(8, pl.len() as int)),
        relid_bytes == pl.subrange(12, 12 + 2 * rl32),
        hs == le32(pl),
        name_sub == pl.subrange(12 + 2 * rl32, pl.len() as int),
    ensures
        // what the reader's checks establish: the record is not short
        pl.len() >= 12 && rl32 != 0xFFFF_FFFF && pl.len() >= 12 + 2 * rl32 && name_sub.len() >= 4 && name_sub.len() >= 4 + 2 * le32(name_sub)
            ==> !bundle_short(pl),
        pl.len() >= 12 && ws_ok(pl, 8) && ws_ok(pl, ws_end(pl, 8)) ==> {
            &&& rl32 == le32(pl.subrange(8, 12)) && ws_end(pl, 8) == 12 + 2 * rl32
            &&& ws_text(pl, 8) == dec16(relid_bytes)
            &&& hs == le32(pl.subrange(0, 4))
            &&& name_sub.len() >= 4 + 2 * le32(name_sub)
            &&& ws_text(pl, ws_end(pl, 8)) == dec16(name_sub.subrange(4, 4 + 2 * le32(name_sub)))
        },
{
    if pl.len() >= 12 && rl32 != 0xFFFF_FFFF && pl.len() >= 12 + 2 * rl32 && name_sub.len() >= 4 && name_sub.len() >= 4 + 2 * le32(name_sub) {
        lemma_le32_sub(pl, 8, pl.len() as int);
        assert(ws_ok(pl, 8) && ws_end(pl, 8) == 12 + 2 * rl32);
        lemma_ws_sub(pl, ws_end(pl, 8), name_sub);
    }
    if pl.len() >= 12 && ws_ok(pl, 8) && ws_ok(pl, ws_end(pl, 8)) {
        lemma_le32_sub(pl, 8, pl.len() as int);
        lemma_le32_sub(pl, 0, pl.len() as int);
        assert(pl.subrange(0, pl.len() as int) =~= pl);
        lemma_ws_sub(pl, ws_end(pl, 8), name_sub);
    }
}
/// the byte-offset bookkeeping of the BrtName arm
proof fn lemma_name_arm(pl: Seq<u8>, b: Seq<u8>, name_sub: Seq<u8>, str_len: int, cce_sub: Seq<u8>, rgce: Seq<u8>)
    requires
        b.len() >= pl.len(), b.subrange(0, pl.len() as int) == pl,
        name_sub == b.subrange(9, pl.len() as int),
        name_sub.len() >= 4 ==> str_len == 4 + 2 * le32(name_sub),
        cce_sub == b.skip(9 + str_len),
        rgce == b.subrange(13 + str_len, 13 + str_len + le32(cce_sub)),
    ensures
        // what the reader's checks establish: the record is not short
        pl.len() >= 9 && name_sub.len() >= 4 && name_sub.len() >= 4 + 2 * le32(name_sub) && pl.len() >= 13 + str_len
            && pl.len() >= 13 + str_len + le32(cce_sub) ==> name_wf(pl),
        name_wf(pl) ==> {
            &&& name_sub.len() >= 4 + 2 * le32(name_sub)
            &&& ws_text(pl, 9) == dec16(name_sub.subrange(4, 4 + 2 * le32(name_sub)))
            &&& rgce == name_rgce(pl)
        },
{
    if pl.len() >= 9 && name_sub.len() >= 4 && name_sub.len() >= 4 + 2 * le32(name_sub) && pl.len() >= 13 + str_len
        && pl.len() >= 13 + str_len + le32(cce_sub) {
        assert(name_sub =~= pl.subrange(9, pl.len() as int));
        lemma_ws_sub(pl, 9, name_sub);
        let e = ws_end(pl, 9);
        assert(ws_ok(pl, 9) && e == 9 + str_len);
        assert(cce_sub[0] == pl.subrange(e, e + 4)[0] && cce_sub[1] == pl.subrange(e, e + 4)[1] && cce_sub[2] == pl.subrange(e, e + 4)[2] && cce_sub[3] == pl.subrange(e, e + 4)[3]) by {
            assert(b.subrange(0, pl.len() as int)[e] == b[e] && b.subrange(0, pl.len() as int)[e + 1] == b[e + 1]
                && b.subrange(0, pl.len() as int)[e + 2] == b[e + 2] && b.subrange(0, pl.len() as int)[e + 3] == b[e + 3]);
        }
        assert(name_wf(pl));
    }
    if name_wf(pl) {
        assert(name_sub =~= pl.subrange(9, pl.len() as int));
        lemma_ws_sub(pl, 9, name_sub);
        let e = ws_end(pl, 9);
        assert(e == 9 + str_len);
        assert(cce_sub[0] == pl.subrange(e, e + 4)[0] && cce_sub[1] == pl.subrange(e, e + 4)[1] && cce_sub[2] == pl.subrange(e, e + 4)[2] && cce_sub[3] == pl.subrange(e, e + 4)[3]) by {
            assert(b.subrange(0, pl.len() as int)[e] == b[e] && b.subrange(0, pl.len() as int)[e + 1] == b[e + 1]
                && b.subrange(0, pl.len() as int)[e + 2] == b[e + 2] && b.subrange(0, pl.len() as int)[e + 3] == b[e + 3]);
        }
        assert(rgce =~= name_rgce(pl)) by {
            let n = le32(cce_sub);
            assert forall|j: int| 0 <= j < n implies #[trigger] rgce[j] == name_rgce(pl)[j] by {
                assert(b.subrange(0, pl.len() as int)[e + 4 + j] == b[e + 4 + j]);
            }
        }
    }
}
/// appending one sheet to both lists keeps them in step with the declarations
proof fn lemma_sheets_push(ms0: Seq<Sheet>, ss0: Seq<(String, String)>, ms: Seq<Sheet>, ss: Seq<(String, String)>, m0: int, n0: int, ds: Seq<SheetDecl>, d: SheetDecl)
    requires
        0 <= m0 <= ms0.len(), 0 <= n0 <= ss0.len(),
        sheets_ok(ms0.skip(m0), ss0.skip(n0), ds),
        ms.len() == ms0.len() + 1, ms.drop_last() == ms0, ss.len() == ss0.len() + 1, ss.drop_last() == ss0,
        ms.last().name@ == d.name, ms.last().typ == d.typ, ms.last().visible == d.visible, ss.last().0@ == d.name, ss.last().1@ == d.path,
    ensures
        sheets_ok(ms.skip(m0), ss.skip(n0), ds.push(d)), ms.take(m0) == ms0.take(m0), ss.take(n0) == ss0.take(n0),
{
    assert(ms =~= ms0.push(ms.last()));
    assert(ss =~= ss0.push(ss.last()));
    assert(ms.take(m0) =~= ms0.take(m0));
    assert(ss.take(n0) =~= ss0.take(n0));
    let a0 = ms0.skip(m0); let b0 = ss0.skip(n0);
    let a = ms.skip(m0); let b = ss.skip(n0); let e = ds.push(d);
    assert(a =~= a0.push(ms.last()));
    assert(b =~= b0.push(ss.last()));
    assert forall|i: int| 0 <= i < e.len() implies (#[trigger] a[i]).name@ == e[i].name && a[i].typ == e[i].typ && a[i].visible == e[i].visible by {
        if i < ds.len() { assert(a[i] == a0[i]); }
    }
    assert forall|i: int| 0 <= i < e.len() implies (#[trigger] b[i]).0@ == e[i].name && b[i].1@ == e[i].path by {
        if i < ds.len() { assert(b[i] == b0[i]); }
    }
}
/// the sheet names after the sheet list has been read: the old ones, then the declared ones
proof fn lemma_sheet_names(old_ss: Seq<(String, String)>, ms: Seq<Sheet>, ss: Seq<(String, String)>, n0: int, ds: Seq<SheetDecl>)
    requires n0 == old_ss.len(), ss.len() >= n0, ss.take(n0) == old_ss, sheets_ok(ms, ss.skip(n0), ds),
    ensures names_of(ss) == names_of(old_ss) + decl_names(ds),
{
    let a = names_of(old_ss); let b = decl_names(ds);
    let c = names_of(ss);
    assert(c.len() == a.len() + b.len());
    assert forall|i: int| 0 <= i < c.len() implies #[trigger] c[i] == (a + b)[i] by {
        if i < n0 { assert(ss.take(n0)[i] == ss[i]); assert(a[i] == old_ss[i].0@); }
        else {
            assert(ss.skip(n0)[i - n0] == ss[i]);
            assert(b[i - n0] == ds[i - n0].name);
        }
    }
    assert(c =~= a + b);
}
/// the cXti chunks of 12 bytes behind the count (`buf[4..4 + cxti * 12].chunks(12)`) are the XTI entries of a well-formed
/// BrtExternSheet payload, whatever stale bytes follow the payload in the buffer
proof fn lemma_xti_chunks(b: Seq<u8>, pl: Seq<u8>)
    requires xti_wf(pl), b.len() >= pl.len(), b.subrange(0, pl.len() as int) == pl,
    ensures
        chunk_seq(b.subrange(4, 4 + 12 * le32(pl.subrange(0, 4))), 12).len() == le32(pl.subrange(0, 4)),
        forall|k: int| 0 <= k < le32(pl.subrange(0, 4)) ==> (#[trigger] chunk_seq(b.subrange(4, 4 + 12 * le32(pl.subrange(0, 4))), 12)[k]).len() == 12
            && chunk_seq(b.subrange(4, 4 + 12 * le32(pl.subrange(0, 4))), 12)[k].subrange(4, 8) == pl.subrange(4 + 12 * k + 4, 4 + 12 * k + 8),
{
    let n = le32(pl.subrange(0, 4));
    let t = b.subrange(4, 4 + 12 * n);
    assert(t.len() == 12 * n);
    assert((t.len() + 12 - 1) / 12 == n) by (nonlinear_arith) requires t.len() == 12 * n, n >= 0;
    assert forall|k: int| 0 <= k < n implies (#[trigger] chunk_seq(t, 12)[k]).len() == 12
        && chunk_seq(t, 12)[k].subrange(4, 8) == pl.subrange(4 + 12 * k + 4, 4 + 12 * k + 8) by {
        assert((k + 1) * 12 <= t.len()) by (nonlinear_arith) requires t.len() == 12 * n, k < n;
        assert(k * 12 >= 0) by (nonlinear_arith) requires k >= 0;
        assert(chunk_seq(t, 12)[k] == t.subrange(k * 12, (k + 1) * 12));
        assert(t.subrange(k * 12, (k + 1) * 12).subrange(4, 8) =~= pl.subrange(4 + 12 * k + 4, 4 + 12 * k + 8)) by {
            let x = t.subrange(k * 12, (k + 1) * 12).subrange(4, 8);
            let y = pl.subrange(4 + 12 * k + 4, 4 + 12 * k + 8);
            assert forall|j: int| 0 <= j < 4 implies #[trigger] x[j] == y[j] by {
                assert(b.subrange(0, pl.len() as int)[4 + 12 * k + 4 + j] == b[4 + 12 * k + 4 + j]);
            }
        }
    }
}

// ---- witnesses: the specification functions are satisfiable / mean what the format says on concrete bytes; every `requires` has an instance
/// BrtEndBundleShs as Excel writes it (type 90 01, size 00) ends the sheet list at once: the declared sheets are those collected so far
proof fn witness_wb1_end(st: WbSt, rels: Map<Vec<u8>, String>)
    ensures wb1(seq![0x90u8, 0x01u8, 0x00u8], st, rels) == (Wb1::Done { st, rest: Seq::<u8>::empty() }),
{
    let s = seq![0x90u8, 0x01u8, 0x00u8];
    assert(vhdr(seq![0x90u8, 0x01u8, 0x00u8], 2) == 2 && varint_type(seq![0x90u8, 0x01u8, 0x00u8]) == 0x90) by (compute);
    assert(s.skip(2) =~= seq![0x00u8]);
    assert(vhdr(seq![0x00u8], 4) == 1 && varint_len(seq![0x00u8]) == 0) by (compute);
    assert(rec_sl(s) == 1 && rec_len(s) == 0 && rec_total(s) == 3);
    assert(rec_ok(s));
    assert(rec_rest(s) =~= Seq::<u8>::empty());
    lemma_wb1_step(s, st, rels);
}
/// BrtWbProp with f1904 set (type 99 01, size 01, flags 01) followed by BrtEndBundleShs: the 1904 date system is reported
proof fn witness_wb1_1904(rels: Map<Vec<u8>, String>)
    ensures ({ let w = wb1(seq![0x99u8, 0x01u8, 0x01u8, 0x01u8, 0x90u8, 0x01u8, 0x00u8], WbSt { is_1904: false, sheets: Seq::empty() }, rels);
               w is Done && w->st.is_1904 && w->st.sheets.len() == 0 }),
{
    let s = seq![0x99u8, 0x01u8, 0x01u8, 0x01u8, 0x90u8, 0x01u8, 0x00u8];
    let st = WbSt { is_1904: false, sheets: Seq::<SheetDecl>::empty() };
    assert(vhdr(seq![0x99u8, 0x01u8, 0x01u8, 0x01u8, 0x90u8, 0x01u8, 0x00u8], 2) == 2
        && varint_type(seq![0x99u8, 0x01u8, 0x01u8, 0x01u8, 0x90u8, 0x01u8, 0x00u8]) == 0x99) by (compute);
    assert(s.skip(2) =~= seq![0x01u8, 0x01u8, 0x90u8, 0x01u8, 0x00u8]);
    assert(vhdr(seq![0x01u8, 0x01u8, 0x90u8, 0x01u8, 0x00u8], 4) == 1 && varint_len(seq![0x01u8, 0x01u8, 0x90u8, 0x01u8, 0x00u8]) == 1) by (compute);
    assert(rec_sl(s) == 1 && rec_len(s) == 1 && rec_total(s) == 4);
    assert(rec_ok(s));
    assert(rec_payload(s) =~= seq![0x01u8]);
    assert(rec_rest(s) =~= seq![0x90u8, 0x01u8, 0x00u8]);
    lemma_wb1_step(s, st, rels);
    witness_wb1_end(WbSt { is_1904: true, ..st }, rels);
}
/// instances of the preconditions declared in this unit
proof fn witness_requires(k: Vec<u8>, v: String)
    ensures
        // a relationship table that defines the id
        rel_lookup(Map::<Vec<u8>, String>::empty().insert(k, v), k@) is Some,
        // wide_str: an empty string
        seq![0u8, 0u8, 0u8, 0u8].len() >= 4 && ws_ok(seq![0u8, 0u8, 0u8, 0u8], 0),
        // lemma_styles_seek
        (StMode::Fmts { left: 1 }) is Fmts,
{
    let m = Map::<Vec<u8>, String>::empty().insert(k, v);
    assert(m.contains_key(k) && k@ == k@);
    assert(seq![0u8, 0u8, 0u8, 0u8].subrange(0, 4) =~= seq![0u8, 0u8, 0u8, 0u8]);
}
fn witness_capped() { let _v: Vec<u8> = verif_with_capacity_capped(16); }

// =====================================================================================================================
// SPECIFICATION of xl/workbook.bin, second half: BrtExternSheet and BrtName records up to the first "after names" record
// =====================================================================================================================
pub open spec fn names_of(ss: Seq<(String, String)>) -> Seq<Seq<char>> { ss.map_values(|p: (String, String)| p.0@) }
pub open spec fn signed32(v: int) -> int { if v >= 0x8000_0000 { v - 0x1_0000_0000 } else { v } }
/// what a 3-D reference through an XTI entry is called: its first sheet ([MS-XLSB] 2.5.172 Xti: firstSheet >= 0 is a zero-based index
/// into the BrtBundleSh records, -2 means the workbook itself, -1 a deleted sheet)
pub open spec fn xti_name(first: int, shn: Seq<Seq<char>>) -> Seq<char> {
    if first == -2 { "#ThisWorkbook"@ } else if first == -1 { "#InvalidWorkSheet"@ }
    else if 0 <= first < shn.len() { shn[first] } else { "#Unknown"@ }
}
/// BrtExternSheet ([MS-XLSB] 2.4.667): cXti u32, then cXti x Xti { externalLink u32, firstSheet i32, lastSheet i32 }
pub open spec fn xti_wf(p: Seq<u8>) -> bool { p.len() >= 4 && p.len() >= 4 + 12 * le32(p.subrange(0, 4)) }
pub open spec fn xti_names(p: Seq<u8>, shn: Seq<Seq<char>>) -> Seq<Seq<char>> {
    Seq::new(le32(p.subrange(0, 4)) as nat, |k: int| xti_name(signed32(le32(p.subrange(4 + 12 * k + 4, 4 + 12 * k + 8))), shn))
}
/// BrtName ([MS-XLSB] 2.4.711): flags u32 @0, chKey u8 @4, itab u32 @5, name XLWideString @9, then the formula: cce u32, rgce[cce]
pub open spec fn name_wf(p: Seq<u8>) -> bool {
    ws_ok(p, 9) && p.len() >= ws_end(p, 9) + 4 && p.len() >= ws_end(p, 9) + 4 + le32(p.subrange(ws_end(p, 9), ws_end(p, 9) + 4))
}
pub open spec fn name_rgce(p: Seq<u8>) -> Seq<u8> {
    p.subrange(ws_end(p, 9) + 4, ws_end(p, 9) + 4 + le32(p.subrange(ws_end(p, 9), ws_end(p, 9) + 4)))
}
/// record kinds that can only come after the names (the reader stops at the first of them)
pub open spec fn after_names(t: int) -> bool {
    t == 0x009D || t == 0x0225 || t == 0x018D || t == 0x0180 || t == 0x009A || t == 0x0252 || t == 0x0229 || t == 0x009B || t == 0x0084
}
pub ghost struct Wb2St { pub names: Seq<(Seq<char>, Seq<char>)>, pub ext: Seq<Seq<char>> }
pub enum Wb2 {
    /// an "after names" record reached: the defined names in record order, the extern-sheet names
    Done { st: Wb2St },
    Truncated,
    /// a BrtWbProp / BrtBundleSh / BrtExternSheet / BrtName shorter than its layout: the reader must reject
    Short,
    /// (from the sheet list only) a BrtBundleSh with a NULL or dangling relationship id: outside the property's domain
    Malformed,
    /// a name whose formula the renderer rejects
    Rejected,
}
/// every BrtName 0x0027 declares one defined name (PtgName tokens index this list by declaration order, so a name occupies its slot
/// whatever its formula is), BrtExternSheet 0x016A replaces the extern-sheet table, other record kinds are passed over whole
#[verifier::opaque]
pub open spec fn wb2(s: Seq<u8>, st: Wb2St, shn: Seq<Seq<char>>) -> Wb2 decreases s.len() {
    if !vcomplete(s, 2) { Wb2::Truncated }
    else if after_names(rec_typ(s)) { Wb2::Done { st } }   // the reader need not look further than the type of that record
    else if !rec_ok(s) || rec_rest(s).len() >= s.len() { Wb2::Truncated }
    else if rec_typ(s) == 0x016A {
        if !xti_wf(rec_payload(s)) { Wb2::Short }
        else { wb2(rec_rest(s), Wb2St { ext: xti_names(rec_payload(s), shn), ..st }, shn) }
    }
    else if rec_typ(s) == 0x0027 {
        if !name_wf(rec_payload(s)) { Wb2::Short }
        else {
            match formula_text(name_rgce(rec_payload(s)), st.ext, st.names) {
                None => Wb2::Rejected,
                Some(f) => wb2(rec_rest(s), Wb2St { names: st.names.push((ws_text(rec_payload(s), 9), f)), ..st }, shn),
            }
        }
    }
    else { wb2(rec_rest(s), st, shn) }
}
proof fn lemma_wb2_step(s: Seq<u8>, st: Wb2St, shn: Seq<Seq<char>>)
    ensures wb2(s, st, shn) == (
        if !vcomplete(s, 2) { Wb2::Truncated }
        else if after_names(rec_typ(s)) { Wb2::Done { st } }
        else if !rec_ok(s) || rec_rest(s).len() >= s.len() { Wb2::Truncated }
        else if rec_typ(s) == 0x016A {
            if !xti_wf(rec_payload(s)) { Wb2::Short }
            else { wb2(rec_rest(s), Wb2St { ext: xti_names(rec_payload(s), shn), ..st }, shn) }
        }
        else if rec_typ(s) == 0x0027 {
            if !name_wf(rec_payload(s)) { Wb2::Short }
            else {
                match formula_text(name_rgce(rec_payload(s)), st.ext, st.names) {
                    None => Wb2::Rejected,
                    Some(f) => wb2(rec_rest(s), Wb2St { names: st.names.push((ws_text(rec_payload(s), 9), f)), ..st }, shn),
                }
            }
        }
        else { wb2(rec_rest(s), st, shn) }),
{
    reveal(wb2);
}
/// the whole part: sheets, then names
pub open spec fn wb_names(bytes: Seq<u8>, is_1904: bool, rels: Map<Vec<u8>, String>, old_names: Seq<Seq<char>>, old_ext: Seq<Seq<char>>) -> Wb2 {
    match wb1(bytes, WbSt { is_1904, sheets: Seq::empty() }, rels) {
        Wb1::Done { st, rest } => wb2(rest, Wb2St { names: Seq::empty(), ext: old_ext }, old_names + decl_names(st.sheets)),
        Wb1::Truncated => Wb2::Truncated,
        Wb1::Short => Wb2::Short,
        Wb1::Malformed => Wb2::Malformed,
        Wb1::Rejected => Wb2::Rejected,
    }
}


// =====================================================================================================================
// SPECIFICATION of xl/sharedStrings.bin ([MS-XLSB] 2.1.7.45): BrtBeginSst 0x009F (cstTotal u32 @0, cstUnique u32 @4), then cstUnique
// BrtSSTItem 0x0013 records (flags u8 @0, XLWideString @1, then optional runs / phonetic data); index i = the i-th BrtSSTItem
// =====================================================================================================================
pub open spec fn sst_path() -> Seq<char> { "xl/sharedStrings.bin"@ }
/// the skip blocks the reader passes to next_skip_blocks: future-record blocks BrtFRTBegin 0x0023 .. BrtFRTEnd 0x0024
pub open spec fn sst_bounds() -> Seq<(u16, Option<u16>)> { seq![(0x0023u16, Some(0x0024u16))] }
pub enum Sst {
    Done { items: Seq<Seq<char>> },
    Truncated,
    /// BrtBeginSst shorter than 8 bytes / an item without its flag byte or whose string is longer than its record: the reader must reject
    Malformed,
    /// a future-record block comes before an item (see First::Blocked)
    Blocked,
}
/// the next n string items of the stream s
pub open spec fn sst_items(s: Seq<u8>, n: nat, acc: Seq<Seq<char>>) -> Sst decreases n {
    if n == 0 { Sst::Done { items: acc } }
    else {
        match first_of(s, 0x0013, sst_bounds()) {
            First::Found { at } =>
                if !ws_ok(rec_payload(at), 1) { Sst::Malformed }
                else { sst_items(rec_rest(at), (n - 1) as nat, acc.push(ws_text(rec_payload(at), 1))) },
            First::Truncated => Sst::Truncated,
            First::Blocked => Sst::Blocked,
        }
    }
}
proof fn lemma_sst_items_step(s: Seq<u8>, n: nat, acc: Seq<Seq<char>>)
    ensures sst_items(s, n, acc) == (
        if n == 0 { Sst::Done { items: acc } }
        else {
            match first_of(s, 0x0013, sst_bounds()) {
                First::Found { at } =>
                    if !ws_ok(rec_payload(at), 1) { Sst::Malformed }
                    else { sst_items(rec_rest(at), (n - 1) as nat, acc.push(ws_text(rec_payload(at), 1))) },
                First::Truncated => Sst::Truncated,
                First::Blocked => Sst::Blocked,
            }
        }),
{
    reveal_with_fuel(sst_items, 2);
}
pub open spec fn sst_part(s: Seq<u8>) -> Sst {
    match first_of(s, 0x009F, Seq::<(u16, Option<u16>)>::empty()) {
        First::Found { at } =>
            if rec_payload(at).len() < 8 { Sst::Malformed }
            else { sst_items(rec_rest(at), le32(rec_payload(at).subrange(4, 8)) as nat, Seq::empty()) },
        First::Truncated => Sst::Truncated,
        First::Blocked => Sst::Blocked,
    }
}
// =====================================================================================================================
// SPECIFICATION of xl/styles.bin ([MS-XLSB] 2.1.7.50): BrtBeginFmts 0x0267 (count u32) + BrtFmt 0x002C (ifmt u16 @0, stFmtCode
// XLWideString @2) records; BrtBeginCellXFs 0x0269 (count u32) + BrtXF 0x002F (ixfeParent u16 @0, iFmt u16 @2) records.
// C10: cell XF number i is classified by "the number format its style refers to": the custom format registered under its iFmt if there is
// one, the built-in format of that id otherwise.
// =====================================================================================================================
pub open spec fn styles_path() -> Seq<char> { "xl/styles.bin"@ }
/// class of a custom format string (src/formats.rs detect_custom_number_format: under contract in unit formats)
pub uninterp spec fn custom_class(s: Seq<char>) -> CellFormat;
// TRUSTED: stand-in with the signature of src/formats.rs detect_custom_number_format (unit formats proves it against the number-format grammar)
#[verifier::external_body]
fn detect_custom_number_format(format: &str) -> (r: CellFormat)
    ensures r == custom_class(format@),
{ unimplemented!() }
/// ECMA-376 18.8.30 built-in number formats: ids 14-22, 45, 47 are date/time formats, 46 is the elapsed-time format [h]:mm:ss
pub open spec fn builtin_class(id: int) -> CellFormat {
    if 14 <= id <= 22 || id == 45 || id == 47 { CellFormat::DateTime } else if id == 46 { CellFormat::TimeDelta } else { CellFormat::Other }
}
//@@ fn src/formats.rs builtin_format_by_code props=C10 ret=r
//@@ sig
    ensures
        //# C10.builtin_ids
        r == builtin_class(code as int),
//@@ end
/// [MS-XLSB] 2.4.697 BrtFmt: "ifmt MUST be within one of the ranges 5 to 8, 23 to 26, 41 to 44, 63 to 66, 164 to 382" -- a custom format never
/// takes the id of a built-in date/time format
pub open spec fn fmt_id_ok(id: int) -> bool { 5 <= id <= 8 || 23 <= id <= 26 || 41 <= id <= 44 || 63 <= id <= 66 || 164 <= id <= 382 }
pub open spec fn xf_class(id: int, custom: Map<u16, CellFormat>) -> CellFormat {
    if custom.contains_key(id as u16) { custom[id as u16] } else { builtin_class(id) }
}
pub enum StMode { Top, Fmts { left: nat }, Xfs { left: nat } }
pub ghost struct StSt { pub custom: Map<u16, CellFormat>, pub xfs: Seq<CellFormat>, pub mode: StMode }
pub enum Styles {
    /// all declared cell XFs read: their classes in record order
    Done { xfs: Seq<CellFormat> },
    Truncated,
    /// a record shorter than its layout (count, format id + string, XF): the reader must reject
    Short,
    /// a BrtFmt whose id is outside the ranges of the format: outside the property's domain
    Malformed,
}
#[verifier::opaque]
pub open spec fn styles(s: Seq<u8>, st: StSt) -> Styles decreases s.len() {
    if st.mode == (StMode::Xfs { left: 0 }) { Styles::Done { xfs: st.xfs } }
    else if !rec_ok(s) || rec_rest(s).len() >= s.len() { Styles::Truncated }
    else {
        let p = rec_payload(s);
        match st.mode {
            StMode::Top =>
                if rec_typ(s) == 0x0267 {
                    if p.len() < 4 { Styles::Short }
                    else { styles(rec_rest(s), StSt { mode: if le32(p) == 0 { StMode::Top } else { StMode::Fmts { left: le32(p) as nat } }, ..st }) }
                } else if rec_typ(s) == 0x0269 {
                    if p.len() < 4 { Styles::Short }
                    else { styles(rec_rest(s), StSt { mode: StMode::Xfs { left: le32(p) as nat }, ..st }) }
                } else { styles(rec_rest(s), st) },
            StMode::Fmts { left } =>
                if rec_typ(s) == 0x002C {
                    if p.len() < 2 || !ws_ok(p, 2) { Styles::Short } else if !fmt_id_ok(le16(p)) { Styles::Malformed }
                    else {
                        styles(rec_rest(s), StSt { custom: st.custom.insert(le16(p) as u16, custom_class(ws_text(p, 2))),
                            mode: if left == 1 { StMode::Top } else { StMode::Fmts { left: (left - 1) as nat } }, ..st })
                    }
                } else { styles(rec_rest(s), st) },
            StMode::Xfs { left } =>
                if rec_typ(s) == 0x002F {
                    if p.len() < 4 { Styles::Short }
                    else { styles(rec_rest(s), StSt { xfs: st.xfs.push(xf_class(le16(p.subrange(2, 4)), st.custom)), mode: StMode::Xfs { left: (left - 1) as nat }, ..st }) }
                } else { styles(rec_rest(s), st) },
        }
    }
}
proof fn lemma_styles_step(s: Seq<u8>, st: StSt)
    ensures styles(s, st) == (
        if st.mode == (StMode::Xfs { left: 0 }) { Styles::Done { xfs: st.xfs } }
        else if !rec_ok(s) || rec_rest(s).len() >= s.len() { Styles::Truncated }
        else {
            let p = rec_payload(s);
            match st.mode {
                StMode::Top =>
                    if rec_typ(s) == 0x0267 {
                        if p.len() < 4 { Styles::Short }
                        else { styles(rec_rest(s), StSt { mode: if le32(p) == 0 { StMode::Top } else { StMode::Fmts { left: le32(p) as nat } }, ..st }) }
                    } else if rec_typ(s) == 0x0269 {
                        if p.len() < 4 { Styles::Short }
                        else { styles(rec_rest(s), StSt { mode: StMode::Xfs { left: le32(p) as nat }, ..st }) }
                    } else { styles(rec_rest(s), st) },
                StMode::Fmts { left } =>
                    if rec_typ(s) == 0x002C {
                        if p.len() < 2 || !ws_ok(p, 2) { Styles::Short } else if !fmt_id_ok(le16(p)) { Styles::Malformed }
                        else {
                            styles(rec_rest(s), StSt { custom: st.custom.insert(le16(p) as u16, custom_class(ws_text(p, 2))),
                                mode: if left == 1 { StMode::Top } else { StMode::Fmts { left: (left - 1) as nat } }, ..st })
                        }
                    } else { styles(rec_rest(s), st) },
                StMode::Xfs { left } =>
                    if rec_typ(s) == 0x002F {
                        if p.len() < 4 { Styles::Short }
                        else { styles(rec_rest(s), StSt { xfs: st.xfs.push(xf_class(le16(p.subrange(2, 4)), st.custom)), mode: StMode::Xfs { left: (left - 1) as nat }, ..st }) }
                    } else { styles(rec_rest(s), st) },
            }
        }),
{
    reveal(styles);
}
/// the position `first_of` finds holds a complete record of the requested kind
proof fn lemma_first_of_at(s: Seq<u8>, t: int, bounds: Seq<(u16, Option<u16>)>)
    ensures first_of(s, t, bounds) is Found ==> rec_ok(first_of(s, t, bounds)->at) && rec_typ(first_of(s, t, bounds)->at) == t
        && rec_rest(first_of(s, t, bounds)->at).len() < first_of(s, t, bounds)->at.len(),
    decreases s.len(),
{
    lemma_first_of_step(s, t, bounds);
    if !(!rec_ok(s) || rec_rest(s).len() >= s.len()) && rec_typ(s) != t && !is_start(bounds, rec_typ(s)) {
        lemma_first_of_at(rec_rest(s), t, bounds);
    }
}
/// with no skip blocks, `first_of` never stops at a block
proof fn lemma_first_of_unblocked(s: Seq<u8>, t: int)
    ensures !(first_of(s, t, Seq::<(u16, Option<u16>)>::empty()) is Blocked),
    decreases s.len(),
{
    lemma_first_of_step(s, t, Seq::<(u16, Option<u16>)>::empty());
    if !(!rec_ok(s) || rec_rest(s).len() >= s.len()) && rec_typ(s) != t {
        lemma_first_of_unblocked(rec_rest(s), t);
    }
}
/// inside a run of BrtFmt (resp. BrtXF) records the reader goes to the next record of that kind, passing over whole records of other kinds
proof fn lemma_styles_seek(s: Seq<u8>, st: StSt, t: int)
    requires (st.mode is Fmts && st.mode->Fmts_left > 0 && t == 0x002C) || (st.mode is Xfs && st.mode->Xfs_left > 0 && t == 0x002F),
    ensures
        first_of(s, t, Seq::<(u16, Option<u16>)>::empty()) is Truncated ==> styles(s, st) is Truncated,
        first_of(s, t, Seq::<(u16, Option<u16>)>::empty()) is Found ==> styles(s, st) == styles(first_of(s, t, Seq::<(u16, Option<u16>)>::empty())->at, st),
    decreases s.len(),
{
    lemma_first_of_step(s, t, Seq::<(u16, Option<u16>)>::empty());
    lemma_styles_step(s, st);
    if !(!rec_ok(s) || rec_rest(s).len() >= s.len()) && rec_typ(s) != t {
        lemma_styles_seek(rec_rest(s), st, t);
    }
}

// =====================================================================================================================
// Sheet access: worksheet_cells_reader / worksheet_formula (C07, C16, C14, C06)
// =====================================================================================================================
//@@ item src/lib.rs struct Dimensions keep_attrs
//@@ item src/lib.rs trait "trait CellType"
impl CellType for String {}
//@@ item src/lib.rs struct Cell
//@@ item src/lib.rs struct Range
/// Range::from_sparse (src/lib.rs; under contract in unit range): the range as a function of the cell list
pub uninterp spec fn from_sparse_spec<T: CellType>(cells: Seq<Cell<T>>) -> Range<T>;
impl<T: CellType> Range<T> {
    // TRUSTED: stand-in with the signature of src/lib.rs Range::from_sparse (unit range: bounding rectangle of the cells, values at their
    // positions, Default elsewhere); here only "a function of the cells handed over"
    #[verifier::external_body]
    pub fn from_sparse(cells: Vec<Cell<T>>) -> (r: Range<T>)
        ensures r == from_sparse_spec(cells@),
    { unimplemented!() }
}
/// Dimensions::len as a function of the four fields (src/lib.rs; under contract in unit lazyrange, where its overflow on a hostile BrtWsDim
/// is a registered finding)
pub uninterp spec fn dims_len(d: Dimensions) -> u64;
impl Dimensions {
    // TRUSTED: stand-in with the signature of src/lib.rs Dimensions::len (unit lazyrange)
    #[verifier::external_body]
    pub fn len(&self) -> (r: u64)
        ensures r == dims_len(*self),
    { unimplemented!() }
}
/// what a cells reader was built from: the bytes of the sheet part and the workbook tables handed to it
pub ghost struct ReaderSrc {
    pub bytes: Seq<u8>, pub formats: Seq<CellFormat>, pub strings: Seq<String>, pub extern_sheets: Seq<String>,
    pub names: Seq<(String, String)>, pub is_1904: bool,
}
// TRUSTED: stand-in for src/xlsb/cells_reader.rs XlsbCellsReader (its `next_cell` is under contract in unit xlsbrec; `new` reads the
// records up to BrtBeginSheetData and stores its arguments).  `src()` names what the reader was built from; `formulas()` is the finite
// sequence of formula cells it will still deliver, `fend()` how that sequence ends, `dims()` the parsed BrtWsDim.
#[verifier::external_body]
pub struct XlsbCellsReader<'a> { _p: core::marker::PhantomData<&'a u8> }
impl<'a> XlsbCellsReader<'a> {
    pub uninterp spec fn src(&self) -> ReaderSrc;
    /// the formula cells of a sheet part read with the given tables / how that stream ends (XlsbCellsReader::next_formula, parse_formula)
    pub uninterp spec fn formulas_of(src: ReaderSrc) -> Seq<Cell<String>>;
    pub uninterp spec fn fend_of(src: ReaderSrc) -> Option<XlsbError>;
    pub uninterp spec fn formulas(&self) -> Seq<Cell<String>>;
    pub uninterp spec fn fend(&self) -> Option<XlsbError>;
    pub uninterp spec fn dims(&self) -> Dimensions;
    // TRUSTED: signature of XlsbCellsReader::new; the reader is a function of its arguments (record stream + the five workbook tables)
    #[verifier::external_body]
    pub(crate) fn new(iter: RecordIter<'a>, formats: &'a [CellFormat], strings: &'a [String], extern_sheets: &'a [String],
        metadata_names: &'a [(String, String)], is_1904: bool) -> (r: Result<Self, XlsbError>)
        ensures r is Ok ==> r->Ok_0.src() == (ReaderSrc { bytes: iter.rem(), formats: formats@, strings: strings@, extern_sheets: extern_sheets@,
            names: metadata_names@, is_1904 }) && r->Ok_0.formulas() == Self::formulas_of(r->Ok_0.src()) && r->Ok_0.fend() == Self::fend_of(r->Ok_0.src()),
    { unimplemented!() }
    // TRUSTED: signature of XlsbCellsReader::dimensions (returns the stored field)
    #[verifier::external_body]
    pub fn dimensions(&self) -> (d: Dimensions)
        ensures d == self.dims(),
    { unimplemented!() }
    // TRUSTED: signature of XlsbCellsReader::next_formula; pops the head of the ghost formula stream (a sheet part is finite and every call
    // consumes input: this is what gives the caller's loop a measure)
    #[verifier::external_body]
    pub fn next_formula(&mut self) -> (r: Result<Option<Cell<String>>, XlsbError>)
        ensures
            final(self).fend() == old(self).fend() && final(self).dims() == old(self).dims() && final(self).src() == old(self).src(),
            match r {
                Ok(Some(c)) => old(self).formulas().len() > 0 && c == old(self).formulas()[0] && final(self).formulas() == old(self).formulas().skip(1),
                Ok(None) => old(self).formulas().len() == 0 && old(self).fend() is None && final(self).formulas() == old(self).formulas(),
                Err(e) => old(self).formulas().len() == 0 && old(self).fend() == Some(e) && final(self).formulas() == old(self).formulas(),
            },
    { unimplemented!() }
}
/// the formula cells with a non-empty text, in order
pub open spec fn nonempty_formulas(cs: Seq<Cell<String>>) -> Seq<Cell<String>> decreases cs.len() {
    if cs.len() == 0 { Seq::empty() } else {
        let k = nonempty_formulas(cs.drop_last());
        if cs.last().v()@.len() > 0 { k.push(cs.last()) } else { k }
    }
}
// TRUSTED: the body is the real expression `Vec::with_capacity(n)`; the wrapper exists to carry the allocation cap of C06 as a precondition
// on the real argument expression (vstd's own specification of Vec::with_capacity has no precondition)
#[verifier::external_body]
fn verif_with_capacity_capped<T>(cap: usize) -> (v: Vec<T>)
    requires
        // memory requested from a declared dimension is capped whatever the file says
        cap <= 1_000_000,
    ensures v@ == Seq::<T>::empty(),
{ Vec::with_capacity(cap) }
impl<RS> Xlsb<RS> {
    // the fields of Xlsb are private: public contracts observe them through these accessors
    pub closed spec fn v_zip(&self) -> ZipArchive<RS> { self.zip }
    pub closed spec fn v_sheets(&self) -> Seq<(String, String)> { self.sheets@ }
    pub closed spec fn v_formats(&self) -> Seq<CellFormat> { self.formats@ }
    pub closed spec fn v_strings(&self) -> Seq<String> { self.strings@ }
    pub closed spec fn v_extern(&self) -> Seq<String> { self.extern_sheets@ }
    pub closed spec fn v_names(&self) -> Seq<(String, String)> { self.metadata.names@ }
    pub closed spec fn v_1904(&self) -> bool { self.is_1904 }
    /// `name` is one of the sheets listed in workbook.bin (exact match)
    pub open spec fn knows(&self, name: Seq<char>) -> bool { exists|i: int| 0 <= i < self.v_sheets().len() && (#[trigger] self.v_sheets()[i]).0@ == name }
}
impl<T: CellType> Cell<T> {
    pub closed spec fn v(&self) -> T { self.val }
}

pub open spec fn strs(v: Seq<String>) -> Seq<Seq<char>> { v.map_values(|s: String| s@) }

//@@ impl src/xlsb/mod.rs Xlsb
//@@ fn src/xlsb/mod.rs Xlsb::read_styles props=C10,C03 entry ret=r
//@@ sig
    ensures
        //# C10.styles_absent_part
        part_bytes(old(self).zip, styles_path()) is None ==> r is Ok && final(self).formats@ == old(self).formats@,
        // the style table maps cell XF number i to the class of the number format the i-th BrtXF refers to
        //# C10.xf_class_by_number_format
        ({ let t = styles(part_bytes(old(self).zip, styles_path())->Some_0, StSt { custom: Map::empty(), xfs: Seq::empty(), mode: StMode::Top });
           part_bytes(old(self).zip, styles_path()) is Some && t is Done ==> r is Ok && final(self).formats@ == old(self).formats@ + t->xfs }),
        //# C06,C10.styles_truncated_is_error
        ({ let t = styles(part_bytes(old(self).zip, styles_path())->Some_0, StSt { custom: Map::empty(), xfs: Seq::empty(), mode: StMode::Top });
           part_bytes(old(self).zip, styles_path()) is Some && t is Truncated ==> r is Err }),
        // a count record, BrtFmt or BrtXF shorter than its layout is an error (never a panic, never stale bytes read as data)
        //# C06,C10.styles_short_record_is_error
        ({ let t = styles(part_bytes(old(self).zip, styles_path())->Some_0, StSt { custom: Map::empty(), xfs: Seq::empty(), mode: StMode::Top });
           part_bytes(old(self).zip, styles_path()) is Some && t is Short ==> r is Err }),
        //# C07.styles_read_frame
        final(self).sheets@ == old(self).sheets@ && final(self).strings@ == old(self).strings@ && final(self).is_1904 == old(self).is_1904,
//@@ after /let mut number_formats = BTreeMap::new\(\);/
        let ghost s0 = iter.rem();
        let ghost f0 = self.formats@;
        let ghost st0 = StSt { custom: Map::<u16, CellFormat>::empty(), xfs: Seq::<CellFormat>::empty(), mode: StMode::Top };
        let ghost tot = styles(s0, st0);
        let ghost bad = tot is Malformed;
        let ghost mut st = st0;
        let ghost mut cur = s0;
        proof { assert(f0 + st.xfs =~= f0); }
//@@ loop 0
            invariant_except_break
                // same framing rule as in workbook.bin
                //# C03,C10.styles_unknown_records_skipped_whole
                cur == iter.rem(),
                //# C06.styles_buffer_cleared
                buf@.len() == 0,
                //# C10.styles_scan_in_step
                bad || (tot == styles(cur, st) && st.mode is Top),
            invariant
                //# C10,C07.styles_loop_frame
                part_bytes(old(self).zip, styles_path()) is Some, s0 == part_bytes(old(self).zip, styles_path())->Some_0,
                st0 == (StSt { custom: Map::<u16, CellFormat>::empty(), xfs: Seq::<CellFormat>::empty(), mode: StMode::Top }),
                tot == styles(s0, st0), f0 == old(self).formats@, bad == (tot is Malformed),
                bad || number_formats@ == st.custom,
                forall|k: u16| #[trigger] st.custom.contains_key(k) ==> fmt_id_ok(k as int),
                bad || self.formats@ == f0 + st.xfs,
                self.sheets@ == old(self).sheets@, self.strings@ == old(self).strings@, self.is_1904 == old(self).is_1904,
            ensures
                //# C10.styles_scan_result
                bad || tot == (Styles::Done { xfs: st.xfs }),
            decreases iter.rem().len(),
//@@ before /match iter\.read_type\(\)\? \{/
            let ghost h = cur;
            proof { lemma_styles_step(h, st); lemma_rec_total(h); }
//@@ after /let \w+ = iter\.fill_buffer\(&mut buf\)\?;/#0of3
                    let ghost pl = rec_payload(h);
                    proof { lemma_rec_read(h); assert(buf@ =~= pl); cur = rec_rest(h); }
//@@ after /let len = read_usize\([^;]*;/#0of2
                    proof {
                        if pl.len() >= 4 { st = StSt { mode: if le32(pl) == 0 { StMode::Top } else { StMode::Fmts { left: le32(pl) as nat } }, ..st }; }
                    }
//@@ loop 1 it
                        invariant
                            //# C10.fmt_run_in_step
                            part_bytes(old(self).zip, styles_path()) is Some, s0 == part_bytes(old(self).zip, styles_path())->Some_0,
                            st0 == (StSt { custom: Map::<u16, CellFormat>::empty(), xfs: Seq::<CellFormat>::empty(), mode: StMode::Top }),
                            tot == styles(s0, st0), f0 == old(self).formats@, bad == (tot is Malformed),
                            pl.len() >= 4,
                            bad || (len as int == le32(pl) && tot == styles(cur, st) && number_formats@ == st.custom
                                && st.mode == (if it.index@ < len { StMode::Fmts { left: (len - it.index@) as nat } } else { StMode::Top })),
                            cur == iter.rem(), cur.len() < h.len(),
                            it.index@ <= len,
                            forall|k: u16| #[trigger] st.custom.contains_key(k) ==> fmt_id_ok(k as int),
                            bad || self.formats@ == f0 + st.xfs,
                            self.sheets@ == old(self).sheets@, self.strings@ == old(self).strings@, self.is_1904 == old(self).is_1904,
//@@ before /let \w+ = iter\.next_skip_blocks\(/#0of2
                        let ghost g = cur;
                        let ghost f = first_of(g, 0x002C, Seq::<(u16, Option<u16>)>::empty());
                        proof {
                            let bl: [(u16, Option<u16>); 0] = [];   // the literal `&[]` of the call below
                            assert(bl@ =~= Seq::<(u16, Option<u16>)>::empty());
                            lemma_first_of_unblocked(g, 0x002C);
                            if !bad { lemma_styles_seek(g, st, 0x002C); }
                            if f is Found { lemma_styles_step(f->at, st); lemma_first_of_at(g, 0x002C, Seq::<(u16, Option<u16>)>::empty()); }
                        }
//@@ after /let \w+ = iter\.next_skip_blocks\([^;]*;/#0of2
                        proof { cur = iter.rem(); }
//@@ before /number_formats\s*\.insert\(/
                        proof {
                            axiom_cow_str();
                            let p = rec_payload(f->at);
                            if f is Found && p.len() >= 2 && ws_ok(p, 2) {
                                // `wide_str(&buf[2..size])` sees the XLWideString at offset 2 of the payload, not the stale bytes behind it
                                assert(buf@.subrange(2, p.len() as int) =~= p.subrange(2, p.len() as int));
                                lemma_ws_sub(p, 2, p.subrange(2, p.len() as int));
                                assert(buf@.subrange(0, p.len() as int)[0] == buf@[0] && buf@.subrange(0, p.len() as int)[1] == buf@[1]);
                                // BrtFmt: the format id and its format string
                                //# C10.custom_format_registered
                                assert(fmt_code as int == le16(p) && cow_chars(fmt_str) == ws_text(p, 2));
                            }
                        }
//@@ after /number_formats\s*\.insert\([^;]*;/
                        proof {
                            let p = rec_payload(f->at);
                            if !bad {
                                st = StSt { custom: st.custom.insert(le16(p) as u16, custom_class(ws_text(p, 2))),
                                    mode: if len - it.index@ == 1 { StMode::Top } else { StMode::Fmts { left: (len - it.index@ - 1) as nat } }, ..st };
                            }
                        }
//@@ after /let \w+ = iter\.fill_buffer\(&mut buf\)\?;/#1of3
                    let ghost pl = rec_payload(h);
                    proof { lemma_rec_read(h); assert(buf@ =~= pl); cur = rec_rest(h); }
//@@ after /let len = read_usize\([^;]*;/#1of2
                    proof {
                        if pl.len() >= 4 { st = StSt { mode: StMode::Xfs { left: le32(pl) as nat }, ..st }; }
                    }
//@@ loop 2 it
                        invariant
                            //# C10.xf_run_in_step
                            part_bytes(old(self).zip, styles_path()) is Some, s0 == part_bytes(old(self).zip, styles_path())->Some_0,
                            st0 == (StSt { custom: Map::<u16, CellFormat>::empty(), xfs: Seq::<CellFormat>::empty(), mode: StMode::Top }),
                            tot == styles(s0, st0), f0 == old(self).formats@, bad == (tot is Malformed),
                            pl.len() >= 4,
                            bad || (len as int == le32(pl) && tot == styles(cur, st) && number_formats@ == st.custom
                                && st.mode == (StMode::Xfs { left: (len - it.index@) as nat })),
                            cur == iter.rem(), cur.len() < h.len(),
                            it.index@ <= len,
                            forall|k: u16| #[trigger] st.custom.contains_key(k) ==> fmt_id_ok(k as int),
                            bad || self.formats@ == f0 + st.xfs,
                            self.sheets@ == old(self).sheets@, self.strings@ == old(self).strings@, self.is_1904 == old(self).is_1904,
//@@ before /let \w+ = iter\.next_skip_blocks\(/#1of2
                        let ghost g = cur;
                        let ghost f = first_of(g, 0x002F, Seq::<(u16, Option<u16>)>::empty());
                        let ghost fv = self.formats@;
                        proof {
                            let bl: [(u16, Option<u16>); 0] = [];   // the literal `&[]` of the call below
                            assert(bl@ =~= Seq::<(u16, Option<u16>)>::empty());
                            lemma_first_of_unblocked(g, 0x002F);
                            if !bad { lemma_styles_seek(g, st, 0x002F); }
                            if f is Found { lemma_styles_step(f->at, st); lemma_first_of_at(g, 0x002F, Seq::<(u16, Option<u16>)>::empty()); }
                        }
//@@ after /let \w+ = iter\.next_skip_blocks\([^;]*;/#1of2
                        proof { cur = iter.rem(); }
//@@ after /let fmt_code = read_u16\([^;]*;/#1of2
                        proof {
                            let p = rec_payload(f->at);
                            if f is Found && p.len() >= 4 {
                                assert(buf@.subrange(2, 4) =~= p.subrange(2, 4)) by {
                                    assert(buf@.subrange(0, p.len() as int)[2] == buf@[2] && buf@.subrange(0, p.len() as int)[3] == buf@[3]);
                                }
                            }
                        }
//@@ after /match builtin_format_by_code\(fmt_code\) \{[^}]*\{[^}]*\}[^}]*\}/
                        proof {
                            let p = rec_payload(f->at);
                            assert(self.formats@ =~= fv.push(self.formats@.last()));
                            if !bad {
                                // DateTime / TimeDelta / Other follows the number format the XF refers to
                                //# C10.xf_class_pushed
                                assert(self.formats@.last() == xf_class(le16(p.subrange(2, 4)), st.custom));
                                st = StSt { xfs: st.xfs.push(xf_class(le16(p.subrange(2, 4)), st.custom)), mode: StMode::Xfs { left: (len - it.index@ - 1) as nat }, ..st };
                                assert(self.formats@ =~= f0 + st.xfs);
                            }
                        }
//@@ before /break;/
                    proof { if !bad { lemma_styles_step(cur, st); } }
//@@ after /let \w+ = iter\.fill_buffer\(&mut buf\)\?;/#2of3
                    // a record kind the reader does not interpret is passed over whole
                    proof { lemma_rec_read(h); cur = rec_rest(h); }
//@@ end
//@@ fn src/xlsb/mod.rs Xlsb::read_shared_strings props=C19,C03 entry ret=r
//@@ sig
    ensures
        // no shared-strings part: nothing to read ("it is fine if path does not exists")
        //# C19.sst_absent_part
        part_bytes(old(self).zip, sst_path()) is None ==> r is Ok && final(self).strings@ == old(self).strings@,
        // shared-string index i designates the i-th BrtSSTItem: the table gets the cstUnique items in record order
        //# C19,C03.sst_item_index
        part_bytes(old(self).zip, sst_path()) is Some && sst_part(part_bytes(old(self).zip, sst_path())->Some_0) is Done ==>
            r is Ok && strs(final(self).strings@) == strs(old(self).strings@) + sst_part(part_bytes(old(self).zip, sst_path())->Some_0)->items,
        // a declared count that the stream does not honour ends in an error (C06: no hang, no partial table reported as complete)
        //# C06,C19.sst_truncated_is_error
        part_bytes(old(self).zip, sst_path()) is Some && sst_part(part_bytes(old(self).zip, sst_path())->Some_0) is Truncated ==> r is Err,
        // a BrtBeginSst shorter than 8 bytes, an item without its flag byte or whose string is longer than its record: error
        //# C06,C19.sst_malformed_is_error
        part_bytes(old(self).zip, sst_path()) is Some && sst_part(part_bytes(old(self).zip, sst_path())->Some_0) is Malformed ==> r is Err,
        //# C07.sst_read_frame
        final(self).sheets@ == old(self).sheets@ && final(self).formats@ == old(self).formats@ && final(self).is_1904 == old(self).is_1904,
//@@ after /let mut buf = Vec::with_capacity\(1024\);/
        let ghost s0 = iter.rem();
        let ghost str0 = self.strings@;
        proof {
            // the literal `&[]` of the call below
            let bl: [(u16, Option<u16>); 0] = [];
            assert(bl@ =~= Seq::<(u16, Option<u16>)>::empty());
            lemma_first_of_unblocked(s0, 0x009F);
        }
//@@ after /let len = read_usize\([^;]*;/
        let ghost t0 = first_of(s0, 0x009F, Seq::<(u16, Option<u16>)>::empty());
        let ghost s1 = iter.rem();
        let ghost mut items = Seq::<Seq<char>>::empty();
        let ghost good = t0 is Found && rec_payload(t0->at).len() >= 8;
        let ghost tot = sst_items(s1, len as nat, Seq::<Seq<char>>::empty());
        proof {
            if good {
                let p0 = rec_payload(t0->at);
                assert(buf@.subrange(0, p0.len() as int).subrange(4, 8) =~= buf@.subrange(4, 8));
                assert(len as int == le32(p0.subrange(4, 8)));
            }
            assert(strs(str0) + items =~= strs(str0));
        }
//@@ loop 0 it
            invariant
                // the buffer still holds at least the 8 bytes of BrtBeginSst (it never shrinks)
                //# C06.sst_buffer_monotone
                buf@.len() >= 8,
                //# C19,C03.sst_items_in_step
                part_bytes(old(self).zip, sst_path()) is Some,
                s0 == part_bytes(old(self).zip, sst_path())->Some_0, str0 == old(self).strings@,
                good, sst_part(s0) == tot,
                tot is Blocked || tot == sst_items(iter.rem(), (len - it.index@) as nat, items),
                !(tot is Blocked) ==> strs(self.strings@) == strs(str0) + items,
                it.index@ <= len,
                self.sheets@ == old(self).sheets@, self.formats@ == old(self).formats@, self.is_1904 == old(self).is_1904,
//@@ before /let \w+ = iter\.next_skip_blocks\(/#1of2
            let ghost h = iter.rem();
            let ghost sv = self.strings@;
            let ghost f = first_of(h, 0x0013, sst_bounds());
            proof {
                lemma_sst_items_step(h, (len - it.index@) as nat, items);
                // the literal `&[(0x0023, Some(0x0024))]` of the call below
                let bl: [(u16, Option<u16>); 1] = [(0x0023u16, Some(0x0024u16))];
                assert(bl@ =~= sst_bounds());
            }
//@@ before /self\.strings\.push\(wide_str/
            proof {
                axiom_cow_owned_str_all();
                if f is Found {
                    // `wide_str(&buf[1..size])` sees the XLWideString at offset 1 of the payload, not the stale bytes behind it
                    let p = rec_payload(f->at);
                    assert(buf@.subrange(1, p.len() as int) =~= p.subrange(1, p.len() as int));
                    if p.len() >= 5 { lemma_ws_sub(p, 1, p.subrange(1, p.len() as int)); }
                }
            }
//@@ after /self\.strings\.push\(wide_str[^;]*;/
            proof {
                assert(self.strings@ =~= sv.push(self.strings@.last()));
                if !(tot is Blocked) {
                    // the i-th entry of the table is the text of the i-th BrtSSTItem (XLWideString at offset 1)
                    //# C19,C03.sst_item_text
                    assert(self.strings@.last()@ == ws_text(rec_payload(f->at), 1));
                    assert(strs(self.strings@) =~= strs(sv).push(ws_text(rec_payload(f->at), 1)));
                    items = items.push(ws_text(rec_payload(f->at), 1));
                    assert(strs(self.strings@) =~= strs(str0) + items);
                }
            }
//@@ end
//@@ endimpl

// R-mono (documented mechanical rule, first used by unit lazyrange): Verus 0.2026.09.13 loses vstd's specification of iterator adapters
// taking a closure (`.map(closure)`, `.find(closure)`) when the closure is created inside a function with type parameters (probed again
// here: the `chunks(12).map(..).take(..).collect()` chain of read_workbook verifies in a non-generic fn and is unconstrained in
// `impl<RS> ..`).  The method text is therefore verified, verbatim, as a method of `Xlsb<VerifRs>` for an opaque reader type VerifRs;
// the method touches RS only through the ZipArchive stand-in, so by parametricity the instance stands for all RS.
pub struct VerifRs { _opaque: u8 }
impl Xlsb<VerifRs> {
//@@ fn src/xlsb/mod.rs Xlsb::read_workbook props=C16,C03,C14,C10,C11 entry ret=r
//@@ sig
    ensures
        //# C16.workbook_part_missing
        part_bytes(old(self).zip, wb_path()) is None ==> r is Err,
        //# C16,C10,C11.wbprop_1904
        ({ let w = wb1(part_bytes(old(self).zip, wb_path())->Some_0, WbSt { is_1904: old(self).is_1904, sheets: Seq::empty() }, relationships@);
           part_bytes(old(self).zip, wb_path()) is Some && w is Done && r is Ok ==> final(self).is_1904 == w->st.is_1904 }),
        //# C16.bundle_sheets_in_order
        ({ let w = wb1(part_bytes(old(self).zip, wb_path())->Some_0, WbSt { is_1904: old(self).is_1904, sheets: Seq::empty() }, relationships@);
           part_bytes(old(self).zip, wb_path()) is Some && w is Done && r is Ok ==>
             sheets_ok(final(self).metadata.sheets@.skip(old(self).metadata.sheets@.len() as int),
                       final(self).sheets@.skip(old(self).sheets@.len() as int), w->st.sheets) }),
        //# C16.sheets_frame
        r is Ok ==> final(self).metadata.sheets@.len() >= old(self).metadata.sheets@.len()
            && final(self).metadata.sheets@.take(old(self).metadata.sheets@.len() as int) == old(self).metadata.sheets@
            && final(self).sheets@.len() >= old(self).sheets@.len()
            && final(self).sheets@.take(old(self).sheets@.len() as int) == old(self).sheets@,
        // defined names: one entry per BrtName record, in record order (C14: PtgName tokens index this list by declaration order)
        //# C14,C16.names_one_per_record
        ({ let w = wb_names(part_bytes(old(self).zip, wb_path())->Some_0, old(self).is_1904, relationships@, names_of(old(self).sheets@), strs(old(self).extern_sheets@));
           part_bytes(old(self).zip, wb_path()) is Some && w is Done && r is Ok ==> pairs(final(self).metadata.names@) == w->st.names }),
        //# C14.extern_sheets_by_first_sheet
        ({ let w = wb_names(part_bytes(old(self).zip, wb_path())->Some_0, old(self).is_1904, relationships@, names_of(old(self).sheets@), strs(old(self).extern_sheets@));
           part_bytes(old(self).zip, wb_path()) is Some && w is Done && r is Ok ==> strs(final(self).extern_sheets@) == w->st.ext }),
        //# C16.wellformed_workbook_opens
        ({ let w = wb_names(part_bytes(old(self).zip, wb_path())->Some_0, old(self).is_1904, relationships@, names_of(old(self).sheets@), strs(old(self).extern_sheets@));
           part_bytes(old(self).zip, wb_path()) is Some && w is Done ==> r is Ok }),
        //# C16.truncated_or_rejected_is_error
        ({ let w = wb_names(part_bytes(old(self).zip, wb_path())->Some_0, old(self).is_1904, relationships@, names_of(old(self).sheets@), strs(old(self).extern_sheets@));
           part_bytes(old(self).zip, wb_path()) is Some && (w is Truncated || w is Rejected) ==> r is Err }),
        // a BrtWbProp, BrtBundleSh, BrtExternSheet or BrtName shorter than its layout is an error (never a panic)
        //# C06,C16.short_record_is_error
        ({ let w = wb_names(part_bytes(old(self).zip, wb_path())->Some_0, old(self).is_1904, relationships@, names_of(old(self).sheets@), strs(old(self).extern_sheets@));
           part_bytes(old(self).zip, wb_path()) is Some && w is Short ==> r is Err }),
        //# C07.workbook_read_frame
        final(self).strings@ == old(self).strings@ && final(self).formats@ == old(self).formats@,
//@@ after /let mut buf = Vec::with_capacity\(1024\);/
        let ghost s0 = iter.rem();
        let ghost rels = relationships@;
        let ghost st0 = WbSt { is_1904: self.is_1904, sheets: Seq::empty() };
        let ghost mut st = st0;
        let ghost mut cur = s0;
        let ghost m0 = self.metadata.sheets@.len() as int;
        let ghost n0 = self.sheets@.len() as int;
        let ghost oldn = names_of(self.sheets@);
        let ghost olde = strs(self.extern_sheets@);
        proof {
            assert(self.metadata.sheets@.skip(m0) =~= Seq::<Sheet>::empty());
            assert(self.sheets@.skip(n0) =~= Seq::<(String, String)>::empty());
            assert(self.metadata.sheets@.take(m0) =~= self.metadata.sheets@);
            assert(self.sheets@.take(n0) =~= self.sheets@);
        }
//@@ loop 0
            invariant_except_break
                // the reader is at a record boundary at the top of every iteration: `cur` only ever advances by whole records
                //# C03,C16.unknown_records_skipped_whole
                cur == iter.rem(),
                //# C06.workbook_buffer_cleared
                buf@.len() == 0,
                // what remains to be read, read from the state reached, is what the whole part says
                //# C16.sheet_list_scan_in_step
                wb1(s0, st0, rels) is Malformed || wb1(s0, st0, rels) == wb1(cur, st, rels),
            invariant
                //# C16,C10,C11.date_system_in_step
                wb1(s0, st0, rels) is Malformed || self.is_1904 == st.is_1904,
                //# C16.sheet_lists_in_step
                wb1(s0, st0, rels) is Malformed || sheets_ok(self.metadata.sheets@.skip(m0), self.sheets@.skip(n0), st.sheets),
                //# C16,C07.workbook_loop_frame
                self.metadata.sheets@.len() >= m0, self.metadata.sheets@.take(m0) == old(self).metadata.sheets@,
                self.sheets@.len() >= n0, self.sheets@.take(n0) == old(self).sheets@,
                m0 == old(self).metadata.sheets@.len(), n0 == old(self).sheets@.len(),
                self.strings@ == old(self).strings@, self.formats@ == old(self).formats@,
                self.extern_sheets@ == old(self).extern_sheets@,
                rels == relationships@,
                oldn == names_of(old(self).sheets@), olde == strs(old(self).extern_sheets@),
                wb_names(s0, st0.is_1904, rels, oldn, olde) is Done ==> wb1(s0, st0, rels) is Done,
                wb1(s0, st0, rels) is Truncated ==> wb_names(s0, st0.is_1904, rels, oldn, olde) is Truncated,
                wb1(s0, st0, rels) is Rejected ==> wb_names(s0, st0.is_1904, rels, oldn, olde) is Rejected,
                wb1(s0, st0, rels) is Short ==> wb_names(s0, st0.is_1904, rels, oldn, olde) is Short,
                wb1(s0, st0, rels) is Malformed ==> wb_names(s0, st0.is_1904, rels, oldn, olde) is Malformed,
                s0 == part_bytes(old(self).zip, wb_path())->Some_0, part_bytes(old(self).zip, wb_path()) is Some,
                st0 == (WbSt { is_1904: old(self).is_1904, sheets: Seq::empty() }),
            ensures
                //# C16.sheet_list_scan_result
                wb1(s0, st0, rels) is Malformed || wb1(s0, st0, rels) == (Wb1::Done { st, rest: cur }),
                cur == iter.rem(),
            decreases iter.rem().len(),
//@@ before /match iter\.read_type\(\)\? \{/
            let ghost h = cur;
            proof { lemma_wb1_step(h, st, rels); lemma_rec_total(h); }
//@@ after /let \w+ = iter\.fill_buffer\(&mut buf\)\?;/#0of7
                    proof {
                        lemma_rec_read(h);
                        assert(buf@ =~= rec_payload(h));
                        cur = rec_rest(h);
                    }
//@@ after /let \w+ = iter\.fill_buffer\(&mut buf\)\?;/#2of7
                    proof {
                        // BrtEndBundleShs is a record like any other: its size field (and payload) belong to it
                        lemma_rec_read(h);
                        cur = rec_rest(h);
                    }
                    //# C03,C16.end_bundle_record_skipped_whole
                    assert(rec_ok(h) && iter.rem() == rec_rest(h));
//@@ after /let \w+ = iter\.fill_buffer\(&mut buf\)\?;/#3of7
                    // a record kind the reader does not interpret is passed over whole
                    proof { lemma_rec_read(h); cur = rec_rest(h); }
//@@ after /let \w+ = iter\.fill_buffer\(&mut buf\)\?;/#6of7
                    // a record kind the reader does not interpret is passed over whole
                    proof { lemma_rec_read(h); cur = rec_rest(h); }
//@@ after /self\.is_1904 = [^;]*;/
                    proof {
                        lemma_bit0(buf@[0]);
                        // BrtWbProp: f1904 is bit 0 of the first flag byte
                        //# C16,C10,C11.wbprop_f1904_bit
                        assert(self.is_1904 == (rec_payload(h)[0] % 2 == 1));
                        st = WbSt { is_1904: rec_payload(h)[0] % 2 == 1, ..st };
                    }
//@@ after /let \w+ = iter\.fill_buffer\(&mut buf\)\?;/#1of7
                    let ghost pl = rec_payload(h);
                    proof {
                        lemma_rec_read(h);
                        assert(buf@ =~= pl);
                        cur = rec_rest(h);
                    }
//@@ after /let rel_len = read_u32\([^;]*;/
                    let ghost rl32 = rel_len as int;
                    proof { if pl.len() >= 12 { lemma_le32_sub(pl, 8, pl.len() as int); } }
//@@ after /let relid = &buf\[[^;]*;/
                        let ghost relid_bytes = relid@;
//@@ before /let path = /
                        let ghost hs = le32(buf@);
                        proof {
                            axiom_cow_str(); axiom_cow_owned_str_all();
                            lemma_bundle_arm(pl, rl32, relid_bytes, hs, pl.subrange(12 + 2 * rl32, pl.len() as int));
                        }
//@@ before /return Err\(XlsbError::Unrecognized \{\s*typ: "BoundSheet8:hsState"/
                                proof {
                                    // an hsState other than 0, 1, 2 is rejected -- and only such a state
                                    //# C16.sheet_state_rejected_iff_unknown
                                    assert(bundle_wf(pl, rels) ==> hs_visible(le32(pl.subrange(0, 4))) is None);
                                }
//@@ before /let typ = match /
                        proof { axiom_str_ext("worksheets"); axiom_str_ext("chartsheets"); axiom_str_ext("dialogsheets"); axiom_str_ext("macrosheets"); }
//@@ before /return Err\(XlsbError::Unrecognized \{\s*typ: "BoundSheet8:dt"/
                                // a sheet whose part lies in none of the folders the format defines is rejected -- and only such a sheet
                                //# C16.sheet_kind_rejected_iff_unknown_folder
                                assert(bundle_wf(pl, rels) ==> folder_type(path@) is None);
//@@ before /self\.metadata\.sheets\.push\(Sheet/
                        let ghost ms_before = self.metadata.sheets@;
                        let ghost ss_before = self.sheets@;
                        proof {
                            if bundle_wf(pl, rels) {
                                // name, visibility, part path and kind of the declared sheet
                                //# C16.bundle_sheet_name
                                assert(cow_chars(name) == ws_text(pl, ws_end(pl, 8)));
                                //# C16.bundle_sheet_visibility
                                assert(hs_visible(le32(pl.subrange(0, 4))) == Some(visible));
                                //# C16.bundle_sheet_path
                                assert(path@ == "xl/"@ + rel_lookup(rels, vstd::utf8::encode_utf8(ws_text(pl, 8)))->Some_0);
                                //# C16.bundle_sheet_kind
                                assert(folder_type(path@) == Some(typ));
                            }
                        }
//@@ after /self\.sheets\.push\([^;]*;/
                        proof {
                            assert(self.metadata.sheets@.drop_last() =~= ms_before);
                            assert(self.sheets@.drop_last() =~= ss_before);
                            if bundle_wf(pl, rels) && !(wb1(s0, st0, rels) is Malformed) {
                                assert(bundle_decl(pl, rels) is Some);
                                let d = bundle_decl(pl, rels)->Some_0;
                                lemma_sheets_push(ms_before, ss_before, self.metadata.sheets@, self.sheets@, m0, n0, st.sheets, d);
                                // one list entry per BrtBundleSh, appended in record order
                                //# C16.bundle_sheet_appended_in_order
                                assert(sheets_ok(self.metadata.sheets@.skip(m0), self.sheets@.skip(n0), st.sheets.push(d)));
                                st = WbSt { sheets: st.sheets.push(d), ..st };
                            } else {
                                assert(self.metadata.sheets@.take(m0) =~= ms_before.take(m0));
                                assert(self.sheets@.take(n0) =~= ss_before.take(n0));
                            }
                        }
//@@ after /let mut defined_names = Vec::new\(\);/
        let ghost c1 = cur;
        let ghost shn = names_of(self.sheets@);
        let ghost st2_0 = Wb2St { names: Seq::empty(), ext: strs(self.extern_sheets@) };
        let ghost mut st2 = st2_0;
        proof {
            assert(pairs(defined_names@) =~= Seq::<(Seq<char>, Seq<char>)>::empty());
            if !(wb1(s0, st0, rels) is Malformed) { lemma_sheet_names(old(self).sheets@, self.metadata.sheets@.skip(m0), self.sheets@, n0, st.sheets); }
        }
//@@ loop 1
            invariant
                // same framing rule in the second half of the part
                //# C03,C16.unknown_records_skipped_whole_after_sheets
                cur == iter.rem(),
                //# C14,C16.names_scan_in_step
                wb2(c1, st2_0, shn) is Malformed || wb2(c1, st2_0, shn) == wb2(cur, st2, shn),
                //# C14,C16.names_list_in_step
                wb2(c1, st2_0, shn) is Malformed || pairs(defined_names@) == st2.names,
                //# C14.extern_sheets_in_step
                wb2(c1, st2_0, shn) is Malformed || strs(self.extern_sheets@) == st2.ext,
                //# C16,C07.names_loop_frame
                names_of(self.sheets@) == shn,
                wb1(s0, st0, rels) is Malformed || shn == oldn + decl_names(st.sheets),
                st2_0 == (Wb2St { names: Seq::empty(), ext: olde }),
                wb1(s0, st0, rels) is Malformed || wb1(s0, st0, rels) == (Wb1::Done { st, rest: c1 }),
                wb1(s0, st0, rels) is Malformed ==> wb_names(s0, st0.is_1904, rels, oldn, olde) is Malformed,
                wb1(s0, st0, rels) is Malformed || wb_names(s0, st0.is_1904, rels, oldn, olde) == wb2(c1, st2_0, shn),
                s0 == part_bytes(old(self).zip, wb_path())->Some_0, part_bytes(old(self).zip, wb_path()) is Some,
                st0 == (WbSt { is_1904: old(self).is_1904, sheets: Seq::empty() }),
                oldn == names_of(old(self).sheets@), olde == strs(old(self).extern_sheets@),
                wb1(s0, st0, rels) is Malformed || self.is_1904 == st.is_1904,
                wb1(s0, st0, rels) is Malformed || sheets_ok(self.metadata.sheets@.skip(m0), self.sheets@.skip(n0), st.sheets),
                self.metadata.sheets@.len() >= m0, self.metadata.sheets@.take(m0) == old(self).metadata.sheets@,
                self.sheets@.len() >= n0, self.sheets@.take(n0) == old(self).sheets@,
                m0 == old(self).metadata.sheets@.len(), n0 == old(self).sheets@.len(),
                self.strings@ == old(self).strings@, self.formats@ == old(self).formats@,
                rels == relationships@,
            decreases iter.rem().len(),
//@@ before /let typ = iter\.read_type\(\)\?;/
            let ghost h = cur;
            proof { lemma_wb2_step(h, st2, shn); lemma_rec_total(h); }
//@@ after /let \w+ = iter\.fill_buffer\(&mut buf\)\?;/#4of7
                    let ghost pl = rec_payload(h);
                    proof {
                        lemma_rec_read(h);
                        assert(buf@.subrange(0, len as int) =~= pl);
                        cur = rec_rest(h);
                    }
//@@ before /self\.extern_sheets\.reserve\(cxti\);/
                        // allocation driven by file data (C06): capped by the guard
                        //# C06.extern_reserve_capped
                        assert(cxti < 1_000_000);
//@@ closure 0
    -> (res: String)
        requires xti@.len() >= 8
        ensures res@ == xti_name(signed32(le32(xti@.subrange(4, 8))), names_of(sheets@))
//@@ before /let sheets = &self\.sheets;/
                    proof {
                        if xti_wf(pl) {
                            assert(buf@.subrange(0, 4) =~= pl.subrange(0, 4));
                            lemma_xti_chunks(buf@, pl);
                        }
                    }
//@@ after /self\.extern_sheets = extern_sheets;/
                    proof {
                        if xti_wf(pl) {
                            assert(self.extern_sheets@.len() == cxti);
                            let got = strs(self.extern_sheets@); let want = xti_names(pl, shn);
                            assert forall|k: int| 0 <= k < want.len() implies #[trigger] got[k] == want[k] by {
                                assert(chunk_seq(buf@.subrange(4, 4 + 12 * cxti as int), 12)[k].len() == 12);
                                assert(got[k] == self.extern_sheets@[k]@);
                            }
                            // entry k of the extern-sheet table is the name of sheet firstSheet of the k-th XTI
                            //# C14.extern_sheet_entries
                            assert(got =~= want);
                            st2 = Wb2St { ext: xti_names(pl, shn), ..st2 };
                        }
                    }
//@@ after /let \w+ = iter\.fill_buffer\(&mut buf\)\?;/#5of7
                    let ghost pl = rec_payload(h);
                    proof {
                        lemma_rec_read(h);
                        assert(buf@.subrange(0, len as int) =~= pl);
                        cur = rec_rest(h);
                        axiom_cow_owned_str_all();
                    }
//@@ after /let mut str_len = 0;/
                    let ghost name_sub = buf@.subrange(9, len as int);
                    let ghost dn_before = defined_names@;
//@@ before /let formula = parse_formula\(/
                    proof { lemma_name_arm(pl, buf@, name_sub, str_len as int, buf@.skip(9 + str_len as int), rgce@); }
//@@ after /defined_names\.push\([^;]*;/
                    proof {
                        if name_wf(pl) && !(wb2(c1, st2_0, shn) is Malformed) {
                            assert(defined_names@ =~= dn_before.push(defined_names@.last()));
                            assert(pairs(defined_names@) =~= pairs(dn_before).push((defined_names@.last().0@, defined_names@.last().1@)));
                            // one entry per BrtName record, whatever its formula (an empty formula still occupies its slot)
                            //# C14.name_entry_per_record
                            assert(pairs(defined_names@) =~= st2.names.push((ws_text(pl, 9), formula_text(name_rgce(pl), st2.ext, st2.names)->Some_0)));
                            st2 = Wb2St { names: st2.names.push((ws_text(pl, 9), formula_text(name_rgce(pl), st2.ext, st2.names)->Some_0)), ..st2 };
                        }
                    }
//@@ replace /path\.split\('.'\)\.nth\(1\)/ no assume_specification for provided trait methods (Iterator::nth of str::Split): the expression is moved into a trusted wrapper whose body is the same expression
verif_split_nth(&path, '/', 1)
//@@ replace /format!\("xl.\{\}", / Verus knows nothing of the String `format!` builds: the expression is moved into a trusted wrapper whose body is the same expression
verif_xl_path(&
//@@ replace /relationships\.get\(([^()]*\(\))\)/ vstd's specification of BTreeMap::get needs key-ordering facts it does not provide for Vec<u8> and [u8]: the expression is moved into a trusted wrapper whose body is the same expression
verif_rel_get(relationships, \g<1>)
//@@ replace /&buf\[0\] &/ Verus has no `BitAnd<u8> for &u8` (std: `&a & b` is `*a & b`); same index, same operand
buf[0] &
//@@ end
//@@ fn src/xlsb/mod.rs Xlsb::worksheet_cells_reader props=C07,C16,C03,C10,C11 entry ret=r
//@@ sig
    ensures
        // an unknown sheet name is an error, not some other sheet (exact match)
        //# C07.unknown_sheet_is_error
        !old(self).knows(name@) ==> r is Err && r->Err_0 is WorksheetNotFound,
        // the reader is built from the part of a sheet with exactly that name and from the workbook's tables -- nothing else
        //# C07,C03,C10.reader_built_from_workbook_state
        r is Ok ==> exists|i: int| 0 <= i < old(self).v_sheets().len() && (#[trigger] old(self).v_sheets()[i]).0@ == name@
            && part_bytes(old(self).v_zip(), old(self).v_sheets()[i].1@) is Some
            && r->Ok_0.src() == (ReaderSrc { bytes: part_bytes(old(self).v_zip(), old(self).v_sheets()[i].1@)->Some_0, formats: old(self).v_formats(),
                strings: old(self).v_strings(), extern_sheets: old(self).v_extern(), names: old(self).v_names(), is_1904: old(self).v_1904() }),
        // the workbook's date-system flag is what every cell reader gets
        //# C16,C10,C11.date_system_flag_reaches_reader
        r is Ok ==> r->Ok_0.src().is_1904 == old(self).v_1904(),
        //# C07.reader_streams_are_functions_of_source
        r is Ok ==> r->Ok_0.formulas() == XlsbCellsReader::formulas_of(r->Ok_0.src()) && r->Ok_0.fend() == XlsbCellsReader::fend_of(r->Ok_0.src()),
//@@ body
        proof { axiom_string_eq_str(); }
//@@ before /let iter = RecordIter::from_zip\(&mut self\.zip, &path\)/
        let ghost wi = choose|i: int| 0 <= i < self.sheets@.len() && (#[trigger] self.sheets@[i]).0@ == name@ && self.sheets@[i].1@ == path@;
        proof {
            // (from the specification of Iterator::find) the entry found is an entry of the sheet list whose name is exactly `name`
            assert(exists|i: int| 0 <= i < self.sheets@.len() && (#[trigger] self.sheets@[i]).0@ == name@ && self.sheets@[i].1@ == path@);
            assert(old(self).v_sheets()[wi] == self.sheets@[wi]);
            assert(old(self).knows(name@));
        }
//@@ replace /\|&\(n, _\)\| ((?:[^()]|\([^()]*\))*)\)/ Verus has no ref patterns (`|&(n, _)|`): the parameter is bound to a name and `n` to a reference to its first component (what the pattern binds); the closure body is kept verbatim and gets the Verus closure signature
|__e| -> (res: bool) ensures res == (__e.0@ == name@) { let n = &__e.0; \g<1> })
//@@ end
//@@ fn src/xlsb/mod.rs "Reader<RS> for Xlsb<RS>::worksheet_formula" props=C14,C07,C06 entry ret=r
//@@ sig
    ensures
        //# C07.formula_unknown_sheet_is_error
        !old(self).knows(name@) ==> r is Err && r->Err_0 is WorksheetNotFound,
        // the result is the range of the formula cells with a non-empty text of the sheet with exactly that name, read with the workbook's tables
        //# C14,C07.formula_range_of_nonempty_formula_cells
        r is Ok ==> exists|i: int| 0 <= i < old(self).v_sheets().len() && (#[trigger] old(self).v_sheets()[i]).0@ == name@
            && part_bytes(old(self).v_zip(), old(self).v_sheets()[i].1@) is Some
            && r->Ok_0 == from_sparse_spec(nonempty_formulas(XlsbCellsReader::formulas_of(ReaderSrc {
                bytes: part_bytes(old(self).v_zip(), old(self).v_sheets()[i].1@)->Some_0, formats: old(self).v_formats(),
                strings: old(self).v_strings(), extern_sheets: old(self).v_extern(), names: old(self).v_names(), is_1904: old(self).v_1904() }))),
//@@ after /let mut cells = Vec::with_capacity\([^;]*;/
        let ghost all = cells_reader.formulas();
        let ghost mut k: int = 0;
        proof { assert(all.take(0) =~= Seq::<Cell<String>>::empty()); assert(all.skip(0) =~= all); }
//@@ loop 0
            invariant
                //# C14.formula_cells_in_step
                0 <= k <= all.len(), cells_reader.formulas() == all.skip(k),
                cells@ == nonempty_formulas(all.take(k)),
                old(self).knows(name@),
            ensures
                k == all.len(),
            decreases cells_reader.formulas().len(),
//@@ before /if !cell\.val\.is_empty\(\)/
            proof {
                assert(all.skip(k)[0] == all[k]);
                assert(all.skip(k).skip(1) =~= all.skip(k + 1));
                assert(all.take(k + 1).drop_last() =~= all.take(k));
                assert(all.take(k + 1).last() == all[k]);
                k = k + 1;
            }
//@@ before /Ok\(Range::from_sparse/
        proof { assert(all.take(k) =~= all); }
//@@ replace /Vec::with_capacity\(/ routed through a wrapper (same expression in its body) whose precondition is the allocation cap of C06
verif_with_capacity_capped(
//@@ end
//@@ endimpl

} // verus!
impl Read for VerifRs { fn read(&mut self, _buf: &mut [u8]) -> std::io::Result<usize> { unimplemented!() } }
impl Seek for VerifRs { fn seek(&mut self, _pos: std::io::SeekFrom) -> std::io::Result<u64> { unimplemented!() } }
fn main() {}
