
// TRUSTED: A-lit -- Verus keeps the contents of byte-string literals uninterpreted (only their length is known); the bytes of the
// literals the verified code compares names with are stated here (ASCII)
#[verifier::external_body]
pub proof fn axiom_bytelits()
    ensures
        b"r"@ == n_r(), b"t"@ == n_t(), b"si"@ == n_si(), b"ref"@ == n_ref(), b"shared"@ == n_shared(),
        b"is"@ == n_is(), b"v"@ == n_v(), b"f"@ == n_f(), b"c"@ == n_c(), b"row"@ == n_row(), b"sheetData"@ == n_sheetdata(),
{}
pub open spec fn n_is() -> Seq<u8> { seq![0x69u8, 0x73u8] }
pub open spec fn n_v() -> Seq<u8> { seq![0x76u8] }
pub open spec fn n_f() -> Seq<u8> { seq![0x66u8] }
pub open spec fn n_c() -> Seq<u8> { seq![0x63u8] }
pub open spec fn n_row() -> Seq<u8> { seq![0x72u8, 0x6fu8, 0x77u8] }
pub open spec fn n_sheetdata() -> Seq<u8> { seq![0x73u8, 0x68u8, 0x65u8, 0x65u8, 0x74u8, 0x44u8, 0x61u8, 0x74u8, 0x61u8] }
pub open spec fn n_ref() -> Seq<u8> { seq![0x72u8, 0x65u8, 0x66u8] }
pub open spec fn n_r() -> Seq<u8> { seq![0x72u8] }
pub open spec fn n_t() -> Seq<u8> { seq![0x74u8] }
pub open spec fn n_si() -> Seq<u8> { seq![0x73u8, 0x69u8] }
pub open spec fn n_shared() -> Seq<u8> { seq![0x73u8, 0x68u8, 0x61u8, 0x72u8, 0x65u8, 0x64u8] }

pub open spec fn no_cdata(ev: Seq<Ev>, a: int, b: int) -> bool { forall|k: int| a <= k < b && 0 <= k < ev.len() ==> !(#[trigger] ev[k].kind is CData) }
pub open spec fn ev_start(n: Seq<u8>) -> Ev { Ev { kind: EvKind::Start, name: n, attrs: Seq::empty(), raw: Seq::empty(), text: Seq::empty(), text_ok: true } }
pub open spec fn ev_end(n: Seq<u8>) -> Ev { Ev { kind: EvKind::End, name: n, attrs: Seq::empty(), raw: Seq::empty(), text: Seq::empty(), text_ok: true } }
pub open spec fn ev_text(t: Seq<char>) -> Ev { Ev { kind: EvKind::Text, name: Seq::empty(), attrs: Seq::empty(), raw: Seq::empty(), text: t, text_ok: true } }
proof fn lemma_local_no_colon(n: Seq<u8>, i: int)
    requires 0 <= i <= n.len(), forall|k: int| 0 <= k < n.len() ==> n[k] != 0x3au8,
    ensures colon_at(n, i) == n.len(),
    decreases n.len() - i,
{
    if i < n.len() { lemma_local_no_colon(n, i + 1); }
}

// =====================================================================================================================
// A1 references: spec functions COPIED from unit a1 (units/a1/unit.rs), where get_row_and_optional_column / get_row_column / get_row
// are PROVED against them.  Here the decoder is external_body with the contract clauses of unit a1 (assumed here, proved there).
// =====================================================================================================================
pub open spec fn is_digit(c: u8) -> bool { 0x30 <= c <= 0x39 }
pub open spec fn is_upper(c: u8) -> bool { 0x41 <= c <= 0x5a }
pub open spec fn is_lower(c: u8) -> bool { 0x61 <= c <= 0x7a }
pub open spec fn is_letter(c: u8) -> bool { is_upper(c) || is_lower(c) }
pub open spec fn letter_val(c: u8) -> nat { if is_upper(c) { (c - 0x41 + 1) as nat } else { (c - 0x61 + 1) as nat } }
pub open spec fn dec10(s: Seq<u8>) -> nat decreases s.len() { if s.len() == 0 { 0 } else { dec10(s.drop_last()) * 10 + (s.last() - 0x30) as nat } }
pub open spec fn b26(s: Seq<u8>) -> nat decreases s.len() { if s.len() == 0 { 0 } else { b26(s.drop_last()) * 26 + letter_val(s.last()) } }
pub open spec fn all_digits(s: Seq<u8>) -> bool { forall|i: int| 0 <= i < s.len() ==> is_digit(#[trigger] s[i]) }
pub open spec fn all_letters(s: Seq<u8>) -> bool { forall|i: int| 0 <= i < s.len() ==> is_letter(#[trigger] s[i]) }
pub open spec fn a1_shape(s: Seq<u8>, nl: int) -> bool {
    0 <= nl <= s.len() && all_letters(s.subrange(0, nl)) && all_digits(s.subrange(nl, s.len() as int))
}
pub open spec fn a1_value(s: Seq<u8>, nl: int) -> (u32, Option<u32>) {
    ((dec10(s.subrange(nl, s.len() as int)) - 1) as u32, if nl > 0 { Some((b26(s.subrange(0, nl)) - 1) as u32) } else { None })
}
pub open spec fn a1_small(s: Seq<u8>, nl: int) -> bool { a1_shape(s, nl) && s.len() - nl <= 9 && nl <= 6 }
/// s is a cell reference (letters then digits, row >= 1) with nl letters
pub open spec fn a1_cell(s: Seq<u8>, nl: int) -> bool { a1_small(s, nl) && nl >= 1 && dec10(s.subrange(nl, s.len() as int)) >= 1 }
/// s is a row reference (optional letters, digits, row >= 1)
pub open spec fn a1_rowref(s: Seq<u8>, nl: int) -> bool { a1_small(s, nl) && dec10(s.subrange(nl, s.len() as int)) >= 1 }
/// the 0-based (row, column) a cell reference denotes
#[verifier::opaque]
pub open spec fn cell_of(s: Seq<u8>) -> Option<(u32, u32)> {
    if exists|nl: int| a1_cell(s, nl) {
        let nl = choose|nl: int| a1_cell(s, nl);
        Some((a1_value(s, nl).0, (b26(s.subrange(0, nl)) - 1) as u32))
    } else { None }
}
/// the 0-based row a row reference (the `r` attribute of `row`) denotes
#[verifier::opaque]
pub open spec fn row_of(s: Seq<u8>) -> Option<u32> {
    if exists|nl: int| a1_rowref(s, nl) { let nl = choose|nl: int| a1_rowref(s, nl); Some(a1_value(s, nl).0) } else { None }
}
/// ST_Ref (ECMA-376 18.18.62): `A1` or `A1:B2` -- a single reference denotes the one-cell area
pub open spec fn dim_of(s: Seq<u8>) -> Option<Dimensions> {
    let c = colon_at(s, 0);
    if c >= s.len() {
        match cell_of(s) { Some(p) => Some(Dimensions { start: p, end: p }), None => None }
    } else {
        match (cell_of(s.subrange(0, c)), cell_of(s.subrange(c + 1, s.len() as int))) {
            (Some(p), Some(q)) => if p.0 <= q.0 && p.1 <= q.1 { Some(Dimensions { start: p, end: q }) } else { None },
            _ => None,
        }
    }
}

//@@ item src/xlsx/mod.rs const MAX_COLUMNS
//@@ item src/xlsx/mod.rs const MAX_ROWS
// TRUSTED: contract of unit a1 (clauses C01,C15,C17.a1_decode / a1_zero_row_rejected / a1_malformed_rejected), PROVED there on the same text
//@@ fn src/xlsx/mod.rs get_row_and_optional_column props=C01 ret=r external_body
//@@ sig
    ensures
        forall|nl: int| #[trigger] a1_small(range@, nl) && dec10(range@.subrange(nl, range@.len() as int)) >= 1 ==>
            r == Ok::<(u32, Option<u32>), XlsxError>(a1_value(range@, nl)),
        forall|nl: int| #[trigger] a1_small(range@, nl) && dec10(range@.subrange(nl, range@.len() as int)) == 0 ==> r is Err,
        (forall|nl: int| !#[trigger] a1_shape(range@, nl)) ==> r is Err,
//@@ end
// as in unit a1 (re-verified here from the contract above)
//@@ fn src/xlsx/mod.rs get_row_column props=C01,C17 ret=r
//@@ sig
    ensures
        //# C01,C17.a1_cell_decode
        forall|nl: int| #[trigger] a1_small(range@, nl) && nl >= 1 && dec10(range@.subrange(nl, range@.len() as int)) >= 1 ==>
            r == Ok::<(u32, u32), XlsxError>((a1_value(range@, nl).0, (b26(range@.subrange(0, nl)) - 1) as u32)),
        //# C01,C17.a1_cell_malformed_rejected
        (forall|nl: int| !#[trigger] a1_shape(range@, nl)) ==> r is Err,
//@@ end
//@@ fn src/xlsx/mod.rs get_row props=C01 ret=r
//@@ sig
    ensures
        //# C01.a1_row_decode
        forall|nl: int| #[trigger] a1_small(range@, nl) && dec10(range@.subrange(nl, range@.len() as int)) >= 1 ==>
            r == Ok::<u32, XlsxError>(a1_value(range@, nl).0),
        //# C01.a1_row_malformed_rejected
        (forall|nl: int| !#[trigger] a1_shape(range@, nl)) ==> r is Err,
//@@ closure 0
    -> (res: u32) ensures res == __c0_0.0
//@@ end
// TRUSTED: get_dimension (split at ':' + get_row_column on each part + `collect::<Result<Vec<_>, _>>()`: iterator adapters outside
// Verus' reach) -- assumed: an ST_Ref whose corners are in order decodes to its two corners through get_row_column; one reference
// gives start == end.  (Its `parts[1].0 - parts[0].0` underflow on reversed references is a C06 finding of unit a1 / colname.)
//@@ fn src/xlsx/mod.rs get_dimension props=C17 ret=r external_body
//@@ sig
    ensures
        dim_of(dimension@) is Some ==> r == Ok::<Dimensions, XlsxError>(dim_of(dimension@)->Some_0),
//@@ end

proof fn lemma_cell_of(s: Seq<u8>, nl: int)
    requires a1_cell(s, nl),
    ensures cell_of(s) == Some((a1_value(s, nl).0, (b26(s.subrange(0, nl)) - 1) as u32)),
{
    reveal(cell_of);
    // the split into letters ++ digits is unique
    let m = choose|m: int| a1_cell(s, m);
    if m < nl { assert(is_digit(s.subrange(m, s.len() as int)[0])); assert(is_letter(s.subrange(0, nl)[m])); }
    if m > nl { assert(is_letter(s.subrange(0, m)[nl])); assert(is_digit(s.subrange(nl, s.len() as int)[0])); }
}

proof fn lemma_cell_2(l: u8, d: u8)
    requires is_letter(l), 0x31 <= d <= 0x39,
    ensures cell_of(seq![l, d]) == Some(((d - 0x31) as u32, (letter_val(l) - 1) as u32)),
{
    let s = seq![l, d];
    assert(s.subrange(0, 1) =~= seq![l]);
    assert(s.subrange(1, 2) =~= seq![d]);
    assert(seq![d].drop_last() =~= Seq::<u8>::empty());
    assert(seq![l].drop_last() =~= Seq::<u8>::empty());
    assert(dec10(seq![d]) == (d - 0x30) as nat) by { reveal_with_fuel(dec10, 2); }
    assert(b26(seq![l]) == letter_val(l)) by { reveal_with_fuel(b26, 2); }
    assert(a1_cell(s, 1));
    lemma_cell_of(s, 1);
}
//@@ fn src/xlsx/mod.rs get_attribute props=C01,C17 ret=r
//@@ r6 0
//@@ sig
    ensures
        //# C01,C17.attribute_lookup
        match attr_scan(atts.rem(), n.0@) {
            AttrLookup::Found(v) => r matches Ok(Some(x)) && x@ == v,
            AttrLookup::Absent => r matches Ok(None),
            AttrLookup::Malformed => r is Err,
        },
//@@ loop 0
        invariant
            attr_scan(__it0.rem(), n.0@) == attr_scan(atts.rem(), n.0@),
        ensures
            __it0.rem().len() == 0,
        decreases __it0.rem().len(),
//@@ end
// TRUSTED: stand-in for the atoi_simd crate: decimal digits -> integer, uninterpreted (integer parsing is not verified)
pub mod atoi_simd {
    use super::*;
    pub struct AtoiSimdError;
    pub uninterp spec fn atoi_spec<T>(s: Seq<u8>) -> Option<T>;
    #[verifier::external_body]
    pub fn parse<T>(s: &[u8]) -> (r: Result<T, AtoiSimdError>)
        ensures match atoi_spec::<T>(s@) { Some(x) => r == Ok::<T, AtoiSimdError>(x), None => r is Err },
    { unimplemented!() }
}
pub open spec fn atoi_usize(s: Seq<u8>) -> Option<usize> { atoi_simd::atoi_spec::<usize>(s) }
/// character data of a text-only element (`v`) whose start tag (qualified name `name`) precedes ev[i]: Text unescaped, CDATA literal,
/// comments skipped, no child elements, closed by the end tag with the same qualified name
pub ghost struct TxtRes { pub ok: bool, pub text: Seq<char>, pub end: int }
pub open spec fn txt_scan(ev: Seq<Ev>, i: int, name: Seq<u8>, acc: Seq<char>) -> TxtRes
    decreases ev.len() - i
{
    if i < 0 || i >= ev.len() { TxtRes { ok: false, text: acc, end: i } }
    else {
        let e = ev[i];
        match e.kind {
            EvKind::Text => if e.text_ok { txt_scan(ev, i + 1, name, acc + e.text) } else { TxtRes { ok: false, text: acc, end: i } },
            EvKind::CData => txt_scan(ev, i + 1, name, acc + e.text),
            EvKind::Other => txt_scan(ev, i + 1, name, acc),
            EvKind::End => if e.name =~= name { TxtRes { ok: true, text: acc, end: i } } else { TxtRes { ok: false, text: acc, end: i } },
            _ => TxtRes { ok: false, text: acc, end: i },
        }
    }
}
proof fn lemma_txt_end(ev: Seq<Ev>, i: int, name: Seq<u8>, acc: Seq<char>)
    requires 0 <= i, txt_scan(ev, i, name, acc).ok,
    ensures i <= txt_scan(ev, i, name, acc).end < ev.len(), ev[txt_scan(ev, i, name, acc).end].kind is End,
    decreases ev.len() - i,
{
    if i < ev.len() {
        let e = ev[i];
        match e.kind {
            EvKind::Text => { lemma_txt_end(ev, i + 1, name, acc + e.text); }
            EvKind::CData => { lemma_txt_end(ev, i + 1, name, acc + e.text); }
            EvKind::Other => { lemma_txt_end(ev, i + 1, name, acc); }
            _ => {}
        }
    }
}