//@@ unit props=C15,C14,C06
// Unit xlsxfml: the formula stream of an xlsx worksheet -- XlsxCellReader::next_formula and read_formula (src/xlsx/cells_reader.rs),
// verbatim text, against the GHOST MODEL of quick-xml of unit xlsxxml (assumption A-xml of DESIGN.md section 5; copied, same text).
#![allow(unused_imports, dead_code, unused_variables, unused_mut, unused_assignments)]
use vstd::prelude::*;
use std::borrow::Cow;
use std::borrow::Borrow;
use std::ops::Deref;
use std::io::{Read, Seek};
use std::str::FromStr;
use std::collections::HashMap;

verus! {

// ---- stand-ins for foreign error payload types (opaque; never inspected by the verified code)
pub mod quick_xml {
    pub struct Error;
    pub mod events { pub mod attributes { pub struct AttrError; } }
    pub mod encoding { pub struct EncodingError; }
}
pub mod zip { pub mod result { pub struct ZipError; } }
pub mod vba { pub struct VbaError; }
#[verifier::external_type_specification] #[verifier::external_body] pub struct ExIoError(std::io::Error);
#[verifier::external_type_specification] #[verifier::external_body] pub struct ExParseFloatError(std::num::ParseFloatError);
#[verifier::external_type_specification] #[verifier::external_body] pub struct ExParseIntError(std::num::ParseIntError);

#[verifier::external_trait_specification] pub trait ExRead { type ExternalTraitSpecificationFor: std::io::Read; }
#[verifier::external_trait_specification] pub trait ExSeek { type ExternalTraitSpecificationFor: std::io::Seek; }

//@@ item src/xlsx/mod.rs enum XlsxError
//@@ item src/lib.rs struct Dimensions keep_attrs
//@@ item src/formats.rs enum CellFormat

// what `from_err!(quick_xml::Error, XlsxError, Xml)` (macro of src/utils.rs) expands to
impl From<quick_xml::Error> for XlsxError { fn from(e: quick_xml::Error) -> (r: XlsxError) { XlsxError::Xml(e) } }
impl vstd::std_specs::convert::FromSpecImpl<quick_xml::Error> for XlsxError {
    open spec fn obeys_from_spec() -> bool { true }
    open spec fn from_spec(e: quick_xml::Error) -> Self { XlsxError::Xml(e) }
}
// what `from_err!(quick_xml::encoding::EncodingError, XlsxError, Encoding)` expands to
impl From<quick_xml::encoding::EncodingError> for XlsxError { fn from(e: quick_xml::encoding::EncodingError) -> (r: XlsxError) { XlsxError::Encoding(e) } }
impl vstd::std_specs::convert::FromSpecImpl<quick_xml::encoding::EncodingError> for XlsxError {
    open spec fn obeys_from_spec() -> bool { true }
    open spec fn from_spec(e: quick_xml::encoding::EncodingError) -> Self { XlsxError::Encoding(e) }
}
// =====================================================================================================================
// A-xml: GHOST MODEL OF quick-xml 0.37 (configuration set by xlsx::xml_reader: trim_text(false), expand_empty_elements = true,
// check_end_names = false).  Everything in this section is TRUSTED.  A reader owns the ghost sequence `events()` of the results
// its successive `read_event_into` calls deliver, and a position `pos()`.  What is ASSUMED AND NOT VERIFIED: that quick-xml turns
// the bytes of the zip part into this sequence (tokenisation, `<a/>` delivered as Start+End, entity / character-reference
// resolution in `unescape`, white space preserved, CDATA sections delivered as separate CData events with their literal content).
// Qualified name and local name, raw bytes and unescaped text are DIFFERENT ghost values: contracts speak of local names and of
// unescaped text only.
// =====================================================================================================================
pub enum EvKind {
    Start,   // start tag (or the first half of an empty-element tag)
    End,     // end tag (or the second half of an empty-element tag)
    Text,    // character data between tags (escaped form in `raw`, resolved form in `text`)
    CData,   // <![CDATA[ ... ]]>, literal content in `text`
    Other,   // comment, processing instruction, XML declaration, DOCTYPE
    Error,   // the reader returns Err at this point
}
pub ghost struct Attr {
    pub key: Seq<u8>,     // qualified attribute name
    pub raw: Seq<u8>,     // value bytes as written between the quotes (what `Attribute::value` holds)
    pub val: Seq<char>,   // value with entity / character references resolved (what `decode_and_unescape_value` returns)
    pub val_ok: bool,     // `decode_and_unescape_value` succeeds
    pub err: bool,        // malformed attribute: the `Attributes` iterator yields Err(AttrError) for it
}
pub ghost struct Ev {
    pub kind: EvKind,
    pub name: Seq<u8>,     // qualified tag name, e.g. `x:row` (Start / End)
    pub attrs: Seq<Attr>,  // attributes in document order (Start)
    pub raw: Seq<u8>,      // bytes of a Text event as written (still escaped)
    pub text: Seq<char>,   // content of a Text event after unescaping, literal content of a CData event
    pub text_ok: bool,     // `unescape()` succeeds on this Text event
}
/// index of the first ':' of s at or after i, s.len() if none
pub open spec fn colon_at(s: Seq<u8>, i: int) -> int
    decreases s.len() - i
{
    if i < 0 || i >= s.len() { s.len() as int } else if s[i] == 0x3au8 { i } else { colon_at(s, i + 1) }
}
/// XML Namespaces: QName = (Prefix ':')? LocalPart -- the local part of a qualified name (quick-xml `QName::local_name`)
pub open spec fn local_of(name: Seq<u8>) -> Seq<u8> {
    let c = colon_at(name, 0);
    if c >= name.len() { name } else { name.subrange(c + 1, name.len() as int) }
}
impl Ev {
    pub open spec fn local(self) -> Seq<u8> { local_of(self.name) }
    pub open spec fn is_tag(self) -> bool { self.kind is Start || self.kind is End }
}

// TRUSTED: A-xml -- quick_xml::name::QName (a tuple struct over the qualified-name bytes; `==` compares the bytes)
pub struct QName<'a>(pub &'a [u8]);
impl<'a> PartialEq for QName<'a> {
    #[verifier::external_body]
    fn eq(&self, o: &QName<'a>) -> (r: bool) ensures r == (self.0@ =~= o.0@) { unimplemented!() }
}
// TRUSTED: A-xml -- quick_xml::name::LocalName
#[verifier::external_body]
pub struct LocalName<'a> { _p: core::marker::PhantomData<&'a ()> }
impl<'a> LocalName<'a> {
    pub uninterp spec fn bytes(&self) -> Seq<u8>;
    // TRUSTED: A-xml
    #[verifier::external_body]
    pub fn as_ref(&self) -> (r: &[u8]) ensures r@ == self.bytes() { unimplemented!() }
    // TRUSTED: A-xml
    #[verifier::external_body]
    pub fn into_inner(self) -> (r: &'a [u8]) ensures r@ == self.bytes() { unimplemented!() }
}
impl<'a> QName<'a> {
    /// the QUALIFIED name bytes (quick-xml `impl AsRef<[u8]> for QName`)
    pub fn as_ref(&self) -> (r: &[u8]) ensures r@ == self.0@ { self.0 }
    pub fn into_inner(self) -> (r: &'a [u8]) ensures r@ == self.0@ { self.0 }
    // TRUSTED: A-xml -- the part after the first ':' (the whole name if there is none)
    #[verifier::external_body]
    pub fn local_name(&self) -> (r: LocalName<'a>) ensures r.bytes() == local_of(self.0@) { unimplemented!() }
}
// TRUSTED: A-xml -- quick_xml::events::{BytesStart, BytesEnd, BytesText, BytesCData}: views onto one ghost event
#[verifier::external_body]
pub struct BytesStart<'a> { _p: core::marker::PhantomData<&'a ()> }
#[verifier::external_body]
pub struct BytesEnd<'a> { _p: core::marker::PhantomData<&'a ()> }
#[verifier::external_body]
pub struct BytesText<'a> { _p: core::marker::PhantomData<&'a ()> }
#[verifier::external_body]
pub struct BytesCData<'a> { _p: core::marker::PhantomData<&'a ()> }

// TRUSTED: A-xml -- quick_xml::events::Event; `Other` stands for Comment / PI / Decl / DocType (never named by the verified code;
// `Empty` cannot occur with expand_empty_elements = true)
pub enum Event<'a> {
    Start(BytesStart<'a>),
    End(BytesEnd<'a>),
    Text(BytesText<'a>),
    CData(BytesCData<'a>),
    Other,
    Eof,
}

impl<'a> BytesStart<'a> {
    pub uninterp spec fn ev(&self) -> Ev;
    // TRUSTED: A-xml
    #[verifier::external_body]
    pub fn name(&self) -> (r: QName<'_>) ensures r.0@ == self.ev().name { unimplemented!() }
    // TRUSTED: A-xml
    #[verifier::external_body]
    pub fn local_name(&self) -> (r: LocalName<'_>) ensures r.bytes() == self.ev().local() { unimplemented!() }
}
impl<'a> BytesEnd<'a> {
    pub uninterp spec fn ev(&self) -> Ev;
    // TRUSTED: A-xml
    #[verifier::external_body]
    pub fn name(&self) -> (r: QName<'_>) ensures r.0@ == self.ev().name { unimplemented!() }
    // TRUSTED: A-xml
    #[verifier::external_body]
    pub fn local_name(&self) -> (r: LocalName<'_>) ensures r.bytes() == self.ev().local() { unimplemented!() }
}
// TRUSTED: A-std -- `Cow::deref` yields the borrowed or owned content; `cow_ref` names it
pub uninterp spec fn cow_ref<'a, 'b, B: ?Sized + ToOwned>(c: &'b Cow<'a, B>) -> &'b B;
pub assume_specification<'a, 'b, B: ?Sized + ToOwned>[ <Cow<'a, B> as Deref>::deref ](c: &'b Cow<'a, B>) -> (r: &'b B)
    ensures r == cow_ref(c), (*c matches Cow::Borrowed(b) ==> r == b);
impl<'a> BytesText<'a> {
    pub uninterp spec fn ev(&self) -> Ev;
    // TRUSTED: A-xml -- `unescape` returns the text with the predefined entities and character references resolved, or Err
    #[verifier::external_body]
    pub fn unescape(&self) -> (r: Result<Cow<'a, str>, quick_xml::Error>)
        ensures
            self.ev().text_ok ==> r is Ok && cow_ref(&r->Ok_0)@ == self.ev().text,
            !self.ev().text_ok ==> r is Err,
    { unimplemented!() }
}
impl<'a> BytesCData<'a> {
    pub uninterp spec fn ev(&self) -> Ev;
}
// TRUSTED: A-xml -- `impl Deref<Target = [u8]>` of BytesText / BytesCData: the bytes of the event AS WRITTEN in the document (`raw`:
// entity and character references NOT resolved).  Nothing relates `raw` to `text`.
impl<'a> Deref for BytesText<'a> {
    type Target = [u8];
    #[verifier::external_body]
    fn deref(&self) -> (r: &[u8]) ensures r@ == self.ev().raw { unimplemented!() }
}
impl<'a> Deref for BytesCData<'a> {
    type Target = [u8];
    #[verifier::external_body]
    fn deref(&self) -> (r: &[u8]) ensures r@ == self.ev().raw { unimplemented!() }
}
// TRUSTED: A-xml -- quick_xml::encoding::Decoder: `decode` converts bytes to text in the document encoding and does NOTHING else (no entity
// resolution): an uninterpreted function of the bytes
pub struct Decoder { _p: u8 }
/// text of a byte string in the document encoding; None: not decodable
pub uninterp spec fn decoded(bytes: Seq<u8>) -> Option<Seq<char>>;
impl Decoder {
    #[verifier::external_body]
    pub fn decode<'b>(&self, bytes: &'b [u8]) -> (r: Result<Cow<'b, str>, quick_xml::encoding::EncodingError>)
        ensures match decoded(bytes@) { Some(t) => r is Ok && cow_ref(&r->Ok_0)@ == t, None => r is Err },
    { unimplemented!() }
}

// TRUSTED: A-xml -- quick_xml::events::attributes::{Attribute, Attributes}: `BytesStart::attributes()` iterates over the attributes of
// the start tag in document order; each item is Ok(Attribute { key, value }) with the qualified attribute name and the RAW value bytes
// borrowed from the tag (`Cow::Borrowed`; nothing is unescaped), or Err(AttrError) for a malformed attribute.
pub struct Attribute<'a> { pub key: QName<'a>, pub value: Cow<'a, [u8]> }
/// attribute value with entity / character references resolved, as a function of the raw bytes (uninterpreted); None: `unescape` fails
pub uninterp spec fn attr_unescaped(raw: Seq<u8>) -> Option<Seq<char>>;
impl<'a> Attribute<'a> {
    // TRUSTED: A-xml -- Attribute::unescape_value / decode_and_unescape_value: the value with references resolved (`Attr::val`), never the raw bytes
    #[verifier::external_body]
    pub fn unescape_value(&self) -> (r: Result<Cow<'a, str>, quick_xml::Error>)
        ensures match attr_unescaped(cow_ref(&self.value)@) { Some(t) => r is Ok && cow_ref(&r->Ok_0)@ == t, None => r is Err },
    { unimplemented!() }
    #[verifier::external_body]
    pub fn decode_and_unescape_value(&self, decoder: Decoder) -> (r: Result<Cow<'a, str>, quick_xml::Error>)
        ensures match attr_unescaped(cow_ref(&self.value)@) { Some(t) => r is Ok && cow_ref(&r->Ok_0)@ == t, None => r is Err },
    { unimplemented!() }
}
#[verifier::external_body]
pub struct Attributes<'a> { _p: core::marker::PhantomData<&'a ()> }
impl<'a> Attributes<'a> {
    /// attributes not yet handed out
    pub uninterp spec fn rem(&self) -> Seq<Attr>;
}
impl<'a> Iterator for Attributes<'a> {
    type Item = Result<Attribute<'a>, quick_xml::events::attributes::AttrError>;
    // TRUSTED: A-xml
    #[verifier::external_body]
    fn next(&mut self) -> (r: Option<Result<Attribute<'a>, quick_xml::events::attributes::AttrError>>)
        ensures
            old(self).rem().len() == 0 ==> r is None && final(self).rem() == old(self).rem(),
            old(self).rem().len() > 0 ==> r is Some && final(self).rem() == old(self).rem().skip(1)
                && (old(self).rem()[0].err ==> r->Some_0 is Err)
                && (!old(self).rem()[0].err ==> r->Some_0 is Ok && (r->Some_0->Ok_0).key.0@ == old(self).rem()[0].key
                     && ((r->Some_0->Ok_0).value matches Cow::Borrowed(v) && v@ == old(self).rem()[0].raw)
                     && attr_unescaped(old(self).rem()[0].raw) == (if old(self).rem()[0].val_ok { Some(old(self).rem()[0].val) } else { None::<Seq<char>> })),
    { unimplemented!() }
}
impl<'a> BytesStart<'a> {
    // TRUSTED: A-xml
    #[verifier::external_body]
    pub fn attributes(&self) -> (r: Attributes<'_>) ensures r.rem() == self.ev().attrs { unimplemented!() }
}
pub enum AttrLookup { Malformed, Found(Seq<u8>), Absent }
/// XML: the value of the attribute named `key` in an attribute list (names are unique in a well-formed start tag, so the first
/// match is the match); Malformed if a syntactically broken attribute precedes it
pub open spec fn attr_scan(attrs: Seq<Attr>, key: Seq<u8>) -> AttrLookup
    decreases attrs.len()
{
    if attrs.len() == 0 { AttrLookup::Absent }
    else if attrs[0].err { AttrLookup::Malformed }
    else if attrs[0].key =~= key { AttrLookup::Found(attrs[0].raw) }
    else { attr_scan(attrs.skip(1), key) }
}

/// the result `read_event_into` delivers for the ghost event e
pub open spec fn ev_result<'b>(r: Result<Event<'b>, quick_xml::Error>, e: Ev) -> bool {
    match e.kind {
        EvKind::Start => r matches Ok(Event::Start(b)) && b.ev() == e,
        EvKind::End => r matches Ok(Event::End(b)) && b.ev() == e,
        EvKind::Text => r matches Ok(Event::Text(b)) && b.ev() == e,
        EvKind::CData => r matches Ok(Event::CData(b)) && b.ev() == e,
        EvKind::Other => r matches Ok(Event::Other),
        EvKind::Error => r is Err,
    }
}
/// where `read_to_end_into(name)` started at i with `depth` open same-named elements stops: at the End tag named `name` that
/// closes depth 0, at an Error event, or at ev.len() (end of input).  Only tags with exactly this qualified name are counted.
pub open spec fn rte_stop(ev: Seq<Ev>, i: int, name: Seq<u8>, depth: nat) -> int
    decreases ev.len() - i
{
    if i < 0 || i >= ev.len() { ev.len() as int }
    else if ev[i].kind is Error { i }
    else if ev[i].kind is Start && ev[i].name == name { rte_stop(ev, i + 1, name, depth + 1) }
    else if ev[i].kind is End && ev[i].name == name { if depth == 0 { i } else { rte_stop(ev, i + 1, name, (depth - 1) as nat) } }
    else { rte_stop(ev, i + 1, name, depth) }
}

// TRUSTED: A-xml -- quick_xml::Reader<BufReader<ZipFile>> (type alias XlReader of src/xlsx/mod.rs)
#[verifier::external_body]
pub struct XlReader<'a> { _p: core::marker::PhantomData<&'a ()> }
impl<'a> XlReader<'a> {
    pub uninterp spec fn events(&self) -> Seq<Ev>;
    pub uninterp spec fn pos(&self) -> nat;
    pub open spec fn left(&self) -> int { if self.pos() >= self.events().len() { 0 } else { self.events().len() - self.pos() } }
    // TRUSTED: A-xml -- Reader::decoder(): does not touch the reader
    #[verifier::external_body]
    pub fn decoder(&self) -> (r: Decoder) { unimplemented!() }

    // TRUSTED: A-xml -- returns events[pos] and advances; at the end of input returns Eof for ever
    #[verifier::external_body]
    pub fn read_event_into<'b>(&mut self, buf: &'b mut Vec<u8>) -> (r: Result<Event<'b>, quick_xml::Error>)
        ensures
            final(self).events() == old(self).events(),
            old(self).pos() >= old(self).events().len() ==> (r matches Ok(Event::Eof)) && final(self).pos() == old(self).pos(),
            old(self).pos() < old(self).events().len() ==>
                final(self).pos() == old(self).pos() + 1 && ev_result(r, old(self).events()[old(self).pos() as int]),
    { unimplemented!() }

    // TRUSTED: A-xml -- documented behaviour of Reader::read_to_end_into: reads events until the End tag with this qualified name
    // at nesting depth 0 (nesting counted for tags with the same qualified name only); Err on a reader error or end of input
    #[verifier::external_body]
    pub fn read_to_end_into(&mut self, end: QName<'_>, buf: &mut Vec<u8>) -> (r: Result<(), quick_xml::Error>)
        ensures
            final(self).events() == old(self).events(),
            final(self).pos() >= old(self).pos(),
            ({
                let ev = old(self).events();
                let k = rte_stop(ev, old(self).pos() as int, end.0@, 0);
                if k < ev.len() && ev[k].kind is End { r is Ok && final(self).pos() == k + 1 } else { r is Err }
            }),
    { unimplemented!() }
}