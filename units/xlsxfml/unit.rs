//@@ unit props=C15,C14,C06
// Unit xlsxfml: the formula stream of an xlsx worksheet -- XlsxCellReader::next_formula and read_formula (src/xlsx/cells_reader.rs),
// verbatim text, against the GHOST MODEL of quick-xml of unit xlsxxml (assumption A-xml of DESIGN.md section 5; copied, same text).
//
// Specification (ECMA-376 18.3.1.40 f / 18.3.1.4 c / 18.3.1.73 row, and the text of property C15), over the event sequence:
//   txt_scan      character data of a text-only element (formula text of `f`): Text unescaped, CDATA literal, comments skipped
//   rect_map      THE offset map of a master at cell `pos` with declared range d: every cell m of the rectangle d (one or two
//                 dimensions) |-> (m.row - pos.row, m.col - pos.col), nothing else (the master need not be the first cell of d)
//   f_effect      what one `f` element reports and does to the group table: master (t=shared, si=K, ref=R, text) reports its text and
//                 registers (text, rect_map(R, pos)) under index K, other indices untouched; member (t=shared, si=K, no ref) at a
//                 cell of the group's map reports translate(master text, map[cell]); cells outside / unknown groups / non-shared keep
//                 their own text
//   fcell_scan    content of a `c` element (f?, v?, is?), fnext_scan: the next formula cell of sheetData: position = `r` attribute else
//                 the running cursor, cursor rules as for next_cell; a cell without `f` reports the empty string
// Under contract (real text): read_formula (C14.formula_text_from_f, value_elements_carry_no_formula, unknown_cell_child_rejected,
//   reader frame; CDATA sections are part of the text), XlsxCellReader::next_formula (entry; C14.formula_cell_position,
//   C14,C15.formula_cell_text, C14.formula_cursor_update, C15.shared_group_table, C14.formula_end_of_sheet_data, C15.group_table_invariant_kept,
//   labelled assertions offset_map_only_rectangle / offset_map_covers_rectangle / master_stored_under_its_shared_index and the loop
//   invariants C15.offset_map_*; all implicit obligations -> C06, plus two allocation-proportion assertions that FAIL: registered),
//   get_attribute, get_row_column, get_row, Cell::new (re-verified here on the same text as in unit xlsxxml).
// TRUSTED (all marked): the quick-xml model (A-xml), byte-literal contents, get_row_and_optional_column (proved in unit a1),
//   get_dimension (external_body, `dim_of`), replace_cell_names = uninterpreted `translate` with the precondition of unit shared,
//   atoi_simd::parse uninterpreted, Borrow::borrow, String::default, hashing of (u32, u32) keys (obeys_key_model).
// `requires old(self).wf()` on the entry function next_formula is the representation invariant of the PRIVATE group table (every stored
//   offset is a difference of two u32 coordinates; needed for the precondition of replace_cell_names): it holds for the empty table
//   XlsxCellReader::new creates (witness_new_wf) and is re-established by every call (C15.group_table_invariant_kept).
// Reversed corners (ref="C2:C1", accepted by get_dimension): the two `a..=b` loops are empty; vstd's model of RangeInclusive does not say so
//   for a > b, so the rectangle assertions carry the antecedent `ord` (corners in order) -- nothing is claimed about the map then, only
//   that every stored offset is small; `dim_of` (ST_Ref) rejects such refs, so the functional clauses are unaffected.
// Declared rewrites: byte-string literal patterns -> binding + guard (read_formula arms; `if let Ok(Some(b"shared")) = X {` ->
//   `if (match X { Ok(Some(__t)) => __t == b"shared", _ => false }) {`).
// Genuine findings: findings/xlsxfml.json (demonstrations findings/xlsxfml_1.rs, _2.rs); repaired ones under "fixed" (fixes/xlsxfml_1/2.diff).
#![allow(unused_imports, dead_code, unused_variables, unused_mut, unused_assignments)]
use vstd::prelude::*;
use std::borrow::Cow;
use std::borrow::Borrow;
use std::ops::Deref;
use std::io::{Read, Seek};
use std::str::FromStr;
use std::collections::HashMap;

verus! {

// ---- stand-ins for foreign error payload types (opaque; never inspected by the verified code)
pub mod quick_xml {
    pub struct Error;
    pub mod events { pub mod attributes { pub struct AttrError; } }
    pub mod encoding { pub struct EncodingError; }
}
pub mod zip { pub mod result { pub struct ZipError; } }
pub mod vba { pub struct VbaError; }
#[verifier::external_type_specification] #[verifier::external_body] pub struct ExIoError(std::io::Error);
#[verifier::external_type_specification] #[verifier::external_body] pub struct ExParseFloatError(std::num::ParseFloatError);
#[verifier::external_type_specification] #[verifier::external_body] pub struct ExParseIntError(std::num::ParseIntError);

#[verifier::external_trait_specification] pub trait ExRead { type ExternalTraitSpecificationFor: std::io::Read; }
#[verifier::external_trait_specification] pub trait ExSeek { type ExternalTraitSpecificationFor: std::io::Seek; }

//@@ item src/xlsx/mod.rs enum XlsxError
//@@ item src/lib.rs struct Dimensions keep_attrs
//@@ item src/formats.rs enum CellFormat

// what `from_err!(quick_xml::Error, XlsxError, Xml)` (macro of src/utils.rs) expands to
impl From<quick_xml::Error> for XlsxError { fn from(e: quick_xml::Error) -> (r: XlsxError) { XlsxError::Xml(e) } }
impl vstd::std_specs::convert::FromSpecImpl<quick_xml::Error> for XlsxError {
    open spec fn obeys_from_spec() -> bool { true }
    open spec fn from_spec(e: quick_xml::Error) -> Self { XlsxError::Xml(e) }
}
// what `from_err!(quick_xml::encoding::EncodingError, XlsxError, Encoding)` expands to
impl From<quick_xml::encoding::EncodingError> for XlsxError { fn from(e: quick_xml::encoding::EncodingError) -> (r: XlsxError) { XlsxError::Encoding(e) } }
impl vstd::std_specs::convert::FromSpecImpl<quick_xml::encoding::EncodingError> for XlsxError {
    open spec fn obeys_from_spec() -> bool { true }
    open spec fn from_spec(e: quick_xml::encoding::EncodingError) -> Self { XlsxError::Encoding(e) }
}
// =====================================================================================================================
// A-xml: GHOST MODEL OF quick-xml 0.37 (configuration set by xlsx::xml_reader: trim_text(false), expand_empty_elements = true,
// check_end_names = false).  Everything in this section is TRUSTED.  A reader owns the ghost sequence `events()` of the results
// its successive `read_event_into` calls deliver, and a position `pos()`.  What is ASSUMED AND NOT VERIFIED: that quick-xml turns
// the bytes of the zip part into this sequence (tokenisation, `<a/>` delivered as Start+End, entity / character-reference
// resolution in `unescape`, white space preserved, CDATA sections delivered as separate CData events with their literal content).
// Qualified name and local name, raw bytes and unescaped text are DIFFERENT ghost values: contracts speak of local names and of
// unescaped text only.
// =====================================================================================================================
pub enum EvKind {
    Start,   // start tag (or the first half of an empty-element tag)
    End,     // end tag (or the second half of an empty-element tag)
    Text,    // character data between tags (escaped form in `raw`, resolved form in `text`)
    CData,   // <![CDATA[ ... ]]>, literal content in `text`
    Other,   // comment, processing instruction, XML declaration, DOCTYPE
    Error,   // the reader returns Err at this point
}
pub ghost struct Attr {
    pub key: Seq<u8>,     // qualified attribute name
    pub raw: Seq<u8>,     // value bytes as written between the quotes (what `Attribute::value` holds)
    pub val: Seq<char>,   // value with entity / character references resolved (what `decode_and_unescape_value` returns)
    pub val_ok: bool,     // `decode_and_unescape_value` succeeds
    pub err: bool,        // malformed attribute: the `Attributes` iterator yields Err(AttrError) for it
}
pub ghost struct Ev {
    pub kind: EvKind,
    pub name: Seq<u8>,     // qualified tag name, e.g. `x:row` (Start / End)
    pub attrs: Seq<Attr>,  // attributes in document order (Start)
    pub raw: Seq<u8>,      // bytes of a Text event as written (still escaped)
    pub text: Seq<char>,   // content of a Text event after unescaping, literal content of a CData event
    pub text_ok: bool,     // `unescape()` succeeds on this Text event / `decode()` succeeds on this CData event
}
/// index of the first ':' of s at or after i, s.len() if none
pub open spec fn colon_at(s: Seq<u8>, i: int) -> int
    decreases s.len() - i
{
    if i < 0 || i >= s.len() { s.len() as int } else if s[i] == 0x3au8 { i } else { colon_at(s, i + 1) }
}
/// XML Namespaces: QName = (Prefix ':')? LocalPart -- the local part of a qualified name (quick-xml `QName::local_name`)
pub open spec fn local_of(name: Seq<u8>) -> Seq<u8> {
    let c = colon_at(name, 0);
    if c >= name.len() { name } else { name.subrange(c + 1, name.len() as int) }
}
impl Ev {
    pub open spec fn local(self) -> Seq<u8> { local_of(self.name) }
    pub open spec fn is_tag(self) -> bool { self.kind is Start || self.kind is End }
}

// TRUSTED: A-xml -- quick_xml::name::QName (a tuple struct over the qualified-name bytes; `==` compares the bytes)
pub struct QName<'a>(pub &'a [u8]);
impl<'a> PartialEq for QName<'a> {
    #[verifier::external_body]
    fn eq(&self, o: &QName<'a>) -> (r: bool) ensures r == (self.0@ =~= o.0@) { unimplemented!() }
}
// TRUSTED: A-xml -- quick_xml::name::LocalName
#[verifier::external_body]
pub struct LocalName<'a> { _p: core::marker::PhantomData<&'a ()> }
impl<'a> LocalName<'a> {
    pub uninterp spec fn bytes(&self) -> Seq<u8>;
    // TRUSTED: A-xml
    #[verifier::external_body]
    pub fn as_ref(&self) -> (r: &[u8]) ensures r@ == self.bytes() { unimplemented!() }
    // TRUSTED: A-xml
    #[verifier::external_body]
    pub fn into_inner(self) -> (r: &'a [u8]) ensures r@ == self.bytes() { unimplemented!() }
}
impl<'a> QName<'a> {
    /// the QUALIFIED name bytes (quick-xml `impl AsRef<[u8]> for QName`)
    pub fn as_ref(&self) -> (r: &[u8]) ensures r@ == self.0@ { self.0 }
    pub fn into_inner(self) -> (r: &'a [u8]) ensures r@ == self.0@ { self.0 }
    // TRUSTED: A-xml -- the part after the first ':' (the whole name if there is none)
    #[verifier::external_body]
    pub fn local_name(&self) -> (r: LocalName<'a>) ensures r.bytes() == local_of(self.0@) { unimplemented!() }
}
// TRUSTED: A-xml -- quick_xml::events::{BytesStart, BytesEnd, BytesText, BytesCData}: views onto one ghost event
#[verifier::external_body]
pub struct BytesStart<'a> { _p: core::marker::PhantomData<&'a ()> }
#[verifier::external_body]
pub struct BytesEnd<'a> { _p: core::marker::PhantomData<&'a ()> }
#[verifier::external_body]
pub struct BytesText<'a> { _p: core::marker::PhantomData<&'a ()> }
#[verifier::external_body]
pub struct BytesCData<'a> { _p: core::marker::PhantomData<&'a ()> }

// TRUSTED: A-xml -- quick_xml::events::Event; `Other` stands for Comment / PI / Decl / DocType (never named by the verified code;
// `Empty` cannot occur with expand_empty_elements = true)
pub enum Event<'a> {
    Start(BytesStart<'a>),
    End(BytesEnd<'a>),
    Text(BytesText<'a>),
    CData(BytesCData<'a>),
    Other,
    Eof,
}

impl<'a> BytesStart<'a> {
    pub uninterp spec fn ev(&self) -> Ev;
    // TRUSTED: A-xml
    #[verifier::external_body]
    pub fn name(&self) -> (r: QName<'_>) ensures r.0@ == self.ev().name { unimplemented!() }
    // TRUSTED: A-xml
    #[verifier::external_body]
    pub fn local_name(&self) -> (r: LocalName<'_>) ensures r.bytes() == self.ev().local() { unimplemented!() }
}
impl<'a> BytesEnd<'a> {
    pub uninterp spec fn ev(&self) -> Ev;
    // TRUSTED: A-xml
    #[verifier::external_body]
    pub fn name(&self) -> (r: QName<'_>) ensures r.0@ == self.ev().name { unimplemented!() }
    // TRUSTED: A-xml
    #[verifier::external_body]
    pub fn local_name(&self) -> (r: LocalName<'_>) ensures r.bytes() == self.ev().local() { unimplemented!() }
}
// TRUSTED: A-std -- `Cow::deref` yields the borrowed or owned content; `cow_ref` names it
pub uninterp spec fn cow_ref<'a, 'b, B: ?Sized + ToOwned>(c: &'b Cow<'a, B>) -> &'b B;
pub assume_specification<'a, 'b, B: ?Sized + ToOwned>[ <Cow<'a, B> as Deref>::deref ](c: &'b Cow<'a, B>) -> (r: &'b B)
    ensures r == cow_ref(c), (*c matches Cow::Borrowed(b) ==> r == b);
impl<'a> BytesText<'a> {
    pub uninterp spec fn ev(&self) -> Ev;
    // TRUSTED: A-xml -- `unescape` returns the text with the predefined entities and character references resolved, or Err
    #[verifier::external_body]
    pub fn unescape(&self) -> (r: Result<Cow<'a, str>, quick_xml::Error>)
        ensures
            self.ev().text_ok ==> r is Ok && cow_ref(&r->Ok_0)@ == self.ev().text,
            !self.ev().text_ok ==> r is Err,
    { unimplemented!() }
}
impl<'a> BytesCData<'a> {
    pub uninterp spec fn ev(&self) -> Ev;
    // TRUSTED: A-xml -- `decode` returns the literal content of the section in the document encoding (no entity resolution), or Err
    #[verifier::external_body]
    pub fn decode(&self) -> (r: Result<Cow<'a, str>, quick_xml::encoding::EncodingError>)
        ensures
            self.ev().text_ok ==> r is Ok && cow_ref(&r->Ok_0)@ == self.ev().text,
            !self.ev().text_ok ==> r is Err,
    { unimplemented!() }
}
// TRUSTED: A-xml -- `impl Deref<Target = [u8]>` of BytesText / BytesCData: the bytes of the event AS WRITTEN in the document (`raw`:
// entity and character references NOT resolved).  Nothing relates `raw` to `text`.
impl<'a> Deref for BytesText<'a> {
    type Target = [u8];
    #[verifier::external_body]
    fn deref(&self) -> (r: &[u8]) ensures r@ == self.ev().raw { unimplemented!() }
}
impl<'a> Deref for BytesCData<'a> {
    type Target = [u8];
    #[verifier::external_body]
    fn deref(&self) -> (r: &[u8]) ensures r@ == self.ev().raw { unimplemented!() }
}
// TRUSTED: A-xml -- quick_xml::encoding::Decoder: `decode` converts bytes to text in the document encoding and does NOTHING else (no entity
// resolution): an uninterpreted function of the bytes
pub struct Decoder { _p: u8 }
/// text of a byte string in the document encoding; None: not decodable
pub uninterp spec fn decoded(bytes: Seq<u8>) -> Option<Seq<char>>;
impl Decoder {
    #[verifier::external_body]
    pub fn decode<'b>(&self, bytes: &'b [u8]) -> (r: Result<Cow<'b, str>, quick_xml::encoding::EncodingError>)
        ensures match decoded(bytes@) { Some(t) => r is Ok && cow_ref(&r->Ok_0)@ == t, None => r is Err },
    { unimplemented!() }
}

// TRUSTED: A-xml -- quick_xml::events::attributes::{Attribute, Attributes}: `BytesStart::attributes()` iterates over the attributes of
// the start tag in document order; each item is Ok(Attribute { key, value }) with the qualified attribute name and the RAW value bytes
// borrowed from the tag (`Cow::Borrowed`; nothing is unescaped), or Err(AttrError) for a malformed attribute.
pub struct Attribute<'a> { pub key: QName<'a>, pub value: Cow<'a, [u8]> }
/// attribute value with entity / character references resolved, as a function of the raw bytes (uninterpreted); None: `unescape` fails
pub uninterp spec fn attr_unescaped(raw: Seq<u8>) -> Option<Seq<char>>;
impl<'a> Attribute<'a> {
    // TRUSTED: A-xml -- Attribute::unescape_value / decode_and_unescape_value: the value with references resolved (`Attr::val`), never the raw bytes
    #[verifier::external_body]
    pub fn unescape_value(&self) -> (r: Result<Cow<'a, str>, quick_xml::Error>)
        ensures match attr_unescaped(cow_ref(&self.value)@) { Some(t) => r is Ok && cow_ref(&r->Ok_0)@ == t, None => r is Err },
    { unimplemented!() }
    #[verifier::external_body]
    pub fn decode_and_unescape_value(&self, decoder: Decoder) -> (r: Result<Cow<'a, str>, quick_xml::Error>)
        ensures match attr_unescaped(cow_ref(&self.value)@) { Some(t) => r is Ok && cow_ref(&r->Ok_0)@ == t, None => r is Err },
    { unimplemented!() }
}
#[verifier::external_body]
pub struct Attributes<'a> { _p: core::marker::PhantomData<&'a ()> }
impl<'a> Attributes<'a> {
    /// attributes not yet handed out
    pub uninterp spec fn rem(&self) -> Seq<Attr>;
}
impl<'a> Iterator for Attributes<'a> {
    type Item = Result<Attribute<'a>, quick_xml::events::attributes::AttrError>;
    // TRUSTED: A-xml
    #[verifier::external_body]
    fn next(&mut self) -> (r: Option<Result<Attribute<'a>, quick_xml::events::attributes::AttrError>>)
        ensures
            old(self).rem().len() == 0 ==> r is None && final(self).rem() == old(self).rem(),
            old(self).rem().len() > 0 ==> r is Some && final(self).rem() == old(self).rem().skip(1)
                && (old(self).rem()[0].err ==> r->Some_0 is Err)
                && (!old(self).rem()[0].err ==> r->Some_0 is Ok && (r->Some_0->Ok_0).key.0@ == old(self).rem()[0].key
                     && ((r->Some_0->Ok_0).value matches Cow::Borrowed(v) && v@ == old(self).rem()[0].raw)
                     && attr_unescaped(old(self).rem()[0].raw) == (if old(self).rem()[0].val_ok { Some(old(self).rem()[0].val) } else { None::<Seq<char>> })),
    { unimplemented!() }
}
impl<'a> BytesStart<'a> {
    // TRUSTED: A-xml
    #[verifier::external_body]
    pub fn attributes(&self) -> (r: Attributes<'_>) ensures r.rem() == self.ev().attrs { unimplemented!() }
}
pub enum AttrLookup { Malformed, Found(Seq<u8>), Absent }
/// XML: the value of the attribute named `key` in an attribute list (names are unique in a well-formed start tag, so the first
/// match is the match); Malformed if a syntactically broken attribute precedes it
pub open spec fn attr_scan(attrs: Seq<Attr>, key: Seq<u8>) -> AttrLookup
    decreases attrs.len()
{
    if attrs.len() == 0 { AttrLookup::Absent }
    else if attrs[0].err { AttrLookup::Malformed }
    else if attrs[0].key =~= key { AttrLookup::Found(attrs[0].raw) }
    else { attr_scan(attrs.skip(1), key) }
}

/// the result `read_event_into` delivers for the ghost event e
pub open spec fn ev_result<'b>(r: Result<Event<'b>, quick_xml::Error>, e: Ev) -> bool {
    match e.kind {
        EvKind::Start => r matches Ok(Event::Start(b)) && b.ev() == e,
        EvKind::End => r matches Ok(Event::End(b)) && b.ev() == e,
        EvKind::Text => r matches Ok(Event::Text(b)) && b.ev() == e,
        EvKind::CData => r matches Ok(Event::CData(b)) && b.ev() == e,
        EvKind::Other => r matches Ok(Event::Other),
        EvKind::Error => r is Err,
    }
}
/// where `read_to_end_into(name)` started at i with `depth` open same-named elements stops: at the End tag named `name` that
/// closes depth 0, at an Error event, or at ev.len() (end of input).  Only tags with exactly this qualified name are counted.
pub open spec fn rte_stop(ev: Seq<Ev>, i: int, name: Seq<u8>, depth: nat) -> int
    decreases ev.len() - i
{
    if i < 0 || i >= ev.len() { ev.len() as int }
    else if ev[i].kind is Error { i }
    else if ev[i].kind is Start && ev[i].name == name { rte_stop(ev, i + 1, name, depth + 1) }
    else if ev[i].kind is End && ev[i].name == name { if depth == 0 { i } else { rte_stop(ev, i + 1, name, (depth - 1) as nat) } }
    else { rte_stop(ev, i + 1, name, depth) }
}

// TRUSTED: A-xml -- quick_xml::Reader<BufReader<ZipFile>> (type alias XlReader of src/xlsx/mod.rs)
#[verifier::external_body]
pub struct XlReader<'a> { _p: core::marker::PhantomData<&'a ()> }
impl<'a> XlReader<'a> {
    pub uninterp spec fn events(&self) -> Seq<Ev>;
    pub uninterp spec fn pos(&self) -> nat;
    pub open spec fn left(&self) -> int { if self.pos() >= self.events().len() { 0 } else { self.events().len() - self.pos() } }
    // TRUSTED: A-xml -- Reader::decoder(): does not touch the reader
    #[verifier::external_body]
    pub fn decoder(&self) -> (r: Decoder) { unimplemented!() }

    // TRUSTED: A-xml -- returns events[pos] and advances; at the end of input returns Eof for ever
    #[verifier::external_body]
    pub fn read_event_into<'b>(&mut self, buf: &'b mut Vec<u8>) -> (r: Result<Event<'b>, quick_xml::Error>)
        ensures
            final(self).events() == old(self).events(),
            old(self).pos() >= old(self).events().len() ==> (r matches Ok(Event::Eof)) && final(self).pos() == old(self).pos(),
            old(self).pos() < old(self).events().len() ==>
                final(self).pos() == old(self).pos() + 1 && ev_result(r, old(self).events()[old(self).pos() as int]),
    { unimplemented!() }

    // TRUSTED: A-xml -- documented behaviour of Reader::read_to_end_into: reads events until the End tag with this qualified name
    // at nesting depth 0 (nesting counted for tags with the same qualified name only); Err on a reader error or end of input
    #[verifier::external_body]
    pub fn read_to_end_into(&mut self, end: QName<'_>, buf: &mut Vec<u8>) -> (r: Result<(), quick_xml::Error>)
        ensures
            final(self).events() == old(self).events(),
            final(self).pos() >= old(self).pos(),
            ({
                let ev = old(self).events();
                let k = rte_stop(ev, old(self).pos() as int, end.0@, 0);
                if k < ev.len() && ev[k].kind is End { r is Ok && final(self).pos() == k + 1 } else { r is Err }
            }),
    { unimplemented!() }
}
// TRUSTED: A-lit -- Verus keeps the contents of byte-string literals uninterpreted (only their length is known); the bytes of the
// literals the verified code compares names with are stated here (ASCII)
#[verifier::external_body]
pub proof fn axiom_bytelits()
    ensures
        b"r"@ == n_r(), b"t"@ == n_t(), b"si"@ == n_si(), b"ref"@ == n_ref(), b"shared"@ == n_shared(),
        b"is"@ == n_is(), b"v"@ == n_v(), b"f"@ == n_f(), b"c"@ == n_c(), b"row"@ == n_row(), b"sheetData"@ == n_sheetdata(),
{}
pub open spec fn n_is() -> Seq<u8> { seq![0x69u8, 0x73u8] }
pub open spec fn n_v() -> Seq<u8> { seq![0x76u8] }
pub open spec fn n_f() -> Seq<u8> { seq![0x66u8] }
pub open spec fn n_c() -> Seq<u8> { seq![0x63u8] }
pub open spec fn n_row() -> Seq<u8> { seq![0x72u8, 0x6fu8, 0x77u8] }
pub open spec fn n_sheetdata() -> Seq<u8> { seq![0x73u8, 0x68u8, 0x65u8, 0x65u8, 0x74u8, 0x44u8, 0x61u8, 0x74u8, 0x61u8] }
pub open spec fn n_ref() -> Seq<u8> { seq![0x72u8, 0x65u8, 0x66u8] }
pub open spec fn n_r() -> Seq<u8> { seq![0x72u8] }
pub open spec fn n_t() -> Seq<u8> { seq![0x74u8] }
pub open spec fn n_si() -> Seq<u8> { seq![0x73u8, 0x69u8] }
pub open spec fn n_shared() -> Seq<u8> { seq![0x73u8, 0x68u8, 0x61u8, 0x72u8, 0x65u8, 0x64u8] }

pub open spec fn ev_start(n: Seq<u8>) -> Ev { Ev { kind: EvKind::Start, name: n, attrs: Seq::empty(), raw: Seq::empty(), text: Seq::empty(), text_ok: true } }
pub open spec fn ev_end(n: Seq<u8>) -> Ev { Ev { kind: EvKind::End, name: n, attrs: Seq::empty(), raw: Seq::empty(), text: Seq::empty(), text_ok: true } }
pub open spec fn ev_text(t: Seq<char>) -> Ev { Ev { kind: EvKind::Text, name: Seq::empty(), attrs: Seq::empty(), raw: Seq::empty(), text: t, text_ok: true } }
proof fn lemma_local_no_colon(n: Seq<u8>, i: int)
    requires 0 <= i <= n.len(), forall|k: int| 0 <= k < n.len() ==> n[k] != 0x3au8,
    ensures colon_at(n, i) == n.len(),
    decreases n.len() - i,
{
    if i < n.len() { lemma_local_no_colon(n, i + 1); }
}

// =====================================================================================================================
// A1 references: spec functions COPIED from unit a1 (units/a1/unit.rs), where get_row_and_optional_column / get_row_column / get_row
// are PROVED against them.  Here the decoder is external_body with the contract clauses of unit a1 (assumed here, proved there).
// =====================================================================================================================
pub open spec fn is_digit(c: u8) -> bool { 0x30 <= c <= 0x39 }
pub open spec fn is_upper(c: u8) -> bool { 0x41 <= c <= 0x5a }
pub open spec fn is_lower(c: u8) -> bool { 0x61 <= c <= 0x7a }
pub open spec fn is_letter(c: u8) -> bool { is_upper(c) || is_lower(c) }
pub open spec fn letter_val(c: u8) -> nat { if is_upper(c) { (c - 0x41 + 1) as nat } else { (c - 0x61 + 1) as nat } }
pub open spec fn dec10(s: Seq<u8>) -> nat decreases s.len() { if s.len() == 0 { 0 } else { dec10(s.drop_last()) * 10 + (s.last() - 0x30) as nat } }
pub open spec fn b26(s: Seq<u8>) -> nat decreases s.len() { if s.len() == 0 { 0 } else { b26(s.drop_last()) * 26 + letter_val(s.last()) } }
pub open spec fn all_digits(s: Seq<u8>) -> bool { forall|i: int| 0 <= i < s.len() ==> is_digit(#[trigger] s[i]) }
pub open spec fn all_letters(s: Seq<u8>) -> bool { forall|i: int| 0 <= i < s.len() ==> is_letter(#[trigger] s[i]) }
pub open spec fn a1_shape(s: Seq<u8>, nl: int) -> bool {
    0 <= nl <= s.len() && all_letters(s.subrange(0, nl)) && all_digits(s.subrange(nl, s.len() as int))
}
pub open spec fn a1_value(s: Seq<u8>, nl: int) -> (u32, Option<u32>) {
    ((dec10(s.subrange(nl, s.len() as int)) - 1) as u32, if nl > 0 { Some((b26(s.subrange(0, nl)) - 1) as u32) } else { None })
}
pub open spec fn a1_small(s: Seq<u8>, nl: int) -> bool { a1_shape(s, nl) && s.len() - nl <= 9 && nl <= 6 }
/// s is a cell reference (letters then digits, row >= 1) with nl letters
pub open spec fn a1_cell(s: Seq<u8>, nl: int) -> bool { a1_small(s, nl) && nl >= 1 && dec10(s.subrange(nl, s.len() as int)) >= 1 }
/// s is a row reference (optional letters, digits, row >= 1)
pub open spec fn a1_rowref(s: Seq<u8>, nl: int) -> bool { a1_small(s, nl) && dec10(s.subrange(nl, s.len() as int)) >= 1 }
/// the 0-based (row, column) a cell reference denotes
#[verifier::opaque]
pub open spec fn cell_of(s: Seq<u8>) -> Option<(u32, u32)> {
    if exists|nl: int| a1_cell(s, nl) {
        let nl = choose|nl: int| a1_cell(s, nl);
        Some((a1_value(s, nl).0, (b26(s.subrange(0, nl)) - 1) as u32))
    } else { None }
}
/// the 0-based row a row reference (the `r` attribute of `row`) denotes
#[verifier::opaque]
pub open spec fn row_of(s: Seq<u8>) -> Option<u32> {
    if exists|nl: int| a1_rowref(s, nl) { let nl = choose|nl: int| a1_rowref(s, nl); Some(a1_value(s, nl).0) } else { None }
}
/// ST_Ref (ECMA-376 18.18.62): `A1` or `A1:B2` -- a single reference denotes the one-cell area
pub open spec fn dim_of(s: Seq<u8>) -> Option<Dimensions> {
    let c = colon_at(s, 0);
    if c >= s.len() {
        match cell_of(s) { Some(p) => Some(Dimensions { start: p, end: p }), None => None }
    } else {
        match (cell_of(s.subrange(0, c)), cell_of(s.subrange(c + 1, s.len() as int))) {
            (Some(p), Some(q)) => if p.0 <= q.0 && p.1 <= q.1 { Some(Dimensions { start: p, end: q }) } else { None },
            _ => None,
        }
    }
}

//@@ item src/xlsx/mod.rs const MAX_COLUMNS
//@@ item src/xlsx/mod.rs const MAX_ROWS
// TRUSTED: contract of unit a1 (clauses C01,C15,C17.a1_decode / a1_zero_row_rejected / a1_malformed_rejected), PROVED there on the same text
// callee of get_row_and_optional_column (checked digit accumulation; under contract in unit a1): present only so that the text compiles
//@@ fn src/xlsx/mod.rs add_digit external_body
//@@ end
//@@ fn src/xlsx/mod.rs get_row_and_optional_column props=C14,C15 ret=r external_body
//@@ sig
    ensures
        forall|nl: int| #[trigger] a1_small(range@, nl) && dec10(range@.subrange(nl, range@.len() as int)) >= 1 ==>
            r == Ok::<(u32, Option<u32>), XlsxError>(a1_value(range@, nl)),
        forall|nl: int| #[trigger] a1_small(range@, nl) && dec10(range@.subrange(nl, range@.len() as int)) == 0 ==> r is Err,
        (forall|nl: int| !#[trigger] a1_shape(range@, nl)) ==> r is Err,
//@@ end
// as in unit a1 (re-verified here from the contract above)
//@@ fn src/xlsx/mod.rs get_row_column props=C14,C15 ret=r
//@@ sig
    ensures
        //# C14,C15.a1_cell_decode
        forall|nl: int| #[trigger] a1_small(range@, nl) && nl >= 1 && dec10(range@.subrange(nl, range@.len() as int)) >= 1 ==>
            r == Ok::<(u32, u32), XlsxError>((a1_value(range@, nl).0, (b26(range@.subrange(0, nl)) - 1) as u32)),
        //# C14,C15.a1_cell_malformed_rejected
        (forall|nl: int| !#[trigger] a1_shape(range@, nl)) ==> r is Err,
//@@ end
//@@ fn src/xlsx/mod.rs get_row props=C14,C15 ret=r
//@@ sig
    ensures
        //# C14,C15.a1_row_decode
        forall|nl: int| #[trigger] a1_small(range@, nl) && dec10(range@.subrange(nl, range@.len() as int)) >= 1 ==>
            r == Ok::<u32, XlsxError>(a1_value(range@, nl).0),
        //# C14,C15.a1_row_malformed_rejected
        (forall|nl: int| !#[trigger] a1_shape(range@, nl)) ==> r is Err,
//@@ closure 0
    -> (res: u32) ensures res == __c0_0.0
//@@ end
// TRUSTED: get_dimension (split at ':' + get_row_column on each part + `collect::<Result<Vec<_>, _>>()`: iterator adapters outside
// Verus' reach) -- assumed: an ST_Ref whose corners are in order decodes to its two corners through get_row_column; one reference
// gives start == end.  (Its `parts[1].0 - parts[0].0` underflow on reversed references is a C06 finding of unit a1 / colname.)
//@@ fn src/xlsx/mod.rs get_dimension props=C15 ret=r external_body
//@@ sig
    ensures
        dim_of(dimension@) is Some ==> r == Ok::<Dimensions, XlsxError>(dim_of(dimension@)->Some_0),
//@@ end

proof fn lemma_cell_of(s: Seq<u8>, nl: int)
    requires a1_cell(s, nl),
    ensures cell_of(s) == Some((a1_value(s, nl).0, (b26(s.subrange(0, nl)) - 1) as u32)),
{
    reveal(cell_of);
    // the split into letters ++ digits is unique
    let m = choose|m: int| a1_cell(s, m);
    if m < nl { assert(is_digit(s.subrange(m, s.len() as int)[0])); assert(is_letter(s.subrange(0, nl)[m])); }
    if m > nl { assert(is_letter(s.subrange(0, m)[nl])); assert(is_digit(s.subrange(nl, s.len() as int)[0])); }
}

proof fn lemma_cell_2(l: u8, d: u8)
    requires is_letter(l), 0x31 <= d <= 0x39,
    ensures cell_of(seq![l, d]) == Some(((d - 0x31) as u32, (letter_val(l) - 1) as u32)),
{
    let s = seq![l, d];
    assert(s.subrange(0, 1) =~= seq![l]);
    assert(s.subrange(1, 2) =~= seq![d]);
    assert(seq![d].drop_last() =~= Seq::<u8>::empty());
    assert(seq![l].drop_last() =~= Seq::<u8>::empty());
    assert(dec10(seq![d]) == (d - 0x30) as nat) by { reveal_with_fuel(dec10, 2); }
    assert(b26(seq![l]) == letter_val(l)) by { reveal_with_fuel(b26, 2); }
    assert(a1_cell(s, 1));
    lemma_cell_of(s, 1);
}
//@@ fn src/xlsx/mod.rs get_attribute props=C14,C15,C06 ret=r
//@@ r6 0
//@@ sig
    ensures
        //# C14,C15.attribute_lookup
        match attr_scan(atts.rem(), n.0@) {
            AttrLookup::Found(v) => r matches Ok(Some(x)) && x@ == v,
            AttrLookup::Absent => r matches Ok(None),
            AttrLookup::Malformed => r is Err,
        },
//@@ loop 0
        invariant
            attr_scan(__it0.rem(), n.0@) == attr_scan(atts.rem(), n.0@),
        ensures
            __it0.rem().len() == 0,
        decreases __it0.rem().len(),
//@@ end
// TRUSTED: stand-in for the atoi_simd crate: decimal digits -> integer, uninterpreted (integer parsing is not verified)
pub mod atoi_simd {
    use super::*;
    pub struct AtoiSimdError;
    pub uninterp spec fn atoi_spec<T>(s: Seq<u8>) -> Option<T>;
    #[verifier::external_body]
    pub fn parse<T>(s: &[u8]) -> (r: Result<T, AtoiSimdError>)
        ensures match atoi_spec::<T>(s@) { Some(x) => r == Ok::<T, AtoiSimdError>(x), None => r is Err },
    { unimplemented!() }
}
pub open spec fn atoi_usize(s: Seq<u8>) -> Option<usize> { atoi_simd::atoi_spec::<usize>(s) }
/// character data of a text-only element (`v`) whose start tag (qualified name `name`) precedes ev[i]: Text unescaped, CDATA literal,
/// comments skipped, no child elements, closed by the end tag with the same qualified name
pub ghost struct TxtRes { pub ok: bool, pub text: Seq<char>, pub end: int }
pub open spec fn txt_scan(ev: Seq<Ev>, i: int, name: Seq<u8>, acc: Seq<char>) -> TxtRes
    decreases ev.len() - i
{
    if i < 0 || i >= ev.len() { TxtRes { ok: false, text: acc, end: i } }
    else {
        let e = ev[i];
        match e.kind {
            EvKind::Text => if e.text_ok { txt_scan(ev, i + 1, name, acc + e.text) } else { TxtRes { ok: false, text: acc, end: i } },
            EvKind::CData => if e.text_ok { txt_scan(ev, i + 1, name, acc + e.text) } else { TxtRes { ok: false, text: acc, end: i } },
            EvKind::Other => txt_scan(ev, i + 1, name, acc),
            EvKind::End => if e.name =~= name { TxtRes { ok: true, text: acc, end: i } } else { TxtRes { ok: false, text: acc, end: i } },
            _ => TxtRes { ok: false, text: acc, end: i },
        }
    }
}
proof fn lemma_txt_end(ev: Seq<Ev>, i: int, name: Seq<u8>, acc: Seq<char>)
    requires 0 <= i, txt_scan(ev, i, name, acc).ok,
    ensures i <= txt_scan(ev, i, name, acc).end < ev.len(), ev[txt_scan(ev, i, name, acc).end].kind is End,
    decreases ev.len() - i,
{
    if i < ev.len() {
        let e = ev[i];
        match e.kind {
            EvKind::Text => { lemma_txt_end(ev, i + 1, name, acc + e.text); }
            EvKind::CData => { lemma_txt_end(ev, i + 1, name, acc + e.text); }
            EvKind::Other => { lemma_txt_end(ev, i + 1, name, acc); }
            _ => {}
        }
    }
}
// =====================================================================================================================
// std pieces without a vstd specification
// =====================================================================================================================
// TRUSTED: A-std -- `impl<T: ?Sized> Borrow<T> for T` (core::borrow): `borrow` returns the reference it is given
pub assume_specification<T: ?Sized>[ <T as Borrow<T>>::borrow ](x: &T) -> (r: &T)
    ensures r == x;

//@@ item src/lib.rs trait "trait CellType"
impl CellType for String {}
//@@ item src/lib.rs struct Cell
impl<T: CellType> Cell<T> {
    pub closed spec fn p(&self) -> (u32, u32) { self.pos }
    pub closed spec fn v(&self) -> T { self.val }
}
//@@ impl src/lib.rs Cell
//@@ fn src/lib.rs Cell::new props=C14 ret=c
//@@ sig
    ensures
        //# C14.cell_new
        c.p() == position && c.v() == value,
//@@ end
//@@ endimpl
//@@ item src/xlsx/cells_reader.rs type FormulaMap
//@@ item src/xlsx/cells_reader.rs struct XlsxCellReader

// =====================================================================================================================
// C15 -- reference rewriting is the callee `replace_cell_names` (src/xlsx/mod.rs), under contract in unit `shared`.  Here it is a
// deterministic uninterpreted function `translate(text, offset)` (None: it returns Err).
// TRUSTED: contract of unit shared (precondition offset_small copied from there; what `translate` does to references is proved there).
// =====================================================================================================================
pub uninterp spec fn translate(text: Seq<char>, off: (i64, i64)) -> Option<Seq<char>>;
pub open spec fn offset_small(offset: (i64, i64)) -> bool {
    -0x1_0000_0000 < offset.0 < 0x2_0000_0000 && -0x1_0000_0000 < offset.1 < 0x2_0000_0000
}
// (a stub with the signature of src/xlsx/mod.rs `pub(crate) fn replace_cell_names(s: &str, offset: (i64, i64)) -> Result<String, XlsxError>`;
// the real body calls offset_cell_name / coordinate_to_name, which are outside this unit)
#[verifier::external_body]
pub(crate) fn replace_cell_names(s: &str, offset: (i64, i64)) -> (r: Result<String, XlsxError>)
    requires
        offset_small(offset),
    ensures
        match translate(s@, offset) { Some(t) => r matches Ok(x) && x@ == t, None => r is Err },
{ unimplemented!() }
proof fn witness_replace_cell_names() { assert(offset_small((0i64, 3i64))); }


// =====================================================================================================================
// C14 -- stored formula text.  ECMA-376 18.3.1.40 f (CT_CellFormula): simple content = the formula text; the text of the element
// is its character data (Text events unescaped, CDATA sections literally, comments skipped) -- `txt_scan` above.
// =====================================================================================================================
//@@ fn src/xlsx/cells_reader.rs read_formula props=C14,C06 ret=r
//@@ replace /b"is" \| b"v" =>/ Verus crashes on byte-string literal patterns (ill-typed AIR); equivalent binding + guard
__n if __n == b"is" || __n == b"v" =>
//@@ replace /b"f" =>/ byte-string literal pattern -> equivalent guard
__n if __n == b"f" =>
//@@ sig
    ensures
        //# C14.formula_reader_events_frame
        final(xml).events() == old(xml).events() && final(xml).pos() >= old(xml).pos(),
        //# C14.formula_text_from_f
        ({ let tx = txt_scan(old(xml).events(), old(xml).pos() as int, e.ev().name, Seq::empty());
           e.ev().local() =~= n_f() && tx.ok ==>
               (r matches Ok(Some(s)) && s@ == tx.text) && final(xml).pos() == tx.end + 1 }),
        //# C14.value_elements_carry_no_formula
        ({ let ev = old(xml).events();
           let k = rte_stop(ev, old(xml).pos() as int, e.ev().name, 0);
           (e.ev().local() =~= n_v() || e.ev().local() =~= n_is()) && k < ev.len() && ev[k].kind is End ==>
               (r matches Ok(None)) && final(xml).pos() == k + 1 }),
        //# C14.unknown_cell_child_rejected
        !(e.ev().local() =~= n_is()) && !(e.ev().local() =~= n_v()) && !(e.ev().local() =~= n_f()) ==> r is Err,
//@@ body
    let ghost ev = xml.events();
    let ghost p0 = xml.pos() as int;
    let ghost tot = txt_scan(ev, p0, e.ev().name, Seq::empty());
    let ghost good = tot.ok;
    proof {
        axiom_bytelits();
        assert(n_is().len() != n_v().len() && n_is().len() != n_f().len() && n_v()[0] != n_f()[0]);
        if tot.ok { lemma_txt_end(ev, p0, e.ev().name, Seq::empty()); }
    }
//@@ loop 0
                invariant_except_break
                    good ==> txt_scan(ev, xml.pos() as int, e.ev().name, f@) == tot,
                invariant
                    ev == old(xml).events(), p0 == old(xml).pos(), xml.events() == ev, xml.pos() >= p0,
                    tot == txt_scan(ev, p0, e.ev().name, Seq::empty()),
                    good == tot.ok,
                    good ==> xml.pos() <= tot.end + 1 && tot.end < ev.len() && ev[tot.end].kind is End,
                    e.ev().local() =~= n_f(), !(n_f() =~= n_is()), !(n_f() =~= n_v()),
                ensures
                    good ==> f@ == tot.text && xml.pos() == tot.end + 1,
                decreases xml.left(),
//@@ before /match xml\.read_event_into\(&mut f_buf\)/
                let ghost pos = xml.pos() as int;
                proof { if good { lemma_txt_end(ev, pos, e.ev().name, f@); } }
//@@ end

// =====================================================================================================================
// C15 -- shared formulas.  ECMA-376 18.3.1.40 f: attributes t (ST_CellFormulaType; `shared`), si (shared group index), ref (the range
// of cells the shared formula applies to).  The MASTER of group K is the `f` that carries t="shared", si=K, ref=R and the formula text;
// a MEMBER is an `f` with t="shared", si=K and no ref.  Property C15: a member cell m of group K that lies in R reports the master text
// translated by m's offset from the master CELL (m.row - master.row, m.col - master.col); every cell of the rectangle R (one or two
// dimensions) is covered; cells outside R keep their own text.
// The reader keeps per group: the master text and the offset of every cell of R -- ghost view `GroupV`.
// =====================================================================================================================
pub ghost struct GroupV { pub text: Seq<char>, pub map: Map<(u32, u32), (i64, i64)> }
pub type Groups = Seq<Option<GroupV>>;
/// m lies in the rectangle d
pub open spec fn in_rect(d: Dimensions, m: (u32, u32)) -> bool { d.start.0 <= m.0 <= d.end.0 && d.start.1 <= m.1 <= d.end.1 }
/// offset of cell m from the master cell
pub open spec fn off_of(master: (u32, u32), m: (u32, u32)) -> (i64, i64) { ((m.0 as int - master.0 as int) as i64, (m.1 as int - master.1 as int) as i64) }
/// mp is the offset map the property demands for a master at `master` with declared range d: EVERY cell of the rectangle d is sent to
/// its offset from the master cell, and nothing else is in the map
pub open spec fn is_rect_map(mp: Map<(u32, u32), (i64, i64)>, d: Dimensions, master: (u32, u32)) -> bool {
    &&& forall|m: (u32, u32)| in_rect(d, m) ==> #[trigger] mp.contains_key(m) && mp[m] == off_of(master, m)
    &&& forall|m: (u32, u32)| #[trigger] mp.contains_key(m) ==> in_rect(d, m)
}
/// THE map with that property (unique by extensionality, lemma_rect_map_unique; vstd's finite `Map` has no comprehension over a predicate)
pub open spec fn rect_map(d: Dimensions, master: (u32, u32)) -> Map<(u32, u32), (i64, i64)> {
    choose|mp: Map<(u32, u32), (i64, i64)>| is_rect_map(mp, d, master)
}
proof fn lemma_rect_map_unique(mp: Map<(u32, u32), (i64, i64)>, d: Dimensions, master: (u32, u32))
    requires is_rect_map(mp, d, master),
    ensures mp == rect_map(d, master),
{
    let c = rect_map(d, master);
    assert(is_rect_map(c, d, master));
    assert forall|m: (u32, u32)| mp.contains_key(m) == c.contains_key(m) by {
        if mp.contains_key(m) { assert(in_rect(d, m)); assert(c.contains_key(m)); }
        if c.contains_key(m) { assert(in_rect(d, m)); assert(mp.contains_key(m)); }
    }
    assert forall|m: (u32, u32)| mp.contains_key(m) implies mp[m] == c[m] by {
        assert(in_rect(d, m)); assert(c.contains_key(m));
    }
    assert(mp.dom() =~= c.dom());
    assert(mp =~= c);
}
/// the labelled obligations of next_formula, by name
pub open spec fn offset_map_covers_rectangle(mp: Map<(u32, u32), (i64, i64)>, d: Dimensions, master: (u32, u32)) -> bool {
    forall|m: (u32, u32)| in_rect(d, m) ==> #[trigger] mp.contains_key(m) && mp[m] == off_of(master, m)
}
pub open spec fn offset_map_only_rectangle(mp: Map<(u32, u32), (i64, i64)>, d: Dimensions) -> bool {
    forall|m: (u32, u32)| #[trigger] mp.contains_key(m) ==> in_rect(d, m)
}
pub open spec fn master_stored_under_its_shared_index(after: Groups, before: Groups, k: int, v: GroupV) -> bool {
    after =~= groups_put(before, k, v)
}

/// progress of the two nested loops that fill the offset map: exactly the cells of the rectangle d that precede (row, col) in row-major
/// order are in the map, each with its offset from the master (opaque: the loop invariants carry it as one fact, the lemmas below unfold it)
#[verifier::opaque]
pub open spec fn cells_exact(mp: Map<(u32, u32), (i64, i64)>, d: Dimensions, master: (u32, u32), row: int, col: int) -> bool {
    &&& forall|m: (u32, u32)| #[trigger] mp.contains_key(m) ==> in_rect(d, m) && (m.0 < row || (m.0 == row && m.1 < col)) && mp[m] == off_of(master, m)
    &&& forall|m: (u32, u32)| in_rect(d, m) && (m.0 < row || (m.0 == row && m.1 < col)) ==> #[trigger] mp.contains_key(m)
}
proof fn lemma_cells_start(d: Dimensions, master: (u32, u32))
    ensures cells_exact(Map::empty(), d, master, d.start.0 as int, d.start.1 as int),
{ reveal(cells_exact); }
/// one `offset_map.insert((row, col), (row - master.row, col - master.col))`
proof fn lemma_cells_insert(mp0: Map<(u32, u32), (i64, i64)>, mp1: Map<(u32, u32), (i64, i64)>, d: Dimensions, master: (u32, u32), row: u32, col: u32, v: (i64, i64))
    requires cells_exact(mp0, d, master, row as int, col as int), in_rect(d, (row, col)), mp1 == mp0.insert((row, col), v),
        v == ((row as i64 - master.0 as i64) as i64, (col as i64 - master.1 as i64) as i64),
    ensures cells_exact(mp1, d, master, row as int, col + 1),
{
    reveal(cells_exact);
    assert forall|m: (u32, u32)| #[trigger] mp1.contains_key(m) implies in_rect(d, m) && (m.0 < row || (m.0 == row && m.1 < col + 1)) && mp1[m] == off_of(master, m) by {
        if m != (row, col) { assert(mp0.contains_key(m)); }
    }
    assert forall|m: (u32, u32)| in_rect(d, m) && (m.0 < row || (m.0 == row && m.1 < col + 1)) implies #[trigger] mp1.contains_key(m) by {
        if m != (row, col) { assert(mp0.contains_key(m)); }
    }
}
/// a row is complete: go on with the first column of the next row
proof fn lemma_cells_next_row(mp: Map<(u32, u32), (i64, i64)>, d: Dimensions, master: (u32, u32), row: int)
    requires cells_exact(mp, d, master, row, d.end.1 + 1),
    ensures cells_exact(mp, d, master, row + 1, d.start.1 as int),
{ reveal(cells_exact); }
/// all rows are complete: the map is THE offset map of the rectangle
proof fn lemma_cells_done(mp: Map<(u32, u32), (i64, i64)>, d: Dimensions, master: (u32, u32))
    requires cells_exact(mp, d, master, d.end.0 + 1, d.start.1 as int),
    ensures offset_map_covers_rectangle(mp, d, master), offset_map_only_rectangle(mp, d), is_rect_map(mp, d, master),
{
    reveal(cells_exact);
    assert forall|m: (u32, u32)| in_rect(d, m) implies #[trigger] mp.contains_key(m) && mp[m] == off_of(master, m) by {
        assert(m.0 < d.end.0 + 1);
        assert(mp.contains_key(m));
    }
    assert forall|m: (u32, u32)| #[trigger] mp.contains_key(m) implies in_rect(d, m) by {}
}
proof fn lemma_cells_small(mp: Map<(u32, u32), (i64, i64)>, d: Dimensions, master: (u32, u32), row: int, col: int)
    requires cells_exact(mp, d, master, row, col),
    ensures forall|m: (u32, u32)| #[trigger] mp.contains_key(m) ==> offset_small(mp[m]),
{ reveal(cells_exact); }
/// C06 "memory in proportion to the input": `n` entries are allocated while reading a part of `input_events` XML events
pub open spec fn alloc_in_proportion(n: int, input_events: int) -> bool { n <= input_events }
/// number of cells of the rectangle d
pub open spec fn rect_cells(d: Dimensions) -> int {
    if d.start.0 <= d.end.0 && d.start.1 <= d.end.1 { (d.end.0 - d.start.0 + 1) * (d.end.1 - d.start.1 + 1) } else { 0 }
}
/// group table after the master of group k has been met
pub open spec fn groups_put(g: Groups, k: int, v: GroupV) -> Groups {
    if k < g.len() { g.update(k, Some(v)) } else { (g + Seq::new((k - g.len()) as nat, |j: int| None::<GroupV>)).push(Some(v)) }
}
pub open spec fn gview(o: Option<(String, FormulaMap)>) -> Option<GroupV> {
    match o { Some(p) => Some(GroupV { text: p.0@, map: p.1@ }), None => None }
}
pub open spec fn gseq(v: Seq<Option<(String, FormulaMap)>>) -> Groups { Seq::new(v.len(), |j: int| gview(v[j])) }
/// representation invariant of the group table: every stored offset is a difference of two u32 coordinates
pub open spec fn groups_wf(g: Groups) -> bool {
    forall|j: int, m: (u32, u32)| 0 <= j < g.len() && g[j] is Some && #[trigger] g[j]->Some_0.map.contains_key(m) ==> offset_small(g[j]->Some_0.map[m])
}
// TRUSTED: A-std -- `(u32, u32)` hashes and compares by value (derived Hash / Eq of tuples of integers), as vstd assumes for the integer
// types themselves
#[verifier::external_body]
pub proof fn axiom_cell_key_model()
    ensures vstd::std_specs::hash::obeys_key_model::<(u32, u32)>(),
{}

/// what an `f` element (attributes, text) at cell `pos` reports and does to the group table; None: not a well-formed combination
pub open spec fn f_effect(attrs: Seq<Attr>, text: Seq<char>, pos: (u32, u32), g: Groups) -> Option<(Seq<char>, Groups)> {
    match attr_scan(attrs, n_t()) {
        AttrLookup::Malformed => None,
        AttrLookup::Found(t) =>
            if t =~= n_shared() {
                match attr_scan(attrs, n_si()) {
                    AttrLookup::Found(raw) => match atoi_usize(raw) {
                        Some(k) => match attr_scan(attrs, n_ref()) {
                            // master: reports its own text, registers (text, offsets of the whole rectangle) under its shared index
                            AttrLookup::Found(rr) => match dim_of(rr) {
                                Some(d) => Some((text, groups_put(g, k as int, GroupV { text: text, map: rect_map(d, pos) }))),
                                None => None,
                            },
                            // member: the master text translated by this cell's offset, if the cell belongs to the group's range
                            AttrLookup::Absent =>
                                if k < g.len() && g[k as int] is Some && g[k as int]->Some_0.map.contains_key(pos) {
                                    match translate(g[k as int]->Some_0.text, g[k as int]->Some_0.map[pos]) {
                                        Some(t2) => Some((t2, g)),
                                        None => None,
                                    }
                                } else { Some((text, g)) },
                            AttrLookup::Malformed => None,
                        },
                        None => None,
                    },
                    _ => None,      // si is required on a shared formula
                }
            } else { Some((text, g)) },
        AttrLookup::Absent => Some((text, g)),
    }
}
pub ghost struct FCellRes { pub ok: bool, pub val: Option<Seq<char>>, pub groups: Groups, pub end: int }
pub open spec fn fcell_bad(i: int) -> FCellRes { FCellRes { ok: false, val: None, groups: Seq::empty(), end: i } }
/// content of a `c` element from ev[i] on, formula view: CT_Cell = f?, v?, is? -- the formula comes from `f`; v / is (no attributes)
/// carry none; `seenf`: an f child has been met
pub open spec fn fcell_scan(ev: Seq<Ev>, i: int, pos: (u32, u32), val: Option<Seq<char>>, seenf: bool, g: Groups) -> FCellRes
    decreases ev.len() - i
{
    if i < 0 || i >= ev.len() { fcell_bad(i) }
    else {
        let e = ev[i];
        if e.kind is Error { fcell_bad(i) }
        else if e.kind is Start {
            if e.local() =~= n_v() || e.local() =~= n_is() {
                let k = rte_stop(ev, i + 1, e.name, 0);
                if attr_scan(e.attrs, n_t()) is Absent && i < k < ev.len() && ev[k].kind is End { fcell_scan(ev, k + 1, pos, val, seenf, g) } else { fcell_bad(i) }
            } else if e.local() =~= n_f() {
                let tx = txt_scan(ev, i + 1, e.name, Seq::empty());
                if !seenf && tx.ok && i < tx.end < ev.len() {
                    match f_effect(e.attrs, tx.text, pos, g) {
                        Some(p) => fcell_scan(ev, tx.end + 1, pos, Some(p.0), true, p.1),
                        None => fcell_bad(i),
                    }
                } else { fcell_bad(i) }
            } else { fcell_bad(i) }
        } else if e.kind is End {
            if e.local() =~= n_c() { FCellRes { ok: true, val: val, groups: g, end: i } } else { fcell_bad(i) }
        } else { fcell_scan(ev, i + 1, pos, val, seenf, g) }
    }
}
pub ghost struct Cur { pub row: u32, pub col: u32 }
pub ghost struct FNextRes { pub ok: bool, pub cell: Option<((u32, u32), Seq<char>)>, pub cur: Cur, pub groups: Groups, pub end: int }
pub open spec fn fnext_bad(i: int, cur: Cur) -> FNextRes { FNextRes { ok: false, cell: None, cur: cur, groups: Seq::empty(), end: i } }
pub open spec fn text_or_empty(o: Option<Seq<char>>) -> Seq<char> { match o { Some(t) => t, None => Seq::empty() } }
/// what the next call of the formula iterator delivers when the reader stands at ev[i] inside sheetData with cursor `cur` and group
/// table g: the next cell (position, formula text; empty text: the cell has no formula), the cursor and the group table after it, and
/// the index of the last event consumed; cell None: end of sheetData.  Position rules as for the value iterator (ECMA-376 18.3.1.73
/// row / 18.3.1.4 c: the `r` attribute if present, else the running cursor).
pub open spec fn fnext_scan(ev: Seq<Ev>, i: int, cur: Cur, g: Groups) -> FNextRes
    decreases ev.len() - i
{
    if i < 0 || i >= ev.len() { fnext_bad(i, cur) }
    else {
        let e = ev[i];
        if e.kind is Error { fnext_bad(i, cur) }
        else if e.kind is Start {
            if e.local() =~= n_row() {
                match attr_scan(e.attrs, n_r()) {
                    AttrLookup::Found(raw) => match row_of(raw) { Some(r) => fnext_scan(ev, i + 1, Cur { row: r, col: cur.col }, g), None => fnext_bad(i, cur) },
                    AttrLookup::Absent => fnext_scan(ev, i + 1, cur, g),
                    AttrLookup::Malformed => fnext_bad(i, cur),
                }
            } else if e.local() =~= n_c() {
                let pos: Option<(u32, u32)> = match attr_scan(e.attrs, n_r()) {
                    AttrLookup::Found(raw) => cell_of(raw),
                    AttrLookup::Absent => Some((cur.row, cur.col)),
                    AttrLookup::Malformed => None,
                };
                if pos is Some {
                    let cs = fcell_scan(ev, i + 1, pos->Some_0, None, false, g);
                    if cs.ok && i < cs.end < ev.len() && pos->Some_0.1 + 1 <= u32::MAX {
                        FNextRes { ok: true, cell: Some((pos->Some_0, text_or_empty(cs.val))), cur: Cur { row: cur.row, col: (pos->Some_0.1 + 1) as u32 }, groups: cs.groups, end: cs.end }
                    } else { fnext_bad(i, cur) }
                } else { fnext_bad(i, cur) }
            } else { fnext_bad(i, cur) }
        } else if e.kind is End {
            if e.local() =~= n_row() { if cur.row + 1 <= u32::MAX { fnext_scan(ev, i + 1, Cur { row: (cur.row + 1) as u32, col: 0 }, g) } else { fnext_bad(i, cur) } }
            else if e.local() =~= n_sheetdata() { FNextRes { ok: true, cell: None, cur: cur, groups: g, end: i } }
            else { fnext_bad(i, cur) }
        } else { fnext_scan(ev, i + 1, cur, g) }
    }
}
proof fn lemma_fcell_end(ev: Seq<Ev>, i: int, pos: (u32, u32), val: Option<Seq<char>>, seenf: bool, g: Groups)
    requires 0 <= i, fcell_scan(ev, i, pos, val, seenf, g).ok,
    ensures i <= fcell_scan(ev, i, pos, val, seenf, g).end < ev.len(),
    decreases ev.len() - i,
{
    if i < ev.len() {
        let e = ev[i];
        if e.kind is Start {
            if e.local() =~= n_v() || e.local() =~= n_is() {
                lemma_fcell_end(ev, rte_stop(ev, i + 1, e.name, 0) + 1, pos, val, seenf, g);
            } else if e.local() =~= n_f() {
                let tx = txt_scan(ev, i + 1, e.name, Seq::empty());
                let p = f_effect(e.attrs, tx.text, pos, g)->Some_0;
                lemma_fcell_end(ev, tx.end + 1, pos, Some(p.0), true, p.1);
            }
        } else if !(e.kind is End) { lemma_fcell_end(ev, i + 1, pos, val, seenf, g); }
    }
}
proof fn lemma_fnext_end(ev: Seq<Ev>, i: int, cur: Cur, g: Groups)
    requires 0 <= i, fnext_scan(ev, i, cur, g).ok,
    ensures i <= fnext_scan(ev, i, cur, g).end < ev.len(),
    decreases ev.len() - i,
{
    if i < ev.len() {
        let e = ev[i];
        if e.kind is Start {
            if e.local() =~= n_row() {
                match attr_scan(e.attrs, n_r()) {
                    AttrLookup::Found(raw) => { lemma_fnext_end(ev, i + 1, Cur { row: row_of(raw)->Some_0, col: cur.col }, g); }
                    AttrLookup::Absent => { lemma_fnext_end(ev, i + 1, cur, g); }
                    _ => {}
                }
            }
        } else if e.kind is End {
            if e.local() =~= n_row() { lemma_fnext_end(ev, i + 1, Cur { row: (cur.row + 1) as u32, col: 0 }, g); }
        } else { lemma_fnext_end(ev, i + 1, cur, g); }
    }
}

impl<'a> XlsxCellReader<'a> {
    pub closed spec fn g_events(&self) -> Seq<Ev> { self.xml.events() }
    pub closed spec fn g_pos(&self) -> nat { self.xml.pos() }
    pub closed spec fn g_cur(&self) -> Cur { Cur { row: self.row_index, col: self.col_index } }
    /// per shared index: master text and per-cell offsets
    pub closed spec fn g_groups(&self) -> Groups { gseq(self.formulas@) }
    /// representation invariant (established by XlsxCellReader::new: the table is empty; kept by next_formula)
    pub closed spec fn wf(&self) -> bool { groups_wf(gseq(self.formulas@)) }
}

//@@ impl src/xlsx/cells_reader.rs XlsxCellReader
//@@ fn src/xlsx/cells_reader.rs XlsxCellReader::next_formula props=C14,C15 entry ret=r
//@@ replace /if let Ok\(Some\(b"shared"\)\) =\s*(get_attribute\(e\.attributes\(\), QName\(b"t"\)\))\s*\{/ Verus crashes on byte-string literal patterns (ill-typed AIR); `if let P = X {` with a pattern that binds nothing is `if (match X { P => true, _ => false }) {`, and the literal pattern matches a slice exactly when the bytes are equal (binding + `==`)
if (match \g<1> { Ok(Some(__t)) => __t == b"shared", _ => false }) {
//@@ sig
    requires
        // representation invariant of the private group table (XlsxCellReader::new creates it empty: witness_new_wf; kept below)
        old(self).wf(),
    ensures
        //# C15.group_table_invariant_kept
        final(self).wf(),
        //# C14.formula_reader_frame
        final(self).g_events() == old(self).g_events() && final(self).g_pos() >= old(self).g_pos(),
        //# C14.formula_cell_position
        ({ let ev = old(self).g_events();
           let nx = fnext_scan(ev, old(self).g_pos() as int, old(self).g_cur(), old(self).g_groups());
           nx.ok && nx.cell is Some ==>
               (r matches Ok(Some(c)) && c.p() == nx.cell->Some_0.0) }),
        //# C14,C15.formula_cell_text
        ({ let ev = old(self).g_events();
           let nx = fnext_scan(ev, old(self).g_pos() as int, old(self).g_cur(), old(self).g_groups());
           nx.ok && nx.cell is Some ==>
               (r matches Ok(Some(c)) && c.v()@ == nx.cell->Some_0.1) }),
        //# C14.formula_cursor_update
        ({ let ev = old(self).g_events();
           let nx = fnext_scan(ev, old(self).g_pos() as int, old(self).g_cur(), old(self).g_groups());
           nx.ok ==>
               final(self).g_cur() == nx.cur && final(self).g_pos() == nx.end + 1 }),
        //# C15.shared_group_table
        ({ let ev = old(self).g_events();
           let nx = fnext_scan(ev, old(self).g_pos() as int, old(self).g_cur(), old(self).g_groups());
           nx.ok ==> final(self).g_groups() == nx.groups }),
        //# C14.formula_end_of_sheet_data
        ({ let ev = old(self).g_events();
           let nx = fnext_scan(ev, old(self).g_pos() as int, old(self).g_cur(), old(self).g_groups());
           nx.ok && nx.cell is None ==> r matches Ok(None) }),
//@@ body
        let ghost ev = self.xml.events();
        let ghost p0 = self.xml.pos() as int;
        let ghost g0 = gseq(self.formulas@);
        let ghost tot = fnext_scan(ev, p0, Cur { row: self.row_index, col: self.col_index }, g0);
        let ghost good = tot.ok;
        proof {
            axiom_bytelits(); axiom_cell_key_model(); axiom_string_default();
            assert(n_row().len() != n_c().len() && n_row().len() != n_sheetdata().len() && n_c().len() != n_sheetdata().len());
            assert(n_v()[0] != n_f()[0] && n_v().len() != n_is().len() && n_f().len() != n_is().len());
            if tot.ok { lemma_fnext_end(ev, p0, Cur { row: self.row_index, col: self.col_index }, g0); }
        }
//@@ loop 0
            invariant
                ev == old(self).xml.events(), p0 == old(self).xml.pos(), self.xml.events() == ev, self.xml.pos() >= p0,
                g0 == gseq(old(self).formulas@),
                tot == fnext_scan(ev, p0, Cur { row: old(self).row_index, col: old(self).col_index }, g0),
                good == tot.ok,
                b"row"@ == n_row(), b"c"@ == n_c(), b"sheetData"@ == n_sheetdata(), b"r"@ == n_r(), b"t"@ == n_t(), b"si"@ == n_si(),
                b"ref"@ == n_ref(), b"shared"@ == n_shared(), b"v"@ == n_v(), b"is"@ == n_is(), b"f"@ == n_f(),
                !(n_v() =~= n_f()), !(n_v() =~= n_is()), !(n_is() =~= n_f()),
                !(n_row() =~= n_c()), !(n_row() =~= n_sheetdata()), !(n_c() =~= n_sheetdata()),
                vstd::std_specs::hash::obeys_key_model::<(u32, u32)>(),
                default_of::<String>()@ == Seq::<char>::empty(),
                groups_wf(gseq(self.formulas@)),
                good ==> fnext_scan(ev, self.xml.pos() as int, Cur { row: self.row_index, col: self.col_index }, gseq(self.formulas@)) == tot,
            decreases self.xml.left(),
//@@ before /match self\.xml\.read_event_into\(&mut self\.buf\)/
            let ghost gp = self.xml.pos() as int;
            let ghost cur0 = Cur { row: self.row_index, col: self.col_index };
            let ghost gg = gseq(self.formulas@);
            proof { if good { lemma_fnext_end(ev, gp, cur0, gg); } }
//@@ before /let row = get_row/
                        proof { if good { reveal(row_of); } }
//@@ before /let \(row, col\) = /
                        proof { if good { reveal(cell_of); } }
//@@ before /let mut value = None/
                    let ghost ctot = fcell_scan(ev, gp + 1, pos, None, false, gg);
                    let ghost mut seenf = false;
                    proof {
                        assert(gp < ev.len() && ev[gp].kind is Start && c_element.ev() == ev[gp] && c_element.ev().local() =~= n_c());
                        if good { lemma_fcell_end(ev, gp + 1, pos, None, false, gg); }
                    }
//@@ loop 1
                        invariant_except_break
                            good ==> fcell_scan(ev, self.xml.pos() as int, pos, ostr(value), seenf, gseq(self.formulas@)) == ctot,
                        invariant
                            ev == old(self).xml.events(), p0 == old(self).xml.pos(), self.xml.events() == ev, self.xml.pos() > gp, gp >= p0, gp < ev.len(),
                            g0 == gseq(old(self).formulas@),
                            good == tot.ok,
                            tot == fnext_scan(ev, p0, Cur { row: old(self).row_index, col: old(self).col_index }, g0),
                            b"c"@ == n_c(), b"v"@ == n_v(), b"is"@ == n_is(), b"f"@ == n_f(), b"t"@ == n_t(), b"si"@ == n_si(),
                            b"ref"@ == n_ref(), b"shared"@ == n_shared(),
                            !(n_v() =~= n_f()), !(n_v() =~= n_is()), !(n_is() =~= n_f()),
                            vstd::std_specs::hash::obeys_key_model::<(u32, u32)>(),
                            default_of::<String>()@ == Seq::<char>::empty(),
                            groups_wf(gseq(self.formulas@)),
                            good ==> ctot.ok && gp < ctot.end && ctot.end == tot.end && tot.end < ev.len(),
                            good ==> tot.cell == Some((pos, text_or_empty(ctot.val))) && tot.cur == (Cur { row: self.row_index, col: (pos.1 + 1) as u32 })
                                && tot.groups == ctot.groups && pos.1 + 1 <= u32::MAX,
                            self.col_index == pos.1,
                        ensures
                            good ==> ostr(value) == ctot.val && gseq(self.formulas@) == ctot.groups && self.xml.pos() == ctot.end + 1,
                        decreases self.xml.left(),
//@@ before /match self\.xml\.read_event_into\(&mut self\.cell_buf\)/
                        let ghost ipos = self.xml.pos() as int;
                        let ghost val0 = ostr(value);
                        let ghost gi = gseq(self.formulas@);
                        let ghost seen0 = seenf;
                        proof { if good { lemma_fcell_end(ev, ipos, pos, val0, seenf, gi); assert(ipos < ev.len()); assert(!(ev[ipos].kind is Error)); } }
//@@ after /_ => \(\),\s*\}/#0of2
                        proof {
                            if good {
                                let ce = ev[ipos];
                                if ce.kind is Start {
                                    assert(fcell_scan(ev, self.xml.pos() as int, pos, ostr(value), seenf, gseq(self.formulas@)) == ctot);
                                } else if ce.kind is End {
                                    assert(false);
                                } else {
                                    assert(self.xml.pos() == ipos + 1);
                                    assert(ostr(value) == val0);
                                    assert(fcell_scan(ev, ipos, pos, val0, seenf, gi) == fcell_scan(ev, ipos + 1, pos, val0, seenf, gi));
                                }
                            }
                        }
//@@ before /let formula = read_formula\(/
                                let ghost ce = ev[ipos];
                                let ghost tx = txt_scan(ev, ipos + 1, ce.name, Seq::empty());
                                let ghost kk = rte_stop(ev, ipos + 1, ce.name, 0);
                                let ghost is_f = ce.local() =~= n_f();
                                proof {
                                    if good {
                                        assert(ce.kind is Start && e.ev() == ce);
                                        assert(fcell_scan(ev, ipos, pos, val0, seen0, gi) == ctot);
                                        if ce.local() =~= n_v() || ce.local() =~= n_is() {
                                            assert(attr_scan(ce.attrs, n_t()) is Absent && ipos < kk < ev.len() && ev[kk].kind is End);
                                            assert(fcell_scan(ev, kk + 1, pos, val0, seen0, gi) == ctot);
                                            lemma_fcell_end(ev, kk + 1, pos, val0, seen0, gi);
                                        } else if is_f {
                                            assert(!seen0 && tx.ok && ipos < tx.end < ev.len());
                                            let p = f_effect(ce.attrs, tx.text, pos, gi);
                                            assert(p is Some);
                                            assert(fcell_scan(ev, tx.end + 1, pos, Some(p->Some_0.0), true, p->Some_0.1) == ctot);
                                            lemma_fcell_end(ev, tx.end + 1, pos, Some(p->Some_0.0), true, p->Some_0.1);
                                        } else { assert(false); }
                                    }
                                }
//@@ after /let formula = read_formula\([^;]*;/
                                proof {
                                    if good {
                                        if is_f { assert(ostr(formula) == Some(tx.text) && self.xml.pos() == tx.end + 1); seenf = true; }
                                        else { assert(formula is None && self.xml.pos() == kk + 1); }
                                    }
                                }
//@@ before /let mut offset_map/
                                    proof { if good { assert(is_f); assert(attr_scan(ce.attrs, n_t()) matches AttrLookup::Found(t) && t =~= n_shared()); } }
//@@ before /match get_attribute\(e\.attributes\(\), QName\(b"ref"\)\)\?/
                                    let ghost kidx = shared_index as int;
                                    proof { if good { assert(attr_scan(ce.attrs, n_si()) matches AttrLookup::Found(raw) && atoi_usize(raw) == Some(shared_index)); } }
//@@ after /let reference = get_dimension\([^;]*;/
                                            proof {
                                                if good {
                                                    assert(attr_scan(ce.attrs, n_ref()) matches AttrLookup::Found(rr) && dim_of(rr) == Some(reference));
                                                }
                                            }
                                            // corners in order (ST_Ref); for reversed corners nothing is claimed about the map (the loops are empty, but vstd's
                                            // model of `a..=b` does not say so for a > b)
                                            let ghost ord = reference.start.0 <= reference.end.0 && reference.start.1 <= reference.end.1;
                                            //# C06.offset_map_alloc_bound
                                            // allocation: the offset map gets one entry per cell of the DECLARED range, whatever the size of the sheet part
                                            assert(alloc_in_proportion(rect_cells(reference), ev.len() as int));
//@@ loop 2 it2
                                                invariant
                                                    vstd::std_specs::hash::obeys_key_model::<(u32, u32)>(),
                                                    ord == (reference.start.0 <= reference.end.0 && reference.start.1 <= reference.end.1),
                                                    //# C15.offset_map_loops_span_the_rows_of_the_range
                                                    // (vstd's model of `a..=b`: a + k for k = 0 ..= b - a when a <= b)
                                                    ord ==> it2.seq().len() == reference.end.0 - reference.start.0 + 1,
                                                    ord ==> forall|k: int| 0 <= k < it2.seq().len() ==> it2.seq()[k] == reference.start.0 + k,
                                                    //# C15.offsets_are_coordinate_differences
                                                    forall|m: (u32, u32)| #[trigger] offset_map@.contains_key(m) ==> offset_small(offset_map@[m]),
                                                    //# C15.offset_map_rows_done_exact
                                                    // the rows done so far are complete, nothing else is in the map
                                                    ord ==> cells_exact(offset_map@, reference, pos, reference.start.0 + it2.index@, reference.start.1 as int),
//@@ loop 3 it3
                                                    invariant
                                                        vstd::std_specs::hash::obeys_key_model::<(u32, u32)>(),
                                                        ord == (reference.start.0 <= reference.end.0 && reference.start.1 <= reference.end.1),
                                                        ord ==> reference.start.0 <= row <= reference.end.0 && row == reference.start.0 + it2.index@,
                                                        //# C15.offset_map_loops_span_the_columns_of_the_range
                                                        ord ==> it3.seq().len() == reference.end.1 - reference.start.1 + 1,
                                                        ord ==> forall|k: int| 0 <= k < it3.seq().len() ==> it3.seq()[k] == reference.start.1 + k,
                                                        //# C15.offsets_are_coordinate_differences
                                                        forall|m: (u32, u32)| #[trigger] offset_map@.contains_key(m) ==> offset_small(offset_map@[m]),
                                                        //# C15.offset_map_cells_done_exact
                                                        ord ==> cells_exact(offset_map@, reference, pos, row as int, reference.start.1 + it3.index@),
//@@ before /offset_map\.insert\(/
                                                    let ghost mp0 = offset_map@;
//@@ after /offset_map\.insert\([^;]*;/
                                                    proof {
                                                        if ord {
                                                            lemma_cells_insert(mp0, offset_map@, reference, pos, row, col,
                                                                ((row as i64 - pos.0 as i64) as i64, (col as i64 - pos.1 as i64) as i64));
                                                        }
                                                    }
//@@ after /offset_map\.insert\([^;]*;\s*\}/
                                                proof { if ord { lemma_cells_next_row(offset_map@, reference, pos, row as int); } }
//@@ before /for row in /
                                            proof { if ord { lemma_cells_start(reference, pos); } }
//@@ before /if let Some\(f\) = formula\.borrow\(\)/#1of2
                                            proof { if ord { lemma_cells_done(offset_map@, reference, pos); } }
                                            //# C15.offset_map_only_rectangle
                                            assert(ord ==> offset_map_only_rectangle(offset_map@, reference));
                                            //# C15.offset_map_covers_rectangle
                                            assert(ord ==> offset_map_covers_rectangle(offset_map@, reference, pos));
                                            let ghost gv = GroupV { text: tx.text, map: offset_map@ };
                                            let ghost len1 = self.formulas.len() as int;
                                            proof {
                                                if ord {
                                                    assert(is_rect_map(offset_map@, reference, pos));
                                                    lemma_rect_map_unique(offset_map@, reference, pos);
                                                }
                                            }
//@@ loop 4
                                                    invariant
                                                        len1 <= self.formulas.len(),
                                                        len1 <= kidx ==> self.formulas.len() <= kidx + 1,
                                                        len1 > kidx ==> self.formulas.len() == len1,
                                                        kidx == shared_index,
                                                        gseq(self.formulas@) =~= gi + Seq::new((self.formulas.len() - len1) as nat, |j: int| None::<GroupV>),
                                                        groups_wf(gseq(self.formulas@)),
                                                        self.xml.events() == ev, self.xml.pos() == tx.end + 1 || !good,
                                                    decreases kidx + 1 - self.formulas.len(),
//@@ before /while self\.formulas\.len\(\)/
                                                //# C06.shared_index_alloc_bound
                                                // allocation: the group table is padded up to the DECLARED shared index, whatever the size of the sheet part
                                                assert(alloc_in_proportion(shared_index as int, ev.len() as int));
                                                proof { assert(gseq(self.formulas@) =~= gi + Seq::new(0nat, |j: int| None::<GroupV>)); }
//@@ before /self\.formulas\.push\(None\);/
                                                    let ghost fv0 = self.formulas@;
//@@ after /self\.formulas\.push\(None\);/
                                                    proof {
                                                        assert(self.formulas@ == fv0.push(None));
                                                        assert(gseq(self.formulas@) =~= gseq(fv0).push(None::<GroupV>));
                                                        lemma_wf_push(gseq(fv0), None);
                                                    }
//@@ before /self\.formulas\[shared_index\] =/
                                                let ghost fv1 = self.formulas@;
//@@ after /self\.formulas\[shared_index\] =[^;]*;/
                                                proof {
                                                    assert(gseq(self.formulas@) =~= gseq(fv1).update(kidx, Some(GroupV { text: f@, map: gv.map })));
                                                    lemma_wf_update(gseq(fv1), kidx, Some(GroupV { text: f@, map: gv.map }));
                                                    if good { assert(f@ == tx.text); }
                                                }
                                                //# C15.master_stored_under_its_shared_index
                                                assert(good ==> master_stored_under_its_shared_index(gseq(self.formulas@), gi, kidx, gv));
//@@ after? /value = formula;/
                                            proof {
                                                if good {
                                                    assert(f_effect(ce.attrs, tx.text, pos, gi) == Some((tx.text, groups_put(gi, kidx, GroupV { text: tx.text, map: rect_map(reference, pos) }))));
                                                    assert(fcell_scan(ev, self.xml.pos() as int, pos, ostr(value), seenf, gseq(self.formulas@)) == ctot);
                                                }
                                            }
//@@ before /if let Some\(Some\(\(f, offset_map\)\)\) =/
                                            proof {
                                                if good {
                                                    assert(attr_scan(ce.attrs, n_ref()) is Absent);
                                                    assert(gseq(self.formulas@) == gi);
                                                    if kidx < gi.len() { assert(gi[kidx] == gview(self.formulas@[kidx])); }
                                                }
                                            }
//@@ before /\}\s*Ok\(Event::End\(ref e\)\) if e\.local_name\(\)\.as_ref\(\) == b"c" => break,\s*Ok\(Event::Eof\) => return Err\(XlsxError::XmlEof\("c"\)\)/
                                proof {
                                    if good {
                                        assert(fcell_scan(ev, self.xml.pos() as int, pos, ostr(value), seenf, gseq(self.formulas@)) == ctot);
                                    }
                                }
//@@ end
//@@ endimpl

// ---- witnesses / sanity of the specification (the antecedents of the clauses are satisfiable and the oracle gives the expected answers)
pub open spec fn w_attr(k: Seq<u8>, v: Seq<u8>) -> Attr { Attr { key: k, raw: v, val: Seq::empty(), val_ok: true, err: false } }
pub open spec fn w_dim() -> Dimensions { Dimensions { start: (0u32, 2u32), end: (1u32, 3u32) } }
/// the offset map of the block C1:D2 with master C1 is {C1 -> (0,0), D1 -> (0,1), C2 -> (1,0), D2 -> (1,1)}
proof fn witness_rect_map()
    ensures ({ let mp = rect_map(w_dim(), (0u32, 2u32));
               mp.contains_key((1u32, 3u32)) && mp[(1u32, 3u32)] == (1i64, 1i64) && mp[(0u32, 3u32)] == (0i64, 1i64) && !mp.contains_key((2u32, 2u32)) }),
{
    let mp = Map::<(u32, u32), (i64, i64)>::empty().insert((0u32, 2u32), (0i64, 0i64)).insert((0u32, 3u32), (0i64, 1i64))
        .insert((1u32, 2u32), (1i64, 0i64)).insert((1u32, 3u32), (1i64, 1i64));
    assert forall|m: (u32, u32)| in_rect(w_dim(), m) implies #[trigger] mp.contains_key(m) && mp[m] == off_of((0u32, 2u32), m) by {
        assert(m == (0u32, 2u32) || m == (0u32, 3u32) || m == (1u32, 2u32) || m == (1u32, 3u32));
    }
    assert(is_rect_map(mp, w_dim(), (0u32, 2u32)));
    lemma_rect_map_unique(mp, w_dim(), (0u32, 2u32));
}
/// <c r="C1"><f t="shared" si="0" ref="C1:D2">A1</f></c> read with an empty group table: the cell C1 reports "A1" and group 0 is
/// registered with the offsets of the whole block
proof fn witness_master()
    requires atoi_usize(seq![0x30u8]) == Some(0usize),
    ensures ({
        let fa = seq![w_attr(n_t(), n_shared()), w_attr(n_si(), seq![0x30u8]), w_attr(n_ref(), seq![0x43u8, 0x31u8, 0x3au8, 0x44u8, 0x32u8])];
        let ev = seq![Ev { attrs: seq![w_attr(n_r(), seq![0x43u8, 0x31u8])], ..ev_start(n_c()) }, Ev { attrs: fa, ..ev_start(n_f()) },
                      ev_text("A1"@), ev_end(n_f()), ev_end(n_c())];
        let nx = fnext_scan(ev, 0, Cur { row: 0, col: 0 }, Seq::empty());
        nx.ok && nx.cell == Some(((0u32, 2u32), "A1"@)) && nx.cur == (Cur { row: 0, col: 3 }) && nx.end == 4
            && nx.groups == seq![Some(GroupV { text: "A1"@, map: rect_map(w_dim(), (0u32, 2u32)) })] }),
{
    let rr = seq![0x43u8, 0x31u8, 0x3au8, 0x44u8, 0x32u8];
    let fa = seq![w_attr(n_t(), n_shared()), w_attr(n_si(), seq![0x30u8]), w_attr(n_ref(), rr)];
    let ca = seq![w_attr(n_r(), seq![0x43u8, 0x31u8])];
    let ev = seq![Ev { attrs: ca, ..ev_start(n_c()) }, Ev { attrs: fa, ..ev_start(n_f()) }, ev_text("A1"@), ev_end(n_f()), ev_end(n_c())];
    lemma_local_no_colon(n_c(), 0); lemma_local_no_colon(n_f(), 0);
    assert(n_c()[0] != n_f()[0] && n_c()[0] != n_v()[0] && n_c().len() != n_is().len() && n_c().len() != n_row().len());
    assert(n_f()[0] != n_v()[0] && n_f().len() != n_is().len());
    assert(n_t()[0] != n_r()[0] && n_t().len() != n_si().len() && n_t().len() != n_ref().len() && n_si().len() != n_ref().len());
    lemma_cell_2(0x43u8, 0x31u8); lemma_cell_2(0x44u8, 0x32u8);
    // attributes
    assert(attr_scan(ca, n_r()) == AttrLookup::Found(seq![0x43u8, 0x31u8])) by { reveal_with_fuel(attr_scan, 2); }
    assert(fa.skip(1) =~= seq![w_attr(n_si(), seq![0x30u8]), w_attr(n_ref(), rr)]);
    assert(fa.skip(1).skip(1) =~= seq![w_attr(n_ref(), rr)]);
    assert(attr_scan(fa, n_t()) == AttrLookup::Found(n_shared())) by { reveal_with_fuel(attr_scan, 2); }
    assert(attr_scan(fa, n_si()) == AttrLookup::Found(seq![0x30u8])) by { reveal_with_fuel(attr_scan, 3); }
    assert(attr_scan(fa, n_ref()) == AttrLookup::Found(rr)) by { reveal_with_fuel(attr_scan, 4); }
    // ref="C1:D2"
    reveal_with_fuel(colon_at, 4);
    assert(colon_at(rr, 0) == 2);
    assert(rr.subrange(0, 2) =~= seq![0x43u8, 0x31u8]);
    assert(rr.subrange(3, 5) =~= seq![0x44u8, 0x32u8]);
    assert(dim_of(rr) == Some(w_dim()));
    // the text of f
    assert(Seq::<char>::empty() + "A1"@ =~= "A1"@);
    assert(txt_scan(ev, 2, n_f(), Seq::empty()) == (TxtRes { ok: true, text: "A1"@, end: 3 })) by { reveal_with_fuel(txt_scan, 3); }
    let gv = GroupV { text: "A1"@, map: rect_map(w_dim(), (0u32, 2u32)) };
    let g1 = groups_put(Seq::empty(), 0, gv);
    assert(g1 =~= seq![Some(gv)]);
    assert(f_effect(fa, "A1"@, (0u32, 2u32), Seq::empty()) == Some(("A1"@, g1)));
    assert(fcell_scan(ev, 1, (0u32, 2u32), None, false, Seq::empty()) == (FCellRes { ok: true, val: Some("A1"@), groups: g1, end: 4 })) by { reveal_with_fuel(fcell_scan, 3); }
    reveal_with_fuel(fnext_scan, 2);
}
/// <c r="D2"><f t="shared" si="0"/></c> read after that master: D2 reports the master text translated by (1, 1); the table is unchanged
proof fn witness_member(t: Seq<char>)
    requires atoi_usize(seq![0x30u8]) == Some(0usize), translate(t, (1i64, 1i64)) is Some,
    ensures ({
        let fa = seq![w_attr(n_t(), n_shared()), w_attr(n_si(), seq![0x30u8])];
        let ev = seq![Ev { attrs: seq![w_attr(n_r(), seq![0x44u8, 0x32u8])], ..ev_start(n_c()) }, Ev { attrs: fa, ..ev_start(n_f()) }, ev_end(n_f()), ev_end(n_c())];
        let g = seq![Some(GroupV { text: t, map: rect_map(w_dim(), (0u32, 2u32)) })];
        let nx = fnext_scan(ev, 0, Cur { row: 1, col: 0 }, g);
        nx.ok && nx.cell == Some(((1u32, 3u32), translate(t, (1i64, 1i64))->Some_0)) && nx.groups == g && nx.end == 3 }),
{
    let fa = seq![w_attr(n_t(), n_shared()), w_attr(n_si(), seq![0x30u8])];
    let ca = seq![w_attr(n_r(), seq![0x44u8, 0x32u8])];
    let ev = seq![Ev { attrs: ca, ..ev_start(n_c()) }, Ev { attrs: fa, ..ev_start(n_f()) }, ev_end(n_f()), ev_end(n_c())];
    let g = seq![Some(GroupV { text: t, map: rect_map(w_dim(), (0u32, 2u32)) })];
    lemma_local_no_colon(n_c(), 0); lemma_local_no_colon(n_f(), 0);
    assert(n_c()[0] != n_f()[0] && n_c()[0] != n_v()[0] && n_c().len() != n_is().len() && n_c().len() != n_row().len());
    assert(n_f()[0] != n_v()[0] && n_f().len() != n_is().len());
    assert(n_t()[0] != n_r()[0] && n_t().len() != n_si().len() && n_t().len() != n_ref().len() && n_si().len() != n_ref().len());
    lemma_cell_2(0x44u8, 0x32u8);
    witness_rect_map();
    assert(attr_scan(ca, n_r()) == AttrLookup::Found(seq![0x44u8, 0x32u8])) by { reveal_with_fuel(attr_scan, 2); }
    assert(fa.skip(1) =~= seq![w_attr(n_si(), seq![0x30u8])]);
    assert(fa.skip(1).skip(1) =~= Seq::<Attr>::empty());
    assert(attr_scan(fa, n_t()) == AttrLookup::Found(n_shared())) by { reveal_with_fuel(attr_scan, 2); }
    assert(attr_scan(fa, n_si()) == AttrLookup::Found(seq![0x30u8])) by { reveal_with_fuel(attr_scan, 3); }
    assert(attr_scan(fa, n_ref()) == AttrLookup::Absent) by { reveal_with_fuel(attr_scan, 4); }
    assert(txt_scan(ev, 2, n_f(), Seq::empty()) == (TxtRes { ok: true, text: Seq::empty(), end: 2 })) by { reveal_with_fuel(txt_scan, 2); }
    let t2 = translate(t, (1i64, 1i64))->Some_0;
    assert(f_effect(fa, Seq::empty(), (1u32, 3u32), g) == Some((t2, g)));
    assert(fcell_scan(ev, 1, (1u32, 3u32), None, false, g) == (FCellRes { ok: true, val: Some(t2), groups: g, end: 3 })) by { reveal_with_fuel(fcell_scan, 3); }
    reveal_with_fuel(fnext_scan, 2);
}
proof fn lemma_wf_push(g: Groups, x: Option<GroupV>)
    requires groups_wf(g), x matches Some(v) ==> forall|m: (u32, u32)| #[trigger] v.map.contains_key(m) ==> offset_small(v.map[m]),
    ensures groups_wf(g.push(x)),
{
    let h = g.push(x);
    assert forall|j: int, m: (u32, u32)| 0 <= j < h.len() && h[j] is Some && #[trigger] h[j]->Some_0.map.contains_key(m) implies offset_small(h[j]->Some_0.map[m]) by {
        if j < g.len() { assert(h[j] == g[j]); }
    }
}
proof fn lemma_wf_update(g: Groups, k: int, x: Option<GroupV>)
    requires groups_wf(g), 0 <= k < g.len(), x matches Some(v) ==> forall|m: (u32, u32)| #[trigger] v.map.contains_key(m) ==> offset_small(v.map[m]),
    ensures groups_wf(g.update(k, x)),
{
    let h = g.update(k, x);
    assert forall|j: int, m: (u32, u32)| 0 <= j < h.len() && h[j] is Some && #[trigger] h[j]->Some_0.map.contains_key(m) implies offset_small(h[j]->Some_0.map[m]) by {
        if j != k { assert(h[j] == g[j]); }
    }
}
proof fn witness_new_wf()
    ensures groups_wf(gseq(Seq::<Option<(String, FormulaMap)>>::empty())),
{}
pub open spec fn ostr(o: Option<String>) -> Option<Seq<char>> { match o { Some(s) => Some(s@), None => None } }
/// the value `String::default()` returns
pub uninterp spec fn default_of<T>() -> T;
// TRUSTED: A-std -- `String::default()` is the empty string (alloc::string)
#[verifier::external_body]
pub proof fn axiom_string_default()
    ensures default_of::<String>()@ == Seq::<char>::empty(),
{}

} // verus!
fn main() {}
