
// =====================================================================================================================
// std pieces without a vstd specification
// =====================================================================================================================
// TRUSTED: A-std -- `impl<T> Borrow<T> for T` (core::borrow): `borrow` returns the reference it is given
pub assume_specification<T>[ <T as Borrow<T>>::borrow ](x: &T) -> (r: &T)
    ensures r == x;
// TRUSTED: A-std -- Option::unwrap_or_default (core::option): the value, or `T::default()`; for String the default is the empty string
pub assume_specification[ Option::<String>::unwrap_or_default ](o: Option<String>) -> (r: String)
    ensures r@ == ostr_or_empty(o);
pub open spec fn ostr_or_empty(o: Option<String>) -> Seq<char> { match o { Some(s) => s@, None => Seq::empty() } }

//@@ item src/lib.rs trait "trait CellType"
impl CellType for String {}
//@@ item src/lib.rs struct Cell
impl<T: CellType> Cell<T> {
    pub closed spec fn p(&self) -> (u32, u32) { self.pos }
    pub closed spec fn v(&self) -> T { self.val }
}
//@@ impl src/lib.rs Cell
//@@ fn src/lib.rs Cell::new props=C14 ret=c
//@@ sig
    ensures
        //# C14.cell_new
        c.p() == position && c.v() == value,
//@@ end
//@@ endimpl
//@@ item src/xlsx/cells_reader.rs type FormulaMap
//@@ item src/xlsx/cells_reader.rs struct XlsxCellReader

//@@ impl src/xlsx/cells_reader.rs XlsxCellReader
//@@ fn src/xlsx/cells_reader.rs XlsxCellReader::next_formula props=C15 entry ret=r
//@@ end
//@@ endimpl

//@@ fn src/xlsx/cells_reader.rs read_formula props=C14 ret=r
//@@ end

} // verus!
fn main() {}
