//@@ unit props=C03,C06,C10,C19
// Unit xlsbrec: XLSB record framing (src/xlsb/mod.rs RecordIter), wide strings, cell records (src/xlsb/cells_reader.rs).
#![allow(unused_imports, dead_code, unused_variables, unused_mut, unused_assignments)]
use vstd::prelude::*;

verus! {

global size_of usize == 8;   // checked by rustc against the target (x86_64); the `usize << 7*i` facts below are proved for 64-bit usize

// ---- stand-ins for foreign error payload types (opaque; never inspected by the verified code)
pub mod quick_xml {
    pub struct Error;
    pub mod events { pub mod attributes { pub struct AttrError; } }
    pub mod encoding { pub struct EncodingError; }
}
pub mod zip { pub mod result { pub struct ZipError; } }
pub mod vba { pub struct VbaError; }
pub mod crate_ { }
#[verifier::external_type_specification] #[verifier::external_body] pub struct ExIoError(std::io::Error);

//@@ item src/xlsb/mod.rs enum XlsbError

// ---- A-io: ghost byte-stream model of the reader behind RecordIter
// TRUSTED: A-io -- `ZipFile` / `BufReader` are stand-ins for zip::read::ZipFile and std::io::BufReader; the only
// operation the verified code uses is `read_exact`, whose documented behaviour (std::io::Read::read_exact) is:
// fill the whole buffer with the next buf.len() bytes of the stream, or return Err (UnexpectedEof) if fewer remain.
#[verifier::external_body]
pub struct ZipFile<'a> { _p: core::marker::PhantomData<&'a ()> }

#[verifier::external_body]
#[verifier::reject_recursive_types(R)]
pub struct BufReader<R> { _p: core::marker::PhantomData<R> }

impl<R> BufReader<R> {
    /// bytes not yet consumed
    pub uninterp spec fn rem(&self) -> Seq<u8>;

    // TRUSTED: A-io
    #[verifier::external_body]
    pub fn read_exact(&mut self, buf: &mut [u8]) -> (r: Result<(), std::io::Error>)
        ensures
            r is Ok ==> old(self).rem().len() >= old(buf)@.len()
                && final(buf)@ == old(self).rem().subrange(0, old(buf)@.len() as int)
                && final(self).rem() == old(self).rem().skip(old(buf)@.len() as int),
            r is Err ==> old(self).rem().len() < old(buf)@.len(),
            final(buf)@.len() == old(buf)@.len(),
    { unimplemented!() }
}

// ---- [MS-XLSB] 2.1.4 Record: record type = 1 or 2 bytes, record size = 1..4 bytes; each byte carries 7 value bits
// (least significant group first); the high bit of a byte says that another byte follows (type: at most 2, size: at most 4).
pub open spec fn lo7(b: u8) -> int { (b % 128) as int }
pub open spec fn cont(b: u8) -> bool { b >= 128 }
pub open spec fn pow128(i: nat) -> int decreases i { if i == 0 { 1 } else { 128 * pow128((i - 1) as nat) } }
/// value of the first n bytes of s read as 7-bit little-endian groups
pub open spec fn vsum(s: Seq<u8>, n: nat) -> int decreases n {
    if n == 0 { 0 } else { vsum(s, (n - 1) as nat) + lo7(s[n - 1]) * pow128((n - 1) as nat) }
}
/// number of bytes of a variable-length field of at most `max` bytes that starts at s[i..] (i bytes already seen, all with high bit)
pub open spec fn vhdr_from(s: Seq<u8>, i: nat, max: nat) -> nat decreases max - i {
    if i + 1 >= max || i >= s.len() || !cont(s[i as int]) { i + 1 } else { vhdr_from(s, i + 1, max) }
}
/// length in bytes of the field (1..=max); meaningful when s has that many bytes
pub open spec fn vhdr(s: Seq<u8>, max: nat) -> nat { vhdr_from(s, 0, max) }
/// the field is completely present in s
pub open spec fn vcomplete(s: Seq<u8>, max: nat) -> bool { s.len() >= vhdr(s, max) }
pub open spec fn varint_type(s: Seq<u8>) -> int { vsum(s, vhdr(s, 2)) }
pub open spec fn varint_len(s: Seq<u8>) -> int { vsum(s, vhdr(s, 4)) }

proof fn lemma_pow128()
    ensures pow128(0) == 1, pow128(1) == 128, pow128(2) == 16384, pow128(3) == 2097152,
{ reveal_with_fuel(pow128, 5); }

/// instances: the boundary values of [MS-XLSB] 2.1.4
proof fn witness_varint()
    ensures
        varint_type(seq![0x7Fu8]) == 127 && vhdr(seq![0x7Fu8], 2) == 1,
        varint_type(seq![0x80u8, 0x01u8]) == 128 && vhdr(seq![0x80u8, 0x01u8], 2) == 2,
        varint_type(seq![0xFFu8, 0x7Fu8]) == 16383,
        // a type field never has more than 2 bytes, even if the second has its high bit set
        vhdr(seq![0xFFu8, 0xFFu8, 0x01u8], 2) == 2,
        varint_len(seq![0xFFu8, 0x7Fu8]) == 16383 && vhdr(seq![0xFFu8, 0x7Fu8], 4) == 2,
        varint_len(seq![0x80u8, 0x80u8, 0x01u8]) == 16384 && vhdr(seq![0x80u8, 0x80u8, 0x01u8], 4) == 3,
        varint_len(seq![0xFFu8, 0xFFu8, 0xFFu8, 0xFFu8, 0xFFu8]) == 0x0FFF_FFFF && vhdr(seq![0xFFu8, 0xFFu8, 0xFFu8, 0xFFu8, 0xFFu8], 4) == 4,
{
    assert(varint_type(seq![0x7Fu8]) == 127 && vhdr(seq![0x7Fu8], 2) == 1) by (compute);
    assert(varint_type(seq![0x80u8, 0x01u8]) == 128 && vhdr(seq![0x80u8, 0x01u8], 2) == 2) by (compute);
    assert(varint_type(seq![0xFFu8, 0x7Fu8]) == 16383) by (compute);
    assert(vhdr(seq![0xFFu8, 0xFFu8, 0x01u8], 2) == 2) by (compute);
    assert(varint_len(seq![0xFFu8, 0x7Fu8]) == 16383 && vhdr(seq![0xFFu8, 0x7Fu8], 4) == 2) by (compute);
    assert(varint_len(seq![0x80u8, 0x80u8, 0x01u8]) == 16384 && vhdr(seq![0x80u8, 0x80u8, 0x01u8], 4) == 3) by (compute);
    assert(varint_len(seq![0xFFu8, 0xFFu8, 0xFFu8, 0xFFu8, 0xFFu8]) == 0x0FFF_FFFF && vhdr(seq![0xFFu8, 0xFFu8, 0xFFu8, 0xFFu8, 0xFFu8], 4) == 4) by (compute);
}

/// the exec bit operations of the code, in arithmetic terms
proof fn lemma_bits(x: u8)
    ensures
        ((x & 0x80) == 0x80) == cont(x),
        ((x & 0x80) == 0) == !cont(x),
        (x & 0x7F) as int == lo7(x),
        0 <= lo7(x) < 128,
        (((x & 0x7F) as u16) << 7) as int == 128 * lo7(x),
        (((x & 0x7F) as usize) << 7) as int == 128 * lo7(x),
        (((x & 0x7F) as usize) << 14) as int == 16384 * lo7(x),
        (((x & 0x7F) as usize) << 21) as int == 2097152 * lo7(x),
{
    assert(((x & 0x80) == 0x80) == (x >= 128)) by (bit_vector);
    assert(((x & 0x80) == 0) == !(x >= 128)) by (bit_vector);
    assert((x & 0x7F) == x % 128) by (bit_vector);
    assert((((x & 0x7F) as u16) << 7) == 128 * ((x % 128) as u16)) by (bit_vector);
    assert((((x & 0x7F) as usize) << 7) == 128 * ((x % 128) as usize)) by (bit_vector);
    assert((((x & 0x7F) as usize) << 14) == 16384 * ((x % 128) as usize)) by (bit_vector);
    assert((((x & 0x7F) as usize) << 21) == 2097152 * ((x % 128) as usize)) by (bit_vector);
}

//@@ item src/xlsb/mod.rs struct RecordIter

impl<'a> RecordIter<'a> {
    pub closed spec fn rem(&self) -> Seq<u8> { self.r.rem() }
}

//@@ impl src/xlsb/mod.rs RecordIter
//@@ fn src/xlsb/mod.rs RecordIter::read_u8 props=C03 ret=r
//@@ sig
    ensures
        //# C03.read_u8_ok
        r is Ok ==> old(self).rem().len() >= 1 && r->Ok_0 == old(self).rem()[0] && final(self).rem() == old(self).rem().skip(1),
        //# C03.read_u8_err
        r is Err ==> old(self).rem().len() == 0,
//@@ end
//@@ fn src/xlsb/mod.rs RecordIter::read_type props=C03 ret=r
//@@ sig
    ensures
        //# C03.varint_type
        r is Ok ==> vcomplete(old(self).rem(), 2) && r->Ok_0 as int == varint_type(old(self).rem()),
        //# C03.type_advance
        r is Ok ==> final(self).rem() == old(self).rem().skip(vhdr(old(self).rem(), 2) as int),
        //# C03.type_err
        r is Err ==> !vcomplete(old(self).rem(), 2),
//@@ body
        let ghost s0 = self.rem();
        proof {
            reveal_with_fuel(vhdr_from, 3); reveal_with_fuel(vsum, 3); lemma_pow128();
            if s0.len() > 0 { lemma_bits(s0[0]); }
            if s0.len() > 1 { lemma_bits(s0[1]); assert(s0.skip(1)[0] == s0[1]); assert(s0.skip(1).skip(1) =~= s0.skip(2)); }
        }
//@@ end
//@@ fn src/xlsb/mod.rs RecordIter::fill_buffer props=C03 ret=r
//@@ sig
    ensures
        //# C03.fill_len
        r is Ok ==> vcomplete(old(self).rem(), 4) && r->Ok_0 as int == varint_len(old(self).rem()),
        //# C03.fill_avail
        r is Ok ==> old(self).rem().len() >= vhdr(old(self).rem(), 4) + varint_len(old(self).rem()),
        //# C03.fill_payload
        r is Ok ==> final(buf)@.len() >= r->Ok_0 && final(buf)@.subrange(0, r->Ok_0 as int)
            == old(self).rem().subrange(vhdr(old(self).rem(), 4) as int, vhdr(old(self).rem(), 4) + varint_len(old(self).rem())),
        //# C03.fill_advance
        r is Ok ==> final(self).rem() == old(self).rem().skip(vhdr(old(self).rem(), 4) + varint_len(old(self).rem())),
        //# C03.fill_buf_frame
        r is Ok ==> final(buf)@.len() == (if old(buf)@.len() < r->Ok_0 { r->Ok_0 as int } else { old(buf)@.len() as int })
            && final(buf)@.skip(r->Ok_0 as int) =~= (if old(buf)@.len() < r->Ok_0 { Seq::<u8>::empty() } else { old(buf)@.skip(r->Ok_0 as int) }),
        //# C03.fill_err
        r is Err ==> !vcomplete(old(self).rem(), 4) || old(self).rem().len() < vhdr(old(self).rem(), 4) + varint_len(old(self).rem()),
//@@ body
        let ghost s0 = self.rem();
        let ghost mut n: nat = 1;
        let ghost mut stopped = false;
        proof { lemma_pow128(); reveal_with_fuel(vsum, 2); if s0.len() > 0 { lemma_bits(s0[0]); } }
//@@ loop 0 it
            invariant
                1 <= n <= 4, n <= s0.len(),
                !stopped ==> n == i,
                self.rem() == s0.skip(n as int),
                b == s0[n - 1],
                len as int == vsum(s0, n),
                0 <= len < pow128(n),
                vhdr(s0, 4) == vhdr_from(s0, (n - 1) as nat, 4),
                stopped ==> !cont(b),
            ensures
                stopped || n == 4,
//@@ before /if \(b & /
            proof { lemma_bits(b); }
//@@ before /break;/
                proof { stopped = true; }
//@@ before /len \+= /
            proof {
                lemma_bits(b); lemma_pow128();
                assert(s0.skip(n as int)[0] == s0[n as int]);
                assert(s0.skip(n as int).skip(1) =~= s0.skip(n + 1 as int));
                assert(vsum(s0, n + 1) == vsum(s0, n) + lo7(s0[n as int]) * pow128(n));
                assert(n == i);
                if n == 1 { assert(lo7(b) * pow128(1) == 128 * lo7(b)); }
                else if n == 2 { assert(lo7(b) * pow128(2) == 16384 * lo7(b)); }
                else { assert(lo7(b) * pow128(3) == 2097152 * lo7(b)); }
                assert(pow128(n + 1) == 128 * pow128(n));
            }
//@@ after /len \+= [^;]*;/
            proof { n = n + 1; }
//@@ before /if buf\.len\(\) < len/
        proof {
            lemma_pow128();
            assert(n == vhdr(s0, 4));
        }
//@@ end
//@@ endimpl

} // verus!
fn main() {}
