//@@ unit props=C03,C06,C10,C19,C16,C11 rlimit=400
// Unit xlsbrec: XLSB record framing (src/xlsb/mod.rs RecordIter), wide strings, cell records (src/xlsb/cells_reader.rs).
#![allow(unused_imports, dead_code, unused_variables, unused_mut, unused_assignments)]
#![feature(allocator_api)]
use vstd::prelude::*;
use vstd::slice::SliceIndexSpec;
use std::ops::{Index, IndexMut};
use std::slice::SliceIndex;
use std::borrow::Cow;

verus! {

global size_of usize == 8;   // checked by rustc against the target (x86_64); the `usize << 7*i` facts below are proved for 64-bit usize

// ---- stand-ins for foreign error payload types (opaque; never inspected by the verified code)
pub mod quick_xml {
    pub struct Error;
    pub mod events { pub mod attributes { pub struct AttrError; } }
    pub mod encoding { pub struct EncodingError; }
}
pub mod zip { pub mod result { pub struct ZipError; } }
pub mod vba { pub struct VbaError; }
#[verifier::external_type_specification] #[verifier::external_body] pub struct ExIoError(std::io::Error);

//@@ item src/xlsb/mod.rs enum XlsbError
// what `from_err!(std::io::Error, XlsbError, Io)` (macro of src/utils.rs) expands to, `e.into()` being the identity here
impl From<std::io::Error> for XlsbError { fn from(e: std::io::Error) -> (r: XlsbError) { XlsbError::Io(e) } }
impl vstd::std_specs::convert::FromSpecImpl<std::io::Error> for XlsbError {
    open spec fn obeys_from_spec() -> bool { true }
    open spec fn from_spec(e: std::io::Error) -> Self { XlsbError::Io(e) }
}

// TRUSTED: A-std -- `Vec::index_mut(i)` is `IndexMut::index_mut(&mut **self, i)`: the slice operation applied to the vector's
// contents (vstd specifies the slice operation and the bounds precondition `index_req`, but gives Vec::index_mut no postcondition).
pub assume_specification<T, I: SliceIndex<[T]>, A: std::alloc::Allocator>[ <Vec<T, A> as IndexMut<I>>::index_mut ](v: &mut Vec<T, A>, index: I) -> (s: &mut <Vec<T, A> as Index<I>>::Output)
    ensures exists|s0: &[T], s1: &[T]| s0@ == old(v)@ && s1@ == final(v)@ && #[trigger] index.index_mut_postcondition(s0, s1, s, final(s)),
    ;

// ---- A-io: ghost byte-stream model of the reader behind RecordIter
// TRUSTED: A-io -- `ZipFile` / `BufReader` are stand-ins for zip::read::ZipFile and std::io::BufReader; the only
// operation the verified code uses is `read_exact`, whose documented behaviour (std::io::Read::read_exact) is:
// fill the whole buffer with the next buf.len() bytes of the stream, or return Err (UnexpectedEof) if fewer remain.
#[verifier::external_body]
pub struct ZipFile<'a> { _p: core::marker::PhantomData<&'a ()> }

#[verifier::external_body]
#[verifier::reject_recursive_types(R)]
pub struct BufReader<R> { _p: core::marker::PhantomData<R> }

impl<R> BufReader<R> {
    /// bytes not yet consumed
    pub uninterp spec fn rem(&self) -> Seq<u8>;

    // TRUSTED: A-io
    #[verifier::external_body]
    pub fn read_exact(&mut self, buf: &mut [u8]) -> (r: Result<(), std::io::Error>)
        ensures
            r is Ok ==> old(self).rem().len() >= old(buf)@.len()
                && final(buf)@ == old(self).rem().subrange(0, old(buf)@.len() as int)
                && final(self).rem() == old(self).rem().skip(old(buf)@.len() as int),
            r is Err ==> old(self).rem().len() < old(buf)@.len(),
            final(buf)@.len() == old(buf)@.len(),
    { unimplemented!() }
}

// ---- [MS-XLSB] 2.1.4 Record: record type = 1 or 2 bytes, record size = 1..4 bytes; each byte carries 7 value bits
// (least significant group first); the high bit of a byte says that another byte follows (type: at most 2, size: at most 4).
pub open spec fn lo7(b: u8) -> int { (b % 128) as int }
pub open spec fn cont(b: u8) -> bool { b >= 128 }
pub open spec fn pow128(i: nat) -> int decreases i { if i == 0 { 1 } else { 128 * pow128((i - 1) as nat) } }
/// value of the first n bytes of s read as 7-bit little-endian groups
pub open spec fn vsum(s: Seq<u8>, n: nat) -> int decreases n {
    if n == 0 { 0 } else { vsum(s, (n - 1) as nat) + lo7(s[n - 1]) * pow128((n - 1) as nat) }
}
/// number of bytes of a variable-length field of at most `max` bytes that starts at s[i..] (i bytes already seen, all with high bit)
pub open spec fn vhdr_from(s: Seq<u8>, i: nat, max: nat) -> nat decreases max - i {
    if i + 1 >= max || i >= s.len() || !cont(s[i as int]) { i + 1 } else { vhdr_from(s, i + 1, max) }
}
/// length in bytes of the field (1..=max); meaningful when s has that many bytes
pub open spec fn vhdr(s: Seq<u8>, max: nat) -> nat { vhdr_from(s, 0, max) }
/// the field is completely present in s
pub open spec fn vcomplete(s: Seq<u8>, max: nat) -> bool { s.len() >= vhdr(s, max) }
pub open spec fn varint_type(s: Seq<u8>) -> int { vsum(s, vhdr(s, 2)) }
pub open spec fn varint_len(s: Seq<u8>) -> int { vsum(s, vhdr(s, 4)) }

proof fn lemma_pow128()
    ensures pow128(0) == 1, pow128(1) == 128, pow128(2) == 16384, pow128(3) == 2097152,
{ reveal_with_fuel(pow128, 5); }

/// instances: the boundary values of [MS-XLSB] 2.1.4
proof fn witness_varint()
    ensures
        varint_type(seq![0x7Fu8]) == 127 && vhdr(seq![0x7Fu8], 2) == 1,
        varint_type(seq![0x80u8, 0x01u8]) == 128 && vhdr(seq![0x80u8, 0x01u8], 2) == 2,
        varint_type(seq![0xFFu8, 0x7Fu8]) == 16383,
        // a type field never has more than 2 bytes, even if the second has its high bit set
        vhdr(seq![0xFFu8, 0xFFu8, 0x01u8], 2) == 2,
        varint_len(seq![0xFFu8, 0x7Fu8]) == 16383 && vhdr(seq![0xFFu8, 0x7Fu8], 4) == 2,
        varint_len(seq![0x80u8, 0x80u8, 0x01u8]) == 16384 && vhdr(seq![0x80u8, 0x80u8, 0x01u8], 4) == 3,
        varint_len(seq![0xFFu8, 0xFFu8, 0xFFu8, 0xFFu8, 0xFFu8]) == 0x0FFF_FFFF && vhdr(seq![0xFFu8, 0xFFu8, 0xFFu8, 0xFFu8, 0xFFu8], 4) == 4,
{
    assert(varint_type(seq![0x7Fu8]) == 127 && vhdr(seq![0x7Fu8], 2) == 1) by (compute);
    assert(varint_type(seq![0x80u8, 0x01u8]) == 128 && vhdr(seq![0x80u8, 0x01u8], 2) == 2) by (compute);
    assert(varint_type(seq![0xFFu8, 0x7Fu8]) == 16383) by (compute);
    assert(vhdr(seq![0xFFu8, 0xFFu8, 0x01u8], 2) == 2) by (compute);
    assert(varint_len(seq![0xFFu8, 0x7Fu8]) == 16383 && vhdr(seq![0xFFu8, 0x7Fu8], 4) == 2) by (compute);
    assert(varint_len(seq![0x80u8, 0x80u8, 0x01u8]) == 16384 && vhdr(seq![0x80u8, 0x80u8, 0x01u8], 4) == 3) by (compute);
    assert(varint_len(seq![0xFFu8, 0xFFu8, 0xFFu8, 0xFFu8, 0xFFu8]) == 0x0FFF_FFFF && vhdr(seq![0xFFu8, 0xFFu8, 0xFFu8, 0xFFu8, 0xFFu8], 4) == 4) by (compute);
}

proof fn lemma_vhdr_from_lb(s: Seq<u8>, i: nat, max: nat)
    ensures vhdr_from(s, i, max) >= i + 1, i + 1 <= max ==> vhdr_from(s, i, max) <= max,
    decreases max - i,
{
    if !(i + 1 >= max || i >= s.len() || !cont(s[i as int])) { lemma_vhdr_from_lb(s, i + 1, max); }
}

/// the exec bit operations of the code, in arithmetic terms
proof fn lemma_bits(x: u8)
    ensures
        ((x & 0x80) == 0x80) == cont(x),
        ((x & 0x80) == 0) == !cont(x),
        (x & 0x7F) as int == lo7(x),
        0 <= lo7(x) < 128,
        (((x & 0x7F) as u16) << 7) as int == 128 * lo7(x),
        (((x & 0x7F) as usize) << 7) as int == 128 * lo7(x),
        (((x & 0x7F) as usize) << 14) as int == 16384 * lo7(x),
        (((x & 0x7F) as usize) << 21) as int == 2097152 * lo7(x),
{
    assert(((x & 0x80) == 0x80) == (x >= 128)) by (bit_vector);
    assert(((x & 0x80) == 0) == !(x >= 128)) by (bit_vector);
    assert((x & 0x7F) == x % 128) by (bit_vector);
    assert((((x & 0x7F) as u16) << 7) == 128 * ((x % 128) as u16)) by (bit_vector);
    assert((((x & 0x7F) as usize) << 7) == 128 * ((x % 128) as usize)) by (bit_vector);
    assert((((x & 0x7F) as usize) << 14) == 16384 * ((x % 128) as usize)) by (bit_vector);
    assert((((x & 0x7F) as usize) << 21) == 2097152 * ((x % 128) as usize)) by (bit_vector);
}

// ---- records on the byte stream ([MS-XLSB] 2.1.4): type field, size field, `size` payload bytes
pub open spec fn rec_tl(s: Seq<u8>) -> nat { vhdr(s, 2) }
pub open spec fn rec_typ(s: Seq<u8>) -> int { varint_type(s) }
pub open spec fn rec_sl(s: Seq<u8>) -> nat { vhdr(s.skip(rec_tl(s) as int), 4) }
pub open spec fn rec_len(s: Seq<u8>) -> int { varint_len(s.skip(rec_tl(s) as int)) }
pub open spec fn rec_total(s: Seq<u8>) -> int { rec_tl(s) + rec_sl(s) + rec_len(s) }
/// a complete record is present at the head of s
pub open spec fn rec_ok(s: Seq<u8>) -> bool {
    vcomplete(s, 2) && vcomplete(s.skip(rec_tl(s) as int), 4) && s.len() >= rec_total(s)
}
pub open spec fn rec_payload(s: Seq<u8>) -> Seq<u8> { s.subrange((rec_tl(s) + rec_sl(s)) as int, rec_total(s)) }
pub open spec fn rec_rest(s: Seq<u8>) -> Seq<u8> { s.skip(rec_total(s)) }

proof fn lemma_vsum_nonneg(s: Seq<u8>, n: nat)
    ensures vsum(s, n) >= 0,
    decreases n,
{
    if n > 0 {
        lemma_vsum_nonneg(s, (n - 1) as nat);
        lemma_pow128_pos((n - 1) as nat);
        assert(lo7(s[n - 1]) * pow128((n - 1) as nat) >= 0) by (nonlinear_arith) requires lo7(s[n - 1]) >= 0, pow128((n - 1) as nat) > 0;
    }
}
proof fn lemma_pow128_pos(i: nat) ensures pow128(i) > 0 decreases i { if i > 0 { lemma_pow128_pos((i - 1) as nat); } }
/// every record occupies at least 2 bytes
proof fn lemma_rec_total(s: Seq<u8>)
    ensures rec_total(s) >= 2,
{
    lemma_vhdr_from_lb(s, 0, 2);
    lemma_vhdr_from_lb(s.skip(rec_tl(s) as int), 0, 4);
    lemma_vsum_nonneg(s.skip(rec_tl(s) as int), rec_sl(s));
}

/// the stream after n whole records (None if it ends, or a record is truncated, before that)
pub open spec fn skip_n(s: Seq<u8>, n: nat) -> Option<Seq<u8>> decreases n {
    if n == 0 { Some(s) } else if rec_ok(s) { skip_n(rec_rest(s), (n - 1) as nat) } else { None }
}
proof fn lemma_skip_n_step(s: Seq<u8>, n: nat)
    requires skip_n(s, n) is Some, rec_ok(skip_n(s, n)->Some_0),
    ensures skip_n(s, n + 1) == Some(rec_rest(skip_n(s, n)->Some_0)),
    decreases n,
{
    if n == 0 {
        assert(skip_n(rec_rest(s), 0) == Some(rec_rest(s)));
    } else {
        lemma_skip_n_step(rec_rest(s), (n - 1) as nat);
    }
}
/// what `read_type` followed by `fill_buffer` consume is exactly one record
proof fn lemma_rec_read(s: Seq<u8>)
    requires
        vcomplete(s, 2), vcomplete(s.skip(vhdr(s, 2) as int), 4),
        s.skip(vhdr(s, 2) as int).len() >= vhdr(s.skip(vhdr(s, 2) as int), 4) + varint_len(s.skip(vhdr(s, 2) as int)),
    ensures
        rec_ok(s), rec_total(s) >= 2, rec_rest(s).len() < s.len(), rec_len(s) >= 0,
        s.skip(rec_tl(s) as int).skip(rec_sl(s) + rec_len(s)) == rec_rest(s),
        s.skip(rec_tl(s) as int).subrange(rec_sl(s) as int, rec_sl(s) + rec_len(s)) == rec_payload(s),
{
    lemma_rec_total(s);
    lemma_vsum_nonneg(s.skip(rec_tl(s) as int), rec_sl(s));
    assert(s.skip(rec_tl(s) as int).skip(rec_sl(s) + rec_len(s)) =~= rec_rest(s));
    assert(s.skip(rec_tl(s) as int).subrange(rec_sl(s) as int, rec_sl(s) + rec_len(s)) =~= rec_payload(s));
}
/// t is a record boundary of the stream s: reached from s by consuming k whole records
pub open spec fn boundary(s: Seq<u8>, k: nat, t: Seq<u8>) -> bool { skip_n(s, k) == Some(t) }

//@@ item src/xlsb/mod.rs struct RecordIter

impl<'a> RecordIter<'a> {
    pub closed spec fn rem(&self) -> Seq<u8> { self.r.rem() }
}

//@@ impl src/xlsb/mod.rs RecordIter
//@@ fn src/xlsb/mod.rs RecordIter::read_u8 props=C03 entry ret=r
//@@ sig
    ensures
        //# C03.read_u8_ok
        r is Ok ==> old(self).rem().len() >= 1 && r->Ok_0 == old(self).rem()[0] && final(self).rem() == old(self).rem().skip(1),
        //# C03.read_u8_err
        r is Err ==> old(self).rem().len() == 0,
//@@ end
//@@ fn src/xlsb/mod.rs RecordIter::read_type props=C03 entry ret=r
//@@ sig
    ensures
        //# C03.varint_type
        r is Ok ==> vcomplete(old(self).rem(), 2) && r->Ok_0 as int == varint_type(old(self).rem()),
        //# C03.type_advance
        r is Ok ==> final(self).rem() == old(self).rem().skip(vhdr(old(self).rem(), 2) as int),
        //# C03.type_err
        r is Err ==> !vcomplete(old(self).rem(), 2),
//@@ body
        let ghost s0 = self.rem();
        proof {
            reveal_with_fuel(vhdr_from, 3); reveal_with_fuel(vsum, 3); lemma_pow128();
            if s0.len() > 0 { lemma_bits(s0[0]); }
            if s0.len() > 1 { lemma_bits(s0[1]); assert(s0.skip(1)[0] == s0[1]); assert(s0.skip(1).skip(1) =~= s0.skip(2)); }
        }
//@@ end
//@@ fn src/xlsb/mod.rs RecordIter::fill_buffer props=C03,C19 entry ret=r
//@@ sig
    ensures
        //# C03,C19.fill_len
        r is Ok ==> vcomplete(old(self).rem(), 4) && r->Ok_0 as int == varint_len(old(self).rem()),
        //# C03.fill_avail
        r is Ok ==> old(self).rem().len() >= vhdr(old(self).rem(), 4) + varint_len(old(self).rem()),
        //# C03.fill_payload
        r is Ok ==> final(buf)@.len() >= r->Ok_0 && final(buf)@.subrange(0, r->Ok_0 as int)
            == old(self).rem().subrange(vhdr(old(self).rem(), 4) as int, vhdr(old(self).rem(), 4) + varint_len(old(self).rem())),
        //# C03.fill_advance
        r is Ok ==> final(self).rem() == old(self).rem().skip(vhdr(old(self).rem(), 4) + varint_len(old(self).rem())),
        //# C03.fill_buf_frame
        r is Ok ==> final(buf)@.len() == (if old(buf)@.len() < r->Ok_0 { r->Ok_0 as int } else { old(buf)@.len() as int })
            && final(buf)@.skip(r->Ok_0 as int) =~= (if old(buf)@.len() < r->Ok_0 { Seq::<u8>::empty() } else { old(buf)@.skip(r->Ok_0 as int) }),
        //# C03.fill_err
        r is Err ==> !vcomplete(old(self).rem(), 4) || old(self).rem().len() < vhdr(old(self).rem(), 4) + varint_len(old(self).rem()),
//@@ body
        let ghost s0 = self.rem();
        let ghost mut n: nat = 1;
        let ghost mut stopped = false;
        proof { lemma_pow128(); reveal_with_fuel(vsum, 2); if s0.len() > 0 { lemma_bits(s0[0]); } }
//@@ loop 0 it
            invariant
                s0 == old(self).rem(),
                1 <= n <= 4, n <= s0.len(),
                !stopped ==> n == i,
                self.rem() == s0.skip(n as int),
                b == s0[n - 1],
                len as int == vsum(s0, n),
                0 <= len < pow128(n),
                vhdr(s0, 4) == vhdr_from(s0, (n - 1) as nat, 4),
                stopped ==> !cont(b),
            ensures
                stopped || n == 4,
//@@ before /if [^{]*\{\s*break;/
            proof { lemma_bits(b); }
//@@ before /break;/
                proof { stopped = true; }
//@@ before /b = self\.read_u8/#1of2
            proof { assert(n == i); assert(vhdr_from(s0, (n - 1) as nat, 4) == vhdr_from(s0, n, 4)); lemma_vhdr_from_lb(s0, n, 4);
                assert(self.rem().len() == s0.len() - n);
                assert(self.rem().len() == 0 ==> !vcomplete(s0, 4)); }
//@@ before /len \+= /
            proof {
                lemma_bits(b); lemma_pow128();
                assert(s0.skip(n as int)[0] == s0[n as int]);
                assert(s0.skip(n as int).skip(1) =~= s0.skip(n + 1 as int));
                assert(vsum(s0, n + 1) == vsum(s0, n) + lo7(s0[n as int]) * pow128(n));
                assert(n == i);
                if n == 1 { assert(lo7(b) * pow128(1) == 128 * lo7(b)); }
                else if n == 2 { assert(lo7(b) * pow128(2) == 16384 * lo7(b)); }
                else { assert(lo7(b) * pow128(3) == 2097152 * lo7(b)); }
                assert(pow128(n + 1) == 128 * pow128(n));
            }
//@@ after /len \+= [^;]*;/
            proof { n = n + 1; }
//@@ before /if buf\.len\(\)/
        proof {
            lemma_pow128();
            assert(n == vhdr(s0, 4));
        }
        let ghost buf0 = buf@;
//@@ before /\*buf = vec!/
            // allocation site driven by file data: bounded by the 4 x 7-bit size field (K0 = 2^28 - 1 bytes), whatever the input length
            //# C06.fill_alloc_bound
            assert(len <= 0x0FFF_FFFF);
//@@ before /Ok\(len\)/
        proof {
            assert(buf@.len() >= len);
            assert(self.rem() == s0.skip(n as int).skip(len as int));
            assert(s0.skip(n as int).skip(len as int) =~= s0.skip(n + len));
            assert(buf@.subrange(0, len as int) =~= s0.skip(n as int).subrange(0, len as int));
            assert(s0.skip(n as int).subrange(0, len as int) =~= s0.subrange(n as int, n + len));
        }
//@@ end
//@@ fn src/xlsb/mod.rs RecordIter::next_skip_blocks props=C03 entry ret=r
//@@ sig
    ensures
        // "record kinds the reader does not interpret never shift or drop neighbouring cells": the reader only ever stops at
        // record boundaries -- the returned record is a whole record of the requested type, k whole records after the start
        //# C03.skip_whole_records
        r is Ok ==> exists|k: nat, t: Seq<u8>| #[trigger] boundary(old(self).rem(), k, t) && rec_ok(t) && rec_typ(t) == record_type
            && r->Ok_0 as int == rec_len(t) && final(buf)@.len() >= r->Ok_0
            && final(buf)@.subrange(0, r->Ok_0 as int) == rec_payload(t) && final(self).rem() == rec_rest(t),
        //# C03.skip_err
        r is Err ==> exists|k: nat, t: Seq<u8>| #[trigger] boundary(old(self).rem(), k, t) && !rec_ok(t),
//@@ body
        let ghost s0 = self.rem();
        let ghost mut k: nat = 0;
        let ghost mut cur = self.rem();
        let ghost mut prev = self.rem();
//@@ before /let typ = /
            let ghost h = self.rem().len();
//@@ before /if typ /
            proof {
                lemma_rec_read(cur);
                lemma_skip_n_step(s0, k);
                prev = cur; cur = rec_rest(prev); k = k + 1;
            }
//@@ before /return Ok\(len\)/
                proof { assert(boundary(s0, (k - 1) as nat, prev)); }
//@@ after? /while [^{]*\{\s*let _ = self\.fill_buffer[^;]*;/
                    proof {
                        lemma_rec_read(cur);
                        lemma_skip_n_step(s0, k);
                        prev = cur; cur = rec_rest(prev); k = k + 1;
                    }
//@@ after? /\}\s*let _ = self\.fill_buffer[^;]*;/
                proof {
                    lemma_rec_read(cur);
                    lemma_skip_n_step(s0, k);
                    prev = cur; cur = rec_rest(prev); k = k + 1;
                }
//@@ loop 0
            invariant
                s0 == old(self).rem(),
                // between records the reader stands at a record boundary of the stream (never inside a record)
                //# C03.skip_at_record_boundary
                cur == self.rem() && boundary(s0, k, cur),
            decreases self.rem().len(),
//@@ loop 1
                    invariant
                        s0 == old(self).rem(),
                        //# C03.skip_block_at_record_boundary
                        cur == self.rem() && boundary(s0, k, cur),
                        cur.len() < h,
                    decreases self.rem().len(),
//@@ end
//@@ endimpl

// ---- A-enc: UTF-16LE decoding (encoding_rs) and Cow<str>
// TRUSTED: A-enc -- `dec16` stands for encoding_rs' UTF-16LE decoder proper (`decode_without_bom_handling`: malformed sequences
// replaced by U+FFFD); nothing is assumed about it beyond being a function of the bytes.
pub uninterp spec fn dec16(s: Seq<u8>) -> Seq<char>;
// TRUSTED: A-enc -- encoding_rs documents `Encoding::decode` as decoding "with BOM sniffing": if the input starts with the BOM of
// UTF-8 (EF BB BF), UTF-16LE (FF FE) or UTF-16BE (FE FF) the BOM is removed and the rest is decoded in the BOM's encoding,
// whatever `self` is. `dec_sniffed` stands for that result (uninterpreted).
pub uninterp spec fn dec_sniffed(s: Seq<u8>) -> Seq<char>;
pub open spec fn has_bom(s: Seq<u8>) -> bool {
    (s.len() >= 2 && s[0] == 0xFF && s[1] == 0xFE) || (s.len() >= 2 && s[0] == 0xFE && s[1] == 0xFF)
    || (s.len() >= 3 && s[0] == 0xEF && s[1] == 0xBB && s[2] == 0xBF)
}
/// the text of a Cow<str>
pub uninterp spec fn cow_chars(c: Cow<'_, str>) -> Seq<char>;
// TRUSTED: A-std -- Cow::into_owned returns the owned form of the same text
pub uninterp spec fn cow_owned<B: std::borrow::ToOwned + ?Sized>(c: Cow<'_, B>) -> <B as std::borrow::ToOwned>::Owned;
pub assume_specification<'a, B> [std::borrow::Cow::<'_, B>::into_owned] (c: std::borrow::Cow<'a, B>) -> (r: <B as std::borrow::ToOwned>::Owned)
    where B: std::marker::MetaSized + std::borrow::ToOwned + ?Sized,
    ensures r == cow_owned(c);
// TRUSTED: A-std -- for B = str the owned form is the String with the same characters
#[verifier::external_body]
pub proof fn axiom_cow_owned_str_all()
    ensures forall|c: Cow<'_, str>| (#[trigger] cow_owned::<str>(c))@ == cow_chars(c),
{}
pub struct Encoding;
pub struct Utf16LeStandIn;
pub const UTF_16LE: Utf16LeStandIn = Utf16LeStandIn;
impl Utf16LeStandIn {
    // TRUSTED: A-enc (not called by the code under contract any more; kept so that a return to the sniffing `decode` is decided -- it
    // breaks C03,C19.wide_str_text -- instead of rejected)
    #[verifier::external_body]
    pub fn decode<'a>(&self, bytes: &'a [u8]) -> (r: (Cow<'a, str>, Encoding, bool))
        ensures cow_chars(r.0) == (if has_bom(bytes@) { dec_sniffed(bytes@) } else { dec16(bytes@) }),
    { unimplemented!() }
    // TRUSTED: A-enc -- encoding_rs: "Decode complete input to Cow<'a, str> without BOM handling" (what wide_str calls)
    #[verifier::external_body]
    pub fn decode_without_bom_handling<'a>(&self, bytes: &'a [u8]) -> (r: (Cow<'a, str>, bool))
        ensures cow_chars(r.0) == dec16(bytes@),
    { unimplemented!() }
    // TRUSTED: A-enc (not called by the code under contract; kept so that a switch to the BOM-removing variant is decided -- it breaks
    // C03,C19.wide_str_text for a text that starts with U+FEFF -- instead of rejected): encoding_rs "with BOM removal": a leading BOM of
    // this very encoding is dropped, nothing else is sniffed
    #[verifier::external_body]
    pub fn decode_with_bom_removal<'a>(&self, bytes: &'a [u8]) -> (r: (Cow<'a, str>, bool))
        ensures !has_bom(bytes@) ==> cow_chars(r.0) == dec16(bytes@),
    { unimplemented!() }
}

//@@ include common/bytes.rs

//@@ fn src/xlsb/mod.rs wide_str props=C03,C19,C16,C10 entry ret=r
//@@ sig
    ensures
        // Err(WideStr) exactly when the buffer cannot hold the 4-byte character count cch followed by 2*cch bytes
        //# C03,C19.wide_str_err_iff
        r is Err <==> (buf@.len() < 4 || buf@.len() < 4 + 2 * le32(buf@)),
        //# C03,C19.wide_str_err_shape
        r is Err ==> r->Err_0 is WideStr && r->Err_0->buf_len == buf@.len() && *final(str_len) == *old(str_len)
            && r->Err_0->ws_len == (if buf@.len() < 4 { 4 } else { 4 + 2 * le32(buf@) }),
        //# C03,C19,C16,C10.wide_str_len
        r is Ok ==> *final(str_len) == 4 + 2 * le32(buf@),
        // [MS-XLSB] 2.5.168 XLWideString: rgchData is an array of cch UTF-16LE code units -- all of them are text, also when the first
        // characters happen to look like a byte order mark (U+FEFF, U+FFFE, or U+BBEF followed by U+xxBF)
        //# C03,C19,C16,C10.wide_str_text
        r is Ok ==> cow_chars(r->Ok_0) == dec16(buf@.subrange(4, 4 + 2 * le32(buf@))),
//@@ end

// ---- BrtWsDim ([MS-XLSB] 2.4.820): rwFirst u32 @0, rwLast u32 @4, colFirst u32 @8, colLast u32 @12
//@@ item src/lib.rs struct Dimensions keep_attrs
/// the worksheet dimensions a BrtWsDim payload stores
pub open spec fn dims_ok(p: Seq<u8>, d: Dimensions) -> bool {
    d.start.0 as int == le32(p.subrange(0, 4)) && d.start.1 as int == le32(p.subrange(8, 12))
    && d.end.0 as int == le32(p.subrange(4, 8)) && d.end.1 as int == le32(p.subrange(12, 16))
}
// (not an entry point: its only caller, XlsbCellsReader::new, passes `&buf[..16]` after checking the record length -- an obligation of `new`)
proof fn witness_cell_format() { let b = Seq::<u8>::new(7, |i: int| 0u8); assert(b.len() >= 7); }
//@@ fn src/xlsb/cells_reader.rs parse_dimensions props=C03,C06 ret=r
//@@ sig
    requires
        buf@.len() >= 16,
    ensures
        //# C03.dim_fields
        dims_ok(buf@, r),
//@@ end
proof fn witness_parse_dimensions() { let b = Seq::<u8>::new(16, |i: int| 0u8); assert(b.len() >= 16); }

// ---- Cell ([MS-XLSB] 2.5.9): column u32 @0, iStyleRef 24 bits @4, flags @7
//@@ item src/formats.rs enum CellFormat keep_attrs
// TRUSTED: A-bytes -- u32::from_le_bytes: little-endian value of the 4 bytes (std documentation). The std signature
// `[u8; size_of::<Self>()]` contains an anonymous constant that `assume_specification` cannot name, so the call is routed through
// this wrapper by a declared rewrite; the wrapper's contract is discharged by the Kani harness xlsb::u32_from_le_bytes_spec.
#[verifier::external_body]
fn verif_u32_from_le_bytes(b: [u8; 4]) -> (r: u32)
    ensures r as int == b[0] as int + 256 * (b[1] as int) + 65536 * (b[2] as int) + 16777216 * (b[3] as int),
{ u32::from_le_bytes(b) }
pub open spec fn style_ref(buf: Seq<u8>) -> int { buf[4] as int + 256 * (buf[5] as int) + 65536 * (buf[6] as int) }
pub open spec fn cell_format_spec(formats: Seq<CellFormat>, buf: Seq<u8>) -> Option<CellFormat> {
    if style_ref(buf) < formats.len() { Some(formats[style_ref(buf)]) } else { None }
}
// (not an entry point: every call site in next_cell comes after `&self.buf[8..12]` / `[8..16]` succeeded, so the 7 bytes are there;
//  a new call site with an unchecked buffer would have to discharge this precondition)
//@@ fn src/xlsb/mod.rs cell_format props=C03,C10,C06 ret=r
//@@ sig
    requires
        buf@.len() >= 7,
    ensures
        //# C03,C10.cell_format_lookup
        (match r { Some(f) => Some(*f), None => None }) == cell_format_spec(formats@, buf@),
//@@ replace? /u32::from_le_bytes/ std signature not nameable in assume_specification; wrapper with the documented contract
verif_u32_from_le_bytes
//@@ end

// ---- cell values
//@@ item src/lib.rs enum CellErrorType keep_attrs
//@@ item src/datatype.rs enum ExcelDateTimeType keep_attrs
//@@ item src/datatype.rs struct ExcelDateTime keep_attrs
//@@ item src/datatype.rs enum DataRef keep_attrs
//@@ item src/lib.rs trait "trait CellType"
impl<'a> CellType for DataRef<'a> {}
//@@ item src/lib.rs struct Cell

// the fields of ExcelDateTime / Cell are private: observe them through spec functions
pub closed spec fn edt_mk(value: f64, datetime_type: ExcelDateTimeType, is_1904: bool) -> ExcelDateTime {
    ExcelDateTime { value, datetime_type, is_1904 }
}
//@@ impl src/datatype.rs ExcelDateTime
//@@ fn src/datatype.rs ExcelDateTime::new props=C10,C16,C11 ret=r
//@@ sig
    ensures
        //# C10,C16,C11.edt_new_fields
        r == edt_mk(value, datetime_type, is_1904),
//@@ end
//@@ endimpl

/// C10: a stored double is reported as DateTime exactly when its format is a date/time format (date system flag copied)
pub open spec fn wrap_f64(value: f64, format: Option<CellFormat>, is_1904: bool) -> DataRef<'static> {
    match format {
        Some(CellFormat::DateTime) => DataRef::DateTime(edt_mk(value, ExcelDateTimeType::DateTime, is_1904)),
        Some(CellFormat::TimeDelta) => DataRef::DateTime(edt_mk(value, ExcelDateTimeType::TimeDelta, is_1904)),
        _ => DataRef::Float(value),
    }
}
pub open spec fn opt_fmt(format: Option<&CellFormat>) -> Option<CellFormat> { match format { Some(f) => Some(*f), None => None } }
//@@ fn src/formats.rs format_excel_f64_ref props=C10,C03,C16,C11 ret=r
//@@ sig
    ensures
        //# C10,C03,C16,C11.f64_wrap
        r == wrap_f64(value, opt_fmt(format), is_1904),
//@@ end

impl<T: CellType> Cell<T> {
    pub closed spec fn p(&self) -> (u32, u32) { self.pos }
    pub closed spec fn v(&self) -> T { self.val }
}
//@@ impl src/lib.rs Cell
//@@ fn src/lib.rs Cell::new props=C03 ret=r
//@@ sig
    ensures
        //# C03.cell_new
        r.p() == position && r.v() == value,
//@@ end
//@@ endimpl

// (rule r4) the text of an error message: an arbitrary String
#[verifier::external_body] fn verif_opaque_string() -> String { String::new() }
//@@ item src/xlsb/cells_reader.rs struct XlsbCellsReader

impl<'a> XlsbCellsReader<'a> {
    pub closed spec fn rem(&self) -> Seq<u8> { self.iter.rem() }
    pub closed spec fn cur_row(&self) -> u32 { self.row }
    pub closed spec fn fmts(&self) -> Seq<CellFormat> { self.formats@ }
    pub closed spec fn strs(&self) -> Seq<String> { self.strings@ }
    pub closed spec fn f1904(&self) -> bool { self.is_1904 }
    pub closed spec fn dims(&self) -> Dimensions { self.dimensions }
}

// TRUSTED: A-float -- IEEE-754 f64 division is a total, deterministic function (`/` on f64 never panics); vstd leaves
// `div_req`/`obeys_div_spec` of f64 unspecified, which would make every float division an unprovable precondition.
#[verifier::external_body]
pub proof fn axiom_f64_div()
    ensures <f64 as vstd::std_specs::ops::DivSpec<f64>>::obeys_div_spec(), forall|a: f64, b: f64| #[trigger] vstd::std_specs::ops::DivSpec::div_req(a, b),
{}
pub open spec fn fdiv(a: f64, b: f64) -> f64 { vstd::std_specs::ops::DivSpec::div_spec(a, b) }

/// [MS-XLSB] 2.5.97.2 BErr / [MS-XLS] 2.5.10: the eight error codes
pub open spec fn berr(e: u8) -> Option<CellErrorType> {
    if e == 0x00 { Some(CellErrorType::Null) }
    else if e == 0x07 { Some(CellErrorType::Div0) }
    else if e == 0x0F { Some(CellErrorType::Value) }
    else if e == 0x17 { Some(CellErrorType::Ref) }
    else if e == 0x1D { Some(CellErrorType::Name) }
    else if e == 0x24 { Some(CellErrorType::Num) }
    else if e == 0x2A { Some(CellErrorType::NA) }
    else if e == 0x2B { Some(CellErrorType::GettingData) }
    else { None }
}

// ---- [MS-XLSB] 2.5.122 RkNumber (= BIFF8 [MS-XLS] 2.5.217): bit 0 fX100, bit 1 fInt, bits 2..31 num;
// fInt: num is a signed 30-bit integer; otherwise num is the 30 most significant bits of an IEEE double whose other 34 bits are 0
pub open spec fn rk_x100(raw: int) -> bool { raw % 2 == 1 }
pub open spec fn rk_is_int(raw: int) -> bool { (raw / 2) % 2 == 1 }
pub open spec fn rk_num30(raw: int) -> int { raw / 4 }
pub open spec fn rk_int(raw: int) -> int { signed(rk_num30(raw), 30) }   // two's complement 30-bit: negative values stay negative
pub open spec fn rk_float_bits(raw: int) -> int { rk_num30(raw) * 0x4_0000_0000 }

pub open spec fn signed32(v: int) -> int { if v >= 0x8000_0000 { v - 0x1_0000_0000 } else { v } }
proof fn lemma_shr2(x: i32)
    ensures (x >> 2) as int == (x as int) / 4,
{
    assert(x >> 2 == x / 4) by (bit_vector);
}
/// the flag tests and the masking `buf[8] &= 0xFC` of the RK arm, in terms of the RkNumber fields
proof fn lemma_rk(p: Seq<u8>, q: Seq<u8>)
    requires p.len() >= 12, q == p.update(8, p[8] & 0xFC),
    ensures
        ((p[8] & 1) != 0) == rk_x100(le32(p.subrange(8, 12))),
        ((p[8] & 2) != 0) == rk_is_int(le32(p.subrange(8, 12))),
        le32(q.subrange(8, 12)) == 4 * rk_num30(le32(p.subrange(8, 12))),
        signed32(le32(q.subrange(8, 12))) / 4 == rk_int(le32(p.subrange(8, 12))),
        -0x2000_0000 <= rk_int(le32(p.subrange(8, 12))) < 0x2000_0000,
{
    let b = p[8];
    vstd::arithmetic::power2::lemma2_to64();
    assert(((b & 1) != 0) == (b % 2 == 1)) by (bit_vector);
    assert(((b & 2) != 0) == ((b / 2) % 2 == 1)) by (bit_vector);
    assert((b & 0xFC) == b - b % 4) by (bit_vector);
    let raw = le32(p.subrange(8, 12));
    let k = p[9] as int + 256 * (p[10] as int) + 65536 * (p[11] as int);
    assert(p.subrange(8, 12)[0] == p[8] && p.subrange(8, 12)[1] == p[9] && p.subrange(8, 12)[2] == p[10] && p.subrange(8, 12)[3] == p[11]);
    assert(q.subrange(8, 12)[0] == (b & 0xFC) && q.subrange(8, 12)[1] == p[9] && q.subrange(8, 12)[2] == p[10] && q.subrange(8, 12)[3] == p[11]);
    assert(raw == b as int + 256 * k);
    assert(le32(q.subrange(8, 12)) == (b - b % 4) as int + 256 * k);
    assert(raw / 2 == (b as int) / 2 + 128 * k);
    assert(raw / 4 == (b as int) / 4 + 64 * k);
}

/// the cell record kinds of the property: BrtCellRk 2, BrtCellError 3, BrtCellBool 4, BrtCellReal 5, BrtCellSt 6, BrtCellIsst 7,
/// BrtFmlaString 8, BrtFmlaNum 9, BrtFmlaBool 0xA, BrtFmlaError 0xB   (BrtCellBlank 1 is an empty cell: not reported)
pub open spec fn is_cell_kind(typ: int) -> bool { 2 <= typ <= 0x0B }
pub const ROW_MAX: u32 = 1048575;

pub enum Scan {
    /// the next cell record: under row `row`, kind `typ`, payload, stream after the record
    Cell { row: u32, typ: int, payload: Seq<u8>, rest: Seq<u8> },
    /// BrtEndSheetData met first
    End,
    /// the stream ends (or a record is truncated) first
    Truncated,
    /// a BrtRowHdr shorter than 4 bytes comes first: the reader must reject
    Short,
    /// a BrtRowHdr with a row outside 0..=1048575: outside the property's domain
    Malformed,
}
/// what the next cell of the record stream s is, `row` being the row of the last BrtRowHdr: written from the property text
/// (cell kinds report a value, BrtRowHdr 0x0000 sets the row, BrtEndSheetData 0x0092 ends, any other kind is passed over whole)
#[verifier::opaque]
pub open spec fn scan(s: Seq<u8>, row: u32) -> Scan decreases s.len() {
    if !rec_ok(s) || rec_rest(s).len() >= s.len() { Scan::Truncated }   // (second disjunct never true: lemma_rec_total)
    else if is_cell_kind(rec_typ(s)) { Scan::Cell { row, typ: rec_typ(s), payload: rec_payload(s), rest: rec_rest(s) } }
    else if rec_typ(s) == 0x0000 {
        if rec_payload(s).len() < 4 { Scan::Short } else if le32(rec_payload(s)) > ROW_MAX { Scan::Malformed }
        else { scan(rec_rest(s), le32(rec_payload(s)) as u32) }
    }
    else if rec_typ(s) == 0x0092 { Scan::End }
    else { scan(rec_rest(s), row) }
}

/// one unfolding of `scan` (kept opaque elsewhere so that the solver does not unfold it on every stream term)
proof fn lemma_scan_step(s: Seq<u8>, row: u32)
    ensures scan(s, row) == (
        if !rec_ok(s) || rec_rest(s).len() >= s.len() { Scan::Truncated }
        else if is_cell_kind(rec_typ(s)) { Scan::Cell { row, typ: rec_typ(s), payload: rec_payload(s), rest: rec_rest(s) } }
        else if rec_typ(s) == 0x0000 {
            if rec_payload(s).len() < 4 { Scan::Short } else if le32(rec_payload(s)) > ROW_MAX { Scan::Malformed }
            else { scan(rec_rest(s), le32(rec_payload(s)) as u32) }
        }
        else if rec_typ(s) == 0x0092 { Scan::End }
        else { scan(rec_rest(s), row) }),
{
    reveal(scan);
}

/// the payload is long enough for its kind ([MS-XLSB] 2.4.x: Cell structure 8 bytes, then the value), shared string index in range
pub open spec fn cell_wf(typ: int, p: Seq<u8>, nstr: int) -> bool {
    if typ == 2 { p.len() >= 12 }
    else if typ == 3 || typ == 0xB || typ == 4 || typ == 0xA { p.len() >= 9 }
    else if typ == 5 || typ == 9 { p.len() >= 16 }
    else if typ == 6 || typ == 8 { p.len() >= 8 }   // (a missing or short XLWideString is rejected by wide_str)
    else if typ == 7 { p.len() >= 12 && le32(p.subrange(8, 12)) < nstr }
    else { false }
}
/// the payload is long enough for its kind
pub open spec fn cell_len_ok(typ: int, p: Seq<u8>) -> bool {
    if typ == 2 || typ == 7 { p.len() >= 12 }
    else if typ == 3 || typ == 0xB || typ == 4 || typ == 0xA { p.len() >= 9 }
    else if typ == 5 || typ == 9 { p.len() >= 16 }
    else if typ == 6 || typ == 8 { p.len() >= 8 }
    else { false }
}
/// what every arm of next_cell needs before indexing: a cell record is long enough for its kind, a BrtRowHdr has its 4-byte row number
pub open spec fn record_long_enough(typ: int, p: Seq<u8>) -> bool {
    (is_cell_kind(typ) ==> cell_len_ok(typ, p)) && (typ == 0x0000 ==> p.len() >= 4)
}
/// the record carries a value the reader must reject with an error: unknown BErr code, or a string longer than its record
pub open spec fn cell_rejected(typ: int, p: Seq<u8>) -> bool {
    ((typ == 3 || typ == 0xB) && berr(p[8]) is None)
    || ((typ == 6 || typ == 8) && (p.len() < 12 || p.len() < 12 + 2 * le32(p.subrange(8, 12))))
}
// ---- per kind: v is the value stored in the cell record with payload p
pub open spec fn val_error(p: Seq<u8>, v: DataRef) -> bool { berr(p[8]) is Some && v == DataRef::Error(berr(p[8])->Some_0) }
pub open spec fn val_bool(p: Seq<u8>, v: DataRef) -> bool { v == DataRef::Bool(p[8] != 0) }
pub open spec fn val_real(p: Seq<u8>, fmts: Seq<CellFormat>, is_1904: bool, v: DataRef) -> bool {
    v == wrap_f64(f64_of_bits(le64(p.subrange(8, 16))), cell_format_spec(fmts, p), is_1904)
}
pub open spec fn val_string(p: Seq<u8>, v: DataRef) -> bool {
    v is String && v->String_0@ == dec16(p.subrange(12, 12 + 2 * le32(p.subrange(8, 12))))
}
pub open spec fn val_shared_string(p: Seq<u8>, strs: Seq<String>, v: DataRef) -> bool {
    v is SharedString && v->SharedString_0@ == strs[le32(p.subrange(8, 12))]@
}
pub open spec fn val_rk(p: Seq<u8>, fmts: Seq<CellFormat>, is_1904: bool, v: DataRef) -> bool {
    let fmt = cell_format_spec(fmts, p);
    let raw = le32(p.subrange(8, 12));
    if rk_is_int(raw) {
        if rk_x100(raw) { exists|x: f64| v == wrap_f64(x, fmt, is_1904) }   // num/100: the int->float conversion is uninterpreted in Verus
        // a whole number with a date/time format is a date (a duration) in whole days, like xls' format_excel_i64; otherwise an Int
        else if is_date_fmt(fmt) { exists|x: f64| v == wrap_f64(x, fmt, is_1904) }
        else { v == DataRef::Int(rk_int(raw) as i64) }
    } else {
        if rk_x100(raw) { v == wrap_f64(fdiv(f64_of_bits(rk_float_bits(raw)), 100.0f64), fmt, is_1904) }
        else { v == wrap_f64(f64_of_bits(rk_float_bits(raw)), fmt, is_1904) }
    }
}
/// v is the value stored in the cell record (typ, p); a formula kind stores its cached value like the constant kind
pub open spec fn cell_val_ok(typ: int, p: Seq<u8>, fmts: Seq<CellFormat>, strs: Seq<String>, is_1904: bool, v: DataRef) -> bool {
    if typ == 3 || typ == 0xB { val_error(p, v) }
    else if typ == 4 || typ == 0xA { val_bool(p, v) }
    else if typ == 5 || typ == 9 { val_real(p, fmts, is_1904, v) }
    else if typ == 6 || typ == 8 { val_string(p, v) }
    else if typ == 7 { val_shared_string(p, strs, v) }
    else if typ == 2 { val_rk(p, fmts, is_1904, v) }
    else { false }
}
/// a well-formed cell record (all ten kinds, BrtFmlaError included)
pub open spec fn good_cell(sc: Scan, nstr: int) -> bool { sc is Cell && cell_wf(sc->typ, sc->payload, nstr) }
pub open spec fn is_date_fmt(f: Option<CellFormat>) -> bool { f == Some(CellFormat::DateTime) || f == Some(CellFormat::TimeDelta) }

//@@ impl src/xlsb/cells_reader.rs XlsbCellsReader
//@@ fn src/xlsb/cells_reader.rs XlsbCellsReader::new props=C03,C10,C16 entry ret=r
//@@ sig
    ensures
        //# C03.new_row0
        r is Ok ==> r->Ok_0.cur_row() == 0,
        //# C03,C10,C16.new_frame
        r is Ok ==> r->Ok_0.fmts() == formats@ && r->Ok_0.strs() == strings@ && r->Ok_0.f1904() == is_1904,
        // the dimensions are those of a whole BrtWsDim (0x0094) record of the stream, which has its 16 bytes (a shorter one is rejected)
        //# C03.new_dimensions
        r is Ok ==> exists|k: nat, t: Seq<u8>| #[trigger] boundary(iter.rem(), k, t) && rec_ok(t) && rec_typ(t) == 0x0094
            && rec_len(t) >= 16 && dims_ok(rec_payload(t), r->Ok_0.dims()),
//@@ end
//@@ fn src/xlsb/cells_reader.rs XlsbCellsReader::next_cell props=C03,C10,C16,C19,C11 entry ret=r r4
//@@ sig
    ensures
        //# C03,C10,C16.reader_frame
        final(self).fmts() == old(self).fmts() && final(self).strs() == old(self).strs() && final(self).f1904() == old(self).f1904(),
        //# C03.cell_some
        ({ let sc = scan(old(self).rem(), old(self).cur_row()); good_cell(sc, old(self).strs().len() as int) && !cell_rejected(sc->typ, sc->payload)
            ==> r is Ok && r->Ok_0 is Some }),
        //# C03.cell_pos
        ({ let sc = scan(old(self).rem(), old(self).cur_row()); good_cell(sc, old(self).strs().len() as int) && !cell_rejected(sc->typ, sc->payload)
            ==> r is Ok && r->Ok_0 is Some && r->Ok_0->Some_0.p() == (sc->row, le32(sc->payload) as u32) }),
        //# C03,C10,C16,C19,C11.cell_value
        ({ let sc = scan(old(self).rem(), old(self).cur_row()); good_cell(sc, old(self).strs().len() as int) && !cell_rejected(sc->typ, sc->payload)
            ==> r is Ok && r->Ok_0 is Some && cell_val_ok(sc->typ, sc->payload, old(self).fmts(), old(self).strs(), old(self).f1904(), r->Ok_0->Some_0.v()) }),
        //# C03.cell_frame
        ({ let sc = scan(old(self).rem(), old(self).cur_row()); good_cell(sc, old(self).strs().len() as int) && !cell_rejected(sc->typ, sc->payload)
            ==> final(self).rem() == sc->rest && final(self).cur_row() == sc->row }),
        //# C03.cell_rejected_err
        ({ let sc = scan(old(self).rem(), old(self).cur_row()); good_cell(sc, old(self).strs().len() as int) && cell_rejected(sc->typ, sc->payload)
            ==> r is Err }),
        // a cell record too short for its kind, or a shared string index beyond the table, is an error (never a panic)
        //# C06.malformed_cell_err
        ({ let sc = scan(old(self).rem(), old(self).cur_row()); sc is Cell && !cell_wf(sc->typ, sc->payload, old(self).strs().len() as int) ==> r is Err }),
        // ... and so is a BrtRowHdr without its 4-byte row number
        //# C06.short_row_header_err
        scan(old(self).rem(), old(self).cur_row()) is Short ==> r is Err,
        //# C03.end_none
        scan(old(self).rem(), old(self).cur_row()) is End ==> r is Ok && r->Ok_0 is None,
        //# C03.truncated_err
        scan(old(self).rem(), old(self).cur_row()) is Truncated ==> r is Err,
        // C10 "DateTime iff the style is a date/time format": floating-point kinds (BrtCellReal, BrtFmlaNum, RK stored as double)
        //# C10.real_datetime_iff_date_format
        ({ let sc = scan(old(self).rem(), old(self).cur_row());
            good_cell(sc, old(self).strs().len() as int) && (sc->typ == 5 || sc->typ == 9 || (sc->typ == 2 && !rk_is_int(le32(sc->payload.subrange(8, 12)))))
            ==> r is Ok && r->Ok_0 is Some && (r->Ok_0->Some_0.v() is DateTime <==> is_date_fmt(cell_format_spec(old(self).fmts(), sc->payload))) }),
        // ... and RK numbers stored as integer (with or without the x100 flag; xls wraps these through format_excel_i64)
        //# C10.rk_int_datetime_iff_date_format
        ({ let sc = scan(old(self).rem(), old(self).cur_row());
            good_cell(sc, old(self).strs().len() as int) && sc->typ == 2 && rk_is_int(le32(sc->payload.subrange(8, 12)))
            ==> r is Ok && r->Ok_0 is Some && (r->Ok_0->Some_0.v() is DateTime <==> is_date_fmt(cell_format_spec(old(self).fmts(), sc->payload))) }),
//@@ replace /let value = loop/ Verus has no break-with-value: `let x = loop { .. break v; };` desugared into `let out; loop { .. { out = v; break; } }; let x = out;`
let verif_out; loop
//@@ replace /break value;/ (second half of the break-with-value desugaring)
{ verif_out = value; break; }
//@@ before /let col = /
        let value = verif_out;
//@@ before /break value;/
            proof {
                let nstr = self.strings@.len() as int;
                let t = self.typ as int;
                // the record the loop stopped at is the one `scan` designates
                //# C03.cell_record_identified
                assert(scan(s0, row0) is Malformed
                    || scan(s0, row0) == (Scan::Cell { row: self.row, typ: t, payload: p, rest: self.iter.rem() }));
                // the length guard and the shared string lookup have established the well-formedness of the record
                //# C06.cell_wf_checked
                assert(is_cell_kind(t) && cell_wf(t, p, nstr));
                if is_cell_kind(t) && cell_wf(t, p, nstr) {
                    //# C03.col_bytes_untouched
                    assert(self.buf@.len() >= 4 && self.buf@[0] == p[0] && self.buf@[1] == p[1] && self.buf@[2] == p[2] && self.buf@[3] == p[3]);
                    //# C03.value_not_rejected
                    assert(!cell_rejected(t, p));
                    if t == 3 || t == 0xB {
                        //# C03.value_error
                        assert(val_error(p, value));
                    } else if t == 4 || t == 0xA {
                        //# C03.value_bool
                        assert(val_bool(p, value));
                    } else if t == 5 || t == 9 {
                        //# C03,C10,C16,C11.value_real
                        assert(val_real(p, self.formats@, self.is_1904, value));
                    } else if t == 6 || t == 8 {
                        axiom_cow_owned_str_all();
                        assert(p.subrange(8, p.len() as int).subrange(4, 4 + 2 * le32(p.subrange(8, 12))) =~= p.subrange(12, 12 + 2 * le32(p.subrange(8, 12))));
                        assert(p.subrange(8, p.len() as int)[0] == p[8] && p.subrange(8, p.len() as int)[1] == p[9] && p.subrange(8, p.len() as int)[2] == p[10] && p.subrange(8, p.len() as int)[3] == p[11]);
                        //# C03,C19.value_string
                        assert(val_string(p, value));
                    } else if t == 7 {
                        //# C03,C19.value_shared_string
                        assert(val_shared_string(p, self.strings@, value));
                    } else if t == 2 {
                        //# C03,C10,C16,C11.value_rk
                        assert(val_rk(p, self.formats@, self.is_1904, value));
                    }
                }
            }
//@@ body
        let ghost s0 = self.iter.rem();
        let ghost row0 = self.row;
        proof { axiom_f64_div(); }
//@@ loop 0
            invariant_except_break
                scan(s0, row0) is Malformed || scan(s0, row0) == scan(self.iter.rem(), self.row),
            invariant
                s0 == old(self).iter.rem(), row0 == old(self).row,
                self.formats@ == old(self).formats@, self.strings@ == old(self).strings@, self.is_1904 == old(self).is_1904,
            ensures
                self.formats@ == old(self).formats@, self.strings@ == old(self).strings@, self.is_1904 == old(self).is_1904,
                ({ let sc = scan(s0, row0); good_cell(sc, self.strings@.len() as int) ==>
                    !cell_rejected(sc->typ, sc->payload) && self.iter.rem() == sc->rest && self.row == sc->row && self.buf@.len() >= 4
                    && self.buf@[0] == sc->payload[0] && self.buf@[1] == sc->payload[1] && self.buf@[2] == sc->payload[2] && self.buf@[3] == sc->payload[3]
                    && cell_val_ok(sc->typ, sc->payload, self.formats@, self.strings@, self.is_1904, verif_out) }),
                scan(s0, row0) is Cell || scan(s0, row0) is Malformed,
                scan(s0, row0) is Cell ==> cell_wf(scan(s0, row0)->typ, scan(s0, row0)->payload, self.strings@.len() as int),
                self.buf@.len() >= 8,
            decreases self.iter.rem().len(),
//@@ before /if is_int/
                    proof { if p.len() >= 12 { lemma_rk(p, self.buf@); } }
//@@ after /if is_int \{\s*let v = [^;]*;/
                        proof {
                            if p.len() >= 12 {
                                lemma_shr2(signed32(le32(self.buf@.subrange(8, 12))) as i32);
                                //# C03.rk_int_part
                                assert(v as int == rk_int(le32(p.subrange(8, 12))));
                            }
                        }
//@@ before /let v = read_f64\(&v/
                        proof {
                            if p.len() >= 12 {
                                let q = self.buf@.subrange(8, 12);
                                assert(v@.subrange(4, 8) =~= q);
                                assert(le32(v@) == 0);
                                assert(le64(v@) == 0x1_0000_0000 * le32(q));
                            }
                        }
//@@ after /let v = read_f64\(&v[^;]*;/
                        proof {
                            if p.len() >= 12 {
                                //# C03.rk_float_part
                                assert(v == f64_of_bits(rk_float_bits(le32(p.subrange(8, 12)))));
                            }
                        }
//@@ after /let v = if d100 [^;]*;/
                        proof {
                            if p.len() >= 12 {
                                let fb = f64_of_bits(rk_float_bits(le32(p.subrange(8, 12))));
                                //# C03.rk_float_x100
                                assert(v == (if d100 { fdiv(fb, 100.0f64) } else { fb }));
                            }
                        }
//@@ after /let value = loop \{/
            let ghost cur = self.iter.rem();
            let ghost row_h = self.row;
            proof { lemma_scan_step(cur, row_h); axiom_f64_div(); }
//@@ after /self\.iter\.fill_buffer\(&mut self\.buf\)\?;/
            proof {
                lemma_rec_read(cur);
                assert(self.buf@ =~= rec_payload(cur));
                assert(self.typ as int == rec_typ(cur));
                assert(self.iter.rem() == rec_rest(cur));
            }
            let ghost p = self.buf@;
            // C06: the record length is checked once, here, against the shortest payload of its kind (`cell_len_ok`); every index / slice /
            // callee precondition of the arms below must follow from that guard (and the shared string index from the `get` of its arm)
//@@ before /let value = match /
            //# C06.record_long_enough_for_its_kind
            assert(record_long_enough(self.typ as int, p));
//@@ end
//@@ endimpl

} // verus!
fn main() {}
