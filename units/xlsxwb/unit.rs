//@@ unit props=C16,C17,C07,C01,C06,C14,C10,C11
// Unit xlsxwb: workbook-level plumbing of the xlsx reader (src/xlsx/mod.rs), verbatim text, under contract against a GHOST MODEL of
// quick-xml and zip (assumptions A-xml / A-zip of DESIGN.md section 5).
//
// Functions under contract (real text, extracted by byte span):
//   Xlsx::worksheet_cells_reader   C07 exact-name lookup (first sheet with exactly this name), unknown name / missing part => WorksheetNotFound,
//                                  frame (all loaded state + header-row option), reader built from (part of that sheet, strings, formats,
//                                  is_1904) only; C16 the date-system flag is what the reader gets
//   Xlsx::get_table_meta, table_by_name, table_by_name_ref
//                                  C17 entry with exactly this table name (first), name / sheet / columns copied, data == window of the
//                                  sheet's range over the stored dimensions (Range::range: assumed contract of unit range); unknown table =>
//                                  TableNotFound; C07 frame on Ok AND Err paths incl. the header-row option
//   Xlsx::read_workbook            C16 sheets / sheet metadata / defined names / date1904 == the schema-directed reading `wb_scan` of the event
//                                  sequence (ECMA-376 18.2.27), for encodings that keep ONE binding (a prefix or the default namespace) of the main
//                                  namespace through the part (the code compares prefixes with the root element's: no namespace resolution)
//   Reader::worksheet_formula      C14 result == from_sparse(cells with non-empty formula text), C07 frame, C06 reserve cap
//   Xlsx::read_table_metadata      C06 no panic (entry), C07 frame, C17 the header / totals arithmetic (one spliced assertion); the XML
//                                  plumbing (which parts, attribute values) is NOT specified
//   InnerTableMetadata::new, Range::is_empty, Range::empty (small)
// TRUSTED (all marked below): the quick-xml / zip stand-ins (section A-xml / A-zip), XlsxCellReader (callee; other units), Range::range /
// from_sparse / new / width and Dimensions::len (external_body; proved or Kani-checked in units range / lazyrange), worksheet_range(_ref)
// (callee contract incl. frame), get_dimension (callee), std specifications (section A-std), byte-literal contents (axiom_bytelits).
// Declared rewrites (logged): byte-string literal patterns -> binding + guard (Verus crashes on them), `map_err(Variant)` eta-expanded,
// `format!("xl/{}", r)` and `path.split('/').nth(1)` -> assumed helpers with the same arguments, `&(n, _)` closure pattern -> `(n, _)`,
// two `for` loops containing `continue` desugared (R6), format! -> opaque string in read_table_metadata (R4).
// Genuine findings: findings/xlsxwb.json (native demonstrations findings/xlsxwb_*.rs); fixed ones are listed under "fixed" there.
#![feature(pattern)]
#![allow(unused_imports, dead_code, unused_variables, unused_mut, unused_assignments, unexpected_cfgs)]
use vstd::prelude::*;
use vstd::std_specs::cmp::PartialEqSpec;
use vstd::std_specs::iter::{IteratorSpec, IteratorSpecImpl};
use std::borrow::Cow;
use std::ops::Deref;
use std::cmp::{max, min};
use std::io::{Read, Seek};
use std::collections::BTreeMap;
use std::ops::{Index, RangeFrom, RangeFull};
use std::slice::SliceIndex;
use vstd::std_specs::core::IndexSpec;
use vstd::string::to_string_from_display_ensures;
use vstd::std_specs::btree::{maps_borrowed_key_to_value, contains_borrowed_key, borrowed_key_ordering_matches};

verus! {

// ---- stand-ins for foreign error payload types (opaque; never inspected by the verified code)
pub mod quick_xml {
    pub struct Error;
    pub mod events { pub mod attributes { pub struct AttrError; } }
    pub mod encoding { pub struct EncodingError; }
}
pub mod zip { pub mod result { pub struct ZipError; } }
pub mod vba { pub struct VbaError; }
#[verifier::external_type_specification] #[verifier::external_body] pub struct ExIoError(std::io::Error);
#[verifier::external_type_specification] #[verifier::external_body] pub struct ExParseFloatError(std::num::ParseFloatError);
#[verifier::external_type_specification] #[verifier::external_body] pub struct ExParseIntError(std::num::ParseIntError);
#[verifier::external_trait_specification] pub trait ExRead { type ExternalTraitSpecificationFor: std::io::Read; }
#[verifier::external_trait_specification] pub trait ExSeek { type ExternalTraitSpecificationFor: std::io::Seek; }

//@@ item src/xlsx/mod.rs enum XlsxError
//@@ item src/lib.rs enum CellErrorType keep_attrs
//@@ item src/lib.rs struct Dimensions keep_attrs
//@@ item src/lib.rs enum SheetType
//@@ item src/lib.rs enum SheetVisible
//@@ item src/lib.rs struct Sheet
//@@ item src/lib.rs struct Metadata
//@@ item src/lib.rs enum HeaderRow keep_attrs
//@@ item src/datatype.rs enum ExcelDateTimeType keep_attrs
//@@ item src/datatype.rs struct ExcelDateTime keep_attrs
//@@ item src/datatype.rs enum Data keep_attrs
//@@ item src/datatype.rs enum DataRef keep_attrs
//@@ item src/formats.rs enum CellFormat
//@@ item src/lib.rs struct Table
//@@ item src/xlsx/mod.rs type Tables
//@@ item src/xlsx/mod.rs struct Xlsx cfg_off=picture
//@@ item src/xlsx/mod.rs struct XlsxOptions
//@@ item src/xlsx/mod.rs struct TableMetadata
//@@ item src/xlsx/mod.rs struct InnerTableMetadata

// what `from_err!(quick_xml::Error, XlsxError, Xml)` / `from_err!(quick_xml::events::attributes::AttrError, XlsxError, XmlAttribute)`
// (macro of src/utils.rs) expand to
impl From<quick_xml::Error> for XlsxError { fn from(e: quick_xml::Error) -> (r: XlsxError) ensures r == XlsxError::Xml(e) { XlsxError::Xml(e) } }
impl vstd::std_specs::convert::FromSpecImpl<quick_xml::Error> for XlsxError {
    open spec fn obeys_from_spec() -> bool { true }
    open spec fn from_spec(e: quick_xml::Error) -> Self { XlsxError::Xml(e) }
}
impl From<quick_xml::events::attributes::AttrError> for XlsxError { fn from(e: quick_xml::events::attributes::AttrError) -> (r: XlsxError) ensures r == XlsxError::XmlAttribute(e) { XlsxError::XmlAttribute(e) } }
impl vstd::std_specs::convert::FromSpecImpl<quick_xml::events::attributes::AttrError> for XlsxError {
    open spec fn obeys_from_spec() -> bool { true }
    open spec fn from_spec(e: quick_xml::events::attributes::AttrError) -> Self { XlsxError::XmlAttribute(e) }
}

impl From<quick_xml::encoding::EncodingError> for XlsxError { fn from(e: quick_xml::encoding::EncodingError) -> (r: XlsxError) ensures r == XlsxError::Encoding(e) { XlsxError::Encoding(e) } }
impl vstd::std_specs::convert::FromSpecImpl<quick_xml::encoding::EncodingError> for XlsxError {
    open spec fn obeys_from_spec() -> bool { true }
    open spec fn from_spec(e: quick_xml::encoding::EncodingError) -> Self { XlsxError::Encoding(e) }
}
impl From<std::num::ParseIntError> for XlsxError { fn from(e: std::num::ParseIntError) -> (r: XlsxError) ensures r == XlsxError::ParseInt(e) { XlsxError::ParseInt(e) } }
impl vstd::std_specs::convert::FromSpecImpl<std::num::ParseIntError> for XlsxError {
    open spec fn obeys_from_spec() -> bool { true }
    open spec fn from_spec(e: std::num::ParseIntError) -> Self { XlsxError::ParseInt(e) }
}

// =====================================================================================================================
// A-std: assumed specifications of std functions the verified text calls (one line of documented behaviour each)
// =====================================================================================================================
pub mod ax {
    use vstd::prelude::*;
    use vstd::std_specs::cmp::PartialEqSpec;
    // TRUSTED: A-std -- `<String as PartialEq<str>>::eq` compares the character sequences (this is what `&String == &str` resolves to)
    pub broadcast axiom fn axiom_string_eq_obeys(a: &String)
        ensures (#[trigger] a@).len() >= 0, <String as PartialEqSpec<str>>::obeys_eq_spec();
    pub broadcast axiom fn axiom_string_eq_str(a: &String, b: &str)
        ensures #[trigger] <String as PartialEqSpec<str>>::eq_spec(a, b) == (a@ == b@);
}
broadcast use {ax::axiom_string_eq_str, ax::axiom_string_eq_obeys};

// TRUSTED: (A-std) documented behaviour of `slice::Iter::find`: first element (in order) for which the predicate returns true.
// `iter_rem` names the elements the iterator has not yet yielded; it is tied to vstd's own `IteratorSpec::remaining` by `axiom_iter_rem`
// (a separate uninterpreted name is needed because a specification of an `Iterator` impl method may not mention the impl's own spec trait).
pub uninterp spec fn iter_rem<'a, T>(it: &std::slice::Iter<'a, T>) -> Seq<&'a T>;
#[verifier::external_body]
pub broadcast proof fn axiom_iter_rem<'a, T>(it: &std::slice::Iter<'a, T>)
    ensures #[trigger] iter_rem(it) == IteratorSpec::remaining(it) {}
/// f holds of the first n elements (used with f = "the predicate returns false")
pub closed spec fn rejects<'a, T>(rem: Seq<&'a T>, f: spec_fn(&'a T) -> bool, n: int) -> bool {
    forall|j: int| 0 <= j < n && j < rem.len() ==> f(#[trigger] rem[j])
}
/// (proved) `rejects` read on the slice side: re-triggering on `s[i]`
pub broadcast proof fn lemma_rejects<'a, T>(rem: Seq<&'a T>, f: spec_fn(&'a T) -> bool, n: int, s: Seq<T>, i: int)
    requires rejects(rem, f, n), rem.len() == s.len(), forall|j: int| 0 <= j < s.len() ==> *(#[trigger] rem[j]) == s[j], 0 <= i < n, i < s.len(),
    ensures #![trigger rejects(rem, f, n), s[i]] f(&s[i])
{
    assert(*rem[i] == s[i]);
}
pub assume_specification<'a, T, P: FnMut(&<std::slice::Iter<'a, T> as Iterator>::Item) -> bool>[ <std::slice::Iter<'a, T> as Iterator>::find::<P> ](it: &mut std::slice::Iter<'a, T>, pred: P) -> (r: Option<<std::slice::Iter<'a, T> as Iterator>::Item>)
    where std::slice::Iter<'a, T>: Sized
    ensures
        match r {
            Some(x) => exists|i: int| 0 <= i < iter_rem(old(it)).len() && x == #[trigger] iter_rem(old(it))[i] && call_ensures(pred, (&x,), true)
                && rejects(iter_rem(old(it)), |y: &'a T| call_ensures(pred, (&y,), false), i),
            None => rejects(iter_rem(old(it)), |y: &'a T| call_ensures(pred, (&y,), false), iter_rem(old(it)).len() as int),
        };

// `into_rem`: same device for `vec::IntoIter` (used as loop measure where a `for` loop is desugared by rule R6)
pub uninterp spec fn into_rem<T>(it: &std::vec::IntoIter<T>) -> Seq<T>;
#[verifier::external_body]
pub broadcast proof fn axiom_into_rem<T>(it: &std::vec::IntoIter<T>)
    ensures #[trigger] into_rem(it) == IteratorSpec::remaining(it) {}
// TRUSTED: A-std -- `impl<T: Clone> ToOwned for T`: "to_owned" is `clone`
pub assume_specification<T: Clone>[ <T as std::borrow::ToOwned>::to_owned ](x: &T) -> (r: T)
    ensures call_ensures(<T as Clone>::clone, (x,), r);

// TRUSTED: A-std -- `str::eq_ignore_ascii_case`: "Checks that two strings are an ASCII case-insensitive match" (not called by the
// verified text; present so that an edit replacing an exact comparison by it is verified against the contracts, not rejected)
pub open spec fn ascii_lower(c: char) -> char { if 'A' <= c && c <= 'Z' { ((c as u8) + 32u8) as char } else { c } }
pub open spec fn eq_ic(a: Seq<char>, b: Seq<char>) -> bool { a.len() == b.len() && forall|i: int| 0 <= i < a.len() ==> ascii_lower(#[trigger] a[i]) == ascii_lower(b[i]) }
pub assume_specification[ str::eq_ignore_ascii_case ](a: &str, b: &str) -> (r: bool)
    ensures r == eq_ic(a@, b@);
// TRUSTED: A-std -- a `str` is determined by its character sequence (Verus compares string-literal patterns as `str` values)
pub axiom fn axiom_str_ext(a: &str, b: &str)
    ensures (a@ == b@) ==> a == b;
/// ... instantiated for the literals the verified code matches on
pub broadcast proof fn lemma_str_ext_lits(a: &str)
    ensures #![trigger a@]
        (a@ == "visible"@ ==> a == "visible") && (a@ == "hidden"@ ==> a == "hidden") && (a@ == "veryHidden"@ ==> a == "veryHidden")
        && (a@ == "worksheets"@ ==> a == "worksheets") && (a@ == "chartsheets"@ ==> a == "chartsheets") && (a@ == "dialogsheets"@ ==> a == "dialogsheets"),
{
    axiom_str_ext(a, "visible"); axiom_str_ext(a, "hidden"); axiom_str_ext(a, "veryHidden");
    axiom_str_ext(a, "worksheets"); axiom_str_ext(a, "chartsheets"); axiom_str_ext(a, "dialogsheets");
}
// TRUSTED: A-std -- `to_string()` of a String / a Cow<str> (through Display) is its content
pub broadcast axiom fn axiom_string_to_string(t: &String, s: String)
    ensures #[trigger] to_string_from_display_ensures::<String>(t, s) <==> s@ == t@;
pub broadcast axiom fn axiom_cow_to_string<'a>(t: &Cow<'a, str>, s: String)
    ensures #[trigger] to_string_from_display_ensures::<Cow<'a, str>>(t, s) <==> s@ == cow_ref(t)@;
/// p is a prefix of s
pub open spec fn is_prefix(p: Seq<char>, s: Seq<char>) -> bool { p.len() <= s.len() && s.subrange(0, p.len() as int) == p }
/// the first n characters of s are ASCII (so byte offset n is the character boundary after n characters)
pub open spec fn ascii_prefix(s: Seq<char>, n: int) -> bool { 0 <= n <= s.len() && forall|i: int| 0 <= i < n ==> (#[trigger] s[i] as u32) < 128 }
// TRUSTED: A-std -- `str::starts_with(&str)`: "Returns true if the given pattern matches a prefix of this string slice" (`pat_chars`: the
// characters of a `&str` pattern)
pub uninterp spec fn pat_chars<P>(p: P) -> Seq<char>;
pub broadcast axiom fn axiom_pat_chars_str(p: &str)
    ensures #[trigger] pat_chars::<&str>(p) == p@;
#[verifier::allow(undeclared_external_trait)]
pub assume_specification<P: std::str::pattern::Pattern>[ str::starts_with ](s: &str, p: P) -> (r: bool)
    ensures r == is_prefix(pat_chars(p), s@);
// TRUSTED: A-std -- string slicing `&s[..]` (the whole string) and `&s[n..]` where the first n characters are ASCII (no panic: byte offset
// n is a character boundary inside the string; yields the characters after the first n)
pub uninterp spec fn str_index_post<I: SliceIndex<str>>(s: Seq<char>, i: I, x: &<I as SliceIndex<str>>::Output) -> bool;
pub assume_specification<I: SliceIndex<str>>[ <str as Index<I>>::index ](s: &str, i: I) -> (x: &<I as SliceIndex<str>>::Output)
    ensures str_index_post(s@, i, x);
pub assume_specification<I: SliceIndex<str>>[ <String as Index<I>>::index ](s: &String, i: I) -> (x: &<I as SliceIndex<str>>::Output)
    ensures str_index_post(s@, i, x);
pub broadcast axiom fn axiom_str_index_full(s: Seq<char>, x: &str)
    ensures #[trigger] str_index_post::<RangeFull>(s, RangeFull, x) ==> x@ == s;
pub broadcast axiom fn axiom_str_index_from(s: Seq<char>, r: RangeFrom<usize>, x: &str)
    ensures #[trigger] str_index_post::<RangeFrom<usize>>(s, r, x) && ascii_prefix(s, r.start as int) ==> x@ == s.skip(r.start as int);
pub broadcast axiom fn axiom_string_index_req_full(s: &String)
    ensures #[trigger] <String as IndexSpec<RangeFull>>::index_req(s, &RangeFull);
pub broadcast axiom fn axiom_str_index_req_from(s: &str, r: RangeFrom<usize>)
    ensures ascii_prefix(s@, r.start as int) ==> #[trigger] <str as IndexSpec<RangeFrom<usize>>>::index_req(s, &r);
// TRUSTED: A-std -- `str::parse::<F>()` (no claim on the value: the attribute parsing of read_table_metadata is not specified here)
#[verifier::external_trait_specification] pub trait ExFromStr: Sized { type ExternalTraitSpecificationFor: std::str::FromStr; type Err; }
pub assume_specification<F: std::str::FromStr>[ str::parse::<F> ](s: &str) -> (r: Result<F, <F as std::str::FromStr>::Err>);
// TRUSTED: A-std -- `Cow::into_owned`: the owned content (for Cow<str>: the same characters)
pub uninterp spec fn cow_owned<'a, B: ?Sized + ToOwned>(c: Cow<'a, B>) -> <B as ToOwned>::Owned;
pub assume_specification<'a, B: ?Sized + ToOwned>[ <Cow<'a, B>>::into_owned ](c: Cow<'a, B>) -> (r: <B as ToOwned>::Owned)
    ensures r == cow_owned(c);
pub broadcast axiom fn axiom_cow_str_owned<'a>(c: Cow<'a, str>)
    ensures (#[trigger] cow_owned::<str>(c))@ == cow_ref(&c)@;
// TRUSTED: A-std -- `String::as_bytes` (UTF-8 encoding of the content)
pub assume_specification[ String::as_bytes ](s: &String) -> (r: &[u8])
    ensures r@ == vstd::utf8::encode_utf8(s@);
// TRUSTED: A-std -- `str::rfind(char)`: "Returns the byte index for the first character of the last match of the pattern": a character
// boundary inside the string (no claim here on which one)
pub uninterp spec fn pat_occurs<P>(p: P, s: Seq<char>) -> bool;
pub broadcast axiom fn axiom_pat_occurs_char(c: char, s: Seq<char>)
    ensures #[trigger] pat_occurs::<char>(c, s) == s.contains(c);
#[verifier::allow(undeclared_external_trait)]
pub assume_specification<P: std::str::pattern::Pattern>[ str::rfind ](s: &str, p: P) -> (r: Option<usize>)
    where for<'a> <P as std::str::pattern::Pattern>::Searcher<'a>: std::str::pattern::ReverseSearcher<'a>
    ensures
        r is Some <==> pat_occurs(p, s@),
        r is Some ==> vstd::utf8::is_char_boundary(vstd::utf8::encode_utf8(s@), r->Some_0 as int);
// TRUSTED: A-std -- `&s[..n]` at a character boundary does not panic
pub broadcast axiom fn axiom_str_index_req_to(s: &str, r: std::ops::RangeTo<usize>)
    ensures vstd::utf8::is_char_boundary(vstd::utf8::encode_utf8(s@), r.end as int) ==> #[trigger] <str as IndexSpec<std::ops::RangeTo<usize>>>::index_req(s, &r);
// TRUSTED: A-std -- `<[T]>::contains`: "Returns true if the slice contains an element with the given value" (`peq`: PartialEq of T;
// for &str: same characters)
pub uninterp spec fn peq<T>(a: T, b: T) -> bool;
pub broadcast axiom fn axiom_peq_str(a: &str, b: &str)
    ensures #[trigger] peq::<&str>(a, b) == (a@ == b@);
pub assume_specification<T: PartialEq>[ <[T]>::contains ](s: &[T], x: &T) -> (r: bool)
    ensures r == exists|i: int| 0 <= i < s@.len() && peq(#[trigger] s@[i], *x);
// TRUSTED: A-std -- `Vec<u8>` keys looked up by `&[u8]` (std: `Borrow<[u8]> for Vec<u8>`; Ord of Vec<u8> and [u8] is the same lexicographic
// order) -- vstd leaves both predicates uninterpreted for these types --; a map holds at most one value per key, which it does contain;
// the lookup depends on the bytes of the key only
#[verifier::external_body]
pub proof fn axiom_bytes_keyed_map<V>(m: Map<Vec<u8>, V>, k: &[u8])
    ensures
        vstd::laws_cmp::obeys_cmp::<Vec<u8>>(),
        borrowed_key_ordering_matches::<Vec<u8>, [u8]>(),
        forall|v1: V, v2: V| maps_borrowed_key_to_value(m, k, v1) && maps_borrowed_key_to_value(m, k, v2) ==> v1 == v2,
        forall|v: V| maps_borrowed_key_to_value(m, k, v) ==> contains_borrowed_key(m, k),
        forall|k2: &[u8], v: V| k2@ == k@ ==> (maps_borrowed_key_to_value(m, k2, v) <==> maps_borrowed_key_to_value(m, k, v)),
{}
/// the relationship target stored under the id with these bytes, if any
pub open spec fn rel_at(m: Map<Vec<u8>, String>, id: Seq<u8>) -> Option<Seq<char>> {
    if exists|k: &[u8], v: String| k@ == id && maps_borrowed_key_to_value(m, k, v) {
        let (k, v) = choose|k: &[u8], v: String| k@ == id && maps_borrowed_key_to_value(m, k, v); Some(v@)
    } else { None }
}
// TRUSTED: stand-ins for two expressions outside Verus, stated literally (each replaces the expression through a logged rewrite that
// keeps its arguments verbatim): `format!(FMT, a)` with one `{}` placeholder; `s.split(c).nth(n)`
#[verifier::external_body]
fn verif_format_1(fmt: &str, a: &str) -> (r: String)
    ensures fmt@ == "xl/{}"@ ==> r@ == "xl/"@ + a@,
{ unimplemented!() }
/// index of the first c in s at or after i; s.len() if none
pub open spec fn find_ch(s: Seq<char>, c: char, i: int) -> int
    decreases s.len() - i
{
    if i < 0 || i >= s.len() { s.len() as int } else if s[i] == c { i } else { find_ch(s, c, i + 1) }
}
/// the n-th piece (0-based) of s split at every c (str::split: "An iterator over substrings of this string slice, separated by
/// characters matched by a pattern"); None if there are fewer pieces
pub open spec fn split_nth(s: Seq<char>, c: char, n: nat) -> Option<Seq<char>>
    decreases n
{
    let k = find_ch(s, c, 0);
    if n == 0 { Some(s.subrange(0, k)) } else if k >= s.len() { None } else { split_nth(s.subrange(k + 1, s.len() as int), c, (n - 1) as nat) }
}
#[verifier::external_body]
fn verif_str_split_nth<'a>(s: &'a str, c: char, n: usize) -> (r: Option<&'a str>)
    ensures
        r is Some <==> split_nth(s@, c, n as nat) is Some,
        r is Some ==> r->Some_0@ == split_nth(s@, c, n as nat)->Some_0,
{ unimplemented!() }

// TRUSTED: `#[derive(Clone)]` / `#[derive(Default)]` + `#[default] Empty` on Data and DataRef (same text as in unit lazyrange)
pub assume_specification<'a>[ <DataRef<'a> as Default>::default ]() -> (r: DataRef<'a>) ensures r == DataRef::<'a>::Empty;
pub assume_specification[ <Data as Default>::default ]() -> (r: Data) ensures r == Data::Empty;
impl CellType for Data {}
impl<'a> CellType for DataRef<'a> {}

// =====================================================================================================================
// The `Range` API as this unit consumes it (C05): real items + spec functions + the ASSUMED contract of `Range::range`.
// Spec function names, shapes and clause text are those of units/range/unit.rs where `Range::new` etc. are proved and
// `Range::range` is checked bounded by Kani (harnesses range_window_*).
// =====================================================================================================================
//@@ item src/lib.rs trait "trait CellType"
//@@ item src/lib.rs struct Cell
//@@ item src/lib.rs struct Range
impl CellType for String {}

pub open spec fn lawful<T: CellType>() -> bool {
    &&& forall|a: T, b: T| call_ensures(T::clone, (&a,), b) ==> a == b
    &&& forall|a: T, b: T| call_ensures(T::default, (), a) && call_ensures(T::default, (), b) ==> a == b
}
pub open spec fn dflt<T: CellType>() -> T { choose|d: T| call_ensures(T::default, (), d) }

impl<T: CellType> Range<T> {
    pub closed spec fn h(&self) -> int { self.end.0 - self.start.0 + 1 }
    pub closed spec fn w(&self) -> int { self.end.1 - self.start.1 + 1 }
    /// representation invariant
    pub closed spec fn wf(&self) -> bool {
        self.inner@.len() == 0 || (self.start.0 <= self.end.0 && self.start.1 <= self.end.1
            && self.inner@.len() == self.h() * self.w())
    }
    pub closed spec fn nonempty(&self) -> bool { self.inner@.len() > 0 }
    pub closed spec fn lo(&self) -> (u32, u32) { self.start }
    pub closed spec fn hi(&self) -> (u32, u32) { self.end }
    /// absolute position (r, c) lies inside the rectangle
    pub closed spec fn has(&self, r: int, c: int) -> bool {
        self.nonempty() && self.start.0 <= r <= self.end.0 && self.start.1 <= c <= self.end.1
    }
    /// abstract view: value at absolute position (r, c) (meaningful where has(r, c))
    pub closed spec fn at(&self, r: int, c: int) -> T {
        self.inner@[(r - self.start.0) * self.w() + (c - self.start.1)]
    }
}
impl<T: CellType> Cell<T> {
    pub closed spec fn p(&self) -> (u32, u32) { self.pos }
    pub closed spec fn v(&self) -> T { self.val }
}
pub closed spec fn cell_at<T: CellType>(c: Cell<T>, r: int, co: int) -> bool { c.pos.0 == r && c.pos.1 == co }
/// index of the last of the first k cells that sits at (r, co); -1 if none
pub closed spec fn lastw<T: CellType>(cs: Seq<Cell<T>>, k: int, r: int, co: int) -> int
    decreases k
{
    if k <= 0 { -1 } else if cell_at(cs[k - 1], r, co) { k - 1 } else { lastw(cs, k - 1, r, co) }
}
/// (lo, hi) is the tight bounding box of the cell positions
pub closed spec fn is_bbox<T: CellType>(cs: Seq<Cell<T>>, lo: (u32, u32), hi: (u32, u32)) -> bool {
    &&& forall|i: int| 0 <= i < cs.len() ==> lo.0 <= (#[trigger] cs[i]).pos.0 <= hi.0 && lo.1 <= cs[i].pos.1 <= hi.1
    &&& exists|i: int| 0 <= i < cs.len() && (#[trigger] cs[i]).pos.0 == lo.0
    &&& exists|i: int| 0 <= i < cs.len() && (#[trigger] cs[i]).pos.0 == hi.0
    &&& exists|i: int| 0 <= i < cs.len() && (#[trigger] cs[i]).pos.1 == lo.1
    &&& exists|i: int| 0 <= i < cs.len() && (#[trigger] cs[i]).pos.1 == hi.1
}
/// `r` is the range `from_sparse` builds from `cs` (clause text of units range / lazyrange, C05.sparse_*: "empty iff
/// no cells; else bounds == tight bounding box, at(p) == value of the last cell at p, default elsewhere")
pub open spec fn sparse_of<T: CellType>(r: Range<T>, cs: Seq<Cell<T>>) -> bool {
    &&& r.wf()
    &&& (r.nonempty() <==> cs.len() > 0)
    &&& (cs.len() > 0 ==> is_bbox(cs, r.lo(), r.hi()))
    &&& (forall|i: int, j: int| r.has(i, j) && lastw(cs, cs.len() as int, i, j) >= 0 ==> r.at(i, j) == cs[lastw(cs, cs.len() as int, i, j)].v())
    &&& (lawful::<T>() ==> forall|i: int, j: int| r.has(i, j) && lastw(cs, cs.len() as int, i, j) < 0 ==> r.at(i, j) == dflt::<T>())
    &&& (forall|k: int| 0 <= k < cs.len() ==> r.has((#[trigger] cs[k]).p().0 as int, cs[k].p().1 as int))
}
// TRUSTED: expansion of `#[derive(Default)]` on `struct Range<T>` ((0, 0), (0, 0), Vec::new()); the derive itself is dropped by the
// extractor (Verus rejects derives on generic structs). Only the observable fact "the default range is empty and well-formed" is used.
impl<T: CellType> Default for Range<T> {
    fn default() -> (r: Self)
        ensures r.wf() && !r.nonempty(),
    {
        Range { start: (0, 0), end: (0, 0), inner: Vec::new() }
    }
}
/// `r` is the window `src.range(s, e)` (C05: "bounds == (s, e); at(p) == src.at(p) where p in src, default elsewhere")
pub open spec fn window_of<T: CellType>(r: Range<T>, src: Range<T>, s: (u32, u32), e: (u32, u32)) -> bool {
    &&& r.wf()
    &&& r.nonempty() && r.lo() == s && r.hi() == e
    &&& (lawful::<T>() ==> forall|i: int, j: int| r.has(i, j) ==> r.at(i, j) == (if src.has(i, j) { src.at(i, j) } else { dflt::<T>() }))
}

//@@ impl src/lib.rs Range
// ASSUMED here (external_body), PROVED in unit range: Range::new, Range::width (present only so that the text of `range` compiles)
//@@ fn src/lib.rs Range::new props=C05 ret=r external_body
//@@ sig
    requires start.0 <= end.0, start.1 <= end.1,
//@@ end
//@@ fn src/lib.rs Range::empty props=C05 ret=r
//@@ sig
    ensures r.wf(), !r.nonempty(),
//@@ end
// ASSUMED here (external_body), PROVED in unit range (clauses C05.sparse_*): Range::from_sparse ("cells: Vec of non empty Cells, in any order").
//@@ fn src/lib.rs Range::from_sparse props=C05 ret=r external_body
//@@ sig
    ensures
        sparse_of(r, cells@),
//@@ end
//@@ fn src/lib.rs Range::is_empty props=C05 ret=r
//@@ sig
    ensures r == !self.nonempty(),
//@@ end
//@@ fn src/lib.rs Range::width props=C05 ret=r external_body
//@@ sig
    requires self.wf(),
//@@ end
// TRUSTED (external_body; iterator chain chunks/take/skip/zip/clone_from_slice is outside Verus): Range::range -- clause text of unit range
// (C05.range_wf / range_bounds / range_values), there checked bounded by Kani harnesses range_window_*.
//@@ fn src/lib.rs Range::range props=C05 ret=r external_body
//@@ sig
    requires
        self.wf(),
        // precondition of Range::new (undocumented for `range`): corners ordered component-wise
        //# C06.range_window_rows_ordered
        start.0 <= end.0,
        //# C06.range_window_cols_ordered
        start.1 <= end.1,
    ensures
        window_of(r, *self, start, end),
//@@ end
//@@ endimpl

// =====================================================================================================================
// A-xml: GHOST MODEL OF quick-xml 0.37 (configuration set by xlsx::xml_reader: trim_text(false), expand_empty_elements = true,
// check_end_names = false).  Everything in this section is TRUSTED.  A reader owns the ghost sequence `events()` of the results
// its successive `read_event_into` calls deliver, and a position `pos()`.  What is ASSUMED AND NOT VERIFIED: that quick-xml turns
// the bytes of the zip part into this sequence (tokenisation, `<a/>` delivered as Start+End, attribute splitting, entity / character
// reference resolution in `unescape` / `decode_and_unescape_value`, white space preserved).
// DIFFERENT ghost values, never conflated by the contracts: the QUALIFIED name of a tag or attribute as written (`x15:workbookPr`,
// `r:id`), its LOCAL part (`workbookPr`, `id`), its PREFIX, and the NAMESPACE NAME the prefix (or the default namespace) is bound to at
// that point of the document (XML Namespaces 1.0; quick-xml's plain Reader does not resolve it: it is a fact about the document);
// the RAW bytes of an attribute value / text as written and the UNESCAPED text (`unesc`, uninterpreted).
// =====================================================================================================================
pub enum EvKind {
    Start,   // start tag (or the first half of an empty-element tag)
    End,     // end tag (or the second half of an empty-element tag)
    Text,    // character data between tags
    CData,   // <![CDATA[ ... ]]>, literal content in `text`
    Other,   // comment, processing instruction, XML declaration, DOCTYPE
    Error,   // the reader returns Err at this point
}
pub ghost struct Attr {
    pub ok: bool,                  // the attribute is syntactically well formed and not a duplicate (the iterator yields Ok)
    pub key: Seq<u8>,              // qualified attribute name as written, e.g. `r:id`
    pub local: Seq<u8>,            // its local part, e.g. `id`
    pub ns: Seq<u8>,               // namespace name its prefix is bound to (empty: unprefixed attributes are in no namespace)
    pub raw: Seq<u8>,              // value bytes as written between the quotes (what `Attribute::value` holds)
}
pub ghost struct Ev {
    pub kind: EvKind,
    pub name: Seq<u8>,             // qualified tag name as written, e.g. `x15:workbookPr` (Start / End)
    pub prefix: Option<Seq<u8>>,   // its namespace prefix, e.g. Some(`x15`); None: unprefixed
    pub local: Seq<u8>,            // its local part, e.g. `workbookPr`
    pub ns: Seq<u8>,               // namespace name the element belongs to (binding of the prefix / default namespace in scope)
    pub attrs: Seq<Attr>,          // attributes in document order (Start)
    pub text: Seq<char>,           // content of a Text event after unescaping, literal content of a CData event
    pub text_ok: bool,             // `unescape()` succeeds on this Text event / `decode()` succeeds on this CData event
}
/// attribute value decoded with entity / character references resolved (what `decode_and_unescape_value` returns); None: error
pub uninterp spec fn unesc(raw: Seq<u8>) -> Option<Seq<char>>;
/// XML Namespaces: QName = (Prefix ':')? LocalPart
pub open spec fn qname_of(prefix: Option<Seq<u8>>, local: Seq<u8>) -> Seq<u8> {
    match prefix { None => local, Some(p) => p + seq![0x3au8] + local }
}
/// TRUSTED: A-xml -- how quick-xml splits a qualified name as written (`QName::prefix` / `QName::local_name`: at the first ':')
pub uninterp spec fn qn_prefix(name: Seq<u8>) -> Option<Seq<u8>>;
pub uninterp spec fn qn_local(name: Seq<u8>) -> Seq<u8>;
/// an attribute as the document has it: its local part is the local part of its written name, and (XML Namespaces 6.2: "the namespace
/// name for an unprefixed attribute name always has no value") only a prefixed attribute belongs to a namespace
pub open spec fn attr_wf(a: Attr) -> bool { a.local == qn_local(a.key) && (qn_prefix(a.key) is None ==> !is_rel_ns(a.ns) && !is_main_ns(a.ns)) }
impl Ev {
    pub open spec fn is_tag(self) -> bool { self.kind is Start || self.kind is End }
    /// the qualified name is prefix + ':' + local part (and that is how quick-xml splits it; a name is not empty); attributes likewise
    pub open spec fn wf(self) -> bool {
        &&& self.is_tag() ==> self.name == qname_of(self.prefix, self.local) && qn_prefix(self.name) == self.prefix && self.name.len() > 0
        &&& forall|j: int| 0 <= j < self.attrs.len() ==> attr_wf(#[trigger] self.attrs[j])
    }
}
/// the spreadsheetml main namespace `http://schemas.openxmlformats.org/spreadsheetml/2006/main` (or its Strict twin)
pub uninterp spec fn is_main_ns(ns: Seq<u8>) -> bool;
/// the officeDocument relationships namespace `http://schemas.openxmlformats.org/officeDocument/2006/relationships`
pub uninterp spec fn is_rel_ns(ns: Seq<u8>) -> bool;

// TRUSTED: A-std -- `Cow::deref` / `Cow::as_ref` yield the borrowed or owned content; `cow_ref` names it
pub uninterp spec fn cow_ref<'a, 'b, B: ?Sized + ToOwned>(c: &'b Cow<'a, B>) -> &'b B;
pub assume_specification<'a, 'b, B: ?Sized + ToOwned>[ <Cow<'a, B> as Deref>::deref ](c: &'b Cow<'a, B>) -> (r: &'b B)
    ensures r == cow_ref(c);
pub assume_specification<'a, 'b, T: ?Sized + ToOwned>[ <Cow<'a, T> as AsRef<T>>::as_ref ](c: &'b Cow<'a, T>) -> (r: &'b T)
    ensures r == cow_ref(c);

// TRUSTED: A-xml -- quick_xml::name::QName (a tuple struct over the qualified-name bytes; `==` compares the bytes)
pub struct QName<'a>(pub &'a [u8]);
impl<'a> PartialEq for QName<'a> {
    #[verifier::external_body]
    fn eq(&self, o: &QName<'a>) -> (r: bool) ensures r == (self.0@ =~= o.0@) { unimplemented!() }
}
impl<'a> QName<'a> {
    // TRUSTED: A-xml -- `AsRef<[u8]> for QName`
    #[verifier::external_body]
    pub fn as_ref(&self) -> (r: &[u8]) ensures r@ == self.0@ { unimplemented!() }
    // TRUSTED: A-xml -- the part before the first ':' (None if there is none)
    #[verifier::external_body]
    pub fn prefix(&self) -> (r: Option<Prefix<'a>>)
        ensures match qn_prefix(self.0@) { Some(p) => r is Some && r->Some_0.bytes() == p, None => r is None },
    { unimplemented!() }
    // TRUSTED: A-xml -- the part after the first ':' (the whole name if there is none)
    #[verifier::external_body]
    pub fn local_name(&self) -> (r: LocalName<'a>) ensures r.bytes() == qn_local(self.0@) { unimplemented!() }
}
// TRUSTED: A-xml -- quick_xml::name::Prefix (`==` compares the bytes)
#[verifier::external_body]
pub struct Prefix<'a> { _p: core::marker::PhantomData<&'a ()> }
impl<'a> Prefix<'a> {
    pub uninterp spec fn bytes(&self) -> Seq<u8>;
}
impl<'a> PartialEq for Prefix<'a> {
    #[verifier::external_body]
    fn eq(&self, o: &Prefix<'a>) -> (r: bool) ensures r == (self.bytes() == o.bytes()) { unimplemented!() }
}
impl<'a> vstd::std_specs::cmp::PartialEqSpecImpl for Prefix<'a> {
    open spec fn obeys_eq_spec() -> bool { true }
    open spec fn eq_spec(&self, o: &Prefix<'a>) -> bool { self.bytes() == o.bytes() }
}
/// `Option<Prefix> == Option<Prefix>` (derived PartialEq of quick-xml + std's of Option): both absent, or both present with the same bytes
pub open spec fn prefix_eq<'a, 'b>(a: Option<Prefix<'a>>, b: Option<Prefix<'b>>) -> bool {
    match (a, b) { (None, None) => true, (Some(x), Some(y)) => x.bytes() == y.bytes(), _ => false }
}
// TRUSTED: A-xml -- quick_xml::name::LocalName
#[verifier::external_body]
pub struct LocalName<'a> { _p: core::marker::PhantomData<&'a ()> }
impl<'a> LocalName<'a> {
    pub uninterp spec fn bytes(&self) -> Seq<u8>;
    // TRUSTED: A-xml
    #[verifier::external_body]
    pub fn as_ref(&self) -> (r: &[u8]) ensures r@ == self.bytes() { unimplemented!() }
}
// TRUSTED: A-xml -- quick_xml::encoding::Decoder (UTF-8 unless the XML declaration says otherwise; folded into `unesc` / `dec`)
pub struct Decoder { _p: u8 }
/// raw bytes decoded (no entity resolution): what `decoder().decode(bytes)` returns; None: encoding error
pub uninterp spec fn dec(raw: Seq<u8>) -> Option<Seq<char>>;
impl Decoder {
    // TRUSTED: A-xml
    #[verifier::external_body]
    pub fn decode<'b>(&self, bytes: &'b [u8]) -> (r: Result<Cow<'b, str>, quick_xml::encoding::EncodingError>)
        ensures
            dec(bytes@) is Some ==> r is Ok && cow_ref(&r->Ok_0)@ == dec(bytes@)->Some_0,
            dec(bytes@) is None ==> r is Err,
    { unimplemented!() }
}
// TRUSTED: A-xml -- quick_xml::events::attributes::Attribute (public fields `key`, `value`: the verified code matches on them)
pub struct Attribute<'a> { pub key: QName<'a>, pub value: Cow<'a, [u8]> }
impl<'a> Attribute<'a> {
    /// this exec attribute carries the qualified name and raw value of the ghost attribute
    pub open spec fn is(&self, a: Attr) -> bool { self.key.0@ == a.key && cow_ref(&self.value)@ == a.raw }
    // TRUSTED: A-xml -- decodes the raw value and resolves entity / character references
    #[verifier::external_body]
    pub fn decode_and_unescape_value(&self, decoder: Decoder) -> (r: Result<Cow<'a, str>, quick_xml::Error>)
        ensures
            unesc(cow_ref(&self.value)@) is Some ==> r is Ok && cow_ref(&r->Ok_0)@ == unesc(cow_ref(&self.value)@)->Some_0,
            unesc(cow_ref(&self.value)@) is None ==> r is Err,
    { unimplemented!() }
}
/// the results the attribute iterator yields for the ghost attributes
pub open spec fn attrs_match<'a>(items: Seq<Result<Attribute<'a>, quick_xml::events::attributes::AttrError>>, attrs: Seq<Attr>) -> bool {
    &&& items.len() == attrs.len()
    &&& forall|i: int| 0 <= i < attrs.len() ==> ((#[trigger] items[i]) is Ok <==> attrs[i].ok)
    &&& forall|i: int| 0 <= i < attrs.len() && attrs[i].ok ==> (#[trigger] items[i])->Ok_0.is(attrs[i])
}
// TRUSTED: A-xml -- quick_xml::events::attributes::Attributes: an iterator over Result<Attribute, AttrError>, one item per attribute in
// document order
#[verifier::external_body]
pub struct Attributes<'a> { _p: core::marker::PhantomData<&'a ()> }
impl<'a> Attributes<'a> {
    pub uninterp spec fn items(&self) -> Seq<Result<Attribute<'a>, quick_xml::events::attributes::AttrError>>;
    // TRUSTED: A-std + A-xml -- `attributes().filter_map(Result::ok)`: the successfully parsed attributes, in order (stands for
    // Iterator::filter_map with the function `Result::ok`; the argument is not inspected)
    #[verifier::external_body]
    pub fn filter_map<B, F: FnMut(Result<Attribute<'a>, quick_xml::events::attributes::AttrError>) -> Option<B>>(self, f: F) -> (r: OkAttributes<'a>)
        ensures r.src() == self.items(),
    { unimplemented!() }
}
impl<'a> Attributes<'a> {
    // TRUSTED: A-std + A-xml -- `attributes().flatten()`: the successfully parsed attributes, in order (Iterator::flatten over Result items)
    #[verifier::external_body]
    pub fn flatten(self) -> (r: FlatAttributes<'a>)
        ensures r.items().len() <= self.items().len(),
    { unimplemented!() }
}
// TRUSTED: stand-in for `Flatten<Attributes>`
#[verifier::external_body]
pub struct FlatAttributes<'a> { _p: core::marker::PhantomData<&'a ()> }
impl<'a> FlatAttributes<'a> {
    pub uninterp spec fn items(&self) -> Seq<Attribute<'a>>;
}
impl<'a> Iterator for FlatAttributes<'a> {
    type Item = Attribute<'a>;
    #[verifier::external_body]
    fn next(&mut self) -> (r: Option<Self::Item>) { unimplemented!() }
}
impl<'a> IteratorSpecImpl for FlatAttributes<'a> {
    open spec fn obeys_prophetic_iter_laws(&self) -> bool { true }
    open spec fn remaining(&self) -> Seq<Attribute<'a>> { self.items() }
    open spec fn will_return_none(&self) -> bool { true }
    open spec fn decrease(&self) -> Option<nat> { Some(self.items().len()) }
    open spec fn peek(&self, i: int) -> Option<Attribute<'a>> { if 0 <= i < self.items().len() { Some(self.items()[i]) } else { None } }
}
impl<'a> Iterator for Attributes<'a> {
    type Item = Result<Attribute<'a>, quick_xml::events::attributes::AttrError>;
    #[verifier::external_body]
    fn next(&mut self) -> (r: Option<Self::Item>) { unimplemented!() }
}
impl<'a> IteratorSpecImpl for Attributes<'a> {
    open spec fn obeys_prophetic_iter_laws(&self) -> bool { true }
    open spec fn remaining(&self) -> Seq<Result<Attribute<'a>, quick_xml::events::attributes::AttrError>> { self.items() }
    open spec fn will_return_none(&self) -> bool { true }
    open spec fn decrease(&self) -> Option<nat> { Some(self.items().len()) }
    open spec fn peek(&self, i: int) -> Option<Result<Attribute<'a>, quick_xml::events::attributes::AttrError>> {
        if 0 <= i < self.items().len() { Some(self.items()[i]) } else { None }
    }
}
/// f holds of every Ok item among the first n
pub closed spec fn ok_all<'a>(items: Seq<Result<Attribute<'a>, quick_xml::events::attributes::AttrError>>, f: spec_fn(Attribute<'a>) -> bool, n: int) -> bool {
    forall|j: int| 0 <= j < n && j < items.len() && (#[trigger] items[j]) is Ok ==> f(items[j]->Ok_0)
}
/// (proved) `ok_all` read on the side of the ghost attributes: re-triggering on `at[j]`
pub broadcast proof fn lemma_ok_all<'a>(items: Seq<Result<Attribute<'a>, quick_xml::events::attributes::AttrError>>, f: spec_fn(Attribute<'a>) -> bool, n: int, at: Seq<Attr>, j: int)
    requires ok_all(items, f, n), attrs_match(items, at), 0 <= j < n, j < at.len(), at[j].ok,
    ensures #![trigger ok_all(items, f, n), attrs_match(items, at), at[j]] f(items[j]->Ok_0) && items[j]->Ok_0.is(at[j]),
{
    assert(items[j] is Ok);
}
// TRUSTED: stand-in for `FilterMap<Attributes, fn(Result<..>) -> Option<..>>` as produced by `.filter_map(Result::ok)`
#[verifier::external_body]
pub struct OkAttributes<'a> { _p: core::marker::PhantomData<&'a ()> }
impl<'a> OkAttributes<'a> {
    pub uninterp spec fn src(&self) -> Seq<Result<Attribute<'a>, quick_xml::events::attributes::AttrError>>;
    // TRUSTED: A-std -- Iterator::find on it: the first Ok item (in order) for which the predicate returns true
    #[verifier::external_body]
    pub fn find<P: FnMut(&Attribute<'a>) -> bool>(&mut self, pred: P) -> (r: Option<Attribute<'a>>)
        ensures
            match r {
                Some(x) => exists|i: int| 0 <= i < old(self).src().len() && (#[trigger] old(self).src()[i]) == Ok::<Attribute<'a>, quick_xml::events::attributes::AttrError>(x)
                    && call_ensures(pred, (&x,), true)
                    && ok_all(old(self).src(), |y: Attribute<'a>| call_ensures(pred, (&y,), false), i),
                None => ok_all(old(self).src(), |y: Attribute<'a>| call_ensures(pred, (&y,), false), old(self).src().len() as int),
            },
    { unimplemented!() }
}

// TRUSTED: A-xml -- quick_xml::events::{BytesStart, BytesEnd, BytesText, BytesCData}: views onto one ghost event
#[verifier::external_body]
pub struct BytesStart<'a> { _p: core::marker::PhantomData<&'a ()> }
#[verifier::external_body]
pub struct BytesEnd<'a> { _p: core::marker::PhantomData<&'a ()> }
#[verifier::external_body]
pub struct BytesText<'a> { _p: core::marker::PhantomData<&'a ()> }
#[verifier::external_body]
pub struct BytesCData<'a> { _p: core::marker::PhantomData<&'a ()> }
// TRUSTED: A-xml -- quick_xml::events::Event; `Other` stands for Comment / PI / Decl / DocType (never named by the verified code;
// `Empty` cannot occur with expand_empty_elements = true)
pub enum Event<'a> {
    Start(BytesStart<'a>),
    End(BytesEnd<'a>),
    Text(BytesText<'a>),
    CData(BytesCData<'a>),
    Other,
    Eof,
}
/// ASCII text as bytes
pub open spec fn bytes_of(s: Seq<char>) -> Seq<u8> { s.map_values(|c: char| c as u8) }
/// index of the first attribute at or after i that is malformed or has this qualified name; attrs.len() if none
pub open spec fn tga_idx(attrs: Seq<Attr>, key: Seq<u8>, i: int) -> int
    decreases attrs.len() - i
{
    if i < 0 || i >= attrs.len() { attrs.len() as int } else if !attrs[i].ok || attrs[i].key == key { i } else { tga_idx(attrs, key, i + 1) }
}
impl<'a> BytesStart<'a> {
    pub uninterp spec fn ev(&self) -> Ev;
    // TRUSTED: A-xml
    #[verifier::external_body]
    pub fn name(&self) -> (r: QName<'_>) ensures r.0@ == self.ev().name { unimplemented!() }
    // TRUSTED: A-xml
    #[verifier::external_body]
    pub fn local_name(&self) -> (r: LocalName<'_>) ensures r.bytes() == self.ev().local { unimplemented!() }
    // TRUSTED: A-xml
    #[verifier::external_body]
    pub fn attributes(&self) -> (r: Attributes<'_>) ensures attrs_match(r.items(), self.ev().attrs) { unimplemented!() }
    // TRUSTED: A-xml -- "Try to get an attribute": iterates the attributes, returns the first whose qualified name equals `attr_name`
    // (Ok(None) if there is none), or the error of a malformed attribute met before it.  (Real signature: `N: AsRef<[u8]> + Sized`.)
    #[verifier::external_body]
    pub fn try_get_attribute(&self, attr_name: &str) -> (r: Result<Option<Attribute<'_>>, quick_xml::events::attributes::AttrError>)
        ensures ({
            let at = self.ev().attrs;
            let k = tga_idx(at, bytes_of(attr_name@), 0);
            if k >= at.len() { r matches Ok(None) } else if !at[k].ok { r is Err } else { r matches Ok(Some(a)) && a.is(at[k]) }
        }),
    { unimplemented!() }
}
impl<'a> BytesEnd<'a> {
    pub uninterp spec fn ev(&self) -> Ev;
    // TRUSTED: A-xml
    #[verifier::external_body]
    pub fn name(&self) -> (r: QName<'_>) ensures r.0@ == self.ev().name { unimplemented!() }
    // TRUSTED: A-xml
    #[verifier::external_body]
    pub fn local_name(&self) -> (r: LocalName<'_>) ensures r.bytes() == self.ev().local { unimplemented!() }
}
impl<'a> BytesText<'a> {
    pub uninterp spec fn ev(&self) -> Ev;
    // TRUSTED: A-xml -- `unescape` returns the text with the predefined entities and character references resolved, or Err
    #[verifier::external_body]
    pub fn unescape(&self) -> (r: Result<Cow<'a, str>, quick_xml::Error>)
        ensures
            self.ev().text_ok ==> r is Ok && cow_ref(&r->Ok_0)@ == self.ev().text,
            !self.ev().text_ok ==> r is Err,
    { unimplemented!() }
}
impl<'a> BytesCData<'a> {
    pub uninterp spec fn ev(&self) -> Ev;
    // TRUSTED: A-xml -- `decode` returns the literal content of the section in the document encoding (no entity resolution), or Err
    #[verifier::external_body]
    pub fn decode(&self) -> (r: Result<Cow<'a, str>, quick_xml::encoding::EncodingError>)
        ensures
            self.ev().text_ok ==> r is Ok && cow_ref(&r->Ok_0)@ == self.ev().text,
            !self.ev().text_ok ==> r is Err,
    { unimplemented!() }
}
/// the result `read_event_into` delivers for the ghost event e
pub open spec fn ev_result<'b>(r: Result<Event<'b>, quick_xml::Error>, e: Ev) -> bool {
    match e.kind {
        EvKind::Start => r matches Ok(Event::Start(b)) && b.ev() == e,
        EvKind::End => r matches Ok(Event::End(b)) && b.ev() == e,
        EvKind::Text => r matches Ok(Event::Text(b)) && b.ev() == e,
        EvKind::CData => r matches Ok(Event::CData(b)) && b.ev() == e,
        EvKind::Other => r matches Ok(Event::Other),
        EvKind::Error => r is Err,
    }
}
// TRUSTED: A-xml -- quick_xml::Reader<BufReader<ZipFile>> (type alias XlReader of src/xlsx/mod.rs)
#[verifier::external_body]
pub struct XlReader<'a> { _p: core::marker::PhantomData<&'a ()> }
impl<'a> XlReader<'a> {
    pub uninterp spec fn events(&self) -> Seq<Ev>;
    pub uninterp spec fn pos(&self) -> nat;
    pub open spec fn left(&self) -> int { if self.pos() >= self.events().len() { 0 } else { self.events().len() - self.pos() } }
    // TRUSTED: A-xml -- returns events[pos] and advances; at the end of input returns Eof for ever; qualified names are prefix:local
    #[verifier::external_body]
    pub fn read_event_into<'b>(&mut self, buf: &'b mut Vec<u8>) -> (r: Result<Event<'b>, quick_xml::Error>)
        ensures
            final(self).events() == old(self).events(),
            old(self).pos() >= old(self).events().len() ==> (r matches Ok(Event::Eof)) && final(self).pos() == old(self).pos(),
            old(self).pos() < old(self).events().len() ==>
                final(self).pos() == old(self).pos() + 1 && ev_result(r, old(self).events()[old(self).pos() as int])
                && old(self).events()[old(self).pos() as int].wf(),
    { unimplemented!() }
    // TRUSTED: A-xml
    #[verifier::external_body]
    pub fn decoder(&self) -> Decoder { unimplemented!() }
}

// =====================================================================================================================
// A-zip: the zip container.  TRUSTED: `ZipArchive` is a stand-in for zip::read::ZipArchive.  `content()` is the logical content
// of the archive (part name -> bytes); reading a part never changes it ("the content returned for a name depends only on the
// archive and the name, no dependence on earlier reads").
// =====================================================================================================================
#[verifier::external_body]
#[verifier::accept_recursive_types(RS)]
pub struct ZipArchive<RS> { _p: core::marker::PhantomData<RS> }
/// logical content of an archive (abstract)
#[verifier::external_body]
pub ghost struct ZipContent { _p: u8 }
pub uninterp spec fn content<RS>(zip: ZipArchive<RS>) -> ZipContent;
/// the archive has a part with this name (compared ASCII-case-insensitively: xml_reader looks names up with eq_ignore_ascii_case)
pub uninterp spec fn has_part(c: ZipContent, path: Seq<char>) -> bool;
/// the XML events of that part; None: the part cannot be opened (zip-level error)
pub uninterp spec fn part_events(c: ZipContent, path: Seq<char>) -> Option<Seq<Ev>>;
// TRUSTED: A-zip, A-xml -- src/xlsx/mod.rs xml_reader (a case-insensitive `file_names().find(..)` + `by_name` + reader configuration) is
// not under contract here: None iff the archive has no such part; the reader it returns is a function of the archive content and the
// part name only, positioned at the start; the archive content is unchanged
#[verifier::external_body]
fn xml_reader<'a, RS: Read + Seek>(zip: &'a mut ZipArchive<RS>, path: &str) -> (r: Option<Result<XlReader<'a>, XlsxError>>)
    ensures
        content(*final(zip)) == content(*old(zip)),
        r is None <==> !has_part(content(*old(zip)), path@),
        r is Some && r->Some_0 is Ok ==> part_events(content(*old(zip)), path@) == Some((r->Some_0->Ok_0).events()) && (r->Some_0->Ok_0).pos() == 0,
        r is Some && r->Some_0 is Err ==> part_events(content(*old(zip)), path@) is None,
{ unimplemented!() }

// TRUSTED: stand-in for src/xlsx/cells_reader.rs XlsxCellReader (the cell iterator; `next_cell` & co are under contract in unit xlsxxml /
// lazyrange).  Ghost accessors name what the reader was built from.
#[verifier::external_body]
pub struct XlsxCellReader<'a> { _p: core::marker::PhantomData<&'a ()> }
impl<'a> XlsxCellReader<'a> {
    pub uninterp spec fn xml_events(&self) -> Seq<Ev>;
    pub uninterp spec fn strings(&self) -> Seq<String>;
    pub uninterp spec fn formats(&self) -> Seq<CellFormat>;
    pub uninterp spec fn is_1904(&self) -> bool;
    // TRUSTED: signature of XlsxCellReader::new (reads the prologue of the sheet part up to <sheetData>); whether it fails depends on
    // the XML source only; the reader remembers exactly its four arguments
    #[verifier::external_body]
    pub fn new(xml: XlReader<'a>, strings: &'a [String], formats: &'a [CellFormat], is_1904: bool) -> (r: Result<XlsxCellReader<'a>, XlsxError>)
        ensures
            r is Ok ==> (r->Ok_0).xml_events() == xml.events() && (r->Ok_0).strings() == strings@ && (r->Ok_0).formats() == formats@
                && (r->Ok_0).is_1904() == is_1904,
            r is Ok <==> prologue_ok(xml.events()),
            r is Ok ==> (r->Ok_0).fml_remaining() == fml_stream(xml.events()).0 && (r->Ok_0).fml_terminal() == fml_stream(xml.events()).1
                && (r->Ok_0).dims() == declared_dims(xml.events()),
    { unimplemented!() }
}
/// the prologue of the sheet part (up to `<sheetData>`) is readable (abstract)
pub uninterp spec fn prologue_ok(s: Seq<Ev>) -> bool;
/// the formula cells a reader opened on these events delivers, and how the stream ends (None: cleanly) -- abstract here: the decoding
/// of one cell (`next_formula`, src/xlsx/cells_reader.rs) is not under contract in this unit
pub uninterp spec fn fml_stream(s: Seq<Ev>) -> (Seq<Cell<String>>, Option<XlsxError>);
/// the `<dimension ref=..>` the prologue declares
pub uninterp spec fn declared_dims(s: Seq<Ev>) -> Dimensions;
impl<'a> XlsxCellReader<'a> {
    /// formula cells the reader will still deliver (a sheet part is a finite file and every next_formula call consumes input: this is
    /// what gives the loop a measure)
    pub uninterp spec fn fml_remaining(&self) -> Seq<Cell<String>>;
    pub uninterp spec fn fml_terminal(&self) -> Option<XlsxError>;
    pub uninterp spec fn dims(&self) -> Dimensions;
    // TRUSTED: signature of XlsxCellReader::dimensions (returns the stored field)
    #[verifier::external_body]
    pub fn dimensions(&self) -> (d: Dimensions)
        ensures d == self.dims(),
    { unimplemented!() }
    // TRUSTED: signature of XlsxCellReader::next_formula; pops the head of the ghost stream
    #[verifier::external_body]
    pub fn next_formula(&mut self) -> (r: Result<Option<Cell<String>>, XlsxError>)
        ensures
            final(self).fml_terminal() == old(self).fml_terminal() && final(self).dims() == old(self).dims(),
            match r {
                Ok(Some(c)) => old(self).fml_remaining().len() > 0 && c == old(self).fml_remaining()[0]
                    && final(self).fml_remaining() == old(self).fml_remaining().skip(1),
                Ok(None) => old(self).fml_remaining().len() == 0 && old(self).fml_terminal() is None && final(self).fml_remaining() == old(self).fml_remaining(),
                Err(e) => old(self).fml_remaining().len() == 0 && old(self).fml_terminal() == Some(e) && final(self).fml_remaining() == old(self).fml_remaining(),
            },
    { unimplemented!() }
}

// =====================================================================================================================
// State of an opened workbook (frame conditions quantify over the REAL fields of struct Xlsx, extracted above)
// =====================================================================================================================
impl<RS> Xlsx<RS> {
    pub closed spec fn g_zip(&self) -> ZipArchive<RS> { self.zip }
    pub closed spec fn g_strings(&self) -> Vec<String> { self.strings }
    pub closed spec fn g_sheets(&self) -> Vec<(String, String)> { self.sheets }
    pub closed spec fn g_tables(&self) -> Tables { self.tables }
    pub closed spec fn g_formats(&self) -> Vec<CellFormat> { self.formats }
    pub closed spec fn g_1904(&self) -> bool { self.is_1904 }
    pub closed spec fn g_meta(&self) -> Metadata { self.metadata }
    pub closed spec fn g_merged(&self) -> Option<Vec<(String, String, Dimensions)>> { self.merged_regions }
    /// the header-row option in force
    pub closed spec fn g_opts(&self) -> XlsxOptions { self.options }
    /// all loaded state except the option: every field of the struct, the archive through its logical content
    pub open spec fn loaded(&self) -> (ZipContent, Vec<String>, Vec<(String, String)>, Tables, Vec<CellFormat>, bool, Metadata, Option<Vec<(String, String, Dimensions)>>) {
        (content(self.g_zip()), self.g_strings(), self.g_sheets(), self.g_tables(), self.g_formats(), self.g_1904(), self.g_meta(), self.g_merged())
    }
    /// the tables are loaded and `name` is (exactly) the display name of one of them
    pub open spec fn has_table(&self, name: Seq<char>) -> bool {
        self.g_tables() is Some && exists|i: int| 0 <= i < self.g_tables()->Some_0@.len() && (#[trigger] self.g_tables()->Some_0@[i]).0@ == name
    }
    /// `name` is (exactly: same characters, same case) the name of one of the sheets listed in workbook.xml
    pub open spec fn knows(&self, name: Seq<char>) -> bool { exists|i: int| 0 <= i < self.g_sheets()@.len() && (#[trigger] self.g_sheets()@[i]).0@ == name }
}

/// the first sheet entry with exactly this name
pub open spec fn first_named(sh: Seq<(String, String)>, name: Seq<char>, i: int) -> bool {
    0 <= i < sh.len() && sh[i].0@ == name && forall|j: int| 0 <= j < i ==> (#[trigger] sh[j]).0@ != name
}

//@@ impl src/xlsx/mod.rs Xlsx nth=1
//@@ fn src/xlsx/mod.rs Xlsx::worksheet_cells_reader props=C07,C16,C01,C10,C11 entry ret=r deref_pat
//@@ sig
    ensures
        //# C07.unknown_sheet_is_error
        !old(self).knows(name@) ==> r is Err && r->Err_0 is WorksheetNotFound,
        //# C07.cells_reader_frame
        final(self).loaded() == old(self).loaded(),
        //# C07.cells_reader_keeps_header_row_option
        final(self).g_opts() == old(self).g_opts(),
        //# C07,C01.cells_reader_from_named_sheet_only
        r is Ok ==> exists|i: int| 0 <= i < old(self).g_sheets()@.len() && (#[trigger] old(self).g_sheets()@[i]).0@ == name@
            && (forall|j: int| 0 <= j < i ==> (#[trigger] old(self).g_sheets()@[j]).0@ != name@)
            && part_events(content(old(self).g_zip()), old(self).g_sheets()@[i].1@) == Some((r->Ok_0).xml_events()),
        //# C07,C01.cells_reader_opens_the_first_sheet_of_that_name
        forall|i: int| #[trigger] first_named(old(self).g_sheets()@, name@, i) ==> ({
            let c = content(old(self).g_zip()); let path = old(self).g_sheets()@[i].1@;
            &&& (r is Ok <==> has_part(c, path) && part_events(c, path) is Some && prologue_ok(part_events(c, path)->Some_0))
            &&& (r is Ok ==> part_events(c, path) == Some((r->Ok_0).xml_events())) }),
        //# C07.cells_reader_stream_of_that_part
        r is Ok ==> (r->Ok_0).fml_remaining() == fml_stream((r->Ok_0).xml_events()).0 && (r->Ok_0).fml_terminal() == fml_stream((r->Ok_0).xml_events()).1
            && (r->Ok_0).dims() == declared_dims((r->Ok_0).xml_events()),
        //# C07,C01,C10.cells_reader_strings_formats
        r is Ok ==> (r->Ok_0).strings() == old(self).g_strings()@ && (r->Ok_0).formats() == old(self).g_formats()@,
        //# C16,C10,C11.date_system_flag_reaches_cells
        r is Ok ==> (r->Ok_0).is_1904() == old(self).g_1904(),
        //# C07.cells_reader_missing_part_is_error
        (forall|i: int| 0 <= i < old(self).g_sheets()@.len() && (#[trigger] old(self).g_sheets()@[i]).0@ == name@
            ==> !has_part(content(old(self).g_zip()), old(self).g_sheets()@[i].1@)) ==> r is Err && r->Err_0 is WorksheetNotFound,
//@@ closure 0
    -> (res: bool) ensures
        //# C07,C01.sheet_lookup_exact_name
        res == (__c0_0.0@ == name@)
//@@ closure 1
    -> (e: XlsxError) ensures e is WorksheetNotFound
//@@ closure 2
    -> (e: XlsxError) ensures e is WorksheetNotFound
//@@ body
        broadcast use {axiom_iter_rem, lemma_rejects};
        let ghost sh = self.sheets@;
//@@ before /let xml = /
        proof {
            assert(exists|k: int| 0 <= k < sh.len() && (#[trigger] sh[k]).1 == *path && sh[k].0@ == name@ && forall|j: int| 0 <= j < k ==> (#[trigger] sh[j]).0@ != name@);
            assert(sh == old(self).g_sheets()@);
            assert(old(self).knows(name@));   // witness sh[k]
        }
//@@ end
//@@ endimpl


// =====================================================================================================================
// C17 / C07: tables.  `table_by_name(_ref)` = metadata entry with exactly this name + the sheet's values over the stored dimensions.
// =====================================================================================================================
pub type Loaded = (ZipContent, Vec<String>, Vec<(String, String)>, Tables, Vec<CellFormat>, bool, Metadata, Option<Vec<(String, String, Dimensions)>>);
/// what reading sheet `name` yields for a workbook in this loaded state under this header-row option (abstract here: the functions are
/// under contract in unit lazyrange; "each result is a function only of the file, the call's arguments and the header-row option in force")
pub uninterp spec fn ws_range(st: Loaded, opts: XlsxOptions, name: Seq<char>) -> Result<Range<Data>, XlsxError>;
pub uninterp spec fn ws_range_ref<'a>(st: Loaded, opts: XlsxOptions, name: Seq<char>) -> Result<Range<DataRef<'a>>, XlsxError>;
pub open spec fn strs(v: Seq<String>) -> Seq<Seq<char>> { v.map_values(|s: String| s@) }

// Stand-ins for the traits `Reader` / `ReaderRef` of src/lib.rs, restricted to the methods the verified text calls or implements (signatures copied)
pub trait Reader<RS>: Sized where RS: Read + Seek {
    type Error;
    fn worksheet_range(&mut self, name: &str) -> Result<Range<Data>, Self::Error>;
    fn worksheet_formula(&mut self, name: &str) -> Result<Range<String>, Self::Error>;
}
pub trait ReaderRef<RS>: Reader<RS> where RS: Read + Seek {
    fn worksheet_range_ref<'a>(&'a mut self, name: &str) -> Result<Range<DataRef<'a>>, Self::Error>;
}
//@@ impl src/lib.rs Dimensions
// ASSUMED here (external_body): Dimensions::len -- under contract in unit lazyrange (clause text of C06.dimensions_len: the number of
// positions, 0 for reversed corners, saturated at u64::MAX)
//@@ fn src/lib.rs Dimensions::len props=C06 ret=r external_body
//@@ sig
    ensures
        r == (if self.start.0 <= self.end.0 && self.start.1 <= self.end.1 {
                let n = (self.end.0 - self.start.0 + 1) * (self.end.1 - self.start.1 + 1);
                if n <= u64::MAX { n } else { u64::MAX as int }
            } else { 0 }),
//@@ end
//@@ endimpl

/// the cells of a formula stream that carry a formula text (order preserved)
pub open spec fn keep_ne(cs: Seq<Cell<String>>) -> Seq<Cell<String>>
    decreases cs.len()
{
    if cs.len() == 0 { Seq::empty() } else {
        let k = keep_ne(cs.drop_last());
        if cs.last().v()@.len() > 0 { k.push(cs.last()) } else { k }
    }
}

//@@ impl src/xlsx/mod.rs "Reader<RS> for Xlsx<RS>"
//@@ item src/xlsx/mod.rs impl_type "Reader<RS> for Xlsx<RS>::type Error"
    // TRUSTED: callee contract of `Reader::worksheet_range` for Xlsx (the real text is under contract in unit lazyrange: result; the FRAME
    // follows from the frame of `worksheet_cells_reader` proved above -- the function touches `self` only through that call and a read of
    // `self.options.header_row`): the result is a function of the loaded state, the option and the name; a returned range is well-formed
    #[verifier::external_body]
    fn worksheet_range(&mut self, name: &str) -> (r: Result<Range<Data>, XlsxError>)
        ensures
            final(self).loaded() == old(self).loaded(),
            final(self).g_opts() == old(self).g_opts(),
            r == ws_range(old(self).loaded(), old(self).g_opts(), name@),
            r is Ok ==> (r->Ok_0).wf(),
    { unimplemented!() }
#[verifier::loop_isolation(false)]
//@@ fn src/xlsx/mod.rs "Reader<RS> for Xlsx<RS>::worksheet_formula" props=C14,C07 entry ret=r
//@@ sig
    ensures
        //# C07.formula_read_is_pure
        final(self).loaded() == old(self).loaded(),
        //# C07.formula_read_keeps_header_row_option
        final(self).g_opts() == old(self).g_opts(),
        //# C07.formula_unknown_sheet_is_error
        !old(self).knows(name@) ==> r is Err,
        //# C14.formula_stream_error_is_returned
        forall|i: int| #[trigger] first_named(old(self).g_sheets()@, name@, i) ==> ({
            let evs = part_events(content(old(self).g_zip()), old(self).g_sheets()@[i].1@);
            has_part(content(old(self).g_zip()), old(self).g_sheets()@[i].1@) && evs is Some && prologue_ok(evs->Some_0) && fml_stream(evs->Some_0).1 is Some ==> r is Err }),
        //# C14.formula_range_is_the_cells_with_formula_text
        forall|i: int| #[trigger] first_named(old(self).g_sheets()@, name@, i) ==> ({
            let evs = part_events(content(old(self).g_zip()), old(self).g_sheets()@[i].1@);
            has_part(content(old(self).g_zip()), old(self).g_sheets()@[i].1@) && evs is Some && prologue_ok(evs->Some_0) && fml_stream(evs->Some_0).1 is None ==>
                r is Ok && sparse_of(r->Ok_0, keep_ne(fml_stream(evs->Some_0).0)) }),
//@@ before /let len = /
        let ghost stream = cell_reader.fml_remaining();
        let ghost term0 = cell_reader.fml_terminal();
        proof { assert(stream.take(0) =~= Seq::<Cell<String>>::empty()); }
//@@ before /cells\.reserve\(/
            proof {
                //# C06.formula_reserve_capped
                assert(len < 100_000);
            }
//@@ loop 0
            invariant
                cell_reader.fml_terminal() == term0,
                cell_reader.fml_remaining().len() <= stream.len(),
                cell_reader.fml_remaining() == stream.skip(stream.len() - cell_reader.fml_remaining().len()),
                //# C14.formula_cells_kept_so_far
                cells@ == keep_ne(stream.take(stream.len() - cell_reader.fml_remaining().len())),
            decreases cell_reader.fml_remaining().len(),
//@@ before /if \S*cell\.val/
            proof {
                let k = stream.len() - cell_reader.fml_remaining().len() - 1;
                assert(cell == stream[k]);
                assert(stream.take(k + 1) =~= stream.take(k).push(stream[k]));
                assert(stream.take(k + 1).drop_last() =~= stream.take(k));
                assert(cell_reader.fml_remaining() =~= stream.skip(k + 1));
            }
//@@ before /Ok\(Range::from_sparse\(cells\)\)/
        proof {
            assert(cell_reader.fml_remaining().len() == 0 && term0 is None);
            assert(stream.take(stream.len() as int) =~= stream);
        }
//@@ end
//@@ endimpl
impl<RS: Read + Seek> ReaderRef<RS> for Xlsx<RS> {
    // TRUSTED: callee contract of `ReaderRef::worksheet_range_ref` for Xlsx (same remarks)
    #[verifier::external_body]
    fn worksheet_range_ref<'a>(&'a mut self, name: &str) -> (r: Result<Range<DataRef<'a>>, XlsxError>)
        ensures
            final(self).loaded() == old(self).loaded(),
            final(self).g_opts() == old(self).g_opts(),
            r == ws_range_ref::<'a>(old(self).loaded(), old(self).g_opts(), name@),
            r is Ok ==> (r->Ok_0).wf(),
    { unimplemented!() }
}

impl<T> Table<T> {
    pub closed spec fn t_name(&self) -> Seq<char> { self.name@ }
    pub closed spec fn t_sheet(&self) -> Seq<char> { self.sheet_name@ }
    pub closed spec fn t_cols(&self) -> Seq<Seq<char>> { strs(self.columns@) }
    pub closed spec fn t_data(&self) -> Range<T> { self.data }
}
/// the stored data dimensions denote at least one cell: corners ordered component-wise (a table whose reference holds nothing but its
/// header / totals rows has start row > end row: its data range is empty)
pub open spec fn has_cells(d: Dimensions) -> bool { d.start.0 <= d.end.0 && d.start.1 <= d.end.1 }

/// std::mem::take moves the old value out (assumed, std; what is left behind -- `T::default()` -- is left unconstrained, which only
/// weakens the assumption): lets a body that parks an option / a field and puts it back be checked on EVERY exit, `?` exits included
pub assume_specification<T: core::default::Default>[ core::mem::take::<T> ](dest: &mut T) -> (r: T)
    ensures r == *old(dest);

/// witness for the precondition "tables are loaded" (the API protocol `load_tables()` before `table_by_name`; not a condition on the file)
proof fn witness_tables_loaded<RS>(x: Xlsx<RS>)
    ensures exists|y: Xlsx<RS>| y.g_tables() is Some,
{
    let y = Xlsx { tables: Some(arbitrary()), ..x };
    assert(y.g_tables() is Some);
}

//@@ impl src/xlsx/mod.rs Xlsx
//@@ fn src/xlsx/mod.rs Xlsx::get_table_meta props=C17,C06 ret=r
//@@ sig
    requires
        //# C17.tables_loaded  (documented: "Tables must be loaded before they are referenced")
        self.g_tables() is Some,
    ensures
        //# C17.unknown_table_is_error
        !self.has_table(table_name@) ==> r is Err && r->Err_0 is TableNotFound,
        //# C17.known_table_is_found
        self.has_table(table_name@) ==> r is Ok,
        //# C17.table_meta_copied
        r is Ok ==> exists|i: int| 0 <= i < self.g_tables()->Some_0@.len() && (#[trigger] self.g_tables()->Some_0@[i]).0@ == table_name@
            && (r->Ok_0).name@ == self.g_tables()->Some_0@[i].0@ && (r->Ok_0).sheet_name@ == self.g_tables()->Some_0@[i].1@
            && (forall|j: int| 0 <= j < i ==> (#[trigger] self.g_tables()->Some_0@[j]).0@ != table_name@)
            && strs((r->Ok_0).columns@) == strs(self.g_tables()->Some_0@[i].2@) && (r->Ok_0).dimensions == self.g_tables()->Some_0@[i].3,
//@@ closure 0
    -> (res: bool) ensures
        //# C17.table_lookup_exact_name
        res == (__c0_0.0@ == table_name@)
//@@ closure 1
    -> (e: XlsxError) ensures e is TableNotFound
//@@ body
        broadcast use {axiom_iter_rem, lemma_rejects};
        let ghost tb = self.tables->Some_0@;
//@@ before /let name = /
        proof {
            assert(exists|k: int| 0 <= k < tb.len() && (#[trigger] tb[k]) == *match_table_meta && tb[k].0@ == table_name@ && forall|j: int| 0 <= j < k ==> (#[trigger] tb[j]).0@ != table_name@);
        }
//@@ end
//@@ fn src/xlsx/mod.rs Xlsx::table_by_name props=C17,C07 entry ret=r
//@@ sig
    requires
        //# C17.tables_loaded  (documented: "Tables must be loaded before they are referenced")
        old(self).g_tables() is Some,
    ensures
        //# C07.table_read_is_pure
        final(self).loaded() == old(self).loaded(),
        //# C07.table_read_keeps_header_row_option
        final(self).g_opts() == old(self).g_opts(),
        //# C17.unknown_table_is_error
        !old(self).has_table(table_name@) ==> r is Err && r->Err_0 is TableNotFound,
        //# C17.table_meta_copied
        r is Ok ==> exists|i: int| 0 <= i < old(self).g_tables()->Some_0@.len() && (#[trigger] old(self).g_tables()->Some_0@[i]).0@ == table_name@
            && (forall|j: int| 0 <= j < i ==> (#[trigger] old(self).g_tables()->Some_0@[j]).0@ != table_name@)
            && (r->Ok_0).t_name() == old(self).g_tables()->Some_0@[i].0@ && (r->Ok_0).t_sheet() == old(self).g_tables()->Some_0@[i].1@
            && (r->Ok_0).t_cols() == strs(old(self).g_tables()->Some_0@[i].2@),
        //# C17.table_data_range
        r is Ok ==> exists|i: int| 0 <= i < old(self).g_tables()->Some_0@.len() && (#[trigger] old(self).g_tables()->Some_0@[i]).0@ == table_name@
            && (forall|j: int| 0 <= j < i ==> (#[trigger] old(self).g_tables()->Some_0@[j]).0@ != table_name@)
            && ({ let e = old(self).g_tables()->Some_0@[i]; let sheet = ws_range(old(self).loaded(), old(self).g_opts(), e.1@);
                  sheet is Ok && (has_cells(e.3) ==> window_of((r->Ok_0).t_data(), sheet->Ok_0, e.3.start, e.3.end)) }),
        //# C17.table_without_data_rows_is_empty
        r is Ok ==> exists|i: int| 0 <= i < old(self).g_tables()->Some_0@.len() && (#[trigger] old(self).g_tables()->Some_0@[i]).0@ == table_name@
            && (forall|j: int| 0 <= j < i ==> (#[trigger] old(self).g_tables()->Some_0@[j]).0@ != table_name@)
            && (!has_cells(old(self).g_tables()->Some_0@[i].3) ==> (r->Ok_0).t_data().wf() && !(r->Ok_0).t_data().nonempty()),
        //# C17.table_sheet_error_is_returned
        forall|i: int| 0 <= i < old(self).g_tables()->Some_0@.len() && (#[trigger] old(self).g_tables()->Some_0@[i]).0@ == table_name@
            && (forall|j: int| 0 <= j < i ==> (#[trigger] old(self).g_tables()->Some_0@[j]).0@ != table_name@)
            && ws_range(old(self).loaded(), old(self).g_opts(), old(self).g_tables()->Some_0@[i].1@) is Err ==> r is Err,
//@@ end
//@@ fn src/xlsx/mod.rs Xlsx::table_by_name_ref props=C17,C07 entry ret=r
//@@ sig
    requires
        //# C17.tables_loaded  (documented: "Tables must be loaded before they are referenced")
        old(self).g_tables() is Some,
    ensures
        //# C07.table_read_is_pure
        final(self).loaded() == old(self).loaded(),
        //# C07.table_read_keeps_header_row_option
        final(self).g_opts() == old(self).g_opts(),
        //# C17.unknown_table_is_error
        !old(self).has_table(table_name@) ==> r is Err && r->Err_0 is TableNotFound,
        //# C17.table_meta_copied
        r is Ok ==> exists|i: int| 0 <= i < old(self).g_tables()->Some_0@.len() && (#[trigger] old(self).g_tables()->Some_0@[i]).0@ == table_name@
            && (forall|j: int| 0 <= j < i ==> (#[trigger] old(self).g_tables()->Some_0@[j]).0@ != table_name@)
            && (r->Ok_0).t_name() == old(self).g_tables()->Some_0@[i].0@ && (r->Ok_0).t_sheet() == old(self).g_tables()->Some_0@[i].1@
            && (r->Ok_0).t_cols() == strs(old(self).g_tables()->Some_0@[i].2@),
        //# C17.table_data_range
        r is Ok ==> exists|i: int| 0 <= i < old(self).g_tables()->Some_0@.len() && (#[trigger] old(self).g_tables()->Some_0@[i]).0@ == table_name@
            && (forall|j: int| 0 <= j < i ==> (#[trigger] old(self).g_tables()->Some_0@[j]).0@ != table_name@)
            && ({ let e = old(self).g_tables()->Some_0@[i]; let sheet = ws_range_ref::<'_>(old(self).loaded(), old(self).g_opts(), e.1@);
                  sheet is Ok && (has_cells(e.3) ==> window_of((r->Ok_0).t_data(), sheet->Ok_0, e.3.start, e.3.end)) }),
        //# C17.table_without_data_rows_is_empty
        r is Ok ==> exists|i: int| 0 <= i < old(self).g_tables()->Some_0@.len() && (#[trigger] old(self).g_tables()->Some_0@[i]).0@ == table_name@
            && (forall|j: int| 0 <= j < i ==> (#[trigger] old(self).g_tables()->Some_0@[j]).0@ != table_name@)
            && (!has_cells(old(self).g_tables()->Some_0@[i].3) ==> (r->Ok_0).t_data().wf() && !(r->Ok_0).t_data().nonempty()),
//@@ end
//@@ endimpl


// =====================================================================================================================
// C16: workbook.xml.  ECMA-376 Part 1, 18.2.27 workbook (CT_Workbook): sequence of fileVersion?, fileSharing?, workbookPr?,
// workbookProtection?, bookViews?, sheets, functionGroups?, externalReferences?, definedNames?, calcPr?, ... , extLst?.
//   18.2.20 sheets = sheet+ ; 18.2.19 sheet (CT_Sheet): attributes name (required), sheetId, state (ST_SheetState: visible | hidden |
//   veryHidden, default visible), r:id (required; relationship of the sheet part).
//   18.2.6 definedNames = definedName+ ; 18.2.5 definedName: attribute name (required), content = the formula text (xsd:string).
//   18.2.28 workbookPr: attribute date1904 (xsd:boolean, default false) -- "the date system used in the workbook".
// All these elements belong to the spreadsheetml MAIN namespace; whether that namespace is the default namespace or bound to a prefix
// is a property of the encoding, not of the workbook (XML Namespaces).  Extension lists (extLst/ext) carry elements of OTHER
// namespaces, among them `x15:workbookPr` of Excel 2013+, which is not the workbook's workbookPr.
// The definition below walks the event sequence with the element context of the schema.
// =====================================================================================================================
#[verifier::opaque] pub open spec fn n_sheet() -> Seq<u8> { seq![0x73u8, 0x68u8, 0x65u8, 0x65u8, 0x74u8] }   // sheet
#[verifier::opaque] pub open spec fn n_sheets() -> Seq<u8> { seq![0x73u8, 0x68u8, 0x65u8, 0x65u8, 0x74u8, 0x73u8] }   // sheets
#[verifier::opaque] pub open spec fn n_workbook() -> Seq<u8> { seq![0x77u8, 0x6fu8, 0x72u8, 0x6bu8, 0x62u8, 0x6fu8, 0x6fu8, 0x6bu8] }   // workbook
#[verifier::opaque] pub open spec fn n_workbookpr() -> Seq<u8> { seq![0x77u8, 0x6fu8, 0x72u8, 0x6bu8, 0x62u8, 0x6fu8, 0x6fu8, 0x6bu8, 0x50u8, 0x72u8] }   // workbookPr
#[verifier::opaque] pub open spec fn n_definedname() -> Seq<u8> { seq![0x64u8, 0x65u8, 0x66u8, 0x69u8, 0x6eu8, 0x65u8, 0x64u8, 0x4eu8, 0x61u8, 0x6du8, 0x65u8] }   // definedName
#[verifier::opaque] pub open spec fn n_definednames() -> Seq<u8> { seq![0x64u8, 0x65u8, 0x66u8, 0x69u8, 0x6eu8, 0x65u8, 0x64u8, 0x4eu8, 0x61u8, 0x6du8, 0x65u8, 0x73u8] }   // definedNames
#[verifier::opaque] pub open spec fn k_name() -> Seq<u8> { seq![0x6eu8, 0x61u8, 0x6du8, 0x65u8] }   // name
#[verifier::opaque] pub open spec fn k_state() -> Seq<u8> { seq![0x73u8, 0x74u8, 0x61u8, 0x74u8, 0x65u8] }   // state
#[verifier::opaque] pub open spec fn k_id() -> Seq<u8> { seq![0x69u8, 0x64u8] }   // id
#[verifier::opaque] pub open spec fn k_date1904() -> Seq<u8> { seq![0x64u8, 0x61u8, 0x74u8, 0x65u8, 0x31u8, 0x39u8, 0x30u8, 0x34u8] }   // date1904
// TRUSTED: A-lit -- Verus keeps the contents of byte-string literals uninterpreted (only their length is known); the bytes of the
// literals the verified code compares names with are stated here (ASCII)
#[verifier::external_body]
pub proof fn axiom_bytelits()
    ensures
        b"sheet"@ == n_sheet(), b"workbookPr"@ == n_workbookpr(), b"definedName"@ == n_definedname(), b"workbook"@ == n_workbook(),
        b"name"@ == k_name(), b"state"@ == k_state(), b"id"@ == k_id(),
{}
proof fn lemma_names_distinct()
    ensures
        n_sheet() != n_workbookpr(), n_sheet() != n_definedname(), n_sheet() != n_workbook(), n_sheet() != n_sheets(), n_sheet() != n_definednames(),
        n_workbookpr() != n_definedname(), n_workbookpr() != n_workbook(), n_workbookpr() != n_sheets(), n_workbookpr() != n_definednames(),
        n_definedname() != n_workbook(), n_definedname() != n_sheets(), n_definedname() != n_definednames(),
        n_workbook() != n_sheets(), n_workbook() != n_definednames(), n_sheets() != n_definednames(),
        k_name() != k_state(), k_name() != k_id(), k_state() != k_id(),
{
    reveal(n_sheet); reveal(n_sheets); reveal(n_workbook); reveal(n_workbookpr); reveal(n_definedname); reveal(n_definednames); reveal(k_name); reveal(k_state); reveal(k_id); reveal(k_date1904);
    assert(n_sheet().len() == 5 && n_sheets().len() == 6 && n_workbook().len() == 8 && n_workbookpr().len() == 10 && n_definedname().len() == 11 && n_definednames().len() == 12);
    assert(k_name().len() == 4 && k_state().len() == 5 && k_id().len() == 2);
}
pub ghost struct WbSheet { pub name: Seq<char>, pub vis: SheetVisible, pub path: Seq<char>, pub typ: SheetType }
/// ST_SheetState
pub open spec fn vis_of(s: Seq<char>) -> Option<SheetVisible> {
    if s == "visible"@ { Some(SheetVisible::Visible) } else if s == "hidden"@ { Some(SheetVisible::Hidden) }
    else if s == "veryHidden"@ { Some(SheetVisible::VeryHidden) } else { None }
}
/// part name of a relationship target of the workbook part: "/xl/x" -> "xl/x", "xl/x" -> "xl/x", "x" -> "xl/x"
pub open spec fn norm_target(t: Seq<char>) -> Seq<char> {
    if is_prefix("/xl/"@, t) { t.skip(1) } else if is_prefix("xl/"@, t) { t } else { "xl/"@ + t }
}
/// kind of a sheet from the folder of its part: xl/worksheets/.., xl/chartsheets/.., xl/dialogsheets/..
pub open spec fn type_of_path(p: Seq<char>) -> Option<SheetType> {
    match split_nth(p, '/', 1) {
        Some(f) => if f == "worksheets"@ { Some(SheetType::WorkSheet) } else if f == "chartsheets"@ { Some(SheetType::ChartSheet) }
                   else if f == "dialogsheets"@ { Some(SheetType::DialogSheet) } else { None },
        None => None,
    }
}
/// the relationship-id attribute of a sheet element: local name `id` in the relationships namespace (whatever the prefix)
pub open spec fn rid_attr(a: Attr) -> bool { is_rel_ns(a.ns) && a.local == k_id() }
/// ... as the code recognises it: written with a prefix, local part `id`
pub open spec fn rid_key(a: Attr) -> bool { qn_prefix(a.key) is Some && qn_local(a.key) == k_id() }
pub ghost struct ShAcc { pub name: Seq<char>, pub vis: SheetVisible, pub path: Seq<char> }
/// name / state / relationship target of a sheet element read off its first k attributes (XML: attribute names are unique per element,
/// so the order of the visit is immaterial for a conforming document); None: an attribute is malformed, a value cannot be unescaped,
/// the state is not a ST_SheetState value, or the relationship id is unknown
pub open spec fn sh_fold(attrs: Seq<Attr>, k: int, rels: Map<Vec<u8>, String>) -> Option<ShAcc>
    decreases k
{
    if k <= 0 { Some(ShAcc { name: Seq::empty(), vis: SheetVisible::Visible, path: Seq::empty() }) }
    else {
        match sh_fold(attrs, k - 1, rels) {
            None => None,
            Some(acc) => {
                let a = attrs[k - 1];
                if !a.ok { None }
                else if a.key == k_name() { match unesc(a.raw) { Some(v) => Some(ShAcc { name: v, ..acc }), None => None } }
                else if a.key == k_state() {
                    match unesc(a.raw) { Some(v) => match vis_of(v) { Some(x) => Some(ShAcc { vis: x, ..acc }), None => None }, None => None }
                }
                else if rid_attr(a) { match rel_at(rels, a.raw) { Some(t) => Some(ShAcc { path: norm_target(t), ..acc }), None => None } }
                // CT_Sheet declares name, sheetId, state and r:id and has no attribute wildcard: an `id` attribute of another namespace is not
                // a schema-valid sheet element
                else if rid_key(a) { None }
                else { Some(acc) }
            },
        }
    }
}
pub open spec fn sheet_entry(e: Ev, rels: Map<Vec<u8>, String>) -> Option<WbSheet> {
    match sh_fold(e.attrs, e.attrs.len() as int, rels) {
        None => None,
        Some(acc) => match type_of_path(acc.path) {
            Some(t) => Some(WbSheet { name: acc.name, vis: acc.vis, path: acc.path, typ: t }),
            None => None,
        },
    }
}
proof fn lemma_sh_fold_prefix(attrs: Seq<Attr>, k: int, n: int, rels: Map<Vec<u8>, String>)
    requires 0 <= k <= n, sh_fold(attrs, n, rels) is Some,
    ensures sh_fold(attrs, k, rels) is Some,
    decreases n - k,
{
    if k < n { lemma_sh_fold_prefix(attrs, k + 1, n, rels); }
}
/// date1904 of a workbookPr element (xsd:boolean: "1" / "true"); None: malformed attribute
pub open spec fn date1904_of(e: Ev) -> Option<bool> {
    let k = tga_idx(e.attrs, k_date1904(), 0);
    if k >= e.attrs.len() { Some(false) } else if !e.attrs[k].ok { None }
    else { match unesc(e.attrs[k].raw) { None => None, Some(v) => Some(v == "1"@ || v == "true"@) } }
}
/// index of the first well-formed attribute at or after i written `name`; attrs.len() if none
pub open spec fn dn_name_idx(attrs: Seq<Attr>, i: int) -> int
    decreases attrs.len() - i
{
    if i < 0 || i >= attrs.len() { attrs.len() as int } else if attrs[i].ok && attrs[i].key == k_name() { i } else { dn_name_idx(attrs, i + 1) }
}
proof fn lemma_dn_name_idx_first(attrs: Seq<Attr>, from: int, i: int)
    requires 0 <= from <= i < attrs.len(), attrs[i].ok && attrs[i].key == k_name(),
        forall|j: int| from <= j < i ==> !((#[trigger] attrs[j]).ok && attrs[j].key == k_name()),
    ensures dn_name_idx(attrs, from) == i,
    decreases i - from,
{
    if from < i { lemma_dn_name_idx_first(attrs, from + 1, i); }
}
proof fn lemma_dn_name_idx_props(attrs: Seq<Attr>, from: int)
    requires 0 <= from <= attrs.len(),
    ensures
        from <= dn_name_idx(attrs, from) <= attrs.len(),
        dn_name_idx(attrs, from) < attrs.len() ==> attrs[dn_name_idx(attrs, from)].ok && attrs[dn_name_idx(attrs, from)].key == k_name(),
    decreases attrs.len() - from,
{
    if from < attrs.len() && !(attrs[from].ok && attrs[from].key == k_name()) { lemma_dn_name_idx_props(attrs, from + 1); }
}
pub ghost struct DnRes { pub ok: bool, pub text: Seq<char>, pub end: int }
/// content of a definedName element whose start tag was written `qname`: character data up to its end tag
pub open spec fn dn_scan(ev: Seq<Ev>, i: int, qname: Seq<u8>, acc: Seq<char>) -> DnRes
    decreases ev.len() - i
{
    if i < 0 || i >= ev.len() { DnRes { ok: false, text: acc, end: i } }
    else {
        let e = ev[i];
        match e.kind {
            EvKind::Error => DnRes { ok: false, text: acc, end: i },
            EvKind::Text => if e.text_ok { dn_scan(ev, i + 1, qname, acc + e.text) } else { DnRes { ok: false, text: acc, end: i } },
            EvKind::CData => if e.text_ok { dn_scan(ev, i + 1, qname, acc + e.text) } else { DnRes { ok: false, text: acc, end: i } },
            EvKind::Other => dn_scan(ev, i + 1, qname, acc),
            EvKind::Start => DnRes { ok: false, text: acc, end: i },     // xsd:string content: no child elements
            EvKind::End => if e.name == qname { DnRes { ok: true, text: acc, end: i } } else { DnRes { ok: false, text: acc, end: i } },
        }
    }
}
proof fn lemma_dn_end(ev: Seq<Ev>, i: int, qname: Seq<u8>, acc: Seq<char>)
    requires 0 <= i, dn_scan(ev, i, qname, acc).ok,
    ensures i <= dn_scan(ev, i, qname, acc).end < ev.len(),
    decreases ev.len() - i,
{
    if i < ev.len() {
        let e = ev[i];
        match e.kind {
            EvKind::Text => { if e.text_ok { lemma_dn_end(ev, i + 1, qname, acc + e.text); } }
            EvKind::CData => { if e.text_ok { lemma_dn_end(ev, i + 1, qname, acc + e.text); } }
            EvKind::Other => { lemma_dn_end(ev, i + 1, qname, acc); }
            _ => {}
        }
    }
}
pub enum WbCtx { Top, Sheets, Names }   // content of: workbook / sheets / definedNames
pub ghost struct WbSt {
    pub root: bool,                                  // the `workbook` start tag has been met
    pub ctx: WbCtx,
    pub skip: nat,                                   // > 0: inside an element whose content is skipped, at this depth
    pub sheets: Seq<WbSheet>,                        // sheets declared so far, in document order
    pub names: Seq<(Seq<char>, Seq<char>)>,          // defined names so far: (name, text)
    pub pr: Option<bool>,                            // date1904 of the workbook's workbookPr, once met
}
pub ghost struct WbRes { pub ok: bool, pub sheets: Seq<WbSheet>, pub names: Seq<(Seq<char>, Seq<char>)>, pub pr: Option<bool>, pub end: int }
pub open spec fn wb_bad(i: int) -> WbRes { WbRes { ok: false, sheets: Seq::empty(), names: Seq::empty(), pr: None, end: i } }
pub open spec fn wb_init() -> WbSt { WbSt { root: false, ctx: WbCtx::Top, skip: 0, sheets: Seq::empty(), names: Seq::empty(), pr: None } }
pub open spec fn is_main(e: Ev) -> bool { is_main_ns(e.ns) }
/// a start tag the schema does not allow where it stands and that this definition does not cover: an element with local name `sheet` or
/// `definedName` (any namespace) outside sheets / definedNames, or a MAIN-namespace `workbookPr` that is not a child of workbook.
/// (Elements named workbookPr of OTHER namespaces, e.g. x15:workbookPr inside extLst, are ordinary skipped content.)
pub open spec fn stray_start(e: Ev) -> bool {
    e.local == n_sheet() || e.local == n_definedname() || (is_main(e) && e.local == n_workbookpr())
}
/// what the event ev[i] does in state s: continue in a new state at a later event, end of the workbook element, or not covered
pub open spec fn wb_step(ev: Seq<Ev>, i: int, s: WbSt, rels: Map<Vec<u8>, String>) -> WbStep
    recommends 0 <= i < ev.len()
{
    {
        let e = ev[i];
        if e.kind is Error { WbStep::Bad }
        else if !s.root {
            // prolog: XML declaration, comments, white space; then the root element
            if e.kind is Start { if is_main(e) && e.local == n_workbook() { WbStep::Next(WbSt { root: true, ..s }, i + 1) } else { WbStep::Bad } }
            else if e.kind is End { WbStep::Bad }
            else { WbStep::Next(s, i + 1) }
        } else if s.skip > 0 {
            if e.kind is Start { if stray_start(e) { WbStep::Bad } else { WbStep::Next(WbSt { skip: s.skip + 1, ..s }, i + 1) } }
            else if e.kind is End { if e.local == n_workbook() { WbStep::Bad } else { WbStep::Next(WbSt { skip: (s.skip - 1) as nat, ..s }, i + 1) } }
            else { WbStep::Next(s, i + 1) }
        } else if e.kind is Start {
            match s.ctx {
                WbCtx::Top =>
                    if is_main(e) && e.local == n_sheets() { WbStep::Next(WbSt { ctx: WbCtx::Sheets, ..s }, i + 1) }
                    else if is_main(e) && e.local == n_definednames() { WbStep::Next(WbSt { ctx: WbCtx::Names, ..s }, i + 1) }
                    else if is_main(e) && e.local == n_workbookpr() {
                        if s.pr is Some { WbStep::Bad } else {
                            match date1904_of(e) { Some(b) => WbStep::Next(WbSt { pr: Some(b), skip: 1, ..s }, i + 1), None => WbStep::Bad }
                        }
                    }
                    else if stray_start(e) { WbStep::Bad }
                    else { WbStep::Next(WbSt { skip: 1, ..s }, i + 1) },
                WbCtx::Sheets =>
                    if is_main(e) && e.local == n_sheet() {
                        match sheet_entry(e, rels) { Some(x) => WbStep::Next(WbSt { sheets: s.sheets.push(x), skip: 1, ..s }, i + 1), None => WbStep::Bad }
                    }
                    else if stray_start(e) { WbStep::Bad }
                    else { WbStep::Next(WbSt { skip: 1, ..s }, i + 1) },
                WbCtx::Names =>
                    if is_main(e) && e.local == n_definedname() {
                        let k = dn_name_idx(e.attrs, 0);
                        if k >= e.attrs.len() { WbStep::Bad }      // `name` is required
                        else {
                            match unesc(e.attrs[k].raw) {
                                None => WbStep::Bad,
                                Some(nm) => {
                                    let d = dn_scan(ev, i + 1, e.name, Seq::empty());
                                    if d.ok && i < d.end < ev.len() { WbStep::Next(WbSt { names: s.names.push((nm, d.text)), ..s }, d.end + 1) } else { WbStep::Bad }
                                },
                            }
                        }
                    }
                    else if stray_start(e) { WbStep::Bad }
                    else { WbStep::Next(WbSt { skip: 1, ..s }, i + 1) },
            }
        } else if e.kind is End {
            match s.ctx {
                WbCtx::Top => if e.local == n_workbook() { WbStep::Done } else { WbStep::Bad },
                WbCtx::Sheets => if e.local == n_sheets() { WbStep::Next(WbSt { ctx: WbCtx::Top, ..s }, i + 1) } else { WbStep::Bad },
                WbCtx::Names => if e.local == n_definednames() { WbStep::Next(WbSt { ctx: WbCtx::Top, ..s }, i + 1) } else { WbStep::Bad },
            }
        } else {
            WbStep::Next(s, i + 1)    // white space, comments between the child elements
        }
    }
}
pub enum WbStep { Next(WbSt, int), Done, Bad }
pub open spec fn wb_scan(ev: Seq<Ev>, i: int, s: WbSt, rels: Map<Vec<u8>, String>) -> WbRes
    decreases ev.len() - i
{
    if i < 0 || i >= ev.len() { wb_bad(i) }
    else {
        match wb_step(ev, i, s, rels) {
            WbStep::Next(s2, i2) => if i < i2 { wb_scan(ev, i2, s2, rels) } else { wb_bad(i) },
            WbStep::Done => WbRes { ok: true, sheets: s.sheets, names: s.names, pr: s.pr, end: i },
            WbStep::Bad => wb_bad(i),
        }
    }
}
pub open spec fn wb_part(ev: Seq<Ev>, rels: Map<Vec<u8>, String>) -> WbRes { wb_scan(ev, 0, wb_init(), rels) }
pub open spec fn wb_path() -> Seq<char> { "xl/workbook.xml"@ }

// ---- the one hypothesis on the encoding the proved clauses carry: the code does not resolve namespaces, it compares the prefix of
// ---- `workbookPr` with the prefix of the root element
/// index of the first start tag at or after i (the root element); ev.len() if none
pub open spec fn first_start(ev: Seq<Ev>, i: int) -> int
    decreases ev.len() - i
{
    if i < 0 || i >= ev.len() { ev.len() as int } else if ev[i].kind is Start { i } else { first_start(ev, i + 1) }
}
/// the main namespace keeps ONE binding through the part -- the one of the root element (a prefix, or the default namespace), and that
/// binding denotes nothing else: a tag belongs to the main namespace iff it carries the root element's prefix.  (Re-binding a prefix
/// inside the part is legal XML; following it needs namespace resolution, which the plain quick-xml Reader does not do.)
pub open spec fn main_ns_one_binding(ev: Seq<Ev>) -> bool {
    let r = first_start(ev, 0);
    r < ev.len() && forall|k: int| 0 <= k < ev.len() && (#[trigger] ev[k]).is_tag() ==> (is_main(ev[k]) <==> ev[k].prefix == ev[r].prefix)
}
proof fn lemma_first_start_skip(ev: Seq<Ev>, i: int)
    requires 0 <= i < ev.len(), !(ev[i].kind is Start),
    ensures first_start(ev, i) == first_start(ev, i + 1),
{}

//@@ props C01,C16
/// BRIDGE between the property (C01: "namespace prefixes" are a legal variation of the encoding -- the relationship id is the attribute
/// with local name `id` in the relationships namespace, `rid_attr`, whatever prefix that namespace is bound to) and the code's test
/// (`rid_key`: a prefixed attribute with local part `id`): every relationship-id attribute of a document is recognised.
proof fn lemma_rel_id_attribute_is_recognised(a: Attr)
    requires a.ok, attr_wf(a),
    ensures rid_attr(a) ==> rid_key(a),
{
}
//@@ props C16,C17,C07,C01,C06,C14


/// every sheet part name starts with "xl/" (what read_workbook stores: `norm_target`; clause C16.sheet_paths_under_xl there)
pub open spec fn sheet_paths_under_xl(sh: Seq<(String, String)>) -> bool { forall|i: int| 0 <= i < sh.len() ==> is_prefix("xl/"@, (#[trigger] sh[i]).1@) }
proof fn witness_sheet_paths_under_xl()
    ensures sheet_paths_under_xl(Seq::<(String, String)>::empty()),
{}
proof fn lemma_norm_target_under_xl(t: Seq<char>)
    ensures is_prefix("xl/"@, norm_target(t)),
{
    reveal_strlit("xl/"); reveal_strlit("/xl/");
    if is_prefix("/xl/"@, t) {
        assert(t.subrange(0, 4) == "/xl/"@);
        assert(t.skip(1).subrange(0, 3) =~= t.subrange(0, 4).subrange(1, 4));
        assert("/xl/"@.subrange(1, 4) =~= "xl/"@);
    } else if !is_prefix("xl/"@, t) {
        assert(("xl/"@ + t).subrange(0, 3) =~= "xl/"@);
    }
}

// ---- how the loaded state mirrors the declared workbook
pub open spec fn ext_sheets(old: Seq<(String, String)>, cur: Seq<(String, String)>, w: Seq<WbSheet>) -> bool {
    &&& cur.len() == old.len() + w.len()
    &&& forall|i: int| 0 <= i < old.len() ==> #[trigger] cur[i] == old[i]
    &&& forall|i: int| 0 <= i < w.len() ==> (#[trigger] cur[old.len() + i]).0@ == w[i].name && cur[old.len() + i].1@ == w[i].path
}
pub open spec fn ext_meta(old: Seq<Sheet>, cur: Seq<Sheet>, w: Seq<WbSheet>) -> bool {
    &&& cur.len() == old.len() + w.len()
    &&& forall|i: int| 0 <= i < old.len() ==> #[trigger] cur[i] == old[i]
    &&& forall|i: int| 0 <= i < w.len() ==> (#[trigger] cur[old.len() + i]).name@ == w[i].name && cur[old.len() + i].typ == w[i].typ && cur[old.len() + i].visible == w[i].vis
}
pub open spec fn names_are(v: Seq<(String, String)>, w: Seq<(Seq<char>, Seq<char>)>) -> bool {
    &&& v.len() == w.len()
    &&& forall|i: int| 0 <= i < w.len() ==> (#[trigger] v[i]).0@ == w[i].0 && v[i].1@ == w[i].1
}
/// sheet paths and sheet metadata list the same sheets
pub open spec fn aligned(sh: Seq<(String, String)>, ms: Seq<Sheet>) -> bool {
    &&& sh.len() == ms.len()
    &&& forall|i: int| 0 <= i < sh.len() ==> (#[trigger] sh[i]).0@ == ms[i].name@
}
pub open spec fn pr_or(pr: Option<bool>, d: bool) -> bool { match pr { Some(b) => b, None => d } }
proof fn lemma_date1904_bytes()
    ensures bytes_of("date1904"@) == k_date1904(),
{
    reveal_strlit("date1904"); reveal(k_date1904);
    assert(bytes_of("date1904"@) =~= k_date1904());
}

//@@ impl src/xlsx/mod.rs Xlsx
#[verifier::loop_isolation(false)]
#[verifier::allow_complex_invariants]
//@@ fn src/xlsx/mod.rs Xlsx::read_workbook props=C16,C01,C10,C07,C11 entry ret=r
//@@ sig
    ensures
        //# C07.read_workbook_frame
        final(self).strings == old(self).strings && final(self).formats == old(self).formats && final(self).tables == old(self).tables
            && final(self).merged_regions == old(self).merged_regions && final(self).options == old(self).options
            && content(final(self).zip) == content(old(self).zip),
        //# C16.sheets_and_metadata_aligned
        aligned(old(self).sheets@, old(self).metadata.sheets@) ==> aligned(final(self).sheets@, final(self).metadata.sheets@),
        //# C16,C01.sheet_paths_under_xl
        sheet_paths_under_xl(old(self).sheets@) ==> sheet_paths_under_xl(final(self).sheets@),
        //# C16.absent_workbook_part
        !has_part(content(old(self).zip), wb_path()) ==> r is Ok && final(self).sheets == old(self).sheets && final(self).metadata == old(self).metadata
            && final(self).is_1904 == old(self).is_1904,
        //# C16,C01.wellformed_workbook_is_read
        ({ let evs = part_events(content(old(self).zip), wb_path()); let wb = wb_part(evs->Some_0, relationships@);
           has_part(content(old(self).zip), wb_path()) && evs is Some && wb.ok
             && main_ns_one_binding(evs->Some_0) ==> r is Ok }),
        //# C16,C01.sheets_in_document_order
        ({ let evs = part_events(content(old(self).zip), wb_path()); let wb = wb_part(evs->Some_0, relationships@);
           has_part(content(old(self).zip), wb_path()) && evs is Some && wb.ok
             && main_ns_one_binding(evs->Some_0) && r is Ok ==>
               ext_sheets(old(self).sheets@, final(self).sheets@, wb.sheets) && ext_meta(old(self).metadata.sheets@, final(self).metadata.sheets@, wb.sheets) }),
        //# C16.defined_names_in_order
        ({ let evs = part_events(content(old(self).zip), wb_path()); let wb = wb_part(evs->Some_0, relationships@);
           has_part(content(old(self).zip), wb_path()) && evs is Some && wb.ok
             && main_ns_one_binding(evs->Some_0) && r is Ok ==>
               names_are(final(self).metadata.names@, wb.names) }),
        //# C16,C10,C11.date1904_from_workbookPr
        ({ let evs = part_events(content(old(self).zip), wb_path()); let wb = wb_part(evs->Some_0, relationships@);
           has_part(content(old(self).zip), wb_path()) && evs is Some && wb.ok
             && main_ns_one_binding(evs->Some_0) && r is Ok ==>
               final(self).is_1904 == pr_or(wb.pr, old(self).is_1904) }),
//@@ replace /a\.map_err\((XlsxError::XmlAttr)\)\?/ Verus: "using a datatype constructor as a function value" unsupported; eta-expanded, same function
a.map_err(|e| -> (x: XlsxError) ensures x == \g<1>(e) { \g<1>(e) })?
//@@ replace /Attribute \{\s*key: QName\((b"[^"]*")\),\s*\.\.\s*\}\s*=>/#0of2 Verus crashes on byte-string literal patterns: the slice is bound and compared in a guard (same test, same arm order); the literal is kept verbatim
Attribute { key: QName(__k), .. } if __k == \g<1> =>
//@@ replace /Attribute \{\s*key: QName\((b"[^"]*")\),\s*\.\.\s*\}\s*=>/#1of2 Verus crashes on byte-string literal patterns: the slice is bound and compared in a guard (same test, same arm order); the literal is kept verbatim
Attribute { key: QName(__k), .. } if __k == \g<1> =>
//@@ replace /format!\(("[^"]*"), r\)/ format! is outside Verus: assumed helper with the same arguments (format string kept verbatim)
verif_format_1(\g<1>, r)
//@@ replace /path\.split\(('[^']*')\)\.nth\((\d+)\)/ `Split::nth` is a provided Iterator method without a specification hook: assumed helper with the same arguments
verif_str_split_nth(&path, \g<1>, \g<2>)
//@@ replace /\.map_err\((XlsxError::Xml)\)\?/ Verus: "using a datatype constructor as a function value" unsupported; eta-expanded, same function
.map_err(|e| -> (x: XlsxError) ensures x == \g<1>(e) { \g<1>(e) })?
//@@ body
        broadcast use {axiom_string_to_string, axiom_cow_to_string, axiom_pat_chars_str, axiom_str_index_full, axiom_str_index_from,
                       axiom_string_index_req_full, axiom_str_index_req_from, axiom_peq_str, lemma_str_ext_lits};
//@@ before /let mut defined_names = /
        let ghost ev = xml.events();
        let ghost rels = relationships@;
        let ghost tot = wb_part(ev, rels);
        let ghost good = tot.ok && main_ns_one_binding(ev);
        let ghost ri = first_start(ev, 0);
        let ghost mut st = wb_init();
        let ghost mut lastpos: int = 0;
        let ghost sh0 = self.sheets@;
        let ghost ms0 = self.metadata.sheets@;
        let ghost d0 = self.is_1904;
        let ghost aligned0 = aligned(sh0, ms0);
        proof {
            axiom_bytelits(); lemma_names_distinct(); lemma_date1904_bytes();
        }
//@@ loop 0
            invariant_except_break
                //# C16,C01,C10.code_follows_the_schema_walk
                good ==> wb_scan(ev, xml.pos() as int, st, rels) == tot,
            invariant
                xml.events() == ev,
                self.strings == old(self).strings && self.formats == old(self).formats && self.tables == old(self).tables
                    && self.merged_regions == old(self).merged_regions && self.options == old(self).options
                    && self.metadata.names == old(self).metadata.names,
                //# C16.sheets_and_metadata_aligned_so_far
                aligned0 ==> aligned(self.sheets@, self.metadata.sheets@),
                //# C16,C01.sheet_paths_under_xl_so_far
                sheet_paths_under_xl(sh0) ==> sheet_paths_under_xl(self.sheets@),
                //# C16,C01.sheets_in_document_order_so_far
                good ==> ext_sheets(sh0, self.sheets@, st.sheets),
                //# C16.sheet_metadata_in_document_order_so_far
                good ==> ext_meta(ms0, self.metadata.sheets@, st.sheets),
                //# C16.defined_names_in_order_so_far
                good ==> names_are(defined_names@, st.names),
                //# C16,C10,C11.date1904_so_far
                good ==> self.is_1904 == pr_or(st.pr, d0),
                //# C16,C01,C10.root_element_name_kept
                good ==> (if st.root { 0 <= ri < xml.pos() && root@ == ev[ri].name && qn_prefix(root@) == ev[ri].prefix && root@.len() > 0 }
                          else { root@.len() == 0 && first_start(ev, xml.pos() as int) == ri }),
                ri == first_start(ev, 0),
            ensures
                good ==> st.sheets == tot.sheets && st.names == tot.names && st.pr == tot.pr,
            decreases xml.left(),
//@@ before /match xml\.read_event_into\(&mut buf\)/
            let ghost pos = xml.pos() as int;
            let ghost st0 = st;
            proof { lastpos = pos; }
            let ghost stp = if pos < ev.len() { wb_step(ev, pos, st, rels) } else { WbStep::Bad };
            proof {
                if good {
                    assert(pos < ev.len());
                    assert(!(stp is Bad));
                    if stp is Next { st = stp->Next_0; }
                    if ev[pos].kind is End && ev[pos].local == n_workbook() {
                        assert(stp is Done);
                        assert(tot.sheets == st.sheets && tot.names == st.names && tot.pr == st.pr);
                    }
                }
                if good && !st0.root && !(ev[pos].kind is Start) { lemma_first_start_skip(ev, pos); }
            }
//@@ before /root\.extend_from_slice/
                    proof {
                        assert(e.ev() == ev[pos]);
                        assert(ev[pos].kind is Start && ev[pos].wf());
                        if good { assert(!st0.root); assert(first_start(ev, pos) == pos); assert(st.root); }
                    }
//@@ after /root\.extend_from_slice\([^;]*;/
                    proof { if good { assert(root@ =~= ev[pos].name); } }
//@@ before /let mut name = String::new\(\);/
                    let ghost at = ev[pos].attrs;
                    proof {
                        assert(e.ev() == ev[pos]);
                        assert(ev[pos].kind is Start);
                        assert(ev[pos].local == n_sheet());
                        if good {
                            assert(stp is Next);
                            assert(st0.root);
                            assert(st0.skip == 0);
                            assert(st0.root && st0.skip == 0 && st0.ctx is Sheets && is_main(ev[pos]));
                            assert(sheet_entry(ev[pos], rels) is Some);
                        }
                    }
//@@ loop 1 it
                        invariant
                            attrs_match(it.seq(), at),
                            path@.len() == 0 || is_prefix("xl/"@, path@),
                            //# C16,C01.sheet_name_state_target_from_attributes
                            good ==> sh_fold(at, it.index@ as int, rels) == Some(ShAcc { name: name@, vis: visible, path: path@ }),
//@@ before /let a = a\.map_err/
                        let ghost k = it.index@ as int;
                        proof {
                            assert(0 <= k < at.len());
                            assert(a == it.seq()[k]);
                            if good { lemma_sh_fold_prefix(at, k + 1, at.len() as int, rels); }
                        }
//@@ before /match a \{/
                        proof {
                            if good {
                                assert(sh_fold(at, k + 1, rels) is Some);
                                assert(sh_fold(at, k, rels) == Some(ShAcc { name: name@, vis: visible, path: path@ }));
                                assert(at[k].ok);
                                assert(a.is(at[k]));
                                assert(attr_wf(at[k]));
                                assert(rid_attr(at[k]) ==> rid_key(at[k]));
                            }
                        }
//@@ before /name = a\.decode_and_unescape_value/#0of2
                                proof { if good { assert(__k@ == k_name()); assert(at[k].key == k_name()); assert(unesc(at[k].raw) is Some); } }
//@@ before /visible = match a\.decode_and_unescape_value/
                                proof { if good { assert(at[k].key == k_state()); assert(at[k].key != k_name()); assert(unesc(at[k].raw) is Some); assert(vis_of(unesc(at[k].raw)->Some_0) is Some); } }
//@@ before /let r = &relationships/
                                proof { axiom_bytes_keyed_map(rels, cow_ref(&v));
                                    if good {
                                        assert(key.0@ == at[k].key); assert(qn_prefix(key.0@) is Some); assert(qn_local(key.0@) == b"id"@);
                                        //# C01,C16.relationship_id_is_the_prefixed_id_attribute
                                        assert(rid_key(at[k]));
                                        assert(rid_attr(at[k])); assert(at[k].key != k_name() && at[k].key != k_state()); assert(cow_ref(&v)@ == at[k].raw); assert(rel_at(rels, at[k].raw) is Some); } }
//@@ before /let typ = match/
                    proof { reveal_strlit("xl/"); if path@.len() == 0 { assert(find_ch(path@, '/', 0) == 0); assert(split_nth(path@, '/', 1) is None); } }
//@@ before /path = if r\.starts_with/
                                proof { reveal_strlit("/xl/"); }
//@@ after /path = if r\.starts_with[^;]*;/
                                proof { reveal_strlit("xl/"); lemma_norm_target_under_xl(r@); assert(path@ == norm_target(r@)); }
//@@ before /r\[1\.\.\]/
                                    proof { assert(pat_chars::<&str>("/xl/") == "/xl/"@); assert(is_prefix("/xl/"@, r@)); assert(r@.subrange(0, 4)[0] == '/'); assert(r@[0] == '/'); assert(ascii_prefix(r@, 1)); }
//@@ before /self\.metadata\.sheets\.push\(/
                    proof {
                        if good {
                            let x = sheet_entry(ev[pos], rels)->Some_0;
                            assert(st == WbSt { sheets: st0.sheets.push(x), skip: 1, ..st0 });
                        }
                    }
//@@ before /self\.is_1904 = match/
                    let ghost at = ev[pos].attrs;
                    proof {
                        assert(e.ev() == ev[pos]);
                        // what the guard of this arm establishes
                        assert(ev[pos].kind is Start && ev[pos].local == n_workbookpr());
                        if good {
                            assert(st0.root);
                            assert(ev[pos].wf());
                            //# C16,C10,C11.workbookPr_carries_the_root_prefix
                            assert(ev[pos].prefix == ev[ri].prefix);
                            assert(is_main(ev[pos]));
                            //# C16,C10,C11.date1904_only_from_the_workbooks_workbookPr
                            assert(ev[pos].kind is Start && is_main(ev[pos]) && ev[pos].local == n_workbookpr()
                                && st0.root && st0.skip == 0 && st0.ctx is Top && st0.pr is None);
                            assert(date1904_of(ev[pos]) is Some);
                            assert(st == WbSt { pr: date1904_of(ev[pos]), skip: 1, ..st0 });
                        }
                    }
//@@ before /self\.metadata\.names = defined_names;/
        proof {
            assert(part_events(content(old(self).zip), wb_path()) == Some(ev));
            assert(0 <= lastpos < ev.len());
            assert(ev[lastpos].kind is End);
            assert(ev[lastpos].local == n_workbook());
            assert(good ==> st.sheets == tot.sheets);
            assert(good ==> ext_sheets(sh0, self.sheets@, st.sheets));
            assert(good ==> ext_meta(ms0, self.metadata.sheets@, st.sheets));
            assert(good ==> names_are(defined_names@, st.names));
        }
//@@ closure 0
    -> (res: bool) ensures res == (a.key.0@ == b"name"@)
//@@ before /if let Some\(a\) = e/
                    let ghost at = ev[pos].attrs;
                    let ghost mut handled = false;
                    let ghost dtot = dn_scan(ev, pos + 1, ev[pos].name, Seq::<char>::empty());
                    proof {
                        broadcast use lemma_ok_all;
                        assert(e.ev() == ev[pos]);
                        assert(ev[pos].kind is Start && ev[pos].local == n_definedname());
                        lemma_dn_name_idx_props(at, 0);
                        if good {
                            assert(stp is Next);
                            assert(st0.root && st0.skip == 0 && st0.ctx is Names && is_main(ev[pos]));
                            assert(dn_name_idx(at, 0) < at.len());
                            assert(dtot.ok && pos < dtot.end < ev.len());
                        }
                    }
//@@ before /let name = a\.decode_and_unescape_value/
                        proof {
                            broadcast use lemma_ok_all;
                            handled = true;
                            assert(exists|i: int| 0 <= i < at.len() && (#[trigger] at[i]).ok && a.is(at[i]) && at[i].key == k_name()
                                && forall|j: int| 0 <= j < i ==> !((#[trigger] at[j]).ok && at[j].key == k_name()));
                            let i = choose|i: int| 0 <= i < at.len() && (#[trigger] at[i]).ok && a.is(at[i]) && at[i].key == k_name()
                                && forall|j: int| 0 <= j < i ==> !((#[trigger] at[j]).ok && at[j].key == k_name());
                            lemma_dn_name_idx_first(at, 0, i);
                            if good { assert(unesc(at[i].raw) is Some); }
                        }
//@@ before /let mut value = String::new\(\);/
                        let ghost nm = name@;
//@@ loop 2
                            invariant
                                xml.events() == ev,
                                xml.pos() > pos,
                                good ==> dn_scan(ev, xml.pos() as int, ev[pos].name, value@) == dtot,
                            decreases xml.left(),
//@@ before /match xml\.read_event_into\(&mut val_buf\)/
                            let ghost ipos = xml.pos() as int;
                            proof {
                                lastpos = ipos;
                                if good { lemma_dn_end(ev, ipos, ev[pos].name, value@); assert(ipos < ev.len()); }
                            }
//@@ before /defined_names\.push\(\(name, value\)\);/
                        proof {
                            if good {
                                assert(0 <= lastpos < ev.len());
                                assert(ev[lastpos].kind is End && ev[lastpos].name == ev[pos].name);
                                assert(xml.pos() == lastpos + 1);
                                assert(dtot == (DnRes { ok: true, text: value@, end: lastpos }));
                                assert(st == WbSt { names: st0.names.push((nm, value@)), ..st0 });
                            }
                        }
//@@ after /defined_names\.push\(\(name, value\)\);\s*\}/
                    proof {
                        broadcast use lemma_ok_all;
                        if good && !handled {
                            let k = dn_name_idx(at, 0);
                            assert(at[k].ok && at[k].key == k_name());
                            assert(false);
                        }
                    }
//@@ end
//@@ endimpl


// =====================================================================================================================
// C17: table metadata.  ECMA-376 Part 1, 18.5.1.2 table (CT_Table): ref = the whole table including header and totals rows;
// headerRowCount (default 1) rows at the top are header rows, totalsRowCount (default 0) rows at the bottom are totals rows.
// The XML plumbing of read_table_metadata (relationship parts, attribute parsing) is NOT specified here: the function is under
// contract for absence of panics (C06) and for the one piece of arithmetic the property names: data range = ref minus header rows
// at the top and totals rows at the bottom.
// =====================================================================================================================
// rule R4: `format!(..)` (outside Verus) becomes an opaque string -- used for the part names read_table_metadata computes, about which
// nothing is claimed here
#[verifier::external_body] fn verif_opaque_string() -> String { String::new() }
// TRUSTED: stand-in for src/xlsx/mod.rs get_dimension (A1 range decoding; under contract in unit a1 / its C06 findings are registered there)
pub uninterp spec fn dim_of(s: Seq<u8>) -> Option<Dimensions>;
#[verifier::external_body]
pub(crate) fn get_dimension(dimension: &[u8]) -> (r: Result<Dimensions, XlsxError>)
    ensures r is Ok ==> dim_of(dimension@) == Some(r->Ok_0),
{ unimplemented!() }
//@@ impl src/xlsx/mod.rs InnerTableMetadata
//@@ fn src/xlsx/mod.rs InnerTableMetadata::new props=C17 ret=r
//@@ sig
    ensures
        //# C17.table_attribute_defaults
        r.header_row_count == 1 && r.totals_row_count == 0 && !r.insert_row,
//@@ end
//@@ endimpl

//@@ impl src/xlsx/mod.rs Xlsx
#[verifier::loop_isolation(false)]
//@@ fn src/xlsx/mod.rs Xlsx::read_table_metadata props=C17,C06 entry ret=r r4
//@@ sig
    requires
        //# C16.sheet_paths_under_xl  (data invariant of `sheets`, established by read_workbook; not a condition on the file)
        sheet_paths_under_xl(old(self).sheets@),
    ensures
        //# C07.load_tables_frame
        final(self).strings == old(self).strings && final(self).sheets == old(self).sheets && final(self).formats == old(self).formats
            && final(self).is_1904 == old(self).is_1904 && final(self).metadata == old(self).metadata
            && final(self).merged_regions == old(self).merged_regions && final(self).options == old(self).options
            && content(final(self).zip) == content(old(self).zip),
        //# C17.tables_loaded_or_unchanged
        r is Ok ==> final(self).tables is Some,
        r is Err ==> final(self).tables == old(self).tables,
//@@ replace /(a @ )?Attribute \{\s*key: QName\((b"[^"]*")\),\s*(value: v|\.\.),?\s*\}\s*=>/#0of8 Verus crashes on byte-string literal patterns: the slice is bound and compared in a guard (same test, same arm order); the literal, the other field pattern and a binding of the whole attribute are kept verbatim
\g<1>Attribute { key: QName(__k), \g<3> } if __k == \g<2> =>
//@@ replace /(a @ )?Attribute \{\s*key: QName\((b"[^"]*")\),\s*(value: v|\.\.),?\s*\}\s*=>/#1of8 (same)
\g<1>Attribute { key: QName(__k), \g<3> } if __k == \g<2> =>
//@@ replace /(a @ )?Attribute \{\s*key: QName\((b"[^"]*")\),\s*(value: v|\.\.),?\s*\}\s*=>/#2of8 (same)
\g<1>Attribute { key: QName(__k), \g<3> } if __k == \g<2> =>
//@@ replace /(a @ )?Attribute \{\s*key: QName\((b"[^"]*")\),\s*(value: v|\.\.),?\s*\}\s*=>/#3of8 (same)
\g<1>Attribute { key: QName(__k), \g<3> } if __k == \g<2> =>
//@@ replace /(a @ )?Attribute \{\s*key: QName\((b"[^"]*")\),\s*(value: v|\.\.),?\s*\}\s*=>/#4of8 (same)
\g<1>Attribute { key: QName(__k), \g<3> } if __k == \g<2> =>
//@@ replace /(a @ )?Attribute \{\s*key: QName\((b"[^"]*")\),\s*(value: v|\.\.),?\s*\}\s*=>/#5of8 (same)
\g<1>Attribute { key: QName(__k), \g<3> } if __k == \g<2> =>
//@@ replace /(a @ )?Attribute \{\s*key: QName\((b"[^"]*")\),\s*(value: v|\.\.),?\s*\}\s*=>/#6of8 (same)
\g<1>Attribute { key: QName(__k), \g<3> } if __k == \g<2> =>
//@@ replace /(a @ )?Attribute \{\s*key: QName\((b"[^"]*")\),\s*(value: v|\.\.),?\s*\}\s*=>/#7of8 (same)
\g<1>Attribute { key: QName(__k), \g<3> } if __k == \g<2> =>
//@@ replace /if let Attribute \{\s*key: QName\((b"[^"]*")\),\s*(value: v|\.\.),?\s*\} = a\s*\{([^{}]*)\}/ Verus crashes on byte-string literal patterns: the slice is bound by the `if let` and compared in a nested `if` (same test); literal, the other field pattern and body kept verbatim
if let Attribute { key: QName(__k), \g<2> } = a { if __k == \g<1> {\g<3>} }
//@@ replace /a\.map_err\((XlsxError::XmlAttr)\)\?/#0of2 Verus: "using a datatype constructor as a function value" unsupported; eta-expanded, same function
a.map_err(|e| -> (x: XlsxError) ensures x == \g<1>(e) { \g<1>(e) })?
//@@ replace /a\.map_err\((XlsxError::XmlAttr)\)\?/#1of2 (same)
a.map_err(|e| -> (x: XlsxError) ensures x == \g<1>(e) { \g<1>(e) })?
//@@ body
        broadcast use {axiom_cow_str_owned, axiom_str_index_req_to, axiom_str_index_req_from, axiom_str_index_from, axiom_pat_chars_str, axiom_iter_rem, axiom_into_rem, axiom_pat_occurs_char};
        proof { reveal_strlit("xl/"); }
//@@ r6 0 iter /&self\.sheets/ `<&Vec<T> as IntoIterator>::into_iter` is `iter()` (vstd specifies the latter)
self.sheets.iter()
//@@ loop 0
            invariant
                forall|j: int| 0 <= j < iter_rem(&__it0).len() ==> is_prefix("xl/"@, (#[trigger] iter_rem(&__it0)[j]).1@),
                self.strings == old(self).strings && self.sheets == old(self).sheets && self.formats == old(self).formats
                    && self.is_1904 == old(self).is_1904 && self.metadata == old(self).metadata && self.tables == old(self).tables
                    && self.merged_regions == old(self).merged_regions && self.options == old(self).options
                    && content(self.zip) == content(old(self).zip),
            decreases iter_rem(&__it0).len(),
//@@ r6 3
//@@ loop 3
                invariant
                self.strings == old(self).strings && self.sheets == old(self).sheets && self.formats == old(self).formats
                    && self.is_1904 == old(self).is_1904 && self.metadata == old(self).metadata && self.tables == old(self).tables
                    && self.merged_regions == old(self).merged_regions && self.options == old(self).options
                    && content(self.zip) == content(old(self).zip),
                decreases into_rem(&__it3).len(),
//@@ loop 1
                    invariant xml.events() == xml.events(),
                    decreases xml.left(),
//@@ loop 4
                    invariant xml.events() == xml.events(),
                    decreases xml.left(),
//@@ before /let last_folder_index = /
            proof {
                assert(is_prefix("xl/"@, sheet_path@));
                assert(sheet_path@.subrange(0, 3)[2] == '/');
                assert(sheet_path@[2] == '/');
                assert(sheet_path@.contains('/'));
            }
//@@ after /let mut dims = get_dimension\([^;]*;/
                let ghost d0 = dims;
                let ghost hdr = table_meta.header_row_count as int;
                let ghost tot = table_meta.totals_row_count as int;
                let ghost ins: int = if table_meta.insert_row { 1 } else { 0 };
//@@ before /new_tables\.push\(\(/
                proof {
                    //# C17.table_data_range_minus_header_and_totals_rows
                    assert(dims.start.0 == d0.start.0 + hdr && dims.start.1 == d0.start.1 && dims.end.0 == d0.end.0 - tot - ins && dims.end.1 == d0.end.1);
                }
//@@ end
//@@ endimpl

} // verus!
fn main() {}
