//@@ unit props=C16,C17,C07,C01,C06,C14
// Unit xlsxwb: workbook-level plumbing of the xlsx reader (src/xlsx/mod.rs), verbatim text, under contract against a GHOST MODEL of
// quick-xml and zip (assumptions A-xml / A-zip of DESIGN.md section 5).
#![feature(pattern)]
#![allow(unused_imports, dead_code, unused_variables, unused_mut, unused_assignments, unexpected_cfgs)]
use vstd::prelude::*;
use vstd::std_specs::cmp::PartialEqSpec;
use vstd::std_specs::iter::IteratorSpec;
use std::borrow::Cow;
use std::ops::Deref;
use std::cmp::{max, min};
use std::io::{Read, Seek};
use std::collections::BTreeMap;

verus! {

// ---- stand-ins for foreign error payload types (opaque; never inspected by the verified code)
pub mod quick_xml {
    pub struct Error;
    pub mod events { pub mod attributes { pub struct AttrError; } }
    pub mod encoding { pub struct EncodingError; }
}
pub mod zip { pub mod result { pub struct ZipError; } }
pub mod vba { pub struct VbaError; }
#[verifier::external_type_specification] #[verifier::external_body] pub struct ExIoError(std::io::Error);
#[verifier::external_type_specification] #[verifier::external_body] pub struct ExParseFloatError(std::num::ParseFloatError);
#[verifier::external_type_specification] #[verifier::external_body] pub struct ExParseIntError(std::num::ParseIntError);
#[verifier::external_trait_specification] pub trait ExRead { type ExternalTraitSpecificationFor: std::io::Read; }
#[verifier::external_trait_specification] pub trait ExSeek { type ExternalTraitSpecificationFor: std::io::Seek; }

//@@ item src/xlsx/mod.rs enum XlsxError
//@@ item src/lib.rs enum CellErrorType keep_attrs
//@@ item src/lib.rs struct Dimensions keep_attrs
//@@ item src/lib.rs enum SheetType
//@@ item src/lib.rs enum SheetVisible
//@@ item src/lib.rs struct Sheet
//@@ item src/lib.rs struct Metadata
//@@ item src/lib.rs enum HeaderRow keep_attrs
//@@ item src/datatype.rs enum ExcelDateTimeType keep_attrs
//@@ item src/datatype.rs struct ExcelDateTime keep_attrs
//@@ item src/datatype.rs enum Data keep_attrs
//@@ item src/datatype.rs enum DataRef keep_attrs
//@@ item src/formats.rs enum CellFormat
//@@ item src/lib.rs struct Table
//@@ item src/xlsx/mod.rs type Tables
//@@ item src/xlsx/mod.rs struct Xlsx cfg_off=picture
//@@ item src/xlsx/mod.rs struct XlsxOptions
//@@ item src/xlsx/mod.rs struct TableMetadata
//@@ item src/xlsx/mod.rs struct InnerTableMetadata

// =====================================================================================================================
// A-std: assumed specifications of std functions the verified text calls (one line of documented behaviour each)
// =====================================================================================================================
pub mod ax {
    use vstd::prelude::*;
    use vstd::std_specs::cmp::PartialEqSpec;
    // TRUSTED: A-std -- `<String as PartialEq<str>>::eq` compares the character sequences (this is what `&String == &str` resolves to)
    pub broadcast axiom fn axiom_string_eq_obeys(a: &String)
        ensures (#[trigger] a@).len() >= 0, <String as PartialEqSpec<str>>::obeys_eq_spec();
    pub broadcast axiom fn axiom_string_eq_str(a: &String, b: &str)
        ensures #[trigger] <String as PartialEqSpec<str>>::eq_spec(a, b) == (a@ == b@);
}
broadcast use {ax::axiom_string_eq_str, ax::axiom_string_eq_obeys};

// TRUSTED: (A-std) documented behaviour of `slice::Iter::find`: first element (in order) for which the predicate returns true.
// `iter_rem` names the elements the iterator has not yet yielded; it is tied to vstd's own `IteratorSpec::remaining` by `axiom_iter_rem`
// (a separate uninterpreted name is needed because a specification of an `Iterator` impl method may not mention the impl's own spec trait).
pub uninterp spec fn iter_rem<'a, T>(it: &std::slice::Iter<'a, T>) -> Seq<&'a T>;
#[verifier::external_body]
pub broadcast proof fn axiom_iter_rem<'a, T>(it: &std::slice::Iter<'a, T>)
    ensures #[trigger] iter_rem(it) == IteratorSpec::remaining(it) {}
/// the predicate returns false on the first n elements
pub closed spec fn rejects<'a, T, P: FnMut(&&'a T) -> bool>(rem: Seq<&'a T>, pred: P, n: int) -> bool {
    forall|j: int| 0 <= j < n && j < rem.len() ==> call_ensures(pred, (&#[trigger] rem[j],), false)
}
/// (proved) `rejects` read on the slice side: re-triggering on `s[i]`
pub broadcast proof fn lemma_rejects<'a, T, P: FnMut(&&'a T) -> bool>(rem: Seq<&'a T>, pred: P, n: int, s: Seq<T>, i: int)
    requires rejects(rem, pred, n), rem.len() == s.len(), forall|j: int| 0 <= j < s.len() ==> *(#[trigger] rem[j]) == s[j], 0 <= i < n, i < s.len(),
    ensures #![trigger rejects(rem, pred, n), s[i]] call_ensures(pred, (&&s[i],), false)
{
    assert(*rem[i] == s[i]);
}
pub assume_specification<'a, T, P: FnMut(&<std::slice::Iter<'a, T> as Iterator>::Item) -> bool>[ <std::slice::Iter<'a, T> as Iterator>::find::<P> ](it: &mut std::slice::Iter<'a, T>, pred: P) -> (r: Option<<std::slice::Iter<'a, T> as Iterator>::Item>)
    where std::slice::Iter<'a, T>: Sized
    ensures
        match r {
            Some(x) => exists|i: int| 0 <= i < iter_rem(old(it)).len() && x == #[trigger] iter_rem(old(it))[i] && call_ensures(pred, (&x,), true)
                && rejects(iter_rem(old(it)), pred, i),
            None => rejects(iter_rem(old(it)), pred, iter_rem(old(it)).len() as int),
        };

// TRUSTED: A-std -- `impl<T: Clone> ToOwned for T`: "to_owned" is `clone`
pub assume_specification<T: Clone>[ <T as std::borrow::ToOwned>::to_owned ](x: &T) -> (r: T)
    ensures call_ensures(<T as Clone>::clone, (x,), r);

// TRUSTED: `#[derive(Clone)]` / `#[derive(Default)]` + `#[default] Empty` on Data and DataRef (same text as in unit lazyrange)
pub assume_specification<'a>[ <DataRef<'a> as Default>::default ]() -> (r: DataRef<'a>) ensures r == DataRef::<'a>::Empty;
pub assume_specification[ <Data as Default>::default ]() -> (r: Data) ensures r == Data::Empty;
impl CellType for Data {}
impl<'a> CellType for DataRef<'a> {}

// =====================================================================================================================
// The `Range` API as this unit consumes it (C05): real items + spec functions + the ASSUMED contract of `Range::range`.
// Spec function names, shapes and clause text are those of units/range/unit.rs where `Range::new` etc. are proved and
// `Range::range` is checked bounded by Kani (harnesses range_window_*).
// =====================================================================================================================
//@@ item src/lib.rs trait "trait CellType"
//@@ item src/lib.rs struct Range

pub open spec fn lawful<T: CellType>() -> bool {
    &&& forall|a: T, b: T| call_ensures(T::clone, (&a,), b) ==> a == b
    &&& forall|a: T, b: T| call_ensures(T::default, (), a) && call_ensures(T::default, (), b) ==> a == b
}
pub open spec fn dflt<T: CellType>() -> T { choose|d: T| call_ensures(T::default, (), d) }

impl<T: CellType> Range<T> {
    pub closed spec fn h(&self) -> int { self.end.0 - self.start.0 + 1 }
    pub closed spec fn w(&self) -> int { self.end.1 - self.start.1 + 1 }
    /// representation invariant
    pub closed spec fn wf(&self) -> bool {
        self.inner@.len() == 0 || (self.start.0 <= self.end.0 && self.start.1 <= self.end.1
            && self.h() <= u32::MAX && self.w() <= u32::MAX && self.inner@.len() == self.h() * self.w())
    }
    pub closed spec fn nonempty(&self) -> bool { self.inner@.len() > 0 }
    pub closed spec fn lo(&self) -> (u32, u32) { self.start }
    pub closed spec fn hi(&self) -> (u32, u32) { self.end }
    /// absolute position (r, c) lies inside the rectangle
    pub closed spec fn has(&self, r: int, c: int) -> bool {
        self.nonempty() && self.start.0 <= r <= self.end.0 && self.start.1 <= c <= self.end.1
    }
    /// abstract view: value at absolute position (r, c) (meaningful where has(r, c))
    pub closed spec fn at(&self, r: int, c: int) -> T {
        self.inner@[(r - self.start.0) * self.w() + (c - self.start.1)]
    }
}
/// `r` is the window `src.range(s, e)` (C05: "bounds == (s, e); at(p) == src.at(p) where p in src, default elsewhere")
pub open spec fn window_of<T: CellType>(r: Range<T>, src: Range<T>, s: (u32, u32), e: (u32, u32)) -> bool {
    &&& r.wf()
    &&& r.nonempty() && r.lo() == s && r.hi() == e
    &&& (lawful::<T>() ==> forall|i: int, j: int| r.has(i, j) ==> r.at(i, j) == (if src.has(i, j) { src.at(i, j) } else { dflt::<T>() }))
}

//@@ impl src/lib.rs Range
// ASSUMED here (external_body), PROVED in unit range: Range::new, Range::width (present only so that the text of `range` compiles)
//@@ fn src/lib.rs Range::new props=C05 ret=r external_body
//@@ sig
    requires start.0 <= end.0, start.1 <= end.1,
//@@ end
//@@ fn src/lib.rs Range::is_empty props=C05 ret=r
//@@ sig
    ensures r == !self.nonempty(),
//@@ end
//@@ fn src/lib.rs Range::width props=C05 ret=r external_body
//@@ sig
    requires self.wf(),
//@@ end
// TRUSTED (external_body; iterator chain chunks/take/skip/zip/clone_from_slice is outside Verus): Range::range -- clause text of unit range
// (C05.range_wf / range_bounds / range_values), there checked bounded by Kani harnesses range_window_*.
//@@ fn src/lib.rs Range::range props=C05 ret=r external_body
//@@ sig
    requires
        self.wf(),
        // precondition of Range::new (undocumented for `range`): corners ordered component-wise ...
        //# C06.range_window_rows_ordered
        start.0 <= end.0,
        //# C06.range_window_cols_ordered
        start.1 <= end.1,
        // ... and the u32 cell count of Range::new does not overflow
        //# C06.range_window_cell_count
        (end.0 - start.0 + 1) * (end.1 - start.1 + 1) <= u32::MAX,
    ensures
        window_of(r, *self, start, end),
//@@ end
//@@ endimpl

// =====================================================================================================================
// A-xml: GHOST MODEL OF quick-xml 0.37 (configuration set by xlsx::xml_reader: trim_text(false), expand_empty_elements = true,
// check_end_names = false).  Everything in this section is TRUSTED.  A reader owns the ghost sequence `events()` of the results
// its successive `read_event_into` calls deliver, and a position `pos()`.
// =====================================================================================================================
// TRUSTED: A-xml -- quick_xml::Reader<BufReader<ZipFile>> (type alias XlReader of src/xlsx/mod.rs)
#[verifier::external_body]
pub struct XlReader<'a> { _p: core::marker::PhantomData<&'a ()> }

// =====================================================================================================================
// A-zip: the zip container.  TRUSTED: `ZipArchive` is a stand-in for zip::read::ZipArchive.  `content()` is the logical content
// of the archive (part name -> bytes); reading a part never changes it ("the content returned for a name depends only on the
// archive and the name, no dependence on earlier reads").
// =====================================================================================================================
#[verifier::external_body]
#[verifier::accept_recursive_types(RS)]
pub struct ZipArchive<RS> { _p: core::marker::PhantomData<RS> }
/// logical content of an archive (abstract)
#[verifier::external_body]
pub ghost struct ZipContent { _p: u8 }
pub uninterp spec fn content<RS>(zip: ZipArchive<RS>) -> ZipContent;
/// the archive has a part with this name (compared ASCII-case-insensitively: xml_reader looks names up with eq_ignore_ascii_case)
pub uninterp spec fn has_part(c: ZipContent, path: Seq<char>) -> bool;
/// what a reader opened on that part is: Err (zip-level error) or the reader's source identity
pub uninterp spec fn part_src(c: ZipContent, path: Seq<char>) -> Option<XmlSrc>;
/// identity of the XML source a reader was opened on (abstract; unit xlsxxml models it as the event sequence)
#[verifier::external_body]
pub ghost struct XmlSrc { _p: u8 }
impl<'a> XlReader<'a> {
    pub uninterp spec fn src(&self) -> XmlSrc;
    pub uninterp spec fn pos(&self) -> nat;
}
// TRUSTED: A-zip, A-xml -- src/xlsx/mod.rs xml_reader (a case-insensitive `file_names().find(..)` + `by_name` + reader configuration) is
// not under contract here: None iff the archive has no such part; the reader it returns is a function of the archive content and the
// part name only, positioned at the start; the archive content is unchanged
#[verifier::external_body]
fn xml_reader<'a, RS: Read + Seek>(zip: &'a mut ZipArchive<RS>, path: &str) -> (r: Option<Result<XlReader<'a>, XlsxError>>)
    ensures
        content(*final(zip)) == content(*old(zip)),
        r is None <==> !has_part(content(*old(zip)), path@),
        r is Some && r->Some_0 is Ok ==> part_src(content(*old(zip)), path@) == Some((r->Some_0->Ok_0).src()) && (r->Some_0->Ok_0).pos() == 0,
        r is Some && r->Some_0 is Err ==> part_src(content(*old(zip)), path@) is None,
{ unimplemented!() }

// TRUSTED: stand-in for src/xlsx/cells_reader.rs XlsxCellReader (the cell iterator; `next_cell` & co are under contract in unit xlsxxml /
// lazyrange).  Ghost accessors name what the reader was built from.
#[verifier::external_body]
pub struct XlsxCellReader<'a> { _p: core::marker::PhantomData<&'a ()> }
impl<'a> XlsxCellReader<'a> {
    pub uninterp spec fn xml_src(&self) -> XmlSrc;
    pub uninterp spec fn strings(&self) -> Seq<String>;
    pub uninterp spec fn formats(&self) -> Seq<CellFormat>;
    pub uninterp spec fn is_1904(&self) -> bool;
    // TRUSTED: signature of XlsxCellReader::new (reads the prologue of the sheet part up to <sheetData>); whether it fails depends on
    // the XML source only; the reader remembers exactly its four arguments
    #[verifier::external_body]
    pub fn new(xml: XlReader<'a>, strings: &'a [String], formats: &'a [CellFormat], is_1904: bool) -> (r: Result<XlsxCellReader<'a>, XlsxError>)
        ensures
            r is Ok ==> (r->Ok_0).xml_src() == xml.src() && (r->Ok_0).strings() == strings@ && (r->Ok_0).formats() == formats@
                && (r->Ok_0).is_1904() == is_1904,
            r is Ok <==> prologue_ok(xml.src()),
    { unimplemented!() }
}
/// the prologue of the sheet part (up to `<sheetData>`) is readable (abstract)
pub uninterp spec fn prologue_ok(s: XmlSrc) -> bool;

// =====================================================================================================================
// State of an opened workbook (frame conditions quantify over the REAL fields of struct Xlsx, extracted above)
// =====================================================================================================================
impl<RS> Xlsx<RS> {
    pub closed spec fn g_zip(&self) -> ZipArchive<RS> { self.zip }
    pub closed spec fn g_strings(&self) -> Vec<String> { self.strings }
    pub closed spec fn g_sheets(&self) -> Vec<(String, String)> { self.sheets }
    pub closed spec fn g_tables(&self) -> Tables { self.tables }
    pub closed spec fn g_formats(&self) -> Vec<CellFormat> { self.formats }
    pub closed spec fn g_1904(&self) -> bool { self.is_1904 }
    pub closed spec fn g_meta(&self) -> Metadata { self.metadata }
    pub closed spec fn g_merged(&self) -> Option<Vec<(String, String, Dimensions)>> { self.merged_regions }
    /// the header-row option in force
    pub closed spec fn g_opts(&self) -> XlsxOptions { self.options }
    /// all loaded state except the option: every field of the struct, the archive through its logical content
    pub open spec fn loaded(&self) -> (ZipContent, Vec<String>, Vec<(String, String)>, Tables, Vec<CellFormat>, bool, Metadata, Option<Vec<(String, String, Dimensions)>>) {
        (content(self.g_zip()), self.g_strings(), self.g_sheets(), self.g_tables(), self.g_formats(), self.g_1904(), self.g_meta(), self.g_merged())
    }
    /// the tables are loaded and `name` is (exactly) the display name of one of them
    pub open spec fn has_table(&self, name: Seq<char>) -> bool {
        self.g_tables() is Some && exists|i: int| 0 <= i < self.g_tables()->Some_0@.len() && (#[trigger] self.g_tables()->Some_0@[i]).0@ == name
    }
    /// `name` is (exactly: same characters, same case) the name of one of the sheets listed in workbook.xml
    pub open spec fn knows(&self, name: Seq<char>) -> bool { exists|i: int| 0 <= i < self.g_sheets()@.len() && (#[trigger] self.g_sheets()@[i]).0@ == name }
}

//@@ impl src/xlsx/mod.rs Xlsx nth=1
//@@ fn src/xlsx/mod.rs Xlsx::worksheet_cells_reader props=C07,C16 entry ret=r deref_pat
//@@ sig
    ensures
        //# C07.unknown_sheet_is_error
        !old(self).knows(name@) ==> r is Err && r->Err_0 is WorksheetNotFound,
        //# C07.cells_reader_frame
        final(self).loaded() == old(self).loaded(),
        //# C07.cells_reader_keeps_header_row_option
        final(self).g_opts() == old(self).g_opts(),
        //# C07.cells_reader_from_named_sheet_only
        r is Ok ==> exists|i: int| 0 <= i < old(self).g_sheets()@.len() && (#[trigger] old(self).g_sheets()@[i]).0@ == name@
            && (forall|j: int| 0 <= j < i ==> (#[trigger] old(self).g_sheets()@[j]).0@ != name@)
            && part_src(content(old(self).g_zip()), old(self).g_sheets()@[i].1@) == Some((r->Ok_0).xml_src()),
        //# C07.cells_reader_strings_formats
        r is Ok ==> (r->Ok_0).strings() == old(self).g_strings()@ && (r->Ok_0).formats() == old(self).g_formats()@,
        //# C16.date_system_flag_reaches_cells
        r is Ok ==> (r->Ok_0).is_1904() == old(self).g_1904(),
        //# C07.cells_reader_missing_part_is_error
        (forall|i: int| 0 <= i < old(self).g_sheets()@.len() && (#[trigger] old(self).g_sheets()@[i]).0@ == name@
            ==> !has_part(content(old(self).g_zip()), old(self).g_sheets()@[i].1@)) ==> r is Err && r->Err_0 is WorksheetNotFound,
//@@ closure 0
    -> (res: bool) ensures res == (__c0_0.0@ == name@)
//@@ closure 1
    -> (e: XlsxError) ensures e is WorksheetNotFound
//@@ closure 2
    -> (e: XlsxError) ensures e is WorksheetNotFound
//@@ body
        broadcast use {axiom_iter_rem, lemma_rejects};
        let ghost sh = self.sheets@;
//@@ before /let xml = /
        proof {
            assert(exists|k: int| 0 <= k < sh.len() && (#[trigger] sh[k]).1 == *path && sh[k].0@ == name@ && forall|j: int| 0 <= j < k ==> (#[trigger] sh[j]).0@ != name@);
            assert(sh == old(self).g_sheets()@);
            assert(old(self).knows(name@));   // witness sh[k]
        }
//@@ end
//@@ endimpl


// =====================================================================================================================
// C17 / C07: tables.  `table_by_name(_ref)` = metadata entry with exactly this name + the sheet's values over the stored dimensions.
// =====================================================================================================================
pub type Loaded = (ZipContent, Vec<String>, Vec<(String, String)>, Tables, Vec<CellFormat>, bool, Metadata, Option<Vec<(String, String, Dimensions)>>);
/// what reading sheet `name` yields for a workbook in this loaded state under this header-row option (abstract here: the functions are
/// under contract in unit lazyrange; "each result is a function only of the file, the call's arguments and the header-row option in force")
pub uninterp spec fn ws_range(st: Loaded, opts: XlsxOptions, name: Seq<char>) -> Result<Range<Data>, XlsxError>;
pub uninterp spec fn ws_range_ref<'a>(st: Loaded, opts: XlsxOptions, name: Seq<char>) -> Result<Range<DataRef<'a>>, XlsxError>;
pub open spec fn strs(v: Seq<String>) -> Seq<Seq<char>> { v.map_values(|s: String| s@) }

// Stand-ins for the traits `Reader` / `ReaderRef` of src/lib.rs, restricted to the methods the verified text calls (signatures copied)
pub trait Reader<RS>: Sized where RS: Read + Seek {
    type Error;
    fn worksheet_range(&mut self, name: &str) -> Result<Range<Data>, Self::Error>;
}
pub trait ReaderRef<RS>: Reader<RS> where RS: Read + Seek {
    fn worksheet_range_ref<'a>(&'a mut self, name: &str) -> Result<Range<DataRef<'a>>, Self::Error>;
}
impl<RS: Read + Seek> Reader<RS> for Xlsx<RS> {
    type Error = XlsxError;
    // TRUSTED: callee contract of `Reader::worksheet_range` for Xlsx (the real text is under contract in unit lazyrange: result; the FRAME
    // follows from the frame of `worksheet_cells_reader` proved above -- the function touches `self` only through that call and a read of
    // `self.options.header_row`): the result is a function of the loaded state, the option and the name; a returned range is well-formed
    #[verifier::external_body]
    fn worksheet_range(&mut self, name: &str) -> (r: Result<Range<Data>, XlsxError>)
        ensures
            final(self).loaded() == old(self).loaded(),
            final(self).g_opts() == old(self).g_opts(),
            r == ws_range(old(self).loaded(), old(self).g_opts(), name@),
            r is Ok ==> (r->Ok_0).wf(),
    { unimplemented!() }
}
impl<RS: Read + Seek> ReaderRef<RS> for Xlsx<RS> {
    // TRUSTED: callee contract of `ReaderRef::worksheet_range_ref` for Xlsx (same remarks)
    #[verifier::external_body]
    fn worksheet_range_ref<'a>(&'a mut self, name: &str) -> (r: Result<Range<DataRef<'a>>, XlsxError>)
        ensures
            final(self).loaded() == old(self).loaded(),
            final(self).g_opts() == old(self).g_opts(),
            r == ws_range_ref::<'a>(old(self).loaded(), old(self).g_opts(), name@),
            r is Ok ==> (r->Ok_0).wf(),
    { unimplemented!() }
}

/// dimensions a window can be cut with (precondition of Range::new / Range::range): corners ordered component-wise, u32 cell count
pub open spec fn dims_ok(d: Dimensions) -> bool {
    d.start.0 <= d.end.0 && d.start.1 <= d.end.1 && (d.end.0 - d.start.0 + 1) * (d.end.1 - d.start.1 + 1) <= u32::MAX
}

//@@ impl src/xlsx/mod.rs Xlsx
//@@ fn src/xlsx/mod.rs Xlsx::get_table_meta props=C17 ret=r
//@@ sig
    requires
        //# C17.tables_loaded  (documented: "Tables must be loaded before they are referenced")
        self.g_tables() is Some,
    ensures
        //# C17.unknown_table_is_error
        !self.has_table(table_name@) ==> r is Err && r->Err_0 is TableNotFound,
        //# C17.known_table_is_found
        self.has_table(table_name@) ==> r is Ok,
        //# C17.table_meta_copied
        r is Ok ==> exists|i: int| 0 <= i < self.g_tables()->Some_0@.len() && (#[trigger] self.g_tables()->Some_0@[i]).0@ == table_name@
            && (r->Ok_0).name@ == self.g_tables()->Some_0@[i].0@ && (r->Ok_0).sheet_name@ == self.g_tables()->Some_0@[i].1@
            && (forall|j: int| 0 <= j < i ==> (#[trigger] self.g_tables()->Some_0@[j]).0@ != table_name@)
            && strs((r->Ok_0).columns@) == strs(self.g_tables()->Some_0@[i].2@) && (r->Ok_0).dimensions == self.g_tables()->Some_0@[i].3,
//@@ closure 0
    -> (res: bool) ensures res == (__c0_0.0@ == table_name@)
//@@ closure 1
    -> (e: XlsxError) ensures e is TableNotFound
//@@ body
        broadcast use {axiom_iter_rem, lemma_rejects};
        let ghost tb = self.tables->Some_0@;
//@@ before /let name = /
        proof {
            assert(exists|k: int| 0 <= k < tb.len() && (#[trigger] tb[k]) == *match_table_meta && tb[k].0@ == table_name@ && forall|j: int| 0 <= j < k ==> (#[trigger] tb[j]).0@ != table_name@);
        }
//@@ end
//@@ endimpl

} // verus!
fn main() {}
