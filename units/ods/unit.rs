//@@ unit props=C04,C06,C20
// Unit ods: src/ods.rs get_range (C04 mechanism), verbatim text.
#![allow(unused_imports, dead_code, unused_variables, unused_mut, unused_assignments)]
use vstd::prelude::*;
use std::slice::Windows;
use std::iter::{Enumerate, Skip, Take, Zip};

verus! {

//@@ item src/lib.rs trait "trait CellType"
//@@ item src/lib.rs struct Range

// TRUSTED: `#[derive(Default)]` on `struct Range<T>` (src/lib.rs; the derive expansion itself is outside Verus' subset):
// every field is its type's default -- (0, 0), (0, 0), empty Vec.
impl<T: Default> Default for Range<T> {
    fn default() -> (r: Self)
        ensures r.start == (0u32, 0u32), r.end == (0u32, 0u32), r.inner@.len() == 0,
    {
        Range { start: (0, 0), end: (0, 0), inner: Vec::new() }
    }
}

//@@ fn src/ods.rs is_empty_row ret=r
//@@ end

//@@ fn src/ods.rs get_range props=C04 ret=r
//@@ r6 0
//@@ r6 1
//@@ end

} // verus!
fn main() {}
