//@@ unit props=C04,C06,C20,C14
// Unit ods: src/ods.rs, verbatim text: get_range (the mechanism of C04) and is_empty_row; read_row (cell-repeat logic) and
// check_for_password_protected (C20) against a ghost model of quick-xml / zip (A-xml, A-zip); get_datatype is NOT under proof.
#![allow(unused_imports, dead_code, unused_variables, unused_mut, unused_assignments)]
use vstd::prelude::*;
use vstd::std_specs::iter::IteratorSpec;
use vstd::std_specs::cmp::PartialEqSpec;
use std::slice::{Windows, Iter};
use std::iter::{Enumerate, Skip, Take, Zip};
use std::borrow::Cow;
use std::ops::Deref;
use std::io::{Read, Seek};

verus! {

// TRUSTED: 64-bit target (usize is 8 bytes)
global size_of usize == 8;

//@@ item src/lib.rs struct Range

// TRUSTED: `#[derive(Default)]` on `struct Range<T>` (src/lib.rs; the derive expansion itself is outside Verus' subset):
// every field is its type's default -- (0, 0), (0, 0), empty Vec.
impl<T> Range<T> {
    pub closed spec fn lo(&self) -> (u32, u32) { self.start }
    pub closed spec fn hi(&self) -> (u32, u32) { self.end }
    pub closed spec fn data(&self) -> Seq<T> { self.inner@ }
}
impl<T: Default> Default for Range<T> {
    fn default() -> (r: Self)
        ensures r.lo() == (0u32, 0u32), r.hi() == (0u32, 0u32), r.data().len() == 0,
    {
        Range { start: (0, 0), end: (0, 0), inner: Vec::new() }
    }
}

// ---------------------------------------------------------------------------------------------------------------
// cell type: the default value, and the laws every CellType of the crate (Data, DataRef, String, usize) obeys
// ---------------------------------------------------------------------------------------------------------------
pub open spec fn dflt<T: Default>() -> T { choose|d: T| call_ensures(T::default, (), d) }
// TRUSTED (as a hypothesis of the functional clauses, never assumed silently): `clone` returns an equal value, `default` is
// deterministic, `==` is structural equality.
pub open spec fn lawful<T: Default + Clone + PartialEq>() -> bool {
    &&& forall|a: T, b: T| call_ensures(T::clone, (&a,), b) ==> a == b
    &&& forall|a: T, b: T| call_ensures(T::default, (), a) && call_ensures(T::default, (), b) ==> a == b
    &&& T::obeys_eq_spec()
    &&& forall|a: T, b: T| #[trigger] a.eq_spec(&b) <==> (a == b)
}

// ---------------------------------------------------------------------------------------------------------------
// assumed std behaviour (A-std / A-chunks)
// ---------------------------------------------------------------------------------------------------------------
#[verifier::external_type_specification] #[verifier::external_body] #[verifier::reject_recursive_types(T)]
pub struct ExWindows<'a, T: 'a>(Windows<'a, T>);
#[verifier::external_type_specification] #[verifier::external_body] #[verifier::reject_recursive_types(I)]
pub struct ExEnumerate<I>(Enumerate<I>);

/// `r` is the sequence of all contiguous windows of length n of s, in order (empty if s is shorter than n)
pub open spec fn win_ok<T>(s: Seq<T>, n: int, r: Seq<&[T]>) -> bool {
    r.len() == (if s.len() >= n { s.len() - n + 1 } else { 0 })
    && forall|i: int| 0 <= i < r.len() ==> (#[trigger] r[i])@ == s.subrange(i, i + n)
}
// TRUSTED: core::slice::windows doc: "Returns an iterator over all contiguous windows of length size. The windows overlap.
// If the slice is shorter than size, the iterator returns no values. Panics if size is zero."
pub assume_specification<'a, T>[ <[T]>::windows ](s: &'a [T], n: usize) -> (r: Windows<'a, T>)
    requires n != 0,
    ensures r.obeys_prophetic_iter_laws(), win_ok(s@, n as int, r.remaining());

/// `s` is the sequence of values behind the references `rem`
pub open spec fn vals_of<T>(rem: Seq<&T>, s: Seq<T>) -> bool {
    rem.len() == s.len() && forall|i: int| 0 <= i < rem.len() ==> *(#[trigger] rem[i]) == s[i]
}
// TRUSTED: Iterator::position doc: "Searches for an element in an iterator, returning its index. [...] applies the closure to
// each element; if one of them returns true, position() returns Some(index). If all of them return false, it returns None.
// position() is short-circuiting". (Stated over any value sequence `s` behind the remaining references so that callers
// holding only the slice can use it.)
pub assume_specification<'a, T, P: FnMut(&'a T) -> bool>[ <Iter<'a, T> as Iterator>::position::<P> ](it: &mut Iter<'a, T>, p: P) -> (r: Option<usize>)
    where Iter<'a, T>: Sized
    requires
        forall|x: &'a T| call_requires(p, (x,)),
    ensures
        r is Some ==> r->Some_0 < old(it).remaining().len() && call_ensures(p, (old(it).remaining()[r->Some_0 as int],), true),
        forall|s: Seq<T>, j: int| vals_of(old(it).remaining(), s) && 0 <= j < s.len() && (r is Some ==> j < r->Some_0)
            ==> call_ensures(p, (&#[trigger] s[j],), false);
// TRUSTED: the body is the real expression `row.iter().rposition(closure)`, moved into a function: `slice::Iter::rposition` carries the
// where-clause `Self: ExactSizeIterator + DoubleEndedIterator`, with which Verus resolves the path to the (unspecifiable) provided trait
// method.  Iterator::rposition doc: "Searches for an element in an iterator from the right, returning its index. [...] if one of them
// returns true, then rposition() returns Some(index). If all of them return false, it returns None. rposition() is short-circuiting".
#[verifier::external_body]
fn verif_rposition<'a, T, P: FnMut(&'a T) -> bool>(s: &'a [T], p: P) -> (r: Option<usize>)
    requires
        forall|x: &'a T| call_requires(p, (x,)),
    ensures
        r is Some ==> r->Some_0 < s@.len() && call_ensures(p, (&s@[r->Some_0 as int],), true),
        forall|j: int| 0 <= j < s@.len() && (r is Some ==> j > r->Some_0) ==> call_ensures(p, (&#[trigger] s@[j],), false),
{
    s.iter().rposition(p)
}

/// sum of the first n elements
pub open spec fn rep_sum(s: Seq<usize>, n: int) -> int
    decreases n
{
    if n <= 0 { 0 } else { rep_sum(s, n - 1) + s[n - 1] }
}
pub open spec fn imin(a: int, b: int) -> int { if a < b { a } else { b } }

// TRUSTED: the body is the real expression `rows_repeats.iter().take(i).sum::<usize>()`, moved into a function because Verus has no
// `assume_specification` for provided trait methods (`Iterator::sum`).  Iterator::take doc: "yields the first n elements, or fewer if
// the underlying iterator ends sooner"; Iterator::sum doc: "Sums the elements of an iterator. [...] When calling sum() and a primitive
// integer type is being returned, this method will panic if the computation overflows and overflow checks are enabled."
#[verifier::external_body]
fn verif_sum_take(s: &[usize], n: usize) -> (r: usize)
    requires
        rep_sum(s@, imin(n as int, s@.len() as int)) <= usize::MAX,
    ensures
        r == rep_sum(s@, imin(n as int, s@.len() as int)),
{
    s.iter().take(n).sum::<usize>()
}

/// `rem` = the windows of length n of s from window k on, paired with their indices
pub open spec fn enum_win_ok<T>(s: Seq<T>, n: int, k: int, rem: Seq<(usize, &[T])>) -> bool {
    rem.len() == (if s.len() >= n { s.len() - n + 1 } else { 0 }) - k
    && forall|j: int| 0 <= j < rem.len() ==> (#[trigger] rem[j]).0 == k + j && rem[j].1@ == s.subrange(k + j, k + j + n)
}
// TRUSTED: the body is the real expression `cols.windows(2).enumerate()`, moved into a function because Verus has no
// `assume_specification` for provided trait methods (`Iterator::enumerate`).  Iterator::enumerate doc: "Creates an iterator which gives
// the current iteration count as well as the next value. The iterator returned yields pairs (i, val)"; windows: see above.
#[verifier::external_body]
fn verif_windows_enumerate<'a, T>(s: &'a [T], n: usize) -> (r: Enumerate<Windows<'a, T>>)
    requires n != 0,
    ensures r.obeys_prophetic_iter_laws(), enum_win_ok(s@, n as int, 0, r.remaining()),
{
    s.windows(n).enumerate()
}


// ---------------------------------------------------------------------------------------------------------------
// ORACLE of C04, written from the property: physical rows, repeat counts, the logical grid
// ---------------------------------------------------------------------------------------------------------------
/// what read_table hands to get_range: `cols[i]..cols[i+1]` delimits physical row i inside `cells`, one repeat count per row
pub open spec fn wf_shape<T>(cs: Seq<T>, co: Seq<usize>, rp: Seq<usize>) -> bool {
    &&& co.len() == rp.len() + 1
    &&& forall|i: int, j: int| 0 <= i <= j < co.len() ==> co[i] <= co[j]
    &&& co[co.len() - 1] <= cs.len()
}
pub open spec fn rlen(co: Seq<usize>, i: int) -> int { co[i + 1] - co[i] }
/// physical cell (i, c) exists and is not the default value
pub open spec fn nd_at<T: Default>(cs: Seq<T>, co: Seq<usize>, i: int, c: int) -> bool {
    0 <= c < rlen(co, i) && cs[co[i] + c] != dflt::<T>()
}
pub open spec fn blank_row<T: Default>(cs: Seq<T>, co: Seq<usize>, i: int) -> bool { forall|c: int| !nd_at(cs, co, i, c) }

/// logical row l is one of the copies of physical row i
pub open spec fn in_phys(rp: Seq<usize>, i: int, l: int) -> bool { 0 <= i < rp.len() && rep_sum(rp, i) <= l < rep_sum(rp, i + 1) }
pub open spec fn phys_of(rp: Seq<usize>, l: int) -> int { choose|i: int| in_phys(rp, i, l) }
/// THE LOGICAL GRID: value at absolute position (l, c) -- the cell of the physical row that logical row l is a copy of,
/// the default value beyond the end of that row or beyond the last row
pub open spec fn lg<T: Default>(cs: Seq<T>, co: Seq<usize>, rp: Seq<usize>, l: int, c: int) -> T {
    let i = phys_of(rp, l);
    if in_phys(rp, i, l) && 0 <= c < rlen(co, i) { cs[co[i] + c] } else { dflt::<T>() }
}
pub open spec fn nd<T: Default>(cs: Seq<T>, co: Seq<usize>, rp: Seq<usize>, l: int, c: int) -> bool { lg(cs, co, rp, l, c) != dflt::<T>() }
/// the grid of a sheet: 2^20 rows, 2^14 columns (the limits of LibreOffice Calc and of Excel)
pub open spec fn grid_rows() -> int { 1_048_576 }
pub open spec fn grid_cols() -> int { 16_384 }
/// what read_table checks before it hands the rows to get_range: repeat counts are positive (ODF 1.2 19.676: positiveInteger), and the
/// sheet stays within the grid (so it fits the u32 coordinates of Range)
pub open spec fn hyp<T>(cs: Seq<T>, co: Seq<usize>, rp: Seq<usize>) -> bool {
    &&& reps_pos(rp)
    &&& rep_sum(rp, rp.len() as int) <= grid_rows()
    &&& cols_in_grid(co)
}
pub open spec fn cols_in_grid(co: Seq<usize>) -> bool { forall|i: int| 0 <= i < co.len() - 1 ==> #[trigger] rlen(co, i) <= grid_cols() }
pub open spec fn reps_pos(rp: Seq<usize>) -> bool { forall|i: int| 0 <= i < rp.len() ==> #[trigger] rp[i] >= 1 }
pub open spec fn row_has_nd<T: Default>(cs: Seq<T>, co: Seq<usize>, rp: Seq<usize>, l: int) -> bool { exists|c: int| nd(cs, co, rp, l, c) }
pub open spec fn col_has_nd<T: Default>(cs: Seq<T>, co: Seq<usize>, rp: Seq<usize>, c: int) -> bool { exists|l: int| nd(cs, co, rp, l, c) }

/// one row of the expected result: columns c0..=c1 of logical row l
pub open spec fn erow<T: Default>(cs: Seq<T>, co: Seq<usize>, rp: Seq<usize>, c0: int, c1: int, l: int) -> Seq<T> {
    Seq::new((c1 + 1 - c0) as nat, |j: int| lg(cs, co, rp, l, c0 + j))
}
/// the expected row-major content for logical rows l0..l1 (exclusive), columns c0..=c1
pub open spec fn ecells<T: Default>(cs: Seq<T>, co: Seq<usize>, rp: Seq<usize>, c0: int, c1: int, l0: int, l1: int) -> Seq<T>
    decreases l1 - l0
{
    if l1 <= l0 { Seq::empty() } else { ecells(cs, co, rp, c0, c1, l0, l1 - 1) + erow(cs, co, rp, c0, c1, l1 - 1) }
}
/// columns c0..=c1 of physical row i, padded with the default value
pub open spec fn prow_e<T: Default>(cs: Seq<T>, co: Seq<usize>, i: int, c0: int, c1: int) -> Seq<T> {
    Seq::new((c1 + 1 - c0) as nat, |j: int| if c0 + j < rlen(co, i) { cs[co[i] + c0 + j] } else { dflt::<T>() })
}

//@@ props C04
proof fn lemma_rep_sum_mono(rp: Seq<usize>, a: int, b: int)
    requires 0 <= a <= b <= rp.len(),
    ensures rep_sum(rp, a) <= rep_sum(rp, b), rep_sum(rp, a) >= 0,
    decreases b,
{
    if a < b { lemma_rep_sum_mono(rp, a, b - 1); }
    else if a > 0 { lemma_rep_sum_mono(rp, a - 1, a - 1); }
}
proof fn lemma_rep_sum_ge(rp: Seq<usize>, a: int, b: int)
    requires 0 <= a <= b <= rp.len(), reps_pos(rp),
    ensures rep_sum(rp, b) - rep_sum(rp, a) >= b - a,
    decreases b,
{
    if a < b { lemma_rep_sum_ge(rp, a, b - 1); assert(rp[b - 1] >= 1); }
}
proof fn lemma_phys_unique(rp: Seq<usize>, i: int, l: int)
    requires in_phys(rp, i, l),
    ensures phys_of(rp, l) == i,
{
    let j = phys_of(rp, l);
    assert(in_phys(rp, j, l));
    if j < i { lemma_rep_sum_mono(rp, j + 1, i); }
    if i < j { lemma_rep_sum_mono(rp, i + 1, j); }
}
proof fn lemma_lg_phys<T: Default>(cs: Seq<T>, co: Seq<usize>, rp: Seq<usize>, i: int, l: int, c: int)
    requires in_phys(rp, i, l),
    ensures
        lg(cs, co, rp, l, c) == (if 0 <= c < rlen(co, i) { cs[co[i] + c] } else { dflt::<T>() }),
        nd(cs, co, rp, l, c) <==> nd_at(cs, co, i, c),
{
    lemma_phys_unique(rp, i, l);
}
proof fn lemma_nd_phys<T: Default>(cs: Seq<T>, co: Seq<usize>, rp: Seq<usize>, l: int, c: int)
    requires nd(cs, co, rp, l, c),
    ensures in_phys(rp, phys_of(rp, l), l), nd_at(cs, co, phys_of(rp, l), c),
{
}
/// a logical row between the first copy of physical row a and the last copy of physical row b - 1 is a copy of one of them
proof fn lemma_find_phys(rp: Seq<usize>, a: int, b: int, l: int) -> (i: int)
    requires 0 <= a <= b <= rp.len(), rep_sum(rp, a) <= l < rep_sum(rp, b),
    ensures a <= i < b, in_phys(rp, i, l),
    decreases b,
{
    if l >= rep_sum(rp, b - 1) { b - 1 } else { lemma_find_phys(rp, a, b - 1, l) }
}
proof fn lemma_erow_phys<T: Default>(cs: Seq<T>, co: Seq<usize>, rp: Seq<usize>, c0: int, c1: int, i: int, l: int)
    requires in_phys(rp, i, l), 0 <= c0,
    ensures erow(cs, co, rp, c0, c1, l) =~= prow_e(cs, co, i, c0, c1),
{
    let a = erow(cs, co, rp, c0, c1, l);
    let b = prow_e(cs, co, i, c0, c1);
    assert(a.len() == b.len());
    assert forall|j: int| 0 <= j < a.len() implies a[j] == b[j] by {
        lemma_lg_phys(cs, co, rp, i, l, c0 + j);
        assert(a[j] == lg(cs, co, rp, l, c0 + j));
        assert(b[j] == (if c0 + j < rlen(co, i) { cs[co[i] + c0 + j] } else { dflt::<T>() }));
    }
    assert(a =~= b);
}
proof fn lemma_ecells<T: Default>(cs: Seq<T>, co: Seq<usize>, rp: Seq<usize>, c0: int, c1: int, l0: int, l1: int)
    requires l0 <= l1, c0 <= c1,
    ensures
        ecells(cs, co, rp, c0, c1, l0, l1).len() == (l1 - l0) * (c1 + 1 - c0),
        forall|l: int, j: int| l0 <= l < l1 && 0 <= j < c1 + 1 - c0 ==>
            ecells(cs, co, rp, c0, c1, l0, l1)[#[trigger] ((l - l0) * (c1 + 1 - c0) + j)] == lg(cs, co, rp, l, c0 + j),
    decreases l1 - l0,
{
    let w = c1 + 1 - c0;
    if l1 > l0 {
        lemma_ecells(cs, co, rp, c0, c1, l0, l1 - 1);
        let prev = ecells(cs, co, rp, c0, c1, l0, l1 - 1);
        let last = erow(cs, co, rp, c0, c1, l1 - 1);
        assert((l1 - l0) * w == (l1 - 1 - l0) * w + w) by (nonlinear_arith);
        assert forall|l: int, j: int| l0 <= l < l1 && 0 <= j < w implies
            ecells(cs, co, rp, c0, c1, l0, l1)[#[trigger] ((l - l0) * w + j)] == lg(cs, co, rp, l, c0 + j) by {
            if l < l1 - 1 {
                assert((l - l0) * w + j < (l1 - 1 - l0) * w) by (nonlinear_arith) requires l - l0 + 1 <= l1 - 1 - l0, 0 <= j < w;
                assert((l - l0) * w + j >= 0) by (nonlinear_arith) requires l - l0 >= 0, 0 <= j, w > 0;
            } else {
                assert((prev + last)[(l1 - 1 - l0) * w + j] == last[j]);
            }
        }
    } else {
        assert((l1 - l0) * w == 0) by (nonlinear_arith) requires l1 - l0 == 0;
    }
}
/// under lawful(T) a clone is equal to the original
proof fn lemma_cloned<T: Default + Clone + PartialEq>(a: T, b: T)
    requires lawful::<T>(), cloned::<T>(a, b),
    ensures a == b,
{}

/// Vec::extend_from_slice under lawful(T): the new content is the old content followed by the slice
proof fn lemma_extend<T: Default + Clone + PartialEq>(v0: Seq<T>, sl: Seq<T>, v1: Seq<T>)
    requires
        lawful::<T>(),
        v1.len() == v0.len() + sl.len(),
        forall|i: int| 0 <= i < v0.len() ==> v1[i] == v0[i],
        forall|i: int| 0 <= i < sl.len() ==> cloned::<T>(sl[i], #[trigger] v1[v0.len() + i]),
    ensures v1 =~= v0 + sl,
{
    assert forall|i: int| 0 <= i < sl.len() implies v1[v0.len() + i] == sl[i] by { lemma_cloned::<T>(sl[i], v1[v0.len() + i]); }
}
/// what the first loop of get_range has established after k physical rows
pub open spec fn bbox_inv<T: Default>(cs: Seq<T>, co: Seq<usize>, rp: Seq<usize>, k: int, row_min: Option<usize>, row_max: usize, col_min: usize,
    col_max: usize, fe: usize, gm_c: int, gx_c: int, gmin: int, gmax: int) -> bool {
    match row_min {
        None => row_max == 0 && col_min == usize::MAX && col_max == 0 && fe == 0 && forall|i: int| 0 <= i < k ==> blank_row(cs, co, i),
        Some(m) => {
            &&& m <= row_max < k
            &&& nd_at(cs, co, m as int, gm_c) && nd_at(cs, co, row_max as int, gx_c)
            &&& forall|i: int| 0 <= i < m ==> blank_row(cs, co, i)
            &&& forall|i: int| row_max < i < k ==> blank_row(cs, co, i)
            &&& col_min <= col_max
            &&& forall|i: int, c: int| 0 <= i < k && nd_at(cs, co, i, c) ==> col_min <= c <= col_max
            &&& m <= gmin <= row_max && nd_at(cs, co, gmin, col_min as int)
            &&& m <= gmax <= row_max && nd_at(cs, co, gmax, col_max as int)
            &&& fe == (if rep_sum(rp, m as int) >= m { rep_sum(rp, m as int) - m } else { 0 })
        },
    }
}
/// the remaining items of the zipped iterator of the second loop: windows t.. of cols with their repeat counts, up to `total`
pub open spec fn zip_ok(co: Seq<usize>, rp: Seq<usize>, t: int, total: int, rem: Seq<(&[usize], &usize)>) -> bool {
    rem.len() == total - t
    && forall|j: int| 0 <= j < rem.len() ==> (#[trigger] rem[j]).0@ == co.subrange(t + j, t + j + 2) && *rem[j].1 == rp[t + j]
}


/// witness: the requires of get_range is satisfiable (one physical row [7] repeated twice)
proof fn witness_get_range_requires()
{
    let cs: Seq<usize> = seq![7usize];
    let co: Seq<usize> = seq![0usize, 1usize];
    let rp: Seq<usize> = seq![2usize];
    assert(wf_shape(cs, co, rp));
    assert(rep_sum(rp, 1) == 2) by { reveal_with_fuel(rep_sum, 3); }
    assert(hyp(cs, co, rp));
}

/// the closing argument of get_range: from what the two loops established to the property-level facts
proof fn lemma_get_range_post<T: Default>(cs: Seq<T>, co: Seq<usize>, rp: Seq<usize>, m: int, x0: int, c0: int, c1: int, fe: int, rmax: int,
    gm_c: int, gx_c: int, gmin: int, gmax: int, data: Seq<T>, lo0: int, hi0: int) -> (wit: (int, int, int, int))
    requires
        lo0 == m + fe, hi0 == rmax + fe,
        wf_shape(cs, co, rp), hyp(cs, co, rp), 0 <= m, 0 <= x0, 0 <= c0, 0 <= c1, 0 <= fe,
        bbox_inv(cs, co, rp, co.len() - 1, Some(m as usize), x0 as usize, c0 as usize, c1 as usize, fe as usize, gm_c, gx_c, gmin, gmax),
        m <= usize::MAX, x0 <= usize::MAX, c0 <= usize::MAX, c1 <= usize::MAX, fe <= usize::MAX,
        rmax == x0 + (rep_sum(rp, x0 + 1) - rep_sum(rp, m)) - (x0 + 1 - m),
        data.len() > 0,
        data == ecells(cs, co, rp, c0, c1, rep_sum(rp, m), rep_sum(rp, x0 + 1)),
    ensures
        lo0 == rep_sum(rp, m), hi0 == rep_sum(rp, x0 + 1) - 1,
        0 <= lo0 <= hi0 <= u32::MAX, c0 <= c1 <= u32::MAX,
        forall|l: int, c: int| nd(cs, co, rp, l, c) ==> lo0 <= l <= hi0 && c0 <= c <= c1,
        nd(cs, co, rp, lo0, wit.0), nd(cs, co, rp, hi0, wit.1), nd(cs, co, rp, wit.2, c0), nd(cs, co, rp, wit.3, c1),
        data.len() == (hi0 - lo0 + 1) * (c1 - c0 + 1),
        forall|l: int, c: int| lo0 <= l <= hi0 && c0 <= c <= c1 ==>
            data[(l - lo0) * (c1 - c0 + 1) + (c - c0)] == lg(cs, co, rp, l, c),
{
    let n = co.len() - 1;
    let l0 = rep_sum(rp, m);
    let l1 = rep_sum(rp, x0 + 1);
    lemma_rep_sum_ge(rp, 0, m);
    lemma_rep_sum_ge(rp, m, x0 + 1);
    lemma_rep_sum_mono(rp, x0 + 1, n);
    lemma_rep_sum_mono(rp, 0, m);
    assert(rep_sum(rp, 0) == 0);
    assert(fe == l0 - m);
    assert(l0 < l1 <= u32::MAX);
    assert(c1 < rlen(co, gmax));
    assert(co[gmax + 1] <= co[n]);
    // the four sides touch a non-default logical cell
    assert(rep_sum(rp, m + 1) == l0 + rp[m]); assert(rp[m] >= 1);
    assert(in_phys(rp, m, l0));
    lemma_lg_phys(cs, co, rp, m, l0, gm_c);
    assert(nd(cs, co, rp, l0, gm_c));
    assert(rep_sum(rp, x0 + 1) == rep_sum(rp, x0) + rp[x0]); assert(rp[x0] >= 1);
    assert(in_phys(rp, x0, l1 - 1));
    lemma_lg_phys(cs, co, rp, x0, l1 - 1, gx_c);
    assert(nd(cs, co, rp, l1 - 1, gx_c));
    assert(rep_sum(rp, gmin + 1) == rep_sum(rp, gmin) + rp[gmin]); assert(rp[gmin] >= 1);
    assert(in_phys(rp, gmin, rep_sum(rp, gmin)));
    lemma_lg_phys(cs, co, rp, gmin, rep_sum(rp, gmin), c0);
    assert(nd(cs, co, rp, rep_sum(rp, gmin), c0));
    assert(rep_sum(rp, gmax + 1) == rep_sum(rp, gmax) + rp[gmax]); assert(rp[gmax] >= 1);
    assert(in_phys(rp, gmax, rep_sum(rp, gmax)));
    lemma_lg_phys(cs, co, rp, gmax, rep_sum(rp, gmax), c1);
    assert(nd(cs, co, rp, rep_sum(rp, gmax), c1));
    // every non-default logical cell lies inside
    assert forall|l: int, c: int| nd(cs, co, rp, l, c) implies l0 <= l <= l1 - 1 && c0 <= c <= c1 by {
        lemma_nd_phys(cs, co, rp, l, c);
        let ip = phys_of(rp, l);
        assert(m <= ip <= x0) by {
            if ip < m { assert(blank_row(cs, co, ip)); }
            if ip > x0 { assert(blank_row(cs, co, ip)); }
        }
        lemma_rep_sum_mono(rp, m, ip);
        lemma_rep_sum_mono(rp, ip + 1, x0 + 1);
    }
    {
        lemma_ecells(cs, co, rp, c0, c1, l0, l1);
        let w = c1 + 1 - c0;
        assert(hi0 - lo0 + 1 == l1 - l0);
        assert forall|l: int, c: int| l0 <= l <= l1 - 1 && c0 <= c <= c1 implies
            data[(l - l0) * (c1 - c0 + 1) + (c - c0)] == lg(cs, co, rp, l, c) by {
            assert((l - l0) * (c1 - c0 + 1) + (c - c0) == (l - l0) * w + (c - c0));
            assert(lg(cs, co, rp, l, c0 + (c - c0)) == lg(cs, co, rp, l, c));
        }
    }
    (gm_c, gx_c, rep_sum(rp, gmin), rep_sum(rp, gmax))
}

/// the clauses of get_range's contract (all proved below), as one predicate over the result (lo, hi, data)
pub open spec fn contract_ok<T: Default>(cs: Seq<T>, co: Seq<usize>, rp: Seq<usize>, lo: (u32, u32), hi: (u32, u32), data: Seq<T>) -> bool {
    &&& (forall|l: int, c: int| !nd(cs, co, rp, l, c)) <==> data.len() == 0
    &&& data.len() == 0 ==> lo == (0u32, 0u32) && hi == (0u32, 0u32)
    &&& forall|l: int, c: int| nd(cs, co, rp, l, c) ==> lo.0 <= l <= hi.0 && lo.1 <= c <= hi.1
    &&& data.len() > 0 ==> row_has_nd(cs, co, rp, lo.0 as int) && row_has_nd(cs, co, rp, hi.0 as int)
            && col_has_nd(cs, co, rp, lo.1 as int) && col_has_nd(cs, co, rp, hi.1 as int)
    &&& data.len() > 0 ==>
            data.len() == (hi.0 - lo.0 + 1) * (hi.1 - lo.1 + 1)
            && forall|l: int, c: int| lo.0 <= l <= hi.0 && lo.1 <= c <= hi.1 ==>
                data[(l - lo.0) * (hi.1 - lo.1 + 1) + (c - lo.1)] == lg(cs, co, rp, l, c)
}

/// RUN-LENGTH INDEPENDENCE (corollary of the contract): two encodings (any grouping of rows into repeated elements, any split of
/// `cells` into physical rows) that expand to the same logical grid give the same range.
proof fn lemma_encoding_independent<T: Default>(cs1: Seq<T>, co1: Seq<usize>, rp1: Seq<usize>, lo1: (u32, u32), hi1: (u32, u32), d1: Seq<T>,
    cs2: Seq<T>, co2: Seq<usize>, rp2: Seq<usize>, lo2: (u32, u32), hi2: (u32, u32), d2: Seq<T>)
    requires
        contract_ok(cs1, co1, rp1, lo1, hi1, d1), contract_ok(cs2, co2, rp2, lo2, hi2, d2),
        forall|l: int, c: int| lg(cs1, co1, rp1, l, c) == lg(cs2, co2, rp2, l, c),
    ensures
        //# C04.run_length_independent
        lo1 == lo2 && hi1 == hi2 && d1 =~= d2,
{
    assert forall|l: int, c: int| nd(cs1, co1, rp1, l, c) == nd(cs2, co2, rp2, l, c) by { }
    if d1.len() == 0 {
        assert forall|l: int, c: int| !nd(cs2, co2, rp2, l, c) by { assert(!nd(cs1, co1, rp1, l, c)); }
    } else {
        let c = choose|c: int| nd(cs1, co1, rp1, lo1.0 as int, c);
        assert(nd(cs2, co2, rp2, lo1.0 as int, c));
        assert(d2.len() > 0);
        // the four sides of each box touch a cell that the other box contains
        let a = choose|c: int| nd(cs1, co1, rp1, lo1.0 as int, c); assert(nd(cs2, co2, rp2, lo1.0 as int, a));
        let b = choose|c: int| nd(cs1, co1, rp1, hi1.0 as int, c); assert(nd(cs2, co2, rp2, hi1.0 as int, b));
        let e = choose|l: int| nd(cs1, co1, rp1, l, lo1.1 as int); assert(nd(cs2, co2, rp2, e, lo1.1 as int));
        let f = choose|l: int| nd(cs1, co1, rp1, l, hi1.1 as int); assert(nd(cs2, co2, rp2, f, hi1.1 as int));
        let a2 = choose|c: int| nd(cs2, co2, rp2, lo2.0 as int, c); assert(nd(cs1, co1, rp1, lo2.0 as int, a2));
        let b2 = choose|c: int| nd(cs2, co2, rp2, hi2.0 as int, c); assert(nd(cs1, co1, rp1, hi2.0 as int, b2));
        let e2 = choose|l: int| nd(cs2, co2, rp2, l, lo2.1 as int); assert(nd(cs1, co1, rp1, e2, lo2.1 as int));
        let f2 = choose|l: int| nd(cs2, co2, rp2, l, hi2.1 as int); assert(nd(cs1, co1, rp1, f2, hi2.1 as int));
        assert(lo1 == lo2 && hi1 == hi2);
        let w = hi1.1 - lo1.1 + 1;
        let h = hi1.0 - lo1.0 + 1;
        assert(d1.len() == d2.len());
        assert forall|k: int| 0 <= k < d1.len() implies d1[k] == d2[k] by {
            let l = lo1.0 + k / w;
            let cc = lo1.1 + k % w;
            assert(k == (k / w) * w + k % w && 0 <= k % w < w) by (nonlinear_arith) requires w > 0, k >= 0;
            assert(k / w < h) by (nonlinear_arith) requires k < h * w, w > 0, k >= 0, k == (k / w) * w + k % w, 0 <= k % w;
            assert(k / w >= 0) by (nonlinear_arith) requires w > 0, k >= 0;
            assert((l - lo1.0) * w + (cc - lo1.1) == k);
            assert(d1[(l - lo1.0) * (hi1.1 - lo1.1 + 1) + (cc - lo1.1)] == lg(cs1, co1, rp1, l, cc));
            assert(d2[(l - lo2.0) * (hi2.1 - lo2.1 + 1) + (cc - lo2.1)] == lg(cs2, co2, rp2, l, cc));
        }
    }
}

//@@ fn src/ods.rs is_empty_row props=C04 ret=r
//@@ sig
    requires
        lawful::<T>(),
    ensures
        //# C04.is_empty_row
        r == (forall|i: int| 0 <= i < row@.len() ==> row@[i] == dflt::<T>()),
//@@ closure 0
    -> (res: bool) ensures lawful::<T>() ==> res == (*x == dflt::<T>())
//@@ replace /row\.iter\(\)\.all\(/ the temporary iterator is given a name (let-introduction) so that the proof can refer to its items; vstd's contract of Iterator::all speaks about the items of the iterator
{ let mut __it = row.iter(); let ghost __rem = __it.remaining(); let __r = __it.all(
//@@ after /T::default\(\)\)/
    ; proof {
        if __r {
            assert forall|i: int| 0 <= i < row@.len() implies row@[i] == dflt::<T>() by { let x = __rem[i]; }
        }
    }
    __r }
//@@ end

// `entry`: get_range's arithmetic obligations are C06 obligations.  The `requires` below states what read_table establishes (proved at
// the call sites in unit odsxml): by construction (cols = running cells.len(), one repeat count per row), by its checks of the file's
// repeat counts (`hyp`: every `number-rows-repeated` is positive, the rows stay within the 2^20 rows of a sheet, and read_row keeps
// every row within the 2^14 columns), and the laws of the cell type.  No resource bound is needed any more.
//@@ fn src/ods.rs get_range props=C04,C14 entry ret=r
//@@ sig
    requires
        lawful::<T>(),
        wf_shape(cells@, cols@, rows_repeats@),
        reps_pos(rows_repeats@),
        rep_sum(rows_repeats@, rows_repeats@.len() as int) <= grid_rows(),
        cols_in_grid(cols@),
    ensures
        //# C04.empty_iff
        (forall|l: int, c: int| !nd(cells@, cols@, rows_repeats@, l, c)) <==> r.data().len() == 0,
        //# C04.empty_is_default_range
        r.data().len() == 0 ==> r.lo() == (0u32, 0u32) && r.hi() == (0u32, 0u32),
        //# C04,C14.bbox_contains
        forall|l: int, c: int| nd(cells@, cols@, rows_repeats@, l, c) ==>
            r.lo().0 <= l <= r.hi().0 && r.lo().1 <= c <= r.hi().1,
        //# C04.bbox_tight_top
        r.data().len() > 0 ==> row_has_nd(cells@, cols@, rows_repeats@, r.lo().0 as int),
        //# C04.bbox_tight_bottom
        r.data().len() > 0 ==> row_has_nd(cells@, cols@, rows_repeats@, r.hi().0 as int),
        //# C04.bbox_tight_left
        r.data().len() > 0 ==> col_has_nd(cells@, cols@, rows_repeats@, r.lo().1 as int),
        //# C04.bbox_tight_right
        r.data().len() > 0 ==> col_has_nd(cells@, cols@, rows_repeats@, r.hi().1 as int),
        //# C04.len_is_h_times_w
        r.data().len() > 0 ==>
            r.data().len() == (r.hi().0 - r.lo().0 + 1) * (r.hi().1 - r.lo().1 + 1),
        //# C04,C14.placement
        r.data().len() > 0 ==>
            forall|l: int, c: int| r.lo().0 <= l <= r.hi().0 && r.lo().1 <= c <= r.hi().1 ==>
                r.data()[(l - r.lo().0) * (r.hi().1 - r.lo().1 + 1) + (c - r.lo().1)] == lg(cells@, cols@, rows_repeats@, l, c),
//@@ closure 0
    -> (res: bool) ensures lawful::<T>() ==> res == (*c != dflt::<T>())
//@@ closure 1
    -> (res: bool) ensures lawful::<T>() ==> res == (*c != dflt::<T>())
//@@ body
    let ghost cs = cells@;
    let ghost co = cols@;
    let ghost rp = rows_repeats@;
    let ghost n = co.len() - 1;
    let ghost mut k: int = 0;
    let ghost mut gm_c: int = 0;
    let ghost mut gx_c: int = 0;
    let ghost mut gmin: int = 0;
    let ghost mut gmax: int = 0;
    proof {
        // positive repeat counts: no more physical rows than logical rows
        lemma_rep_sum_ge(rp, 0, rp.len() as int);
        assert(rep_sum(rp, 0) == 0);
        assert(n <= grid_rows());
    }
//@@ r6 0 iter /cols\.windows\(2\)\.enumerate\(\)/ Verus cannot attach a specification to the provided trait method Iterator::enumerate; the expression is moved verbatim into the trusted wrapper verif_windows_enumerate
verif_windows_enumerate(cols, 2)
//@@ r6 1
//@@ loop 0
            invariant
                cs == cells@, co == cols@, rp == rows_repeats@, n == co.len() - 1, wf_shape(cs, co, rp), lawful::<T>(),
                hyp(cs, co, rp), n <= grid_rows(),
                __it0.obeys_prophetic_iter_laws(), 0 <= k <= n, enum_win_ok(co, 2, k, __it0.remaining()),
                bbox_inv(cs, co, rp, k, row_min, row_max, col_min, col_max, first_empty_rows_repeated, gm_c, gx_c, gmin, gmax),
            ensures
                k == n,
            decreases n - k,
//@@ before /let row = &cells\[w\[0\]/#0of2
            proof {
                assert(i == k);
                assert(w@ =~= co.subrange(k, k + 2));
                assert(w@[0] == co[k] && w@[1] == co[k + 1]);
                assert(co[k] <= co[k + 1] <= co[n]);
            }
//@@ after /let row = &cells\[w\[0\][^;]*;/#0of2
            proof {
                assert(row@ =~= cs.subrange(co[k] as int, co[k + 1] as int));
                assert(forall|c: int| 0 <= c < rlen(co, k) ==> row@[c] == cs[co[k] + c]);
            }
            let ghost mut found = false;
            let ghost mut found2 = false;
            let ghost mut pfirst: int = 0;
            let ghost mut plast: int = 0;
//@@ after /if let Some\(p\) = row\.iter\(\)\.position\([^{]*\{/
                proof {
                    // the leading repeat counts add up to at most the rows of the sheet
                    lemma_rep_sum_mono(rp, k, n);
                    // p is the first non-default cell of physical row k
                    assert(row@[p as int] != dflt::<T>());
                    assert forall|j: int| 0 <= j < p implies row@[j] == dflt::<T>() by { }
                    assert(nd_at(cs, co, k, p as int));
                    assert forall|c: int| nd_at(cs, co, k, c) implies c >= p by {
                        assert(row@[c] == cs[co[k] + c]);
                    }
                    found = true;
                    pfirst = p as int;
                    if row_min is None { gm_c = p as int; }
                    gx_c = p as int;
                    if p <= col_min { gmin = k; }
                }
//@@ after /if let Some\(p\) = row\.iter\(\)\.rposition\([^{]*\{/
                    proof {
                        assert(row@[p as int] != dflt::<T>());
                        assert forall|j: int| p < j < row@.len() implies row@[j] == dflt::<T>() by { }
                        assert(nd_at(cs, co, k, p as int));
                        assert forall|c: int| nd_at(cs, co, k, c) implies c <= p by {
                            assert(row@[c] == cs[co[k] + c]);
                        }
                        if p >= col_max { gmax = k; }
                        found2 = true;
                        plast = p as int;
                    }
//@@ after /if p [<>=]+ col_max \{[^}]*\}\s*\}/
                proof {
                    if !found2 { assert(row@[pfirst] != dflt::<T>()); assert(false); }
                }
//@@ after /if p [<>=]+ col_max \{[^}]*\}\s*\}\s*\}/
            proof {
                if !found {
                    assert forall|c: int| !nd_at(cs, co, k, c) by {
                        if nd_at(cs, co, k, c) { assert(row@[c] == cs[co[k] + c]); assert(row@[c] != dflt::<T>()); }
                    }
                    assert(blank_row(cs, co, k));
                }
                k = k + 1;
                match row_min {
                    None => { assert(!found); }
                    Some(mm) => {
                        assert(mm <= row_max < k);
                        assert(nd_at(cs, co, mm as int, gm_c));
                        assert(nd_at(cs, co, row_max as int, gx_c));
                        assert(forall|i: int| 0 <= i < mm ==> blank_row(cs, co, i));
                        assert(forall|i: int| row_max < i < k ==> blank_row(cs, co, i));
                        assert(col_min <= col_max);
                        assert forall|i: int, c: int| 0 <= i < k && nd_at(cs, co, i, c) implies col_min <= c <= col_max by {
                            if i == k - 1 {
                                assert(found);
                                assert(found2);
                                assert(pfirst <= c <= plast);
                                assert(col_min <= pfirst && plast <= col_max);
                            } else {
                                assert(!blank_row(cs, co, i));
                            }
                        }
                        assert(mm <= gmin <= row_max && nd_at(cs, co, gmin, col_min as int));
                        assert(mm <= gmax <= row_max && nd_at(cs, co, gmax, col_max as int));
                        assert(first_empty_rows_repeated == (if rep_sum(rp, mm as int) >= mm { rep_sum(rp, mm as int) - mm } else { 0 }));
                    }
                }
            }
//@@ before /let row_min = match row_min/
    proof {
        if row_min is None {
            assert forall|l: int, c: int| !nd(cs, co, rp, l, c) by {
                if nd(cs, co, rp, l, c) {
                    lemma_nd_phys(cs, co, rp, l, c);
                    assert(blank_row(cs, co, phys_of(rp, l)));
                }
            }
        }
    }
//@@ before /let cells_len = /
    let ghost m: int = row_min as int;
    let ghost x0: usize = row_max;
    let ghost total: int = imin(n, m + x0 + 1);
    let ghost mut t: int = m;
    let ghost mut pb: int = m;
    let ghost l0: int = rep_sum(rp, m);
    proof {
        assert(bbox_inv(cs, co, rp, n, Some(row_min), x0, col_min, col_max, first_empty_rows_repeated, gm_c, gx_c, gmin, gmax));
        // col_max indexes a cell of physical row gmax
        assert(col_max < rlen(co, gmax));
        assert(co[gmax + 1] <= co[n]);
        assert(rlen(co, gmax) <= grid_cols());
        assert(col_max + 1 <= 0x7fff_ffff);
        assert((row_max + 1 - row_min) * (col_max + 1 - col_min) <= 0x7fff_ffff * 0x7fff_ffff) by (nonlinear_arith)
            requires 0 <= row_max + 1 - row_min <= 0x7fff_ffff, 0 <= col_max + 1 - col_min <= 0x7fff_ffff;
    }
//@@ loop 1
            invariant
                cs == cells@, co == cols@, rp == rows_repeats@, n == co.len() - 1, wf_shape(cs, co, rp), lawful::<T>(),
                bbox_inv(cs, co, rp, n, Some(row_min), x0, col_min, col_max, first_empty_rows_repeated, gm_c, gx_c, gmin, gmax),
                hyp(cs, co, rp), n <= grid_rows(),
                m == row_min, total == imin(n, m + x0 + 1), l0 == rep_sum(rp, m),
                __it1.obeys_prophetic_iter_laws(), m <= t <= total, zip_ok(co, rp, t, total, __it1.remaining()),
                empty_cells@.len() == col_max + 1, forall|j: int| 0 <= j < empty_cells@.len() ==> empty_cells@[j] == dflt::<T>(),
                m <= pb <= t, pb <= x0 + 1, t > x0 ==> pb == x0 + 1, t > m ==> pb > m,
                forall|i: int| pb <= i < t ==> blank_row(cs, co, i),
                row_max - consecutive_empty_rows >= x0 - (t - m), consecutive_empty_rows <= t - m, col_max < 0x7fff_ffff, co.len() <= 0x7fff_ffff,
                empty_row_repeats == rep_sum(rp, t) - rep_sum(rp, pb) && consecutive_empty_rows == t - pb
                    && row_max == x0 + (rep_sum(rp, pb) - l0) - (pb - m)
                    && (t > m ==> new_cells@.len() > 0)
                    && new_cells@ == ecells(cs, co, rp, col_min as int, col_max as int, l0, rep_sum(rp, pb)),
            ensures
                t == total,
            decreases total - t,
//@@ before /let row = &cells\[w\[0\]/#1of2
            let ghost i: int = t;
            proof {
                t = t + 1;
                assert(w@ =~= co.subrange(i, i + 2));
                assert(w@[0] == co[i] && w@[1] == co[i + 1]);
                assert(co[i] <= co[i + 1] <= co[n]);
                assert(*row_repeats == rp[i]);
                assert(rep_sum(rp, i + 1) == rep_sum(rp, i) + rp[i]);
                lemma_rep_sum_mono(rp, m, pb); lemma_rep_sum_mono(rp, pb, i); lemma_rep_sum_mono(rp, i + 1, n);
            }
//@@ after /let row = &cells\[w\[0\][^;]*;/#1of2
            proof {
                assert(row@ =~= cs.subrange(co[i] as int, co[i + 1] as int));
                assert(forall|c: int| 0 <= c < rlen(co, i) ==> row@[c] == cs[co[i] + c]);
            }
//@@ after /if is_empty_row\(row\) \{/
                proof {
                    assert forall|c: int| !nd_at(cs, co, i, c) by {
                        if nd_at(cs, co, i, c) { assert(row@[c] == cs[co[i] + c]); }
                    }
                    assert(blank_row(cs, co, i));
                    assert(i != x0 && i != m);
                }
//@@ before /if empty_row_repeats >/
            let ghost wc: int = choose|j: int| 0 <= j < row@.len() && row@[j] != dflt::<T>();
            proof {
                assert(nd_at(cs, co, i, wc));
                assert(col_min <= wc <= col_max);
                assert(i <= x0) by { if i > x0 { assert(blank_row(cs, co, i)); } }
            }
//@@ before /\n\s*row_max = row_max /#0of2
                proof {
                    assert(pb < i);
                    assert(pb > m) by { if i == m { } }
                }
                let ghost len2 = new_cells@.len();
//@@ loop 2 it2
                    invariant
                        cs == cells@, co == cols@, rp == rows_repeats@, n == co.len() - 1, wf_shape(cs, co, rp), lawful::<T>(),
                        empty_cells@.len() == col_max + 1, forall|j: int| 0 <= j < empty_cells@.len() ==> empty_cells@[j] == dflt::<T>(),
                        0 <= m <= pb <= i < n, l0 == rep_sum(rp, m), col_min <= col_max, reps_pos(rp),
                        forall|r: int| pb <= r < i ==> blank_row(cs, co, r),
                        new_cells@.len() >= len2,
                        empty_row_repeats == rep_sum(rp, i) - rep_sum(rp, pb),
                        new_cells@ == ecells(cs, co, rp, col_min as int, col_max as int, l0, rep_sum(rp, pb) + it2.index@),
//@@ before /new_cells\.extend_from_slice\(/#0of5
                    let ghost v0 = new_cells@;
//@@ after /new_cells\.extend_from_slice\([^;]*;/#0of5
                    proof {
                        let sl = empty_cells@.subrange(col_min as int, col_max + 1);
                        lemma_extend::<T>(v0, sl, new_cells@);
                        {
                            let l = rep_sum(rp, pb) + it2.index@;
                            lemma_rep_sum_mono(rp, m, pb);
                            let ip = lemma_find_phys(rp, pb, i, l);
                            assert(blank_row(cs, co, ip));
                            let er = erow(cs, co, rp, col_min as int, col_max as int, l);
                            assert(er.len() == sl.len());
                            assert forall|j: int| 0 <= j < er.len() implies er[j] == sl[j] by {
                                lemma_lg_phys(cs, co, rp, ip, l, col_min + j);
                                assert(!nd_at(cs, co, ip, col_min + j));
                            }
                            assert(sl =~= er);
                            assert(ecells(cs, co, rp, col_min as int, col_max as int, l0, l + 1)
                                == ecells(cs, co, rp, col_min as int, col_max as int, l0, l) + er);
                        }
                    }
//@@ before /\n\s*empty_row_repeats = 0;/
                proof { pb = i; }
//@@ before /if row_repeats >/
            proof {
                assert(rp[i] >= 1);
                if pb != i { lemma_rep_sum_ge(rp, pb, i); assert(false); }
                pb = i;
            }
            let ghost len3 = new_cells@.len();
//@@ loop 3 it3
                invariant
                    cs == cells@, co == cols@, rp == rows_repeats@, n == co.len() - 1, wf_shape(cs, co, rp), lawful::<T>(),
                    empty_cells@.len() == col_max + 1, forall|j: int| 0 <= j < empty_cells@.len() ==> empty_cells@[j] == dflt::<T>(),
                    0 <= m <= i < n, l0 == rep_sum(rp, m), col_min <= col_max, col_min < row@.len(), col_max < 0x7fff_ffff,
                    row@ == cs.subrange(co[i] as int, co[i + 1] as int), co[i] <= co[i + 1] <= cs.len(),
                    row_repeats == rp[i], reps_pos(rp),
                    new_cells@.len() >= len3, it3.index@ > 0 ==> new_cells@.len() > 0,
                    new_cells@ == ecells(cs, co, rp, col_min as int, col_max as int, l0, rep_sum(rp, i) + it3.index@),
//@@ before /match row\.len\(\)\.cmp/
                let ghost v0 = new_cells@;
                let ghost mut v1 = new_cells@;
//@@ after /new_cells\.extend_from_slice\([^;]*;/#1of5
                        proof {
                            lemma_extend::<T>(v0, row@.subrange(col_min as int, row@.len() as int), new_cells@);
                            v1 = new_cells@;
                        }
//@@ after /new_cells\.extend_from_slice\([^;]*;/#2of5
                        proof {
                            lemma_extend::<T>(v1, empty_cells@.subrange(row@.len() as int, col_max + 1), new_cells@);
                        }
//@@ after /new_cells\.extend_from_slice\([^;]*;/#3of5
                        proof {
                            lemma_extend::<T>(v0, row@.subrange(col_min as int, row@.len() as int), new_cells@);
                        }
//@@ after /new_cells\.extend_from_slice\([^;]*;/#4of5
                        proof {
                            lemma_extend::<T>(v0, row@.subrange(col_min as int, col_max + 1), new_cells@);
                        }
//@@ after /Ordering::Greater => \{[^}]*\}\s*\}/
                proof {
                    let pe = prow_e(cs, co, i, col_min as int, col_max as int);
                    assert(rlen(co, i) == row@.len());
                    assert(new_cells@.len() == v0.len() + pe.len());
                    assert forall|j: int| 0 <= j < pe.len() implies new_cells@[v0.len() + j] == pe[j] by {
                        if col_min + j < row@.len() { assert(row@[col_min + j] == cs[co[i] + col_min + j]); }
                    }
                    assert(new_cells@ =~= v0 + pe);
                    {
                        let l = rep_sum(rp, i) + it3.index@;
                        lemma_rep_sum_mono(rp, m, i);
                        assert(rep_sum(rp, i + 1) == rep_sum(rp, i) + rp[i]);
                        assert(in_phys(rp, i, l));
                        lemma_erow_phys(cs, co, rp, col_min as int, col_max as int, i, l);
                        assert(ecells(cs, co, rp, col_min as int, col_max as int, l0, l + 1)
                            == ecells(cs, co, rp, col_min as int, col_max as int, l0, l) + erow(cs, co, rp, col_min as int, col_max as int, l));
                    }
                }
//@@ after /Ordering::Greater => \{[^}]*\}\s*\}\s*\}/
            proof {
                pb = i + 1;
                assert(rep_sum(rp, i + 1) == rep_sum(rp, i) + rp[i]);
                assert(rp[i] >= 1);
                if i == x0 { } else { assert(i < x0); }
            }
//@@ before /cells = new_cells;/
        proof {
            assert(t == total && total > x0);
            assert(pb == x0 + 1);
        }
//@@ before /let row_min = row_min \+ first_empty_rows_repeated;/
    let ghost mut wit: (int, int, int, int) = (0, 0, 0, 0);
    proof {
        lemma_rep_sum_mono(rp, 0, m); lemma_rep_sum_mono(rp, m, x0 + 1); lemma_rep_sum_mono(rp, x0 + 1, n);
        wit = lemma_get_range_post(cs, co, rp, m, x0 as int, col_min as int, col_max as int, first_empty_rows_repeated as int, row_max as int,
            gm_c, gx_c, gmin, gmax, cells@, row_min + first_empty_rows_repeated, row_max + first_empty_rows_repeated);
    }
//@@ before /Range \{\n/
    proof {
        {
            let a0 = row_min as u32 as int;
            let a1 = row_max as u32 as int;
            let b0 = col_min as u32 as int;
            let b1 = col_max as u32 as int;
            assert(a0 == row_min && a1 == row_max && b0 == col_min && b1 == col_max);
            assert(nd(cs, co, rp, a0, wit.0));
            assert(nd(cs, co, rp, a1, wit.1));
            assert(nd(cs, co, rp, wit.2, b0));
            assert(nd(cs, co, rp, wit.3, b1));
            assert(row_has_nd(cs, co, rp, a0) && row_has_nd(cs, co, rp, a1) && col_has_nd(cs, co, rp, b0) && col_has_nd(cs, co, rp, b1));
        }
    }
//@@ replace /rows_repeats\.iter\(\)\.take\(i\)\.sum::<usize>\(\)/ Verus cannot attach a specification to the provided trait method Iterator::sum; the expression is moved verbatim into the trusted wrapper verif_sum_take
verif_sum_take(rows_repeats, i)
//@@ replace /row\.iter\(\)\.rposition\(/ slice::Iter::rposition cannot be given an assume_specification (its where-clause makes the path resolve to the provided trait method); the call is moved verbatim into the trusted wrapper verif_rposition
verif_rposition(row, 
//@@ end


// #####################################################################################################################
// PART 2: the XML-event-consuming functions (A-xml / A-zip ghost model)
// #####################################################################################################################

// =====================================================================================================================
// A-xml / A-zip: GHOST MODEL of quick-xml 0.37 (as configured by ods.rs: trim_text(false), expand_empty_elements = true,
// check_end_names = false, check_comments = false) and of the zip container.  Everything in this section is TRUSTED.
// A reader owns the ghost sequence `events()` of the results its successive `read_event_into` calls deliver and a position `pos()`.
// ASSUMED AND NOT VERIFIED: that quick-xml turns the bytes of the zip part into this sequence (tokenisation, `<a/>` delivered as
// Start + End, entity / character references resolved by `unescape` / `decode_and_unescape_value`, white space preserved).
// =====================================================================================================================
pub mod quick_xml {
    pub struct Error;
    pub mod events { pub mod attributes { pub struct AttrError; } }
    pub mod encoding { pub struct EncodingError; }
}
pub mod zip { pub mod result { pub enum ZipError { FileNotFound, Other } } }
use zip::result::ZipError;
#[verifier::external_type_specification] #[verifier::external_body] pub struct ExIoError(std::io::Error);
#[verifier::external_type_specification] #[verifier::external_body] pub struct ExParseFloatError(std::num::ParseFloatError);
#[verifier::external_type_specification] #[verifier::external_body] pub struct ExParseIntError(std::num::ParseIntError);
#[verifier::external_type_specification] #[verifier::external_body] pub struct ExParseBoolError(std::str::ParseBoolError);
#[verifier::external_trait_specification] pub trait ExRead { type ExternalTraitSpecificationFor: std::io::Read; }
#[verifier::external_trait_specification] pub trait ExSeek { type ExternalTraitSpecificationFor: std::io::Seek; }

//@@ item src/ods.rs enum OdsError

pub enum EvKind { Start, End, Text, Comment, Other, Error }
pub ghost struct Attr {
    pub key: Seq<u8>,     // qualified attribute name
    pub raw: Seq<u8>,     // value bytes as written between the quotes (what `Attribute::value` holds)
    pub val: Seq<char>,   // value with entity / character references resolved (what `decode_and_unescape_value` returns)
    pub val_ok: bool,     // decoding / unescaping the value succeeds
    pub err: bool,        // malformed attribute: the `Attributes` iterator yields Err(AttrError) for it
}
pub ghost struct Ev {
    pub kind: EvKind,
    pub name: Seq<u8>,     // qualified tag name (Start / End)
    pub attrs: Seq<Attr>,  // attributes in document order (Start)
    pub text: Seq<char>,   // content of a Text event after unescaping
    pub text_ok: bool,     // `unescape()` succeeds on this Text event
}
// TRUSTED: A-xml -- quick_xml::name::QName (a tuple struct over the qualified-name bytes; `==` compares the bytes)
pub struct QName<'a>(pub &'a [u8]);
impl<'a> PartialEq for QName<'a> {
    #[verifier::external_body]
    fn eq(&self, o: &QName<'a>) -> (r: bool) ensures r == (self.0@ =~= o.0@) { unimplemented!() }
}
#[verifier::external_body]
pub struct BytesStart<'a> { _p: core::marker::PhantomData<&'a ()> }
#[verifier::external_body]
pub struct BytesEnd<'a> { _p: core::marker::PhantomData<&'a ()> }
#[verifier::external_body]
pub struct BytesText<'a> { _p: core::marker::PhantomData<&'a ()> }
// `Other` stands for CData / PI / Decl / DocType (never named by the verified code; `Empty` cannot occur with expand_empty_elements)
pub enum Event<'a> { Start(BytesStart<'a>), End(BytesEnd<'a>), Text(BytesText<'a>), Comment(BytesText<'a>), Other, Eof }
impl<'a> BytesStart<'a> {
    pub uninterp spec fn ev(&self) -> Ev;
    #[verifier::external_body]
    pub fn name(&self) -> (r: QName<'_>) ensures r.0@ == self.ev().name { unimplemented!() }
}
impl<'a> BytesEnd<'a> {
    pub uninterp spec fn ev(&self) -> Ev;
    #[verifier::external_body]
    pub fn name(&self) -> (r: QName<'_>) ensures r.0@ == self.ev().name { unimplemented!() }
}
impl<'a> BytesText<'a> {
    pub uninterp spec fn ev(&self) -> Ev;
}
/// the result `read_event_into` delivers for the ghost event e
pub open spec fn ev_result<'b>(r: Result<Event<'b>, quick_xml::Error>, e: Ev) -> bool {
    match e.kind {
        EvKind::Start => r matches Ok(Event::Start(b)) && b.ev() == e,
        EvKind::End => r matches Ok(Event::End(b)) && b.ev() == e,
        EvKind::Text => r matches Ok(Event::Text(b)) && b.ev() == e,
        EvKind::Comment => r matches Ok(Event::Comment(b)) && b.ev() == e,
        EvKind::Other => r matches Ok(Event::Other),
        EvKind::Error => r is Err,
    }
}
// A-zip: zip::read::{ZipArchive, ZipFile}; the content returned for a name depends only on the archive and the name
#[verifier::external_body] #[verifier::reject_recursive_types(RS)]
pub struct ZipArchive<RS> { _p: core::marker::PhantomData<RS> }
#[verifier::external_body]
pub struct ZipFile<'a> { _p: core::marker::PhantomData<&'a ()> }
#[verifier::external_body] #[verifier::reject_recursive_types(R)]
pub struct BufReader<R> { _p: core::marker::PhantomData<R> }
/// the XML events of the part `name`, None if the archive has no (readable) entry of that name
pub uninterp spec fn part_events<RS>(zip: ZipArchive<RS>, name: Seq<char>) -> Option<Seq<Ev>>;
impl<'a> ZipFile<'a> { pub uninterp spec fn events(&self) -> Seq<Ev>; }
impl<R> BufReader<R> {
    pub uninterp spec fn inner(&self) -> R;
    #[verifier::external_body]
    pub fn new(r: R) -> (b: Self) ensures b.inner() == r { unimplemented!() }
}
impl<RS: Read + Seek> ZipArchive<RS> {
    // TRUSTED: A-zip
    #[verifier::external_body]
    pub fn by_name<'a>(&'a mut self, name: &str) -> (r: Result<ZipFile<'a>, ZipError>)
        ensures
            *final(self) == *old(self),
            part_events(*old(self), name@) matches Some(evs) ==> r is Ok && r->Ok_0.events() == evs,
            part_events(*old(self), name@) is None ==> r is Err,
    { unimplemented!() }
}
pub struct Config { pub check_end_names: bool, pub check_comments: bool, pub expand_empty_elements: bool, pub trim: bool }
impl Config {
    #[verifier::external_body]
    pub fn trim_text(&mut self, trim: bool) { unimplemented!() }
}
#[verifier::external_body] #[verifier::reject_recursive_types(R)]
pub struct XmlReader<R> { _p: core::marker::PhantomData<R> }
impl<R> XmlReader<R> {
    pub uninterp spec fn events(&self) -> Seq<Ev>;
    pub uninterp spec fn pos(&self) -> nat;
}
impl<'a> XmlReader<BufReader<ZipFile<'a>>> {
    // TRUSTED: A-xml
    #[verifier::external_body]
    pub fn from_reader(b: BufReader<ZipFile<'a>>) -> (r: Self) ensures r.events() == b.inner().events(), r.pos() == 0 { unimplemented!() }
    // TRUSTED: A-xml -- configuration does not touch the stream
    #[verifier::external_body]
    pub fn config_mut(&mut self) -> (c: &mut Config) ensures final(self).events() == old(self).events(), final(self).pos() == old(self).pos() { unimplemented!() }
    // TRUSTED: A-xml -- returns events[pos] and advances; at the end of input returns Eof for ever
    #[verifier::external_body]
    pub fn read_event_into<'b>(&mut self, buf: &'b mut Vec<u8>) -> (r: Result<Event<'b>, quick_xml::Error>)
        ensures
            final(self).events() == old(self).events(),
            old(self).pos() >= old(self).events().len() ==> (r matches Ok(Event::Eof)) && final(self).pos() == old(self).pos(),
            old(self).pos() < old(self).events().len() ==>
                final(self).pos() == old(self).pos() + 1 && ev_result(r, old(self).events()[old(self).pos() as int]),
    { unimplemented!() }
}
//@@ item src/ods.rs type OdsReader

// =====================================================================================================================
// C20 (ods): "every ods whose manifest declares encryption data" is reported as password protected, and only those.
// ODF 1.2 part 3, 4.3 <manifest:file-entry> may contain 4.4 <manifest:encryption-data>.
// =====================================================================================================================
pub open spec fn n_file_entry() -> Seq<u8> { b"manifest:file-entry"@ }
pub open spec fn n_encryption_data() -> Seq<u8> { b"manifest:encryption-data"@ }
pub open spec fn is_start(e: Ev, name: Seq<u8>) -> bool { e.kind is Start && e.name =~= name }
/// index of the first event at which the reader reports an error (len if none)
pub open spec fn first_err(evs: Seq<Ev>, i: int) -> int
    decreases evs.len() - i
{
    if i < 0 || i >= evs.len() { evs.len() as int } else if evs[i].kind is Error { i } else { first_err(evs, i + 1) }
}
/// the manifest declares encryption data: an encryption-data element inside / after a file-entry element, read without error
pub open spec fn declares_encryption(evs: Seq<Ev>) -> bool {
    exists|i: int, j: int| 0 <= i < j < first_err(evs, 0) && is_start(#[trigger] evs[i], n_file_entry()) && is_start(#[trigger] evs[j], n_encryption_data())
}

proof fn lemma_first_err(evs: Seq<Ev>, i: int, k: int)
    requires 0 <= i <= k <= evs.len(), forall|j: int| i <= j < k ==> !((#[trigger] evs[j]).kind is Error),
    ensures first_err(evs, i) >= k, k < evs.len() && evs[k].kind is Error ==> first_err(evs, i) == k, first_err(evs, i) <= evs.len(),
        k < evs.len() && !(evs[k].kind is Error) ==> first_err(evs, i) > k,
    decreases k - i,
{
    if i < k { lemma_first_err(evs, i + 1, k); }
    else if i < evs.len() && !(evs[i].kind is Error) { lemma_first_err_le(evs, i + 1); }
}
proof fn lemma_first_err_le(evs: Seq<Ev>, i: int)
    requires 0 <= i <= evs.len(),
    ensures i <= first_err(evs, i) <= evs.len(),
    decreases evs.len() - i,
{
    if i < evs.len() && !(evs[i].kind is Error) { lemma_first_err_le(evs, i + 1); }
}

pub open spec fn manifest<RS>(zip: ZipArchive<RS>) -> Option<Seq<Ev>> { part_events(zip, "META-INF/manifest.xml"@) }

//@@ fn src/ods.rs check_for_password_protected props=C20 entry ret=r
//@@ sig
    ensures
        //# C20.ods_manifest_missing
        manifest(*old(zip)) is None ==> r is Err && !(r->Err_0 is Password),
        //# C20.ods_encrypted_reported
        manifest(*old(zip)) is Some && declares_encryption(manifest(*old(zip))->Some_0) ==> r is Err && r->Err_0 is Password,
        //# C20.ods_unencrypted_not_reported
        manifest(*old(zip)) is Some && !declares_encryption(manifest(*old(zip))->Some_0) ==> !(r is Err && r->Err_0 is Password),
        //# C20.ods_unencrypted_ok
        manifest(*old(zip)) is Some && !declares_encryption(manifest(*old(zip))->Some_0)
            && first_err(manifest(*old(zip))->Some_0, 0) >= manifest(*old(zip))->Some_0.len() ==> r is Ok,
//@@ before /let mut buf = Vec::new\(\);/
    let ghost evs = reader.events();
    let ghost mut scanned = false;
    let ghost mut i0: int = 0;
    proof { assert(manifest(*old(zip)) == Some(evs)); }
//@@ loop 0
        invariant
            evs == reader.events(), manifest(*old(zip)) == Some(evs), reader.pos() <= evs.len(),
            forall|k: int| 0 <= k < reader.pos() ==> !((#[trigger] evs[k]).kind is Error),
            !scanned ==> forall|k: int| 0 <= k < reader.pos() ==> !is_start(#[trigger] evs[k], n_file_entry()),
            scanned ==> reader.pos() >= evs.len() && !declares_encryption(evs),
        ensures
            reader.pos() >= evs.len(),
        decreases evs.len() - reader.pos(),
//@@ before /match reader\.read_event_into\(&mut buf\)/
        proof { lemma_first_err(evs, 0, reader.pos() as int); }
//@@ loop 1
                    invariant
                        evs == reader.events(), manifest(*old(zip)) == Some(evs), reader.pos() <= evs.len(), !scanned,
                        forall|k: int| 0 <= k < reader.pos() ==> !((#[trigger] evs[k]).kind is Error),
                        0 <= i0 < reader.pos(), is_start(evs[i0], n_file_entry()),
                        forall|k: int| 0 <= k < i0 ==> !is_start(#[trigger] evs[k], n_file_entry()),
                        forall|k: int| i0 < k < reader.pos() ==> !is_start(#[trigger] evs[k], n_encryption_data()),
                    ensures
                        reader.pos() >= evs.len(),
                    decreases evs.len() - reader.pos(),
//@@ before /match reader\.read_event_into\(&mut inner\)/
                    proof { lemma_first_err(evs, 0, reader.pos() as int); }
//@@ before /loop \{\s*match reader\.read_event_into\(&mut inner\)/
                proof { i0 = reader.pos() - 1; }
//@@ before /inner\.clear\(\)/
                proof {
                    lemma_first_err(evs, 0, evs.len() as int);
                    assert(!declares_encryption(evs));
                    scanned = true;
                }
//@@ before /\n    Ok\(\(\)\)/
    proof { lemma_first_err(evs, 0, evs.len() as int); }
//@@ end


// =====================================================================================================================
// C04 (second half): read_row / get_datatype
// =====================================================================================================================
//@@ item src/lib.rs enum CellErrorType keep_attrs
//@@ item src/datatype.rs enum ExcelDateTimeType keep_attrs
//@@ item src/datatype.rs struct ExcelDateTime keep_attrs
//@@ item src/datatype.rs enum Data keep_attrs
#[verifier::external_body] fn verif_opaque_string() -> String { String::new() }

// TRUSTED: A-xml -- quick_xml::events::attributes::{Attribute, Attributes}: `BytesStart::attributes()` iterates over the attributes of
// the start tag in document order; each item is Ok(Attribute { key, value }) with the qualified attribute name and the RAW value bytes,
// or Err(AttrError) for a malformed attribute.
pub struct Attribute<'a> { pub key: QName<'a>, pub value: Cow<'a, [u8]> }
pub open spec fn cow_bytes<'a>(c: Cow<'a, [u8]>) -> Seq<u8> { cow_ref(&c)@ }
#[verifier::external_body]
pub struct Attributes<'a> { _p: core::marker::PhantomData<&'a ()> }
impl<'a> Attributes<'a> {
    /// attributes not yet handed out
    pub uninterp spec fn rem(&self) -> Seq<Attr>;
}
impl<'a> Iterator for Attributes<'a> {
    type Item = Result<Attribute<'a>, quick_xml::events::attributes::AttrError>;
    // TRUSTED: A-xml
    #[verifier::external_body]
    fn next(&mut self) -> (r: Option<Result<Attribute<'a>, quick_xml::events::attributes::AttrError>>)
        ensures
            old(self).rem().len() == 0 ==> r is None && final(self).rem() == old(self).rem(),
            old(self).rem().len() > 0 ==> r is Some && final(self).rem() == old(self).rem().skip(1)
                && (old(self).rem()[0].err ==> r->Some_0 is Err)
                && (!old(self).rem()[0].err ==> r->Some_0 is Ok && (r->Some_0->Ok_0).key.0@ == old(self).rem()[0].key
                     && cow_bytes((r->Some_0->Ok_0).value) == old(self).rem()[0].raw),
    { unimplemented!() }
}
impl<'a> BytesStart<'a> {
    // TRUSTED: A-xml
    #[verifier::external_body]
    pub fn attributes(&self) -> (r: Attributes<'_>) ensures r.rem() == self.ev().attrs { unimplemented!() }
}
// ---- A-xml / A-std vocabulary for reading ONE attribute value as a number (same text as in unit odsxml)
/// `Decoder::decode`: the characters the bytes encode (UTF-8 unless the XML declaration says otherwise); None: invalid encoding
pub uninterp spec fn utf8(raw: Seq<u8>) -> Option<Seq<char>>;
/// attribute value decoded with entity / character references resolved (what `decode_and_unescape_value` returns); None: error
pub uninterp spec fn unesc(raw: Seq<u8>) -> Option<Seq<char>>;
/// `str::parse::<F>()` (`F::from_str`): a function of the text; None: Err.  The grammar of usize is NOT modelled (usize::from_str doc:
/// an optional `+` sign followed by decimal digits; Err on anything else or on overflow).
pub uninterp spec fn str_parse<F>(s: Seq<char>) -> Option<F>;
#[verifier::external_trait_specification]
pub trait ExFromStr: Sized { type ExternalTraitSpecificationFor: core::str::FromStr; type Err; }
// TRUSTED: A-std -- str::parse is a (deterministic) function of the characters
pub assume_specification<F: std::str::FromStr>[ str::parse::<F> ](s: &str) -> (r: Result<F, <F as std::str::FromStr>::Err>)
    ensures
        str_parse::<F>(s@) is Some ==> r is Ok && r->Ok_0 == str_parse::<F>(s@)->Some_0,
        str_parse::<F>(s@) is None ==> r is Err;
// TRUSTED: A-std -- `Cow::deref` yields the borrowed or owned content; `cow_ref` names it
pub uninterp spec fn cow_ref<'a, 'b, B: ?Sized + ToOwned>(c: &'b Cow<'a, B>) -> &'b B;
pub assume_specification<'a, 'b, B: ?Sized + ToOwned>[ <Cow<'a, B> as Deref>::deref ](c: &'b Cow<'a, B>) -> (r: &'b B)
    ensures r == cow_ref(c);
/// the decimal number the attribute VALUE spells (XML 1.0 3.3.3: the raw bytes with character / entity references resolved --
/// `decode_and_unescape_value` -- then `str::parse::<usize>()`), None if it does not
pub open spec fn parse_usize(raw: Seq<u8>) -> Option<usize> {
    match unesc(raw) { Some(t) => str_parse::<usize>(t), None => None }
}
impl<'a> XmlReader<BufReader<ZipFile<'a>>> {
    // TRUSTED: A-xml -- reads events until the End tag with this qualified name at nesting depth 0
    #[verifier::external_body]
    pub fn read_to_end_into(&mut self, end: QName<'_>, buf: &mut Vec<u8>) -> (r: Result<(), quick_xml::Error>)
        ensures
            final(self).events() == old(self).events(),
            final(self).pos() >= old(self).pos(),
            r is Ok ==> final(self).pos() == rte_next(old(self).events(), old(self).pos(), end.0@),
    { unimplemented!() }
}
// TRUSTED: `#[derive(Clone)]` on Data yields a value equal to the original (Verus attaches no specification to the derived impl)
#[verifier::external_body]
pub proof fn axiom_data_clone()
    ensures forall|a: Data, b: Data| call_ensures(<Data as Clone>::clone, (&a,), b) ==> a == b,
{}
// TRUSTED: calamine's `DataType::is_empty` for Data is `*self == Data::Empty` (src/datatype.rs:48; derived PartialEq)
pub trait DataType { fn is_empty(&self) -> bool; }
impl DataType for Data {
    #[verifier::external_body]
    fn is_empty(&self) -> (r: bool) ensures r == (self is Empty) { unimplemented!() }
}
// what `from_err!(quick_xml::Error, OdsError, Xml)` (macro of src/utils.rs) expands to
impl From<quick_xml::Error> for OdsError { fn from(e: quick_xml::Error) -> (r: OdsError) { OdsError::Xml(e) } }
impl vstd::std_specs::convert::FromSpecImpl<quick_xml::Error> for OdsError {
    open spec fn obeys_from_spec() -> bool { true }
    open spec fn from_spec(e: quick_xml::Error) -> Self { OdsError::Xml(e) }
}

pub open spec fn n_cell() -> Seq<u8> { b"table:table-cell"@ }
pub open spec fn n_covered() -> Seq<u8> { b"table:covered-table-cell"@ }
pub open spec fn n_row() -> Seq<u8> { b"table:table-row"@ }
pub open spec fn n_ncr() -> Seq<u8> { b"table:number-columns-repeated"@ }
pub open spec fn is_cell_start(e: Ev) -> bool { e.kind is Start && (e.name =~= n_cell() || e.name =~= n_covered()) }

/// ODF 1.2 19.675 table:number-columns-repeated: "specifies the number of successive columns in which a cell is repeated"; default 1.
/// None: the attribute list is malformed before the attribute is found, or the value is not a number.
pub open spec fn rep_scan(attrs: Seq<Attr>) -> Option<usize>
    decreases attrs.len()
{
    if attrs.len() == 0 { Some(1usize) }
    else if attrs[0].err { None }
    else if attrs[0].key =~= n_ncr() { parse_usize(attrs[0].raw) }
    else { rep_scan(attrs.skip(1)) }
}
/// NOT VERIFIED (get_datatype is not under proof, see below): the typed value, the formula text and the "element already closed" flag
/// that get_datatype derives from a cell's attributes and content, and the reader position it leaves
pub uninterp spec fn gd_value(evs: Seq<Ev>, pos: nat, attrs: Seq<Attr>) -> Data;
pub uninterp spec fn gd_formula(evs: Seq<Ev>, pos: nat, attrs: Seq<Attr>) -> Seq<char>;
pub uninterp spec fn gd_closed(evs: Seq<Ev>, pos: nat, attrs: Seq<Attr>) -> bool;
pub uninterp spec fn gd_next(evs: Seq<Ev>, pos: nat, attrs: Seq<Attr>) -> nat;
/// position after `read_to_end_into(name)` started at pos
pub uninterp spec fn rte_next(evs: Seq<Ev>, pos: nat, name: Seq<u8>) -> nat;

pub ghost struct CellEl { pub n: usize, pub v: Data, pub f: Seq<char> }
/// the cell element whose start tag is event p (content starts at p + 1)
pub open spec fn cell_el(evs: Seq<Ev>, p: nat) -> CellEl {
    CellEl { n: rep_scan(evs[p as int].attrs).unwrap_or(1), v: gd_value(evs, p + 1, evs[p as int].attrs), f: gd_formula(evs, p + 1, evs[p as int].attrs) }
}
/// reader position after the cell element whose start tag is event p
pub open spec fn cell_next(evs: Seq<Ev>, p: nat) -> nat {
    let a = evs[p as int].attrs;
    if gd_closed(evs, p + 1, a) { gd_next(evs, p + 1, a) } else { rte_next(evs, gd_next(evs, p + 1, a), evs[p as int].name) }
}
/// character data and comments between the cells of a row (the white space of an indented content.xml) are not part of the table
/// (ODF 1.2 9.1.3: <table:table-row> has element content only)
pub open spec fn is_filler(e: Ev) -> bool { e.kind is Text || e.kind is Comment }
/// the cell elements of the row whose content starts at event p, in document order
pub open spec fn row_cells(evs: Seq<Ev>, p: nat) -> Seq<CellEl>
    decreases (if p <= evs.len() { evs.len() - p } else { 0 })
{
    if p >= evs.len() { Seq::empty() }
    else if is_filler(evs[p as int]) { row_cells(evs, p + 1) }
    else if !is_cell_start(evs[p as int]) || cell_next(evs, p) <= p { Seq::empty() }
    else { seq![cell_el(evs, p)] + row_cells(evs, cell_next(evs, p)) }
}
/// THE LOGICAL ROW: every cell element contributes n copies of its value
pub open spec fn expand_v(cl: Seq<CellEl>) -> Seq<Data>
    decreases cl.len()
{
    if cl.len() == 0 { Seq::empty() } else { expand_v(cl.drop_last()) + Seq::new(cl.last().n as nat, |i: int| cl.last().v) }
}
pub open spec fn expand_f(cl: Seq<CellEl>) -> Seq<Seq<char>>
    decreases cl.len()
{
    if cl.len() == 0 { Seq::empty() } else { expand_f(cl.drop_last()) + Seq::new(cl.last().n as nat, |i: int| cl.last().f) }
}
/// `out` is the logical row `full` up to a dropped run of trailing empty cells
pub open spec fn row_v_ok(full: Seq<Data>, out: Seq<Data>) -> bool {
    out.len() <= full.len() && out =~= full.take(out.len() as int) && forall|i: int| out.len() <= i < full.len() ==> full[i] is Empty
}
pub open spec fn row_f_ok(full: Seq<Seq<char>>, out: Seq<Seq<char>>) -> bool {
    out.len() <= full.len() && out =~= full.take(out.len() as int) && forall|i: int| out.len() <= i < full.len() ==> full[i].len() == 0
}
pub open spec fn strs(v: Seq<String>) -> Seq<Seq<char>> { Seq::new(v.len(), |i: int| v[i]@) }
pub open spec fn empties(n: int) -> Seq<Data> { Seq::new(n as nat, |i: int| Data::Empty) }
pub open spec fn emptyf(n: int) -> Seq<Seq<char>> { Seq::new(n as nat, |i: int| Seq::<char>::empty()) }
pub open spec fn copies_v(n: int, v: Data) -> Seq<Data> { Seq::new(n as nat, |i: int| v) }
pub open spec fn copies_f(n: int, f: Seq<char>) -> Seq<Seq<char>> { Seq::new(n as nat, |i: int| f) }
proof fn lemma_strs_push(v: Seq<String>, st: String)
    ensures strs(v.push(st)) =~= strs(v).push(st@),
{}
proof fn lemma_expand_push(cl: Seq<CellEl>, el: CellEl)
    ensures
        expand_v(cl.push(el)) =~= expand_v(cl) + copies_v(el.n as int, el.v),
        expand_f(cl.push(el)) =~= expand_f(cl) + copies_f(el.n as int, el.f),
{
    assert(cl.push(el).drop_last() =~= cl);
    assert(cl.push(el).last() == el);
}

// TRUSTED: A-xml -- quick_xml::encoding::Decoder / Attribute::decode_and_unescape_value (same contracts as in unit odsxml): read_row
// reads table:number-columns-repeated through them
#[verifier::external_body]
pub struct Decoder { _p: core::marker::PhantomData<()> }
impl Decoder {
    // TRUSTED: A-xml -- decodes the bytes (no unescaping)
    #[verifier::external_body]
    pub fn decode<'b>(&self, bytes: &'b [u8]) -> (r: Result<Cow<'b, str>, quick_xml::encoding::EncodingError>)
        ensures
            utf8(bytes@) is Some ==> r is Ok && cow_ref(&r->Ok_0)@ == utf8(bytes@)->Some_0,
            utf8(bytes@) is None ==> r is Err,
    { unimplemented!() }
}
impl<'a> XmlReader<BufReader<ZipFile<'a>>> {
    // TRUSTED: A-xml
    #[verifier::external_body]
    pub fn decoder(&self) -> Decoder { unimplemented!() }
}
impl<'a> Attribute<'a> {
    // TRUSTED: A-xml -- decodes the raw value and resolves entity / character references
    #[verifier::external_body]
    pub fn decode_and_unescape_value(&self, d: Decoder) -> (r: Result<Cow<'a, str>, quick_xml::Error>)
        ensures
            unesc(cow_bytes(self.value)) is Some ==> r is Ok && cow_ref(&r->Ok_0)@ == unesc(cow_bytes(self.value))->Some_0,
            unesc(cow_bytes(self.value)) is None ==> r is Err,
    { unimplemented!() }
}
// type-level stand-ins needed only so that the (unverified, external_body) text of get_datatype type-checks
impl<'a> BytesText<'a> {
    #[verifier::external_body]
    pub fn unescape(&self) -> Result<Cow<'a, str>, quick_xml::Error> { unimplemented!() }
}
impl<'a> BytesStart<'a> {
    #[verifier::external_body]
    pub fn try_get_attribute(&self, name: &str) -> Result<Option<Attribute<'_>>, quick_xml::events::attributes::AttrError> { unimplemented!() }
}
impl From<quick_xml::encoding::EncodingError> for OdsError { #[verifier::external_body] fn from(e: quick_xml::encoding::EncodingError) -> OdsError { unimplemented!() } }
impl From<quick_xml::events::attributes::AttrError> for OdsError { #[verifier::external_body] fn from(e: quick_xml::events::attributes::AttrError) -> OdsError { unimplemented!() } }

// NOT VERIFIED -- `external_body`: get_datatype's text needs Decoder::decode, decode_and_unescape_value, BytesText::unescape,
// try_get_attribute, str::parse::<f64/usize>, byte-string-literal match patterns and String building; that is outside what this unit
// could put under proof in the time available.  Its contract here only names its results (uninterpreted) and says that it moves the
// reader forward without touching the cell vectors; the typing clauses of C04 for it are NOT established by this unit.
//@@ fn src/ods.rs get_datatype props=C04 ret=r external_body
//@@ sig
    ensures
        final(reader).events() == old(reader).events(),
        final(reader).pos() >= old(reader).pos(),
        r is Ok ==> r->Ok_0.0 == gd_value(old(reader).events(), old(reader).pos(), atts.rem())
            && r->Ok_0.1@ == gd_formula(old(reader).events(), old(reader).pos(), atts.rem())
            && r->Ok_0.2 == gd_closed(old(reader).events(), old(reader).pos(), atts.rem())
            && final(reader).pos() == gd_next(old(reader).events(), old(reader).pos(), atts.rem()),
//@@ end

//@@ item src/ods.rs const MAX_COLUMNS
//@@ fn src/ods.rs read_row props=C04,C14 entry ret=r r4 r12
//@@ r6 1
//@@ sig
    ensures
        //# C04.row_frame_events
        r is Ok ==> final(reader).events() == old(reader).events(),
        //# C04.row_repeat_expansion_values
        r is Ok ==> exists|out: Seq<Data>| final(cells)@ == old(cells)@ + out
            && row_v_ok(expand_v(row_cells(old(reader).events(), old(reader).pos())), out),
        //# C04,C14.row_repeat_expansion_formulas
        r is Ok ==> exists|out: Seq<Seq<char>>| strs(final(formulas)@) == strs(old(formulas)@) + out
            && row_f_ok(expand_f(row_cells(old(reader).events(), old(reader).pos())), out),
        //# C06.row_within_grid_columns
        r is Ok ==> expand_v(row_cells(old(reader).events(), old(reader).pos())).len() <= grid_cols(),
        //# C06.row_growth_within_grid_columns
        r is Ok ==> final(cells)@.len() - old(cells)@.len() <= grid_cols() && final(formulas)@.len() - old(formulas)@.len() <= grid_cols(),
//@@ body
    let ghost evs = reader.events();
    let ghost p0 = reader.pos();
    let ghost c0 = cells@;
    let ghost f0 = strs(formulas@);
    let ghost mut done: Seq<CellEl> = Seq::empty();
    let ghost mut av: Seq<Data> = Seq::empty();
    let ghost mut af: Seq<Seq<char>> = Seq::empty();
    proof { axiom_data_clone(); reveal_strlit(""); assert(c0 + av =~= c0); assert(f0 + af =~= f0); assert(Seq::<CellEl>::empty() + row_cells(evs, p0) =~= row_cells(evs, p0)); }
//@@ loop 0
        invariant_except_break
            row_cells(evs, p0) == done + row_cells(evs, reader.pos()),
        invariant
            reader.events() == evs, evs == old(reader).events(), c0 == old(cells)@, f0 == strs(old(formulas)@), p0 == old(reader).pos(),
            cells@ == c0 + av, av + empties(empty_col_repeats as int) =~= expand_v(done),
            strs(formulas@) == f0 + af, af + emptyf(empty_col_repeats as int) =~= expand_f(done),
            forall|a: Data, b: Data| call_ensures(<Data as Clone>::clone, (&a,), b) ==> a == b,
            //# C06.row_len_counts_the_columns
            row_len == av.len() + empty_col_repeats && row_len == af.len() + empty_col_repeats && row_len <= grid_cols(),
        ensures
            row_cells(evs, p0) == done,
        decreases (if reader.pos() <= evs.len() { evs.len() - reader.pos() } else { 0 }),
//@@ before /match reader\.read_event_into\(row_buf\)/
        let ghost pb = reader.pos();
//@@ before /let mut repeats = /
                let ghost p: nat = pb;
                let ghost attrs0 = evs[p as int].attrs;
                let ghost mut found = false;
                proof {
                    assert(pb < evs.len());
                    assert(e.ev() == evs[p as int]);
                    assert(is_cell_start(evs[p as int]));
                }
//@@ loop 1
                    invariant_except_break
                        !found && repeats == 1 && rep_scan(attrs0) == rep_scan(__it1.rem()),
                    invariant
                        reader.events() == evs, reader.pos() == p + 1, evs == old(reader).events(),
                    ensures
                        rep_scan(attrs0) == Some(repeats),
                    decreases __it1.rem().len(),
//@@ before /let a = a\.map_err/
                    let ghost rem0 = __it1.rem();
//@@ before /break;/
                        proof {
                            found = true;
                            // the count is the number the attribute VALUE spells: references resolved (`parse_usize` over `unesc`)
                            //# C04.row_repeat_count_is_the_unescaped_attribute_value
                            assert(rep_scan(attrs0) == Some(repeats));
                        }
//@@ before /let \(value, formula, is_closed\) = /
                let ghost el = cell_el(evs, p);
//@@ after /let \(value, formula, is_closed\) = [^;]*;/
                proof {
                    assert(el.n == repeats && el.v == value && el.f == formula@);
                }
                let ghost av1 = av;
                let ghost af1 = af;
                let ghost pend = empty_col_repeats;
//@@ loop 2 it2
                    invariant
                        cells@ == c0 + av1 + empties(it2.index@ as int),
                        strs(formulas@) == f0 + af1 + emptyf(it2.index@ as int),
//@@ before /formulas\.push\(""\.to_string\(\)\);/
                    let ghost fv0 = formulas@;
//@@ after /formulas\.push\(""\.to_string\(\)\);/
                    proof {
                        reveal_strlit("");
                        lemma_strs_push(fv0, formulas@.last());
                        assert(formulas@ =~= fv0.push(formulas@.last()));
                        assert(formulas@.last()@ =~= Seq::<char>::empty());
                        assert((f0 + af1 + emptyf(it2.index@ as int)).push(Seq::<char>::empty()) =~= f0 + af1 + emptyf(it2.index@ + 1));
                        assert(empties(it2.index@ + 1) =~= empties(it2.index@ as int).push(Data::Empty));
                        assert(emptyf(it2.index@ + 1) =~= emptyf(it2.index@ as int).push(Seq::<char>::empty()));
                        assert(cells@ =~= c0 + av1 + empties(it2.index@ + 1));
                        assert(strs(formulas@) =~~= f0 + af1 + emptyf(it2.index@ + 1));
                    }
//@@ before /if value\.is_empty\(\)/
                let ghost av2 = av1 + empties(pend as int);
                let ghost af2 = af1 + emptyf(pend as int);
                proof {
                    assert(cells@ =~= c0 + av2);
                    assert(strs(formulas@) =~~= f0 + af2);
                    assert(av2 =~= expand_v(done));
                    assert(af2 =~= expand_f(done));
                    lemma_expand_push(done, el);
                }
//@@ loop 3 it3
                        invariant
                            cells@ == c0 + av2 + copies_v(it3.index@ as int, value),
                            strs(formulas@) == f0 + af2 + copies_f(it3.index@ as int, formula@),
                            forall|a: Data, b: Data| call_ensures(<Data as Clone>::clone, (&a,), b) ==> a == b,
//@@ before /formulas\.push\(formula\.clone\(\)\);/
                        let ghost fv0 = formulas@;
//@@ after /formulas\.push\(formula\.clone\(\)\);/
                        proof {
                            lemma_strs_push(fv0, formulas@.last());
                            assert(formulas@ =~= fv0.push(formulas@.last()));
                            assert(formulas@.last()@ == formula@);
                            assert((f0 + af2 + copies_f(it3.index@ as int, formula@)).push(formula@) =~= f0 + af2 + copies_f(it3.index@ + 1, formula@));
                            assert(copies_v(it3.index@ + 1, value) =~= copies_v(it3.index@ as int, value).push(value));
                            assert(copies_f(it3.index@ + 1, formula@) =~= copies_f(it3.index@ as int, formula@).push(formula@));
                            assert(cells@ =~= c0 + av2 + copies_v(it3.index@ + 1, value));
                            assert(strs(formulas@) =~~= f0 + af2 + copies_f(it3.index@ + 1, formula@));
                        }
//@@ before /if !is_closed \{/
                proof {
                    if (value is Empty) && formula@.len() == 0 {
                        assert(formula@ =~= Seq::<char>::empty());
                        assert(copies_v(repeats as int, value) =~= empties(repeats as int));
                        assert(copies_f(repeats as int, formula@) =~= emptyf(repeats as int));
                        av = av2; af = af2;
                    } else {
                        assert(empties(0) =~= Seq::<Data>::empty());
                        assert(emptyf(0) =~= Seq::<Seq<char>>::empty());
                        av = av2 + copies_v(repeats as int, value); af = af2 + copies_f(repeats as int, formula@);
                        assert(av + empties(0) =~= av);
                        assert(af + emptyf(0) =~= af);
                    }
                    done = done.push(el);
                }
//@@ after /reader\.read_to_end_into\(e\.name\(\), cell_buf\)\?;\s*\}/
                proof {
                    assert(reader.pos() == cell_next(evs, p));
                    assert(cell_next(evs, p) > p);
                    assert(row_cells(evs, p) =~= seq![el] + row_cells(evs, cell_next(evs, p)));
                    assert(done =~= done.drop_last().push(el));
                    assert(done.drop_last() + (seq![el] + row_cells(evs, cell_next(evs, p))) =~= done + row_cells(evs, cell_next(evs, p)));
                }
//@@ before /\n    Ok\(\(\)\)/
    proof {
        let fullv = expand_v(row_cells(evs, p0));
        assert(fullv =~= av + empties(empty_col_repeats as int));
        assert(row_v_ok(fullv, av));
        let fullf = expand_f(row_cells(evs, p0));
        assert(fullf =~= af + emptyf(empty_col_repeats as int));
        assert(row_f_ok(fullf, af));
    }
//@@ end

} // verus!
fn main() {}
