//@@ unit props=C04,C06,C20
// Unit ods: src/ods.rs get_range (the mechanism of C04) and is_empty_row, verbatim text.
#![allow(unused_imports, dead_code, unused_variables, unused_mut, unused_assignments)]
use vstd::prelude::*;
use vstd::std_specs::iter::IteratorSpec;
use vstd::std_specs::cmp::PartialEqSpec;
use std::slice::{Windows, Iter};
use std::iter::{Enumerate, Skip, Take, Zip};

verus! {

//@@ item src/lib.rs struct Range

// TRUSTED: `#[derive(Default)]` on `struct Range<T>` (src/lib.rs; the derive expansion itself is outside Verus' subset):
// every field is its type's default -- (0, 0), (0, 0), empty Vec.
impl<T> Range<T> {
    pub closed spec fn lo(&self) -> (u32, u32) { self.start }
    pub closed spec fn hi(&self) -> (u32, u32) { self.end }
    pub closed spec fn data(&self) -> Seq<T> { self.inner@ }
}
impl<T: Default> Default for Range<T> {
    fn default() -> (r: Self)
        ensures r.lo() == (0u32, 0u32), r.hi() == (0u32, 0u32), r.data().len() == 0,
    {
        Range { start: (0, 0), end: (0, 0), inner: Vec::new() }
    }
}

// ---------------------------------------------------------------------------------------------------------------
// cell type: the default value, and the laws every CellType of the crate (Data, DataRef, String, usize) obeys
// ---------------------------------------------------------------------------------------------------------------
pub open spec fn dflt<T: Default>() -> T { choose|d: T| call_ensures(T::default, (), d) }
// TRUSTED (as a hypothesis of the functional clauses, never assumed silently): `clone` returns an equal value, `default` is
// deterministic, `==` is structural equality.
pub open spec fn lawful<T: Default + Clone + PartialEq>() -> bool {
    &&& forall|a: T, b: T| call_ensures(T::clone, (&a,), b) ==> a == b
    &&& forall|a: T, b: T| call_ensures(T::default, (), a) && call_ensures(T::default, (), b) ==> a == b
    &&& T::obeys_eq_spec()
    &&& forall|a: T, b: T| #[trigger] a.eq_spec(&b) <==> (a == b)
}

// ---------------------------------------------------------------------------------------------------------------
// assumed std behaviour (A-std / A-chunks)
// ---------------------------------------------------------------------------------------------------------------
#[verifier::external_type_specification] #[verifier::external_body] #[verifier::reject_recursive_types(T)]
pub struct ExWindows<'a, T: 'a>(Windows<'a, T>);
#[verifier::external_type_specification] #[verifier::external_body] #[verifier::reject_recursive_types(I)]
pub struct ExEnumerate<I>(Enumerate<I>);

/// `r` is the sequence of all contiguous windows of length n of s, in order (empty if s is shorter than n)
pub open spec fn win_ok<T>(s: Seq<T>, n: int, r: Seq<&[T]>) -> bool {
    r.len() == (if s.len() >= n { s.len() - n + 1 } else { 0 })
    && forall|i: int| 0 <= i < r.len() ==> (#[trigger] r[i])@ == s.subrange(i, i + n)
}
// TRUSTED: core::slice::windows doc: "Returns an iterator over all contiguous windows of length size. The windows overlap.
// If the slice is shorter than size, the iterator returns no values. Panics if size is zero."
pub assume_specification<'a, T>[ <[T]>::windows ](s: &'a [T], n: usize) -> (r: Windows<'a, T>)
    requires n != 0,
    ensures r.obeys_prophetic_iter_laws(), win_ok(s@, n as int, r.remaining());

/// `s` is the sequence of values behind the references `rem`
pub open spec fn vals_of<T>(rem: Seq<&T>, s: Seq<T>) -> bool {
    rem.len() == s.len() && forall|i: int| 0 <= i < rem.len() ==> *(#[trigger] rem[i]) == s[i]
}
// TRUSTED: Iterator::position doc: "Searches for an element in an iterator, returning its index. [...] applies the closure to
// each element; if one of them returns true, position() returns Some(index). If all of them return false, it returns None.
// position() is short-circuiting". (Stated over any value sequence `s` behind the remaining references so that callers
// holding only the slice can use it.)
pub assume_specification<'a, T, P: FnMut(&'a T) -> bool>[ <Iter<'a, T> as Iterator>::position::<P> ](it: &mut Iter<'a, T>, p: P) -> (r: Option<usize>)
    where Iter<'a, T>: Sized
    requires
        forall|x: &'a T| call_requires(p, (x,)),
    ensures
        r is Some ==> r->Some_0 < old(it).remaining().len() && call_ensures(p, (old(it).remaining()[r->Some_0 as int],), true),
        forall|s: Seq<T>, j: int| vals_of(old(it).remaining(), s) && 0 <= j < s.len() && (r is Some ==> j < r->Some_0)
            ==> call_ensures(p, (&#[trigger] s[j],), false);
// TRUSTED: the body is the real expression `row.iter().rposition(closure)`, moved into a function: `slice::Iter::rposition` carries the
// where-clause `Self: ExactSizeIterator + DoubleEndedIterator`, with which Verus resolves the path to the (unspecifiable) provided trait
// method.  Iterator::rposition doc: "Searches for an element in an iterator from the right, returning its index. [...] if one of them
// returns true, then rposition() returns Some(index). If all of them return false, it returns None. rposition() is short-circuiting".
#[verifier::external_body]
fn verif_rposition<'a, T, P: FnMut(&'a T) -> bool>(s: &'a [T], p: P) -> (r: Option<usize>)
    requires
        forall|x: &'a T| call_requires(p, (x,)),
    ensures
        r is Some ==> r->Some_0 < s@.len() && call_ensures(p, (&s@[r->Some_0 as int],), true),
        forall|j: int| 0 <= j < s@.len() && (r is Some ==> j > r->Some_0) ==> call_ensures(p, (&#[trigger] s@[j],), false),
{
    s.iter().rposition(p)
}

/// sum of the first n elements
pub open spec fn rep_sum(s: Seq<usize>, n: int) -> int
    decreases n
{
    if n <= 0 { 0 } else { rep_sum(s, n - 1) + s[n - 1] }
}
pub open spec fn imin(a: int, b: int) -> int { if a < b { a } else { b } }

// TRUSTED: the body is the real expression `rows_repeats.iter().take(i).sum::<usize>()`, moved into a function because Verus has no
// `assume_specification` for provided trait methods (`Iterator::sum`).  Iterator::take doc: "yields the first n elements, or fewer if
// the underlying iterator ends sooner"; Iterator::sum doc: "Sums the elements of an iterator. [...] When calling sum() and a primitive
// integer type is being returned, this method will panic if the computation overflows and overflow checks are enabled."
#[verifier::external_body]
fn verif_sum_take(s: &[usize], n: usize) -> (r: usize)
    requires
        rep_sum(s@, imin(n as int, s@.len() as int)) <= usize::MAX,
    ensures
        r == rep_sum(s@, imin(n as int, s@.len() as int)),
{
    s.iter().take(n).sum::<usize>()
}

// TRUSTED: the body is the real expression `cols.windows(2).enumerate()`, moved into a function because Verus has no
// `assume_specification` for provided trait methods (`Iterator::enumerate`).  Iterator::enumerate doc: "Creates an iterator which gives
// the current iteration count as well as the next value. The iterator returned yields pairs (i, val)".
#[verifier::external_body]
fn verif_windows_enumerate<'a, T>(s: &'a [T], n: usize) -> (r: Enumerate<Windows<'a, T>>)
    requires n != 0,
    ensures
        r.obeys_prophetic_iter_laws(),
        exists|w: Seq<&[T]>| win_ok(s@, n as int, w) && r.remaining().len() == w.len()
            && forall|i: int| 0 <= i < w.len() ==> (#[trigger] r.remaining()[i]).0 == i && r.remaining()[i].1 == w[i],
{
    s.windows(n).enumerate()
}

//@@ fn src/ods.rs is_empty_row ret=r
//@@ end

//@@ fn src/ods.rs get_range props=C04 ret=r
//@@ r6 0 iter /cols\.windows\(2\)\.enumerate\(\)/ Verus cannot attach a specification to the provided trait method Iterator::enumerate; the expression is moved verbatim into the trusted wrapper verif_windows_enumerate
verif_windows_enumerate(cols, 2)
//@@ r6 1
//@@ replace /rows_repeats\.iter\(\)\.take\(i\)\.sum::<usize>\(\)/ Verus cannot attach a specification to the provided trait method Iterator::sum; the expression is moved verbatim into the trusted wrapper verif_sum_take
verif_sum_take(rows_repeats, i)
//@@ replace /row\.iter\(\)\.rposition\(/ slice::Iter::rposition cannot be given an assume_specification (its where-clause makes the path resolve to the provided trait method); the call is moved verbatim into the trusted wrapper verif_rposition
verif_rposition(row, 
//@@ end

} // verus!
fn main() {}
