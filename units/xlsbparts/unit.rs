//@@ unit props=C14,C03,C16,C06,C20 rlimit=200
// Unit xlsbparts: the parts of the xlsb reader no other unit has under contract (real text, extracted by byte span).
//   XlsbCellsReader::next_formula (src/xlsb/cells_reader.rs, entry)   C14 "every formula is returned at its cell with the text its tokens
//                                   encode", C06: against the ghost byte-stream model of unit xlsbrec.  Oracle `fscan`: the record walk of
//                                   [MS-XLSB] 2.1.7.62 (BrtRowHdr sets the row, BrtFmlaString / Num / Bool / Error carry a CellParsedFormula
//                                   behind Cell + cached value + grbitFlags, BrtEndSheetData ends, any other record -- constant cells
//                                   included -- is passed over whole).  Clauses: position == (row of the last BrtRowHdr, column field),
//                                   text == formula_text(rgce of THIS record, extern sheets, names) (uninterpreted: unit xlsbfml), the
//                                   reader stands behind that record, rejected tokens => Err, record shorter than its layout / its cce
//                                   => Err (never a panic, never stale buffer bytes), short BrtRowHdr => Err, end => Ok(None),
//                                   truncated stream => Err, frame; every slice / index obligation.
//   Xlsb::read_relationships (src/xlsb/mod.rs, entry)                  C03,C16 "which part belongs to which relationship id": result map ==
//                                   Id -> Target VALUE of every Relationship element (namespace + local name) of
//                                   xl/_rels/workbook.bin.rels, by the OPC 9.3 walk `rb_scan` over the A-xml / A-zip ghost models of unit
//                                   xlsxparts; no relationships part => no relationships (OPC); unreadable part => Err; reader
//                                   configuration == what A-xml assumes; frame (fields, archive content).
//   Reader::new for Xlsb (src/xlsb/mod.rs, entry)                      C20,C16,C06 the composition `xlsb_new_run` (scheme of unit ctors):
//                                   password check on the raw reader first (its error is the result), zip directory, then from a FRESH
//                                   reader shared strings -> styles -> relationships -> workbook over exactly these relationships; first
//                                   error returned as it is; result == the state the last reader left.  C20: an encrypted package is
//                                   reported (through the clauses of check_for_password_protected proved in unit cfb).
//   Cell::new                                                          C14 (position, value) stored as given.
// NOT here: Reader::worksheets for Xlsb -- its `filter_map` closure captures `&mut self` (Verus rejects closures capturing `&mut`); the
//   per-sheet work it does (worksheet_range -> worksheet_range_ref / worksheet_cells_reader) is under contract in units xlsbwb / lazyrange.
//   worksheet_formula, worksheet_cells_reader, read_workbook, read_styles, read_shared_strings: unit xlsbwb; next_cell / new of the cells
//   reader, RecordIter, wide_str: unit xlsbrec; parse_formula: unit xlsbfml; check_for_password_protected: unit cfb.
// TRUSTED (all marked below): callee contracts copied from the units that prove them (RecordIter::read_type / fill_buffer: xlsbrec;
//   check_len: xlsbwb; read_u32: common/bytes.rs, Kani; parse_formula as `formula_text`: xlsbfml; check_for_password_protected: cfb; the
//   three part readers of xlsbwb as uninterpreted call relations), the quick-xml / zip stand-ins (A-xml / A-zip, copied from xlsxparts),
//   byte-keyed BTreeMap axioms (`bk_lookup`), byte-literal contents (axiom_bytelits), Cow specs, `?` == From::from (axiom_question_mark_from),
//   derive(Default) expansions, wrapper verif_cow_to_vec (`v.to_vec()` on a Cow<[u8]>).
// Declared rewrites (logged): break-with-value desugaring (next_formula), byte-string literal patterns -> binding + guard,
//   `map_err(Variant)` eta-expanded, `v.to_vec()` -> verif_cow_to_vec(&v), R2m (`mut reader` parameter).
// Findings: findings/xlsbparts.json -- all four repaired (fixes/xlsbparts_1..3), listed under "fixed".
#![allow(unused_imports, dead_code, unused_variables, unused_mut, unused_assignments, unexpected_cfgs)]
#![feature(allocator_api)]
use vstd::prelude::*;
use vstd::slice::SliceIndexSpec;
use std::ops::{Index, IndexMut};
use std::slice::SliceIndex;
use std::borrow::Cow;
use std::ops::Deref;
use std::io::{Read, Seek};
use std::collections::BTreeMap;
use vstd::std_specs::cmp::PartialEqSpec;
use vstd::std_specs::iter::{IteratorSpec, IteratorSpecImpl};

verus! {

global size_of usize == 8;   // checked by rustc against the target (x86_64)

// ---- stand-ins for foreign error payload types (opaque; never inspected by the verified code)
pub mod quick_xml {
    pub struct Error;
    pub mod events { pub mod attributes { pub struct AttrError; } }
    pub mod encoding { pub struct EncodingError; }
}
// TRUSTED: A-zip -- zip::result::ZipError (zip 2.4): the payloads of Io / InvalidArchive / UnsupportedArchive are dropped (never inspected)
pub mod zip { pub mod result { pub enum ZipError { Io, InvalidArchive, UnsupportedArchive, FileNotFound, InvalidPassword } } }
pub mod vba { pub struct VbaError; }
#[verifier::external_type_specification] #[verifier::external_body] pub struct ExIoError(std::io::Error);
#[verifier::external_trait_specification] pub trait ExRead { type ExternalTraitSpecificationFor: std::io::Read; }
#[verifier::external_trait_specification] pub trait ExSeek { type ExternalTraitSpecificationFor: std::io::Seek; }

//@@ item src/xlsb/mod.rs enum XlsbError
// what `from_err!(std::io::Error, XlsbError, Io)` (macro of src/utils.rs) expands to, `e.into()` being the identity here
impl From<std::io::Error> for XlsbError { fn from(e: std::io::Error) -> (r: XlsbError) { XlsbError::Io(e) } }
impl vstd::std_specs::convert::FromSpecImpl<std::io::Error> for XlsbError {
    open spec fn obeys_from_spec() -> bool { true }
    open spec fn from_spec(e: std::io::Error) -> Self { XlsbError::Io(e) }
}

// what `from_err!(zip::result::ZipError, XlsbError, Zip)` / `from_err!(quick_xml::Error, XlsbError, Xml)` expand to
impl From<zip::result::ZipError> for XlsbError { fn from(e: zip::result::ZipError) -> (r: XlsbError) ensures r == XlsbError::Zip(e) { XlsbError::Zip(e) } }
impl vstd::std_specs::convert::FromSpecImpl<zip::result::ZipError> for XlsbError {
    open spec fn obeys_from_spec() -> bool { true }
    open spec fn from_spec(e: zip::result::ZipError) -> Self { XlsbError::Zip(e) }
}
impl From<quick_xml::Error> for XlsbError { fn from(e: quick_xml::Error) -> (r: XlsbError) ensures r == XlsbError::Xml(e) { XlsbError::Xml(e) } }
impl vstd::std_specs::convert::FromSpecImpl<quick_xml::Error> for XlsbError {
    open spec fn obeys_from_spec() -> bool { true }
    open spec fn from_spec(e: quick_xml::Error) -> Self { XlsbError::Xml(e) }
}

// ---- A-io: ghost byte-stream model of the reader behind RecordIter (mirror of unit xlsbrec)
// TRUSTED: A-io -- `ZipFile` / `BufReader` are stand-ins for zip::read::ZipFile and std::io::BufReader (never touched directly here)
#[verifier::external_body]
pub struct ZipFile<'a> { _p: core::marker::PhantomData<&'a ()> }
#[verifier::external_body]
#[verifier::reject_recursive_types(R)]
pub struct BufReader<R> { _p: core::marker::PhantomData<R> }
impl<R> BufReader<R> {
    /// bytes not yet consumed
    pub uninterp spec fn rem(&self) -> Seq<u8>;
    // TRUSTED: A-io (only needed so that the bodies of the external_body RecordIter methods below type-check)
    #[verifier::external_body]
    pub fn read_exact(&mut self, buf: &mut [u8]) -> (r: Result<(), std::io::Error>)
    { unimplemented!() }
    /// the reader it wraps
    pub uninterp spec fn inner(&self) -> R;
    // TRUSTED: std::io::BufReader::new -- a buffering wrapper around `inner`: same bytes
    #[verifier::external_body]
    pub fn new(inner: R) -> (r: Self) ensures r.inner() == inner { unimplemented!() }
}

// ---- [MS-XLSB] 2.1.4 Record (definitions copied from unit xlsbrec, where the readers are proved against them)
pub open spec fn lo7(b: u8) -> int { (b % 128) as int }
pub open spec fn cont(b: u8) -> bool { b >= 128 }
pub open spec fn pow128(i: nat) -> int decreases i { if i == 0 { 1 } else { 128 * pow128((i - 1) as nat) } }
pub open spec fn vsum(s: Seq<u8>, n: nat) -> int decreases n {
    if n == 0 { 0 } else { vsum(s, (n - 1) as nat) + lo7(s[n - 1]) * pow128((n - 1) as nat) }
}
pub open spec fn vhdr_from(s: Seq<u8>, i: nat, max: nat) -> nat decreases max - i {
    if i + 1 >= max || i >= s.len() || !cont(s[i as int]) { i + 1 } else { vhdr_from(s, i + 1, max) }
}
pub open spec fn vhdr(s: Seq<u8>, max: nat) -> nat { vhdr_from(s, 0, max) }
pub open spec fn vcomplete(s: Seq<u8>, max: nat) -> bool { s.len() >= vhdr(s, max) }
pub open spec fn varint_type(s: Seq<u8>) -> int { vsum(s, vhdr(s, 2)) }
pub open spec fn varint_len(s: Seq<u8>) -> int { vsum(s, vhdr(s, 4)) }
pub open spec fn rec_tl(s: Seq<u8>) -> nat { vhdr(s, 2) }
pub open spec fn rec_typ(s: Seq<u8>) -> int { varint_type(s) }
pub open spec fn rec_sl(s: Seq<u8>) -> nat { vhdr(s.skip(rec_tl(s) as int), 4) }
pub open spec fn rec_len(s: Seq<u8>) -> int { varint_len(s.skip(rec_tl(s) as int)) }
pub open spec fn rec_total(s: Seq<u8>) -> int { rec_tl(s) + rec_sl(s) + rec_len(s) }
/// a complete record is present at the head of s
pub open spec fn rec_ok(s: Seq<u8>) -> bool {
    vcomplete(s, 2) && vcomplete(s.skip(rec_tl(s) as int), 4) && s.len() >= rec_total(s)
}
pub open spec fn rec_payload(s: Seq<u8>) -> Seq<u8> { s.subrange((rec_tl(s) + rec_sl(s)) as int, rec_total(s)) }
pub open spec fn rec_rest(s: Seq<u8>) -> Seq<u8> { s.skip(rec_total(s)) }

proof fn lemma_pow128_pos(i: nat) ensures pow128(i) > 0 decreases i { if i > 0 { lemma_pow128_pos((i - 1) as nat); } }
proof fn lemma_vsum_nonneg(s: Seq<u8>, n: nat)
    ensures vsum(s, n) >= 0,
    decreases n,
{
    if n > 0 {
        lemma_vsum_nonneg(s, (n - 1) as nat);
        lemma_pow128_pos((n - 1) as nat);
        assert(lo7(s[n - 1]) * pow128((n - 1) as nat) >= 0) by (nonlinear_arith) requires lo7(s[n - 1]) >= 0, pow128((n - 1) as nat) > 0;
    }
}
proof fn lemma_vhdr_from_lb(s: Seq<u8>, i: nat, max: nat)
    ensures vhdr_from(s, i, max) >= i + 1, i + 1 <= max ==> vhdr_from(s, i, max) <= max,
    decreases max - i,
{
    if !(i + 1 >= max || i >= s.len() || !cont(s[i as int])) { lemma_vhdr_from_lb(s, i + 1, max); }
}
/// every record occupies at least 2 bytes
proof fn lemma_rec_total(s: Seq<u8>)
    ensures rec_total(s) >= 2, rec_tl(s) >= 1, rec_tl(s) <= 2, rec_sl(s) >= 1, rec_len(s) >= 0,
{
    lemma_vhdr_from_lb(s, 0, 2);
    lemma_vhdr_from_lb(s.skip(rec_tl(s) as int), 0, 4);
    lemma_vsum_nonneg(s.skip(rec_tl(s) as int), rec_sl(s));
}
/// what `read_type` followed by `fill_buffer` consume is exactly one record
proof fn lemma_rec_read(s: Seq<u8>)
    requires
        vcomplete(s, 2), vcomplete(s.skip(vhdr(s, 2) as int), 4),
        s.skip(vhdr(s, 2) as int).len() >= vhdr(s.skip(vhdr(s, 2) as int), 4) + varint_len(s.skip(vhdr(s, 2) as int)),
    ensures
        rec_ok(s), rec_total(s) >= 2, rec_rest(s).len() < s.len(), rec_len(s) >= 0,
        s.skip(rec_tl(s) as int).skip(rec_sl(s) + rec_len(s)) == rec_rest(s),
        s.skip(rec_tl(s) as int).subrange(rec_sl(s) as int, rec_sl(s) + rec_len(s)) == rec_payload(s),
{
    lemma_rec_total(s);
    lemma_vsum_nonneg(s.skip(rec_tl(s) as int), rec_sl(s));
    assert(s.skip(rec_tl(s) as int).skip(rec_sl(s) + rec_len(s)) =~= rec_rest(s));
    assert(s.skip(rec_tl(s) as int).subrange(rec_sl(s) as int, rec_sl(s) + rec_len(s)) =~= rec_payload(s));
}

//@@ item src/xlsb/mod.rs struct RecordIter
impl<'a> RecordIter<'a> {
    pub closed spec fn rem(&self) -> Seq<u8> { self.r.rem() }
}
//@@ impl src/xlsb/mod.rs RecordIter
// TRUSTED: proved in unit xlsbrec (C03.read_u8_ok, C03.read_u8_err); not called by the functions of this unit
//@@ fn src/xlsb/mod.rs RecordIter::read_u8 external_body ret=r
//@@ end
// TRUSTED: contract proved in unit xlsbrec (C03.varint_type, C03.type_advance, C03.type_err)
//@@ fn src/xlsb/mod.rs RecordIter::read_type external_body ret=r
//@@ sig
    ensures
        r is Ok ==> vcomplete(old(self).rem(), 2) && r->Ok_0 as int == varint_type(old(self).rem()),
        r is Ok ==> final(self).rem() == old(self).rem().skip(vhdr(old(self).rem(), 2) as int),
        r is Err ==> !vcomplete(old(self).rem(), 2),
//@@ end
// TRUSTED: contract proved in unit xlsbrec (C03.fill_len, fill_avail, fill_payload, fill_advance, fill_buf_frame, fill_err)
//@@ fn src/xlsb/mod.rs RecordIter::fill_buffer external_body ret=r
//@@ sig
    ensures
        r is Ok ==> vcomplete(old(self).rem(), 4) && r->Ok_0 as int == varint_len(old(self).rem()),
        r is Ok ==> old(self).rem().len() >= vhdr(old(self).rem(), 4) + varint_len(old(self).rem()),
        r is Ok ==> final(buf)@.len() >= r->Ok_0 && final(buf)@.subrange(0, r->Ok_0 as int)
            == old(self).rem().subrange(vhdr(old(self).rem(), 4) as int, vhdr(old(self).rem(), 4) + varint_len(old(self).rem())),
        r is Ok ==> final(self).rem() == old(self).rem().skip(vhdr(old(self).rem(), 4) + varint_len(old(self).rem())),
        r is Ok ==> final(buf)@.len() == (if old(buf)@.len() < r->Ok_0 { r->Ok_0 as int } else { old(buf)@.len() as int })
            && final(buf)@.skip(r->Ok_0 as int) =~= (if old(buf)@.len() < r->Ok_0 { Seq::<u8>::empty() } else { old(buf)@.skip(r->Ok_0 as int) }),
        r is Err ==> !vcomplete(old(self).rem(), 4) || old(self).rem().len() < vhdr(old(self).rem(), 4) + varint_len(old(self).rem()),
//@@ end
//@@ endimpl

//@@ include common/bytes.rs

// (rule r4) the text of an error message: an arbitrary String
#[verifier::external_body] fn verif_opaque_string() -> String { String::new() }
// TRUSTED: contract proved in unit xlsbwb (C06.check_len_err_iff_short, C06.check_len_err_shape)
//@@ fn src/xlsb/mod.rs check_len external_body ret=r
//@@ sig
    ensures
        r is Err <==> len < min,
        r is Err ==> r->Err_0 is Unrecognized,
//@@ end

// ---- formula rendering (src/xlsb/mod.rs parse_formula; unit xlsbfml): uninterpreted here (same declaration as unit xlsbwb)
/// text of the token stream `rgce` given the extern-sheet names and the defined names declared so far; None: rejected
pub uninterp spec fn formula_text(rgce: Seq<u8>, sheets: Seq<Seq<char>>, names: Seq<(Seq<char>, Seq<char>)>) -> Option<Seq<char>>;
pub open spec fn pairs(v: Seq<(String, String)>) -> Seq<(Seq<char>, Seq<char>)> { v.map_values(|p: (String, String)| (p.0@, p.1@)) }
pub open spec fn strs(v: Seq<String>) -> Seq<Seq<char>> { v.map_values(|s: String| s@) }
// TRUSTED: stand-in with the signature of src/xlsb/mod.rs parse_formula: a function of its three arguments (the renderer itself is
// under contract in unit xlsbfml)
#[verifier::external_body]
fn parse_formula(rgce: &[u8], sheets: &[String], names: &[(String, String)]) -> (r: Result<String, XlsbError>)
    ensures
        match formula_text(rgce@, strs(sheets@), pairs(names@)) { Some(t) => r is Ok && r->Ok_0@ == t, None => r is Err },
{ unimplemented!() }

//@@ item src/formats.rs enum CellFormat keep_attrs
//@@ item src/lib.rs struct Dimensions keep_attrs
//@@ item src/lib.rs trait "trait CellType"
impl CellType for String {}
//@@ item src/lib.rs struct Cell
impl<T: CellType> Cell<T> {
    pub closed spec fn p(&self) -> (u32, u32) { self.pos }
    pub closed spec fn v(&self) -> T { self.val }
}
//@@ impl src/lib.rs Cell
//@@ fn src/lib.rs Cell::new props=C14 ret=r
//@@ sig
    ensures
        //# C14.cell_new
        r.p() == position && r.v() == value,
//@@ end
//@@ endimpl

// =====================================================================================================================
// C14 / C06: the formula records of a worksheet part ([MS-XLSB] 2.1.7.62 Worksheet part, 2.4.x records)
//   BrtRowHdr 0x0000: rw u32 @0 -- the row of the cell records that follow
//   BrtFmlaString 0x0008: Cell (column u32 @0, iStyleRef 24 bits @4, flags @7), value XLWideString @8 (cch u32, 2*cch bytes),
//                         grbitFlags u16, CellParsedFormula (cce u32, rgce cce bytes, cb u32, rgcb)
//   BrtFmlaNum 0x0009:    Cell, xnum f64 @8, grbitFlags u16 @16, CellParsedFormula @18
//   BrtFmlaBool 0x000A / BrtFmlaError 0x000B: Cell, bBool / bError u8 @8, grbitFlags u16 @9, CellParsedFormula @11
//   BrtEndSheetData 0x0092 ends the cell table.
// =====================================================================================================================
pub open spec fn is_fmla_kind(typ: int) -> bool { 8 <= typ <= 0x0B }
pub const ROW_MAX: u32 = 1048575;
/// offset of the CellParsedFormula in the payload of a formula record
pub open spec fn fml_off(typ: int, p: Seq<u8>) -> int {
    if typ == 8 { 14 + 2 * le32(p.subrange(8, 12)) } else if typ == 9 { 18 } else { 11 }
}
/// cce: the number of token bytes
pub open spec fn fml_cce(typ: int, p: Seq<u8>) -> int { le32(p.subrange(fml_off(typ, p), fml_off(typ, p) + 4)) }
/// the payload holds everything up to and including the rgce its cce announces
pub open spec fn fml_wf(typ: int, p: Seq<u8>) -> bool {
    (typ == 8 ==> p.len() >= 12) && p.len() >= fml_off(typ, p) + 4 && p.len() >= fml_off(typ, p) + 4 + fml_cce(typ, p)
}
/// rgce: the token bytes of the formula
pub open spec fn fml_rgce(typ: int, p: Seq<u8>) -> Seq<u8> { p.subrange(fml_off(typ, p) + 4, fml_off(typ, p) + 4 + fml_cce(typ, p)) }

pub enum FScan {
    /// the next formula record: under row `row`, kind `typ`, payload, stream after the record
    Fmla { row: u32, typ: int, payload: Seq<u8>, rest: Seq<u8> },
    /// BrtEndSheetData met first
    End,
    /// the stream ends (or a record is truncated) first
    Truncated,
    /// a BrtRowHdr shorter than 4 bytes comes first: the reader must reject
    Short,
    /// a BrtRowHdr with a row outside 0..=1048575: outside the property's domain
    Malformed,
}
/// what the next formula cell of the record stream s is, `row` being the row of the last BrtRowHdr: written from the format
/// (formula kinds carry a formula, BrtRowHdr sets the row, BrtEndSheetData ends, any other kind -- constant cells included -- is passed over whole)
#[verifier::opaque]
pub open spec fn fscan(s: Seq<u8>, row: u32) -> FScan decreases s.len() {
    if !rec_ok(s) || rec_rest(s).len() >= s.len() { FScan::Truncated }   // (second disjunct never true: lemma_rec_total)
    else if is_fmla_kind(rec_typ(s)) { FScan::Fmla { row, typ: rec_typ(s), payload: rec_payload(s), rest: rec_rest(s) } }
    else if rec_typ(s) == 0x0000 {
        if rec_payload(s).len() < 4 { FScan::Short } else if le32(rec_payload(s)) > ROW_MAX { FScan::Malformed }
        else { fscan(rec_rest(s), le32(rec_payload(s)) as u32) }
    }
    else if rec_typ(s) == 0x0092 { FScan::End }
    else { fscan(rec_rest(s), row) }
}
/// one unfolding of `fscan`
proof fn lemma_fscan_step(s: Seq<u8>, row: u32)
    ensures fscan(s, row) == (
        if !rec_ok(s) || rec_rest(s).len() >= s.len() { FScan::Truncated }
        else if is_fmla_kind(rec_typ(s)) { FScan::Fmla { row, typ: rec_typ(s), payload: rec_payload(s), rest: rec_rest(s) } }
        else if rec_typ(s) == 0x0000 {
            if rec_payload(s).len() < 4 { FScan::Short } else if le32(rec_payload(s)) > ROW_MAX { FScan::Malformed }
            else { fscan(rec_rest(s), le32(rec_payload(s)) as u32) }
        }
        else if rec_typ(s) == 0x0092 { FScan::End }
        else { fscan(rec_rest(s), row) }),
{
    reveal(fscan);
}
/// le32 looks at the first four bytes only
proof fn lemma_le32_sub(p: Seq<u8>, a: int, b: int)
    requires 0 <= a, a + 4 <= b <= p.len(),
    ensures le32(p.subrange(a, b)) == le32(p.subrange(a, a + 4)),
{
    let x = p.subrange(a, b); let y = p.subrange(a, a + 4);
    assert(x[0] == y[0] && x[1] == y[1] && x[2] == y[2] && x[3] == y[3]);
}
/// the byte-offset bookkeeping of a formula arm: `formula = &buf[off..len]`, `cce = read_u32(formula)`, `rgce = &formula[4..4 + cce]`
proof fn lemma_fml_arm(typ: int, p: Seq<u8>, b: Seq<u8>, off: int, formula: Seq<u8>, cce: int, rgce: Seq<u8>)
    requires
        is_fmla_kind(typ),
        b.len() >= p.len(), b.subrange(0, p.len() as int) == p,
        typ == 8 ==> p.len() >= 12,
        off == fml_off(typ, p), 0 <= off, off + 4 <= p.len(),
        formula == b.subrange(off, p.len() as int),
        cce == le32(formula), off + 4 + cce <= p.len(),
        rgce == formula.subrange(4, 4 + cce),
    ensures
        fml_wf(typ, p), rgce == fml_rgce(typ, p),
{
    assert(formula =~= p.subrange(off, p.len() as int)) by {
        assert forall|j: int| 0 <= j < formula.len() implies formula[j] == #[trigger] p.subrange(off, p.len() as int)[j] by {
            assert(b.subrange(0, p.len() as int)[off + j] == b[off + j]);
        }
    }
    lemma_le32_sub(p, off, p.len() as int);
    assert(rgce =~= fml_rgce(typ, p));
}
/// BrtFmlaNum{col 3, xnum, grbitFlags, cce 2, rgce 1E 05} after BrtRowHdr{row 7}: the formula cell (7, 3) with tokens 1E 05
proof fn witness_fscan()
    ensures ({
        let rowhdr = seq![0x00u8, 0x04u8, 0x07u8, 0x00u8, 0x00u8, 0x00u8];
        let pl = seq![3u8, 0, 0, 0, 0, 0, 0, 0, 0, 0, 0, 0, 0, 0, 0, 0, 0, 0, 2, 0, 0, 0, 0x1E, 5];
        let fm = seq![0x09u8, 24u8] + pl;
        let s = rowhdr + fm;
        fscan(s, 0) == (FScan::Fmla { row: 7, typ: 9, payload: pl, rest: Seq::<u8>::empty() })
        && fml_wf(9, pl) && fml_rgce(9, pl) == seq![0x1Eu8, 5u8] && le32(pl) == 3 }),
{
    let rowhdr = seq![0x00u8, 0x04u8, 0x07u8, 0x00u8, 0x00u8, 0x00u8];
    let pl = seq![3u8, 0, 0, 0, 0, 0, 0, 0, 0, 0, 0, 0, 0, 0, 0, 0, 0, 0, 2, 0, 0, 0, 0x1E, 5];
    let fm = seq![0x09u8, 24u8] + pl;
    let s = rowhdr + fm;
    reveal_with_fuel(vhdr_from, 3); reveal_with_fuel(vsum, 3); reveal_with_fuel(pow128, 3);
    assert(s.skip(1)[0] == 4u8);
    assert(rec_tl(s) == 1 && rec_typ(s) == 0);
    assert(rec_sl(s) == 1 && rec_len(s) == 4);
    assert(rec_ok(s));
    assert(rec_payload(s) =~= seq![7u8, 0u8, 0u8, 0u8]);
    assert(rec_rest(s) =~= fm);
    lemma_fscan_step(s, 0);
    assert(le32(rec_payload(s)) == 7);
    assert(fm.skip(1)[0] == 24u8);
    assert(rec_tl(fm) == 1 && rec_typ(fm) == 9);
    assert(rec_sl(fm) == 1 && rec_len(fm) == 24);
    assert(rec_ok(fm));
    assert(rec_payload(fm) =~= pl);
    assert(rec_rest(fm) =~= Seq::<u8>::empty());
    lemma_fscan_step(fm, 7);
    assert(pl.subrange(18, 22) =~= seq![2u8, 0u8, 0u8, 0u8]);
    assert(fml_rgce(9, pl) =~= seq![0x1Eu8, 5u8]);
}

//@@ item src/xlsb/cells_reader.rs struct XlsbCellsReader
impl<'a> XlsbCellsReader<'a> {
    pub closed spec fn rem(&self) -> Seq<u8> { self.iter.rem() }
    pub closed spec fn cur_row(&self) -> u32 { self.row }
    pub closed spec fn fmts(&self) -> Seq<CellFormat> { self.formats@ }
    pub closed spec fn sst(&self) -> Seq<String> { self.strings@ }
    pub closed spec fn ext(&self) -> Seq<String> { self.extern_sheets@ }
    pub closed spec fn names(&self) -> Seq<(String, String)> { self.metadata_names@ }
    pub closed spec fn f1904(&self) -> bool { self.is_1904 }
    pub closed spec fn dims(&self) -> Dimensions { self.dimensions }
    /// the text of the formula record (typ, p) read with this reader's tables
    pub open spec fn text_of(&self, typ: int, p: Seq<u8>) -> Option<Seq<char>> { formula_text(fml_rgce(typ, p), strs(self.ext()), pairs(self.names())) }
}

pub mod nf {
use super::*;
verus! {
//@@ impl src/xlsb/cells_reader.rs XlsbCellsReader
//@@ fn src/xlsb/cells_reader.rs XlsbCellsReader::next_formula props=C14 entry ret=r
//@@ sig
    ensures
        //# C14.formula_reader_frame
        final(self).fmts() == old(self).fmts() && final(self).sst() == old(self).sst() && final(self).ext() == old(self).ext()
            && final(self).names() == old(self).names() && final(self).f1904() == old(self).f1904() && final(self).dims() == old(self).dims(),
        // every formula is returned at its cell (row of the last BrtRowHdr, column of the record) with the text its tokens encode
        //# C14.xlsb_formula_at_its_cell
        ({ let sc = fscan(old(self).rem(), old(self).cur_row());
            sc is Fmla && fml_wf(sc->typ, sc->payload) && old(self).text_of(sc->typ, sc->payload) is Some
            ==> r is Ok && r->Ok_0 is Some && r->Ok_0->Some_0.p() == (sc->row, le32(sc->payload) as u32)
                && r->Ok_0->Some_0.v()@ == old(self).text_of(sc->typ, sc->payload)->Some_0 }),
        // ... and the reader stands behind that record, under that row: the next call delivers the next formula
        //# C14.formula_stream_advances_by_that_record
        ({ let sc = fscan(old(self).rem(), old(self).cur_row());
            sc is Fmla && fml_wf(sc->typ, sc->payload) && old(self).text_of(sc->typ, sc->payload) is Some
            ==> final(self).rem() == sc->rest && final(self).cur_row() == sc->row }),
        // a token stream the renderer rejects is an error of this cell, not a silently dropped formula
        //# C14.rejected_formula_is_error
        ({ let sc = fscan(old(self).rem(), old(self).cur_row());
            sc is Fmla && fml_wf(sc->typ, sc->payload) && old(self).text_of(sc->typ, sc->payload) is None ==> r is Err }),
        // a formula record that ends before the rgce its cce announces is an error (never a panic, never stale bytes read as tokens)
        //# C06.malformed_formula_record_err
        ({ let sc = fscan(old(self).rem(), old(self).cur_row()); sc is Fmla && !fml_wf(sc->typ, sc->payload) ==> r is Err }),
        // ... and so is a BrtRowHdr without its 4-byte row number
        //# C06.formula_short_row_header_err
        fscan(old(self).rem(), old(self).cur_row()) is Short ==> r is Err,
        //# C14.formula_end_none
        fscan(old(self).rem(), old(self).cur_row()) is End ==> r is Ok && r->Ok_0 is None,
        //# C14.formula_truncated_err
        fscan(old(self).rem(), old(self).cur_row()) is Truncated ==> r is Err,
//@@ replace /let value = loop/ Verus has no break-with-value: `let x = loop { .. break v; };` desugared into `let out; loop { .. { out = v; break; } }; let x = out;`
let verif_out: String; loop
//@@ replace /break value;/ (second half of the break-with-value desugaring)
{ verif_out = value; break; }
//@@ before /let col = /
        let value = verif_out;
//@@ body
        let ghost s0 = self.iter.rem();
        let ghost row0 = self.row;
//@@ loop 0
            invariant_except_break
                // the reader is at a record boundary at the top of every iteration and what remains to be read is what the whole stream says
                //# C14.formula_scan_in_step
                fscan(s0, row0) is Malformed || fscan(s0, row0) == fscan(self.iter.rem(), self.row),
            invariant
                s0 == old(self).iter.rem(), row0 == old(self).row,
                self.formats@ == old(self).formats@, self.strings@ == old(self).strings@, self.is_1904 == old(self).is_1904,
                self.extern_sheets@ == old(self).extern_sheets@, self.metadata_names@ == old(self).metadata_names@, self.dimensions == old(self).dimensions,
            ensures
                self.formats@ == old(self).formats@, self.strings@ == old(self).strings@, self.is_1904 == old(self).is_1904,
                self.extern_sheets@ == old(self).extern_sheets@, self.metadata_names@ == old(self).metadata_names@, self.dimensions == old(self).dimensions,
                fscan(s0, row0) is Fmla || fscan(s0, row0) is Malformed,
                ({ let sc = fscan(s0, row0); sc is Fmla ==>
                    fml_wf(sc->typ, sc->payload) && self.iter.rem() == sc->rest && self.row == sc->row && self.buf@.len() >= 4
                    && self.buf@[0] == sc->payload[0] && self.buf@[1] == sc->payload[1] && self.buf@[2] == sc->payload[2] && self.buf@[3] == sc->payload[3]
                    && formula_text(fml_rgce(sc->typ, sc->payload), strs(self.extern_sheets@), pairs(self.metadata_names@)) == Some(verif_out@) }),
                self.buf@.len() >= 4,
            decreases self.iter.rem().len(),
//@@ before /self\.typ = self\.iter\.read_type\(\)\?;/
            let ghost cur = self.iter.rem();
            let ghost row_h = self.row;
            proof { lemma_fscan_step(cur, row_h); }
//@@ after /self\.iter\.fill_buffer\(&mut self\.buf\)\?;/
            let ghost p = rec_payload(cur);
            proof {
                lemma_rec_read(cur);
                assert(self.typ as int == rec_typ(cur));
                assert(self.iter.rem() == rec_rest(cur));
                assert(self.buf@.len() >= p.len() && self.buf@.subrange(0, p.len() as int) =~= p);
            }
//@@ after? /let cch = read_u32\([^;]*;/
                    proof {
                        if p.len() >= 12 {
                            lemma_le32_sub(self.buf@, 8, self.buf@.len() as int);
                            assert(self.buf@.subrange(8, 12) =~= p.subrange(8, 12)) by {
                                assert forall|j: int| 0 <= j < 4 implies self.buf@.subrange(8, 12)[j] == #[trigger] p.subrange(8, 12)[j] by {
                                    assert(self.buf@.subrange(0, p.len() as int)[8 + j] == self.buf@[8 + j]);
                                }
                            }
                            // BrtFmlaString: the formula lies behind the cached string and grbitFlags
                            //# C14.fmla_string_formula_offset
                            assert(14 + cch * 2 == fml_off(8, p));
                        }
                    }
//@@ before /parse_formula\(rgce/#0of3
                    proof {
                        if p.len() >= 12 && 18 + cch * 2 <= p.len() && 18 + cch * 2 + cce <= p.len() {
                            lemma_fml_arm(8, p, self.buf@, 14 + cch * 2, formula@, cce as int, rgce@);
                        }
                        // the token bytes handed to the renderer are the rgce of this record
                        //# C06.fmla_string_record_holds_its_formula
                        assert(fml_wf(8, p));
                        //# C14.fmla_string_tokens
                        assert(rgce@ == fml_rgce(8, p));
                    }
//@@ before /parse_formula\(rgce/#1of3
                    proof {
                        if 22 <= p.len() && 22 + cce <= p.len() {
                            lemma_fml_arm(9, p, self.buf@, 18, formula@, cce as int, rgce@);
                        }
                        //# C06.fmla_num_record_holds_its_formula
                        assert(fml_wf(9, p));
                        //# C14.fmla_num_tokens
                        assert(rgce@ == fml_rgce(9, p));
                    }
//@@ before /parse_formula\(rgce/#2of3
                    proof {
                        if 15 <= p.len() && 15 + cce <= p.len() {
                            lemma_fml_arm(self.typ as int, p, self.buf@, 11, formula@, cce as int, rgce@);
                        }
                        //# C06.fmla_bool_error_record_holds_its_formula
                        assert(fml_wf(self.typ as int, p));
                        //# C14.fmla_bool_error_tokens
                        assert(rgce@ == fml_rgce(self.typ as int, p));
                    }
//@@ before /self\.row = read_u32/
                    // C06: a BrtRowHdr carries its 4-byte row number
                    //# C06.row_header_long_enough
                    assert(p.len() >= 4);
                    proof {
                        if p.len() >= 4 {
                            lemma_le32_sub(self.buf@, 0, self.buf@.len() as int);
                            lemma_le32_sub(p, 0, p.len() as int);
                            assert(self.buf@.subrange(0, 4) =~= p.subrange(0, 4)) by {
                                assert forall|j: int| 0 <= j < 4 implies self.buf@.subrange(0, 4)[j] == #[trigger] p.subrange(0, 4)[j] by {
                                    assert(self.buf@.subrange(0, p.len() as int)[j] == self.buf@[j]);
                                }
                            }
                            assert(self.buf@.subrange(0, self.buf@.len() as int) =~= self.buf@);
                            assert(p.subrange(0, p.len() as int) =~= p);
                        }
                    }
//@@ after /self\.row = read_u32\([^;]*;/
                    // the row of the cells that follow is the rw field of the BrtRowHdr just read
                    //# C14.row_from_row_header
                    assert(self.row as int == le32(p));
//@@ before /break value;/
            proof {
                let t = self.typ as int;
                // the record the loop stopped at is the one `fscan` designates
                //# C14.formula_record_identified
                assert(fscan(s0, row0) is Malformed
                    || fscan(s0, row0) == (FScan::Fmla { row: self.row, typ: t, payload: p, rest: self.iter.rem() }));
                //# C14.col_bytes_of_this_record
                assert(self.buf@.len() >= 4 && self.buf@[0] == p[0] && self.buf@[1] == p[1] && self.buf@[2] == p[2] && self.buf@[3] == p[3]) by {
                    assert(self.buf@.subrange(0, p.len() as int)[0] == self.buf@[0] && self.buf@.subrange(0, p.len() as int)[1] == self.buf@[1]
                        && self.buf@.subrange(0, p.len() as int)[2] == self.buf@[2] && self.buf@.subrange(0, p.len() as int)[3] == self.buf@[3]);
                }
            }
//@@ end
//@@ endimpl
} // verus!
} // mod nf


// =====================================================================================================================
// A-xml: GHOST MODEL OF quick-xml 0.37 and A-zip: the zip container -- stand-ins copied from unit xlsxparts (same text, reduced to what
// read_relationships touches).  Everything in this section is TRUSTED.  A reader owns the ghost sequence `events()` of the results its
// successive `read_event_into` calls deliver, and a position `pos()`.  What is ASSUMED AND NOT VERIFIED: that quick-xml turns the bytes
// of the zip part into this sequence under the configuration `axml_config` (tokenisation, `<a/>` delivered as Start+End, attribute
// splitting, entity / character reference resolution in `decode_and_unescape_value`).
// =====================================================================================================================
pub enum EvKind { Start, End, Text, CData, Other, Error }
pub ghost struct Attr {
    pub ok: bool,                  // the attribute is syntactically well formed and not a duplicate (the iterator yields Ok)
    pub key: Seq<u8>,              // qualified attribute name as written
    pub local: Seq<u8>,            // its local part
    pub ns: Seq<u8>,               // namespace name its prefix is bound to (empty: unprefixed attributes are in no namespace)
    pub raw: Seq<u8>,              // value bytes as written between the quotes (what `Attribute::value` holds)
}
pub ghost struct Ev {
    pub kind: EvKind,
    pub name: Seq<u8>,             // qualified tag name as written, e.g. `pr:Relationship` (Start / End)
    pub prefix: Option<Seq<u8>>,   // its namespace prefix; None: unprefixed
    pub local: Seq<u8>,            // its local part, e.g. `Relationship`
    pub ns: Seq<u8>,               // namespace name the element belongs to (binding of the prefix / default namespace in scope)
    pub attrs: Seq<Attr>,          // attributes in document order (Start)
    pub text: Seq<char>,
    pub text_ok: bool,
}
/// attribute value decoded with entity / character references resolved (what `decode_and_unescape_value` returns); None: error
pub uninterp spec fn unesc(raw: Seq<u8>) -> Option<Seq<char>>;
/// raw bytes decoded (no entity resolution): what `decoder().decode(bytes)` returns; None: encoding error
pub uninterp spec fn dec(raw: Seq<u8>) -> Option<Seq<char>>;
/// XML Namespaces: QName = (Prefix ':')? LocalPart
pub open spec fn qname_of(prefix: Option<Seq<u8>>, local: Seq<u8>) -> Seq<u8> {
    match prefix { None => local, Some(p) => p + seq![0x3au8] + local }
}
/// XML 1.0 "Unique Att Spec": no attribute name appears twice in a start tag (quick-xml yields Err for the repeated one: `ok == false`)
pub open spec fn attrs_unique(attrs: Seq<Attr>) -> bool {
    forall|i: int, j: int| 0 <= i < j < attrs.len() && (#[trigger] attrs[i]).ok && (#[trigger] attrs[j]).ok ==> attrs[i].key != attrs[j].key
}
impl Ev {
    pub open spec fn is_tag(self) -> bool { self.kind is Start || self.kind is End }
    pub open spec fn wf(self) -> bool { (self.is_tag() ==> self.name == qname_of(self.prefix, self.local)) && attrs_unique(self.attrs) }
}
// TRUSTED: A-std -- `Cow::deref` / `Cow::as_ref` yield the borrowed or owned content; `cow_ref` names it
pub uninterp spec fn cow_ref<'a, 'b, B: ?Sized + ToOwned>(c: &'b Cow<'a, B>) -> &'b B;
pub assume_specification<'a, 'b, B: ?Sized + ToOwned>[ <Cow<'a, B> as Deref>::deref ](c: &'b Cow<'a, B>) -> (r: &'b B)
    ensures r == cow_ref(c);
// TRUSTED: A-std -- `Cow::into_owned`: the owned content (for Cow<str>: the same characters)
pub uninterp spec fn cow_owned<'a, B: ?Sized + ToOwned>(c: Cow<'a, B>) -> <B as ToOwned>::Owned;
pub assume_specification<'a, B: ?Sized + ToOwned>[ <Cow<'a, B>>::into_owned ](c: Cow<'a, B>) -> (r: <B as ToOwned>::Owned)
    ensures r == cow_owned(c);
pub broadcast axiom fn axiom_cow_str_owned<'a>(c: Cow<'a, str>)
    ensures (#[trigger] cow_owned::<str>(c))@ == cow_ref(&c)@;
// TRUSTED: A-xml -- quick_xml::name::QName (a tuple struct over the qualified-name bytes; `==` compares the bytes)
pub struct QName<'a>(pub &'a [u8]);
impl<'a> PartialEq for QName<'a> {
    #[verifier::external_body]
    fn eq(&self, o: &QName<'a>) -> (r: bool) ensures r == (self.0@ =~= o.0@) { unimplemented!() }
}
// TRUSTED: A-xml -- quick_xml::name::LocalName
#[verifier::external_body]
pub struct LocalName<'a> { _p: core::marker::PhantomData<&'a ()> }
impl<'a> LocalName<'a> {
    pub uninterp spec fn bytes(&self) -> Seq<u8>;
    // TRUSTED: A-xml -- `AsRef<[u8]> for LocalName`
    #[verifier::external_body]
    pub fn as_ref(&self) -> (r: &[u8]) ensures r@ == self.bytes() { unimplemented!() }
}
// TRUSTED: A-xml -- quick_xml::encoding::Decoder (UTF-8 unless the XML declaration says otherwise; folded into `unesc` / `dec`)
pub struct Decoder { _p: u8 }
impl Decoder {
    // TRUSTED: A-xml
    #[verifier::external_body]
    pub fn decode<'b>(&self, bytes: &'b [u8]) -> (r: Result<Cow<'b, str>, quick_xml::encoding::EncodingError>)
        ensures
            dec(bytes@) is Some ==> r is Ok && cow_ref(&r->Ok_0)@ == dec(bytes@)->Some_0,
            dec(bytes@) is None ==> r is Err,
    { unimplemented!() }
}
// TRUSTED: A-xml -- quick_xml::events::attributes::Attribute (public fields `key`, `value`: the verified code matches on them)
pub struct Attribute<'a> { pub key: QName<'a>, pub value: Cow<'a, [u8]> }
impl<'a> Attribute<'a> {
    /// this exec attribute carries the qualified name and raw value of the ghost attribute
    pub open spec fn is(&self, a: Attr) -> bool { self.key.0@ == a.key && cow_ref(&self.value)@ == a.raw }
    // TRUSTED: A-xml -- decodes the raw value and resolves entity / character references
    #[verifier::external_body]
    pub fn decode_and_unescape_value(&self, decoder: Decoder) -> (r: Result<Cow<'a, str>, quick_xml::Error>)
        ensures
            unesc(cow_ref(&self.value)@) is Some ==> r is Ok && cow_ref(&r->Ok_0)@ == unesc(cow_ref(&self.value)@)->Some_0,
            unesc(cow_ref(&self.value)@) is None ==> r is Err,
    { unimplemented!() }
}
/// the results the attribute iterator yields for the ghost attributes
pub open spec fn attrs_match<'a>(items: Seq<Result<Attribute<'a>, quick_xml::events::attributes::AttrError>>, attrs: Seq<Attr>) -> bool {
    &&& items.len() == attrs.len()
    &&& forall|i: int| 0 <= i < attrs.len() ==> ((#[trigger] items[i]) is Ok <==> attrs[i].ok)
    &&& forall|i: int| 0 <= i < attrs.len() && attrs[i].ok ==> (#[trigger] items[i])->Ok_0.is(attrs[i])
}
// TRUSTED: A-xml -- quick_xml::events::attributes::Attributes: an iterator over Result<Attribute, AttrError>, one item per attribute in
// document order
#[verifier::external_body]
pub struct Attributes<'a> { _p: core::marker::PhantomData<&'a ()> }
impl<'a> Attributes<'a> {
    pub uninterp spec fn items(&self) -> Seq<Result<Attribute<'a>, quick_xml::events::attributes::AttrError>>;
}
impl<'a> Iterator for Attributes<'a> {
    type Item = Result<Attribute<'a>, quick_xml::events::attributes::AttrError>;
    #[verifier::external_body]
    fn next(&mut self) -> (r: Option<Self::Item>) { unimplemented!() }
}
impl<'a> IteratorSpecImpl for Attributes<'a> {
    open spec fn obeys_prophetic_iter_laws(&self) -> bool { true }
    open spec fn remaining(&self) -> Seq<Result<Attribute<'a>, quick_xml::events::attributes::AttrError>> { self.items() }
    open spec fn will_return_none(&self) -> bool { true }
    open spec fn decrease(&self) -> Option<nat> { Some(self.items().len()) }
    open spec fn peek(&self, i: int) -> Option<Result<Attribute<'a>, quick_xml::events::attributes::AttrError>> {
        if 0 <= i < self.items().len() { Some(self.items()[i]) } else { None }
    }
}
// TRUSTED: A-xml -- quick_xml::events::{BytesStart, BytesEnd, BytesText, BytesCData}: views onto one ghost event
#[verifier::external_body]
pub struct BytesStart<'a> { _p: core::marker::PhantomData<&'a ()> }
#[verifier::external_body]
pub struct BytesEnd<'a> { _p: core::marker::PhantomData<&'a ()> }
#[verifier::external_body]
pub struct BytesText<'a> { _p: core::marker::PhantomData<&'a ()> }
#[verifier::external_body]
pub struct BytesCData<'a> { _p: core::marker::PhantomData<&'a ()> }
// TRUSTED: A-xml -- quick_xml::events::Event; `Other` stands for Comment / PI / Decl / DocType (never named by the verified code;
// `Empty` cannot occur with expand_empty_elements = true)
pub enum Event<'a> {
    Start(BytesStart<'a>),
    End(BytesEnd<'a>),
    Text(BytesText<'a>),
    CData(BytesCData<'a>),
    Other,
    Eof,
}
impl<'a> BytesStart<'a> {
    pub uninterp spec fn ev(&self) -> Ev;
    // TRUSTED: A-xml
    #[verifier::external_body]
    pub fn name(&self) -> (r: QName<'_>) ensures r.0@ == self.ev().name { unimplemented!() }
    // TRUSTED: A-xml
    #[verifier::external_body]
    pub fn local_name(&self) -> (r: LocalName<'_>) ensures r.bytes() == self.ev().local { unimplemented!() }
    // TRUSTED: A-xml
    #[verifier::external_body]
    pub fn attributes(&self) -> (r: Attributes<'_>) ensures attrs_match(r.items(), self.ev().attrs) { unimplemented!() }
}
impl<'a> BytesEnd<'a> { pub uninterp spec fn ev(&self) -> Ev; }
impl<'a> BytesText<'a> { pub uninterp spec fn ev(&self) -> Ev; }
impl<'a> BytesCData<'a> { pub uninterp spec fn ev(&self) -> Ev; }
/// the result `read_event_into` delivers for the ghost event e
pub open spec fn ev_result<'b>(r: Result<Event<'b>, quick_xml::Error>, e: Ev) -> bool {
    match e.kind {
        EvKind::Start => r matches Ok(Event::Start(b)) && b.ev() == e,
        EvKind::End => r matches Ok(Event::End(b)) && b.ev() == e,
        EvKind::Text => r matches Ok(Event::Text(b)) && b.ev() == e,
        EvKind::CData => r matches Ok(Event::CData(b)) && b.ev() == e,
        EvKind::Other => r matches Ok(Event::Other),
        EvKind::Error => r is Err,
    }
}
// TRUSTED: A-xml -- quick_xml::reader::Config (0.37.5): public fields and `trim_text`; Default as in the crate
pub struct Config {
    pub allow_unmatched_ends: bool,
    pub check_comments: bool,
    pub check_end_names: bool,
    pub expand_empty_elements: bool,
    pub trim_markup_names_in_closing_tags: bool,
    pub trim_text_start: bool,
    pub trim_text_end: bool,
}
impl Config {
    pub open spec fn default_spec() -> Config {
        Config { allow_unmatched_ends: false, check_comments: false, check_end_names: true, expand_empty_elements: false,
                 trim_markup_names_in_closing_tags: true, trim_text_start: false, trim_text_end: false }
    }
    /// "Set both trim_text_start and trim_text_end to the same value"
    pub fn trim_text(&mut self, trim: bool)
        ensures *final(self) == (Config { trim_text_start: trim, trim_text_end: trim, ..*old(self) }),
    {
        self.trim_text_start = trim;
        self.trim_text_end = trim;
    }
}
/// the configuration under which the ghost event model A-xml describes the reader: white space kept (no trimming), `<a/>` delivered as
/// Start + End, end-tag names not checked against start tags
pub open spec fn axml_config(c: Config) -> bool {
    !c.trim_text_start && !c.trim_text_end && c.expand_empty_elements && !c.check_end_names && !c.check_comments
}
// TRUSTED: A-xml -- quick_xml::Reader<BufReader<ZipFile>>
#[verifier::external_body]
pub struct XlReader<'a> { _p: core::marker::PhantomData<&'a ()> }
impl<'a> XlReader<'a> {
    pub uninterp spec fn events(&self) -> Seq<Ev>;
    pub uninterp spec fn pos(&self) -> nat;
    pub uninterp spec fn cfg(&self) -> Config;
    pub open spec fn left(&self) -> int { if self.pos() >= self.events().len() { 0 } else { self.events().len() - self.pos() } }
    // TRUSTED: A-xml -- returns events[pos] and advances; at the end of input returns Eof for ever; qualified names are prefix:local
    #[verifier::external_body]
    pub fn read_event_into<'b>(&mut self, buf: &'b mut Vec<u8>) -> (r: Result<Event<'b>, quick_xml::Error>)
        ensures
            final(self).events() == old(self).events(), final(self).cfg() == old(self).cfg(),
            old(self).pos() >= old(self).events().len() ==> (r matches Ok(Event::Eof)) && final(self).pos() == old(self).pos(),
            old(self).pos() < old(self).events().len() ==>
                final(self).pos() == old(self).pos() + 1 && ev_result(r, old(self).events()[old(self).pos() as int])
                && old(self).events()[old(self).pos() as int].wf(),
    { unimplemented!() }
    // TRUSTED: A-xml
    #[verifier::external_body]
    pub fn decoder(&self) -> Decoder { unimplemented!() }
    // TRUSTED: A-xml -- `config_mut` hands out the configuration
    #[verifier::external_body]
    pub fn config_mut(&mut self) -> (c: &mut Config)
        ensures *c == old(self).cfg(), final(self).cfg() == *final(c), final(self).events() == old(self).events(), final(self).pos() == old(self).pos(),
    { unimplemented!() }
}
// TRUSTED: A-xml -- `quick_xml::Reader::from_reader` (alias XmlReader in src/xlsb/mod.rs): a reader at the start of the source with the
// default configuration
pub struct XmlReader;
impl XmlReader {
    #[verifier::external_body]
    pub fn from_reader<'a>(r: BufReader<ZipFile<'a>>) -> (x: XlReader<'a>)
        ensures x.events() == r.inner().events(), x.pos() == 0, x.cfg() == Config::default_spec(),
    { unimplemented!() }
}
impl<'a> ZipFile<'a> {
    /// the XML events its bytes tokenise to under the reader configuration of A-xml
    pub uninterp spec fn events(&self) -> Seq<Ev>;
}

// ---- A-zip: the zip container.  TRUSTED: `ZipArchive` is a stand-in for zip::read::ZipArchive (zip 2.4).  Two views of the same archive,
// never related to each other by the contracts: `content()` (unit xlsxparts: entry names in directory order and, per name, the XML events
// of the entry) and `part_bytes` / `part_absent` (unit xlsbwb: the bytes of a part, for the record readers).  Reading a part never changes
// either.  ASSUMED AND NOT VERIFIED: central directory parsing, inflate.
use zip::result::ZipError;
#[verifier::external_body]
#[verifier::accept_recursive_types(RS)]
pub struct ZipArchive<RS> { _p: core::marker::PhantomData<RS> }
/// logical content of an archive (abstract)
#[verifier::external_body]
pub ghost struct ZipContent { _p: u8 }
pub uninterp spec fn content<RS>(zip: ZipArchive<RS>) -> ZipContent;
/// the entry names of the archive as stored, in directory order
pub uninterp spec fn names(c: ZipContent) -> Seq<Seq<char>>;
/// the XML events of the entry stored under EXACTLY this name; None: the entry cannot be opened (zip-level error other than "not found")
pub uninterp spec fn entry_events(c: ZipContent, name: Seq<char>) -> Option<Seq<Ev>>;
/// bytes of the part `path` of the archive; None: the part cannot be opened (absent, or a zip-level error)   (unit xlsbwb)
pub uninterp spec fn part_bytes<RS>(zip: ZipArchive<RS>, path: Seq<char>) -> Option<Seq<u8>>;
/// the part is absent (as opposed to unreadable)   (unit xlsbwb)
pub uninterp spec fn part_absent<RS>(zip: ZipArchive<RS>, path: Seq<char>) -> bool;
impl<RS: Read + Seek> ZipArchive<RS> {
    // TRUSTED: A-zip -- "Search for a file entry by name": exact comparison; Err(FileNotFound) iff there is no entry of this name;
    // the archive content is unchanged
    #[verifier::external_body]
    pub fn by_name<'a>(&'a mut self, name: &str) -> (r: Result<ZipFile<'a>, ZipError>)
        ensures
            content(*final(self)) == content(*old(self)),
            forall|p: Seq<char>| part_bytes(*final(self), p) == part_bytes(*old(self), p) && part_absent(*final(self), p) == part_absent(*old(self), p),
            !names(content(*old(self))).contains(name@) <==> r == Err::<ZipFile<'a>, ZipError>(ZipError::FileNotFound),
            names(content(*old(self))).contains(name@) ==> match entry_events(content(*old(self)), name@) {
                Some(ev) => r is Ok && (r->Ok_0).events() == ev,
                None => r is Err,
            },
    { unimplemented!() }
}

// ---- names the verified code compares with (byte-string literals) and their ASCII bytes
#[verifier::opaque] pub open spec fn n_relationships() -> Seq<u8> { seq![0x52u8, 0x65u8, 0x6cu8, 0x61u8, 0x74u8, 0x69u8, 0x6fu8, 0x6eu8, 0x73u8, 0x68u8, 0x69u8, 0x70u8, 0x73u8] }   // Relationships
#[verifier::opaque] pub open spec fn n_relationship() -> Seq<u8> { seq![0x52u8, 0x65u8, 0x6cu8, 0x61u8, 0x74u8, 0x69u8, 0x6fu8, 0x6eu8, 0x73u8, 0x68u8, 0x69u8, 0x70u8] }   // Relationship
#[verifier::opaque] pub open spec fn k_id_cap() -> Seq<u8> { seq![0x49u8, 0x64u8] }   // Id
#[verifier::opaque] pub open spec fn k_target() -> Seq<u8> { seq![0x54u8, 0x61u8, 0x72u8, 0x67u8, 0x65u8, 0x74u8] }   // Target
// TRUSTED: A-lit -- Verus keeps the contents of byte-string literals uninterpreted (only their length is known); the bytes of the
// literals the verified code compares names with are stated here (ASCII)
#[verifier::external_body]
pub proof fn axiom_bytelits()
    ensures b"Relationship"@ == n_relationship(), b"Id"@ == k_id_cap(), b"Target"@ == k_target(),
{}
/// (proved) `slice == byte-string literal` (vstd: same length and pointwise equal) is equality of the byte sequences
pub broadcast proof fn lemma_bytes_eq_array<const N: usize>(a: &[u8], b: &[u8; N])
    ensures #[trigger] <[u8] as PartialEqSpec<[u8; N]>>::eq_spec(a, b) <==> a@ == b@
{
    if <[u8] as PartialEqSpec<[u8; N]>>::eq_spec(a, b) { assert(a@ =~= b@); }
}
proof fn lemma_names_distinct()
    ensures n_relationships() != n_relationship(), k_id_cap() != k_target(),
{
    reveal(n_relationships); reveal(n_relationship); reveal(k_id_cap); reveal(k_target);
    assert(n_relationships().len() == 13 && n_relationship().len() == 12 && k_id_cap().len() == 2 && k_target().len() == 6);
}

// ---- A-std: byte-string keyed maps (`BTreeMap<Vec<u8>, String>`), as in unit xlsxparts
/// the value stored under the key with these bytes, if any
pub uninterp spec fn bk_lookup(m: Map<Vec<u8>, String>, id: Seq<u8>) -> Option<Seq<char>>;
// TRUSTED: A-std -- an empty map holds nothing; after `insert(key, val)` a lookup with the bytes of `key` finds `val` (replacing what
// was there), every other lookup is unchanged (keys are compared by their bytes)
#[verifier::external_body]
pub proof fn axiom_bytes_keyed_insert(m: Map<Vec<u8>, String>, key: Vec<u8>, val: String)
    ensures
        vstd::laws_cmp::obeys_cmp::<Vec<u8>>(),
        forall|id: Seq<u8>| #[trigger] bk_lookup(m.insert(key, val), id) == (if id == key@ { Some(val@) } else { bk_lookup(m, id) }),
{}
#[verifier::external_body]
pub proof fn axiom_bytes_keyed_empty()
    ensures forall|id: Seq<u8>| (#[trigger] bk_lookup(Map::<Vec<u8>, String>::empty(), id)) is None,
{}
/// the exec map `m` holds exactly the ghost map `g` (key bytes -> text)
pub open spec fn bk_is(m: Map<Vec<u8>, String>, g: Map<Seq<u8>, Seq<char>>) -> bool {
    forall|id: Seq<u8>| #[trigger] bk_lookup(m, id) == (if g.contains_key(id) { Some(g[id]) } else { None::<Seq<char>> })
}
// TRUSTED: the body is the real expression `v.to_vec()` on the Cow<[u8]> of an attribute value moved into a function (auto-deref of the
// Cow, then `<[u8]>::to_vec`: "Copies self into a new Vec")
#[verifier::external_body]
fn verif_cow_to_vec(v: &Cow<'_, [u8]>) -> (r: Vec<u8>)
    ensures r@ == cow_ref(v)@,
{ v.to_vec() }

//@@ item src/lib.rs enum SheetType
//@@ item src/lib.rs enum SheetVisible
//@@ item src/lib.rs struct Sheet
//@@ item src/lib.rs struct Metadata
//@@ item src/lib.rs enum HeaderRow keep_attrs
//@@ item src/xlsb/mod.rs struct XlsbOptions
//@@ item src/xlsb/mod.rs struct Xlsb cfg_off=picture

// =====================================================================================================================
// C03 / C16: xl/_rels/workbook.bin.rels.  ECMA-376 Part 2 (OPC), 9.3 Relationships part: root element Relationships (namespace
// http://schemas.openxmlformats.org/package/2006/relationships) with Relationship children (empty elements): attributes Id (required,
// xsd:ID, unique in the part), Type (required), Target (required, xsd:anyURI), TargetMode (optional).  A part without relationships
// part has no relationships.
// The relationships of the workbook part are the map Id -> Target VALUE (attribute value with XML references resolved: a target such
// as `worksheets/a&b.bin` is written `Target="worksheets/a&amp;b.bin"`).  Ids are compared as written (read_workbook looks the strRelID
// of a BrtBundleSh up with its UTF-8 bytes).  Elements are recognised by namespace + local name, whatever prefix the document binds.
// =====================================================================================================================
/// the OPC relationships namespace `http://schemas.openxmlformats.org/package/2006/relationships`
pub uninterp spec fn is_pkgrel_ns(ns: Seq<u8>) -> bool;
pub ghost struct RbAcc { pub id: Option<Seq<u8>>, pub target: Option<Seq<char>> }
/// Id / Target of a Relationship element read off its first k attributes; None: an attribute is malformed or the target cannot be unescaped
pub open spec fn rb_fold(attrs: Seq<Attr>, k: int) -> Option<RbAcc>
    decreases k
{
    if k <= 0 { Some(RbAcc { id: None, target: None }) }
    else {
        match rb_fold(attrs, k - 1) {
            None => None,
            Some(acc) => {
                let a = attrs[k - 1];
                if !a.ok { None }
                else if a.key == k_id_cap() { Some(RbAcc { id: Some(a.raw), ..acc }) }
                else if a.key == k_target() { match unesc(a.raw) { Some(v) => Some(RbAcc { target: Some(v), ..acc }), None => None } }
                else { Some(acc) }
            },
        }
    }
}
proof fn lemma_rb_fold_prefix(attrs: Seq<Attr>, k: int, n: int)
    requires 0 <= k <= n, rb_fold(attrs, n) is Some,
    ensures rb_fold(attrs, k) is Some,
    decreases n - k,
{
    if k < n { lemma_rb_fold_prefix(attrs, k + 1, n); }
}
/// the (Id, Target) a Relationship element declares; None: malformed, or a required attribute is missing
pub open spec fn rel_entry(e: Ev) -> Option<(Seq<u8>, Seq<char>)> {
    match rb_fold(e.attrs, e.attrs.len() as int) {
        Some(RbAcc { id: Some(i), target: Some(t) }) => Some((i, t)),
        _ => None,
    }
}
/// `root`: 0 before the root element, 1 inside it, 2 behind it
pub ghost struct RbSt { pub root: int, pub rels: Map<Seq<u8>, Seq<char>> }
pub enum RbStep { Next(RbSt), Bad }
pub ghost struct RbRes { pub ok: bool, pub rels: Map<Seq<u8>, Seq<char>> }
pub open spec fn rb_step(e: Ev, s: RbSt) -> RbStep {
    if e.kind is Error { RbStep::Bad }
    else if e.kind is Start {
        if s.root == 0 { if is_pkgrel_ns(e.ns) && e.local == n_relationships() { RbStep::Next(RbSt { root: 1, ..s }) } else { RbStep::Bad } }
        else if s.root == 1 {
            // CT_Relationships: Relationship* (empty elements)
            if is_pkgrel_ns(e.ns) && e.local == n_relationship() {
                match rel_entry(e) { Some(x) => RbStep::Next(RbSt { rels: s.rels.insert(x.0, x.1), ..s }), None => RbStep::Bad }
            } else { RbStep::Bad }
        } else { RbStep::Bad }   // XML 1.0: exactly one root element
    } else if e.kind is End {
        if s.root == 1 {
            if e.local == n_relationships() { RbStep::Next(RbSt { root: 2, ..s }) } else if e.local == n_relationship() { RbStep::Next(s) } else { RbStep::Bad }
        } else { RbStep::Bad }
    } else { RbStep::Next(s) }
}
pub open spec fn rb_bad() -> RbRes { RbRes { ok: false, rels: Map::empty() } }
/// the walk of the whole part, up to the end of the document
pub open spec fn rb_scan(ev: Seq<Ev>, i: int, s: RbSt) -> RbRes
    decreases ev.len() - i
{
    if i < 0 { rb_bad() }
    else if i >= ev.len() { if s.root == 2 { RbRes { ok: true, rels: s.rels } } else { rb_bad() } }
    else {
        match rb_step(ev[i], s) {
            RbStep::Next(s2) => rb_scan(ev, i + 1, s2),
            RbStep::Bad => rb_bad(),
        }
    }
}
/// the relationships a relationships part declares
pub open spec fn rb_part(ev: Seq<Ev>) -> RbRes { rb_scan(ev, 0, RbSt { root: 0, rels: Map::empty() }) }
pub open spec fn rels_path() -> Seq<char> { "xl/_rels/workbook.bin.rels"@ }
pub open spec fn ev_tag(kind: EvKind, prefix: Option<Seq<u8>>, local: Seq<u8>, ns: Seq<u8>, attrs: Seq<Attr>) -> Ev {
    Ev { kind: kind, name: qname_of(prefix, local), prefix: prefix, local: local, ns: ns, attrs: attrs, text: Seq::empty(), text_ok: true }
}
pub open spec fn at_ok(key: Seq<u8>, raw: Seq<u8>) -> Attr { Attr { ok: true, key: key, local: key, ns: Seq::empty(), raw: raw } }
/// <Relationships><Relationship Id=I Target=T/></Relationships> declares the one relationship I -> value of T -- under any prefix
proof fn witness_rb_part(ns: Seq<u8>, px: Option<Seq<u8>>, id: Seq<u8>, t_raw: Seq<u8>, t: Seq<char>)
    requires is_pkgrel_ns(ns), unesc(t_raw) == Some(t),
    ensures ({
        let ev = seq![
            ev_tag(EvKind::Start, px, n_relationships(), ns, Seq::empty()),
            ev_tag(EvKind::Start, px, n_relationship(), ns, seq![at_ok(k_id_cap(), id), at_ok(k_target(), t_raw)]),
            ev_tag(EvKind::End, px, n_relationship(), ns, Seq::empty()),
            ev_tag(EvKind::End, px, n_relationships(), ns, Seq::empty())];
        rb_part(ev).ok && rb_part(ev).rels == Map::<Seq<u8>, Seq<char>>::empty().insert(id, t) }),
{
    lemma_names_distinct();
    let at = seq![at_ok(k_id_cap(), id), at_ok(k_target(), t_raw)];
    reveal_with_fuel(rb_fold, 3);
    assert(rb_fold(at, 2) == Some(RbAcc { id: Some(id), target: Some(t) }));
    assert(rel_entry(ev_tag(EvKind::Start, px, n_relationship(), ns, at)) == Some((id, t)));
    reveal_with_fuel(rb_scan, 6);
}
pub open spec fn opt_bytes(o: Option<Vec<u8>>) -> Option<Seq<u8>> { match o { Some(v) => Some(v@), None => None } }
pub open spec fn opt_text(o: Option<String>) -> Option<Seq<char>> { match o { Some(v) => Some(v@), None => None } }

// =====================================================================================================================
// C16 / C20 / C06: `Reader::new` for Xlsb -- the composition of the part readers (same scheme as unit ctors uses for Xlsx::new).
// `x_rel(state before, state after, result)`: "one call can take the state from .. to .. with this result".  For read_relationships the
// relation is DEFINED below as the conjunction of the clauses proved in this unit (and re-established at the call site); for the callees
// under contract elsewhere it is an uninterpreted atom (nothing assumed about it here): the constructor's postcondition is the
// COMPOSITION of the relations in the order the properties require -- C20 the password check decides before any other part can fail
// differently; C16 the strings / formats / sheets / metadata of the constructed reader are what the part readers left, starting from an
// empty reader, the workbook being read over exactly the relationships read_relationships returned; C06 a failing part reader makes the
// constructor fail with that very error -- never a half-initialised reader.
// =====================================================================================================================
// TRUSTED: the `?` operator converts the error with `From::from` (Rust reference, `FromResidual for Result`); vstd leaves
// this link (`spec_from`) uninterpreted.  The `From` impls of XlsbError are verified against their expansion.  (Same text as in units cfb / ctors.)
#[verifier::external_body]
pub broadcast proof fn axiom_question_mark_from<S: From<T>, T>(e: T, r: S)
    ensures #[trigger] vstd::std_specs::control_flow::spec_from::<S, T>(e, r) ==> call_ensures(<S as From<T>>::from, (e,), r) {}

// TRUSTED: expansion of `#[derive(Default)]` on XlsbOptions / Metadata (`#[default] FirstNonEmptyRow` on HeaderRow; empty Vecs)
impl Default for XlsbOptions {
    fn default() -> (r: Self) ensures r.is_default() { XlsbOptions { header_row: HeaderRow::FirstNonEmptyRow } }
}
impl XlsbOptions {
    pub closed spec fn is_default(&self) -> bool { self.header_row == HeaderRow::FirstNonEmptyRow }
}
impl Default for Metadata {
    fn default() -> (r: Self) ensures r.is_empty() { Metadata { sheets: Vec::new(), names: Vec::new() } }
}
impl Metadata {
    pub closed spec fn is_empty(&self) -> bool { self.sheets@.len() == 0 && self.names@.len() == 0 }
}
/// the bytes behind a reader / "some read or seek on it has failed" (the ghost model of std::io::{Read, Seek} of unit cfb: `content()`, `io_failed()`)
pub uninterp spec fn rs_content<RS>(r: RS) -> Seq<u8>;
pub uninterp spec fn rs_io_failed<RS>(r: RS) -> bool;
// [MS-CFB] vocabulary of unit cfb (DEFINED there; abstract here except `has_name`)
pub ghost struct DirEnt { pub name: Seq<char>, pub start: u32, pub len: nat }
pub ghost struct Parsed { pub dirs: Seq<DirEnt> }
pub uninterp spec fn hdr_valid(h: Seq<u8>) -> bool;
pub uninterp spec fn hdr_signature_ok(h: Seq<u8>) -> bool;
/// the container [MS-CFB] describes (directory entries ...), None: not a well-formed compound file (for this fuel)
pub uninterp spec fn cfb_parse(inp: Seq<u8>, fuel: nat) -> Option<Parsed>;
pub open spec fn has_name(ds: Seq<DirEnt>, n: Seq<char>) -> bool { exists|i: int| 0 <= i < ds.len() && (#[trigger] ds[i]).name == n }
/// TRUSTED: contract proved in unit cfb on the real text of src/xlsb/mod.rs check_for_password_protected (clauses C20.non_cfb_never_password,
/// C20.password_iff_encrypted_package, C20.password_only_for_cfb: text copied; `old(reader)` = o, `final(reader)` = n, `x.content()` = rs_content(x))
pub open spec fn xlsb_pw_rel<RS>(o: RS, n: RS, res: Result<(), XlsbError>) -> bool {
    &&& !hdr_signature_ok(rs_content(o)) ==> (match res { Ok(_) => true, Err(e) => e is Io })
    &&& forall|fuel: nat| #[trigger] cfb_parse(rs_content(o), fuel) is Some ==> (match res {
            Ok(_) => !has_name(cfb_parse(rs_content(o), fuel).unwrap().dirs, "EncryptedPackage"@) || rs_io_failed(n),
            Err(e) => e is Io || (e is Password && has_name(cfb_parse(rs_content(o), fuel).unwrap().dirs, "EncryptedPackage"@)),
        })
    &&& (res matches Err(e) && e is Password ==> hdr_valid(rs_content(o)))
}
/// the atom the composition is stated over (carries `xlsb_pw_rel`)
pub uninterp spec fn xlsb_pw_call<RS>(o: RS, n: RS, res: Result<(), XlsbError>) -> bool;
#[verifier::external_body]
fn check_for_password_protected<RS: Read + Seek>(reader: &mut RS) -> (res: Result<(), XlsbError>)
    ensures xlsb_pw_call(*old(reader), *final(reader), res), xlsb_pw_rel(*old(reader), *final(reader), res),
{ unimplemented!() }
/// `ZipArchive::new(reader)` can return r (central directory parsing: not modelled)
pub uninterp spec fn zip_new_rel<RS>(reader: RS, r: Result<ZipArchive<RS>, ZipError>) -> bool;
impl<RS: Read + Seek> ZipArchive<RS> {
    // TRUSTED: A-zip -- signature of zip::read::ZipArchive::new
    #[verifier::external_body]
    pub fn new(reader: RS) -> (r: Result<ZipArchive<RS>, ZipError>)
        ensures zip_new_rel(reader, r),
    { unimplemented!() }
}
/// TRUSTED: one call of Xlsb::read_shared_strings (contract proved in unit xlsbwb: C19.sst_absent_part, C19.sst_item_index,
/// C06,C19.sst_truncated_is_error, C06,C19.sst_malformed_is_error, C07.sst_read_frame), Xlsb::read_styles (unit xlsbwb: C10.styles_absent_part,
/// C10.xf_class_by_number_format, C06,C10.styles_truncated_is_error, C06,C10.styles_short_record_is_error, C07.styles_read_frame),
/// Xlsb::read_workbook (unit xlsbwb: C16.workbook_part_missing, C16.wbprop_1904, C16.bundle_sheets_in_order, C16.sheets_frame,
/// C14,C16.names_one_per_record, C14.extern_sheets_by_first_sheet, C16.wellformed_workbook_opens, C16.truncated_or_rejected_is_error,
/// C06,C16.short_record_is_error, C07.workbook_read_frame) can take the reader from o to n with result r.  This unit composes the calls
/// and looks at none of these clauses.
pub uninterp spec fn xlsb_sst_rel<RS>(o: Xlsb<RS>, n: Xlsb<RS>, r: Result<(), XlsbError>) -> bool;
pub uninterp spec fn xlsb_styles_rel<RS>(o: Xlsb<RS>, n: Xlsb<RS>, r: Result<(), XlsbError>) -> bool;
pub uninterp spec fn xlsb_wb_rel<RS>(o: Xlsb<RS>, rels: BTreeMap<Vec<u8>, String>, n: Xlsb<RS>, r: Result<(), XlsbError>) -> bool;
impl<RS: Read + Seek> Xlsb<RS> {
    #[verifier::external_body]
    fn read_shared_strings(&mut self) -> (r: Result<(), XlsbError>)
        ensures xlsb_sst_rel(*old(self), *final(self), r),
    { unimplemented!() }
    #[verifier::external_body]
    fn read_styles(&mut self) -> (r: Result<(), XlsbError>)
        ensures xlsb_styles_rel(*old(self), *final(self), r),
    { unimplemented!() }
    #[verifier::external_body]
    fn read_workbook(&mut self, relationships: &BTreeMap<Vec<u8>, String>) -> (r: Result<(), XlsbError>)
        ensures xlsb_wb_rel(*old(self), *relationships, *final(self), r),
    { unimplemented!() }
}
impl<RS> Xlsb<RS> {
    /// a reader over `zip` that has read nothing yet: no strings, formats, sheets, extern sheets, metadata; 1900 date system; header-row
    /// option at its default
    pub closed spec fn fresh(&self, zip: ZipArchive<RS>) -> bool {
        &&& self.zip == zip
        &&& self.strings@.len() == 0 && self.formats@.len() == 0 && self.sheets@.len() == 0 && self.extern_sheets@.len() == 0
        &&& !self.is_1904
        &&& self.metadata.is_empty()
        &&& self.options.is_default()
    }
    /// one call of read_relationships can take the reader from o to n with result r: the clauses proved on its real text in this unit
    /// (C16.read_relationships_frame, C16.no_relationships_part_means_no_relationships, C06,C16.unreadable_relationships_part_is_an_error,
    /// C03,C16.relationship_targets_by_id -- same text)
    pub closed spec fn rels_rel(o: Xlsb<RS>, n: Xlsb<RS>, r: Result<BTreeMap<Vec<u8>, String>, XlsbError>) -> bool {
        &&& n.strings == o.strings && n.sheets == o.sheets && n.extern_sheets == o.extern_sheets
            && n.formats == o.formats && n.is_1904 == o.is_1904 && n.metadata == o.metadata
            && n.options == o.options && content(n.zip) == content(o.zip)
            && (forall|p: Seq<char>| part_bytes(n.zip, p) == part_bytes(o.zip, p) && part_absent(n.zip, p) == part_absent(o.zip, p))
        &&& (!names(content(o.zip)).contains(rels_path()) ==> r is Ok && bk_is((r->Ok_0)@, Map::empty()))
        &&& (names(content(o.zip)).contains(rels_path()) && entry_events(content(o.zip), rels_path()) is None ==> r is Err)
        &&& ({ let evs = entry_events(content(o.zip), rels_path());
               names(content(o.zip)).contains(rels_path()) && evs is Some && rb_part(evs->Some_0).ok ==>
                   r is Ok && bk_is((r->Ok_0)@, rb_part(evs->Some_0).rels) })
    }
}
/// C20 / C16 / C06: `Xlsb::new(reader)` returns r -- the password check on the raw reader first (its error is THE result), then the zip
/// directory, then from a fresh reader: shared strings, styles, relationships, workbook (over exactly these relationships); the first
/// error ends the construction and is returned as it is; otherwise the reader is the state the last part reader left
pub open spec fn xlsb_new_run<RS: Read + Seek>(reader: RS, r: Result<Xlsb<RS>, XlsbError>) -> bool {
    exists|r1: RS, pw: Result<(), XlsbError>| #[trigger] xlsb_pw_call(reader, r1, pw) && match pw {
        Err(e) => r == Err::<Xlsb<RS>, XlsbError>(e),
        Ok(_) => xlsb_run_zip(r1, r),
    }
}
pub open spec fn xlsb_run_zip<RS: Read + Seek>(r1: RS, r: Result<Xlsb<RS>, XlsbError>) -> bool {
    exists|zr: Result<ZipArchive<RS>, ZipError>| #[trigger] zip_new_rel(r1, zr) && match zr {
        Err(e) => r == Err::<Xlsb<RS>, XlsbError>(XlsbError::Zip(e)),
        Ok(zip) => xlsb_run_sst(zip, r),
    }
}
pub open spec fn xlsb_run_sst<RS: Read + Seek>(zip: ZipArchive<RS>, r: Result<Xlsb<RS>, XlsbError>) -> bool {
    exists|x0: Xlsb<RS>, x1: Xlsb<RS>, ss: Result<(), XlsbError>| x0.fresh(zip) && #[trigger] xlsb_sst_rel(x0, x1, ss) && match ss {
        Err(e) => r == Err::<Xlsb<RS>, XlsbError>(e),
        Ok(_) => xlsb_run_styles(x1, r),
    }
}
pub open spec fn xlsb_run_styles<RS: Read + Seek>(x1: Xlsb<RS>, r: Result<Xlsb<RS>, XlsbError>) -> bool {
    exists|x2: Xlsb<RS>, st: Result<(), XlsbError>| #[trigger] xlsb_styles_rel(x1, x2, st) && match st {
        Err(e) => r == Err::<Xlsb<RS>, XlsbError>(e),
        Ok(_) => xlsb_run_rels(x2, r),
    }
}
pub open spec fn xlsb_run_rels<RS: Read + Seek>(x2: Xlsb<RS>, r: Result<Xlsb<RS>, XlsbError>) -> bool {
    exists|x3: Xlsb<RS>, rl: Result<BTreeMap<Vec<u8>, String>, XlsbError>| #[trigger] Xlsb::rels_rel(x2, x3, rl) && match rl {
        Err(e) => r == Err::<Xlsb<RS>, XlsbError>(e),
        Ok(m) => xlsb_run_wb(x3, m, r),
    }
}
pub open spec fn xlsb_run_wb<RS: Read + Seek>(x3: Xlsb<RS>, m: BTreeMap<Vec<u8>, String>, r: Result<Xlsb<RS>, XlsbError>) -> bool {
    exists|x4: Xlsb<RS>, wb: Result<(), XlsbError>| #[trigger] xlsb_wb_rel(x3, m, x4, wb) && match wb {
        Err(e) => r == Err::<Xlsb<RS>, XlsbError>(e),
        Ok(_) => r == Ok::<Xlsb<RS>, XlsbError>(x4),
    }
}
// Stand-in for the trait `Reader` of src/lib.rs, restricted to the method under contract in this unit (signature copied)
pub trait Reader<RS>: Sized
where
    RS: Read + Seek,
{
    type Error;
    fn new(reader: RS) -> Result<Self, Self::Error>;
}

pub mod rr {
use super::*;
verus! {
//@@ impl src/xlsb/mod.rs Xlsb
#[verifier::loop_isolation(false)]
#[verifier::allow_complex_invariants]
//@@ fn src/xlsb/mod.rs Xlsb::read_relationships props=C16,C03 entry ret=r
//@@ sig
    ensures
        //# C16.read_relationships_frame
        final(self).strings == old(self).strings && final(self).sheets == old(self).sheets && final(self).extern_sheets == old(self).extern_sheets
            && final(self).formats == old(self).formats && final(self).is_1904 == old(self).is_1904 && final(self).metadata == old(self).metadata
            && final(self).options == old(self).options && content(final(self).zip) == content(old(self).zip)
            && (forall|p: Seq<char>| part_bytes(final(self).zip, p) == part_bytes(old(self).zip, p) && part_absent(final(self).zip, p) == part_absent(old(self).zip, p)),
        // OPC: a part without relationships part has no relationships
        //# C16.no_relationships_part_means_no_relationships
        !names(content(old(self).zip)).contains(rels_path()) ==> r is Ok && bk_is((r->Ok_0)@, Map::empty()),
        //# C06,C16.unreadable_relationships_part_is_an_error
        names(content(old(self).zip)).contains(rels_path()) && entry_events(content(old(self).zip), rels_path()) is None ==> r is Err,
        // which part belongs to which relationship id: Id -> Target VALUE of every Relationship element
        //# C03,C16.relationship_targets_by_id
        ({ let evs = entry_events(content(old(self).zip), rels_path());
           names(content(old(self).zip)).contains(rels_path()) && evs is Some && rb_part(evs->Some_0).ok ==>
               r is Ok && bk_is((r->Ok_0)@, rb_part(evs->Some_0).rels) }),
        // (the four clauses above as one relation between the reader before, the reader after and the result: what `Reader::new` composes)
        //# C16.relationships_call_relation
        Xlsb::rels_rel(*old(self), *final(self), r),
//@@ replace /(a @ )?Attribute \{\s*key: QName\((b"[^"]*")\),\s*(value: v|\.\.),?\s*\}\s*=>/#0of2 Verus crashes on byte-string literal patterns: the slice is bound and compared in a guard (same test, same arm order); the literal, the other field pattern and a binding of the whole attribute are kept verbatim
\g<1>Attribute { key: QName(__k), \g<3> } if __k == \g<2> =>
//@@ replace /(a @ )?Attribute \{\s*key: QName\((b"[^"]*")\),\s*(value: v|\.\.),?\s*\}\s*=>/#1of2 (same)
\g<1>Attribute { key: QName(__k), \g<3> } if __k == \g<2> =>
//@@ replace /a\.map_err\((XlsbError::XmlAttr)\)\?/ Verus: "using a datatype constructor as a function value" unsupported; eta-expanded, same function
a.map_err(|e| -> (x: XlsbError) ensures x == \g<1>(e) { \g<1>(e) })?
//@@ replace? /\.map_err\((XlsbError::Encoding)\)\?/ (same)
.map_err(|e| -> (x: XlsbError) ensures x == \g<1>(e) { \g<1>(e) })?
//@@ replace /v\.to_vec\(\)/ no vstd specification reaches `<[u8]>::to_vec` through the auto-deref of a Cow: the expression is moved into a trusted wrapper whose body is the same expression
verif_cow_to_vec(&v)
//@@ body
        broadcast use {axiom_cow_str_owned, lemma_bytes_eq_array};
        proof { axiom_bytelits(); lemma_names_distinct(); axiom_bytes_keyed_empty(); }
//@@ after /let mut relationships = [^;]*;/
        proof { assert(bk_is(relationships@, Map::<Seq<u8>, Seq<char>>::empty())); }
//@@ before /let mut buf: Vec<u8> = /
                // the reader is configured as the ghost event model A-xml assumes: no trimming, `<Relationship .../>` delivered as Start + End
                //# C16.rels_reader_configuration
                assert(axml_config(xml.cfg()));
                let ghost ev = xml.events();
                let ghost tot = rb_part(ev);
                let ghost good = tot.ok;
                let ghost mut st = RbSt { root: 0, rels: Map::empty() };
//@@ loop 0
                    invariant_except_break
                        //# C16.rels_code_follows_the_schema_walk
                        good ==> rb_scan(ev, xml.pos() as int, st) == tot,
                    invariant
                        xml.events() == ev,
                        //# C16.relationships_registered_so_far
                        good ==> bk_is(relationships@, st.rels),
                    ensures
                        good ==> st.rels == tot.rels,
                    decreases xml.left(),
//@@ before /match xml\.read_event_into\(&mut buf\)/
                    let ghost pos = xml.pos() as int;
                    let ghost st0 = st;
                    let ghost stp = if pos < ev.len() { rb_step(ev[pos], st) } else { RbStep::Bad };
                    proof {
                        if good && pos < ev.len() {
                            assert(!(stp is Bad));
                            if ev[pos].kind is Start && ev[pos].local == n_relationship() {
                                assert(st0.root == 1 && is_pkgrel_ns(ev[pos].ns) && rel_entry(ev[pos]) is Some);
                                assert(stp->Next_0.rels == st0.rels.insert(rel_entry(ev[pos])->Some_0.0, rel_entry(ev[pos])->Some_0.1));
                            } else { assert(stp->Next_0.rels == st0.rels); }
                            st = stp->Next_0;
                        }
                    }
//@@ before /let mut id = None;/
                            let ghost at = ev[pos].attrs;
                            proof { assert(e.ev() == ev[pos]); assert(attrs_unique(at)); }
//@@ loop 1 it
                                invariant
                                    attrs_match(it.seq(), at),
                                    // Id is the raw value of the attribute `Id`, the target the VALUE of the attribute `Target`
                                    //# C03,C16.relationship_id_and_target_from_attributes
                                    good ==> rb_fold(at, it.index@ as int) == Some(RbAcc { id: opt_bytes(id), target: opt_text(target) }),
//@@ before /match a\.map_err/
                                let ghost k = it.index@ as int;
                                proof {
                                    assert(0 <= k < at.len());
                                    assert(a == it.seq()[k]);
                                    if good {
                                        lemma_rb_fold_prefix(at, k + 1, at.len() as int);
                                        assert(at[k].ok);
                                        if at[k].key == k_target() { assert(unesc(at[k].raw) is Some); }
                                    }
                                }
//@@ before /if let \(Some\(id\), Some\(target\)\) = /
                            proof {
                                if good { assert(rel_entry(ev[pos]) == Some((opt_bytes(id)->Some_0, opt_text(target)->Some_0))); }
                            }
//@@ before /relationships\.insert\(/
                                proof { axiom_bytes_keyed_insert(relationships@, id, target); }
//@@ end
//@@ endimpl
//@@ impl src/xlsb/mod.rs "Reader<RS> for Xlsb<RS>"
//@@ item src/xlsb/mod.rs impl_type "Reader<RS> for Xlsb<RS>::type Error"
//@@ fn src/xlsb/mod.rs "Reader<RS> for Xlsb<RS>::new" props=C16,C20,C06 entry ret=r mutparams
//@@ sig
    ensures
        //# C20,C16,C06.xlsb_new_is_password_check_then_part_readers_in_order
        xlsb_new_run(__p_reader, r),
        // an encrypted OOXML package = a compound file with an EncryptedPackage entry (`rs_io_failed`: the environment made a read of the
        // check fail -- the check then lets the file through, see C20.password_iff_encrypted_package of unit cfb)
        //# C20.xlsb_encrypted_package_is_reported
        exists|r1: RS, pw: Result<(), XlsbError>| #[trigger] xlsb_pw_call(__p_reader, r1, pw) && (rs_io_failed(r1) ||
            forall|fuel: nat| #[trigger] cfb_parse(rs_content(__p_reader), fuel) is Some
                && has_name(cfb_parse(rs_content(__p_reader), fuel).unwrap().dirs, "EncryptedPackage"@) ==> r is Err && (r->Err_0 is Password || r->Err_0 is Io)),
//@@ body
        broadcast use axiom_question_mark_from;
//@@ end
//@@ endimpl
} // verus!
} // mod rr

} // verus!
fn main() {}
