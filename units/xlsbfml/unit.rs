//@@ unit props=C14,C06 rlimit=200
// Unit xlsbfml: the [MS-XLSB] token renderer `parse_formula` of src/xlsb/mod.rs (verbatim text) under Verus.
#![feature(allocator_api)]
#![allow(unused_imports, dead_code, unused_variables, unused_mut, unused_assignments, unexpected_cfgs, deprecated)]
use vstd::prelude::*;
use std::slice::Windows;
use std::ops::{Index, Range};
use std::slice::SliceIndex;
use std::borrow::Cow;
use vstd::std_specs::iter::IteratorSpec;
use vstd::std_specs::core::IndexSpec;

verus! {

// ---- stand-ins for foreign error payload types (opaque; never inspected by the verified code)
pub mod quick_xml {
    pub struct Error;
    pub mod events { pub mod attributes { pub struct AttrError; } }
    pub mod encoding { pub struct EncodingError; }
}
pub mod zip { pub mod result { pub struct ZipError; } }
pub mod vba { pub struct VbaError; }
#[verifier::external_type_specification] #[verifier::external_body] pub struct ExIoError(std::io::Error);

//@@ item src/xlsb/mod.rs enum XlsbError
pub mod utils {
use vstd::prelude::*;
//@@ item src/utils.rs const FTAB_LEN
//@@ item src/utils.rs const FTAB static_refs
//@@ item src/utils.rs const FTAB_ARGC
}

//@@ include common/bytes.rs

// =====================================================================================================================
// String model: a String is its sequence of chars (vstd's view); byte offsets are related to it by the UTF-8 width of each char
// =====================================================================================================================
/// UTF-8 width of a char ([RFC 3629] / core::char::len_utf8)
pub open spec fn cw(c: char) -> nat { if (c as u32) < 0x80 { 1 } else if (c as u32) < 0x800 { 2 } else if (c as u32) < 0x10000 { 3 } else { 4 } }
/// length in bytes of the UTF-8 encoding of s
pub open spec fn blen(s: Seq<char>) -> nat decreases s.len() { if s.len() == 0 { 0 } else { blen(s.drop_last()) + cw(s.last()) } }
/// byte offset b is a char boundary of s (0, len, or the start of a char)
pub open spec fn is_bnd(s: Seq<char>, b: int) -> bool { exists|k: int| 0 <= k <= s.len() && blen(s.take(k)) == b }
/// the number of chars in front of byte offset b
pub open spec fn cidx(s: Seq<char>, b: int) -> int { choose|k: int| 0 <= k <= s.len() && blen(s.take(k)) == b }

// TRUSTED: String::with_capacity(n): "Creates a new empty String with at least the specified capacity"
pub assume_specification[ String::with_capacity ](n: usize) -> (r: String)
    ensures r@ == Seq::<char>::empty();
// TRUSTED: String::len: "Returns the length of this String, in bytes, not chars"
pub assume_specification[ String::len ](s: &String) -> (r: usize)
    ensures r == blen(s@);
// TRUSTED: String::insert(idx, ch): "Inserts a character into this String at byte position idx. Panics if idx is larger than the String's length, or if it does not lie on a char boundary"
pub assume_specification[ String::insert ](s: &mut String, idx: usize, ch: char)
    requires is_bnd(old(s)@, idx as int),
    ensures final(s)@ == old(s)@.take(cidx(old(s)@, idx as int)).push(ch) + old(s)@.skip(cidx(old(s)@, idx as int));
// TRUSTED: String::split_off(at): "Splits the string into two at the given byte index. Returns a newly allocated String. self contains bytes [0, at), and the returned String contains bytes [at, len). Panics if at is not on a UTF-8 code point boundary, or if it is beyond the last code point of the string"
pub assume_specification[ String::split_off ](s: &mut String, at: usize) -> (r: String)
    requires is_bnd(old(s)@, at as int),
    ensures final(s)@ == old(s)@.take(cidx(old(s)@, at as int)), r@ == old(s)@.skip(cidx(old(s)@, at as int));
// TRUSTED: `&s[a..b]` on a String (str::index, Range<usize>): "Returns a slice of the given string from the byte range [begin, end). Panics if begin or end does not point to the starting byte offset of a character, if begin > end, or if end > len"
pub uninterp spec fn str_index_post<I: SliceIndex<str>>(s: Seq<char>, i: I, x: &<I as SliceIndex<str>>::Output) -> bool;
pub assume_specification<I: SliceIndex<str>>[ <String as Index<I>>::index ](s: &String, i: I) -> (x: &<I as SliceIndex<str>>::Output)
    ensures str_index_post(s@, i, x);
pub broadcast axiom fn axiom_str_index_range(s: Seq<char>, r: Range<usize>, x: &str)
    ensures #[trigger] str_index_post::<Range<usize>>(s, r, x) ==> x@ == s.subrange(cidx(s, r.start as int), cidx(s, r.end as int));
pub broadcast axiom fn axiom_string_index_req_range(s: &String, r: Range<usize>)
    ensures r.start <= r.end && is_bnd(s@, r.start as int) && is_bnd(s@, r.end as int) ==> #[trigger] <String as IndexSpec<Range<usize>>>::index_req(s, &r);

// TRUSTED: Option::map_or (core::option documentation): the default for None, f(value) for Some
pub assume_specification<T, U, F: FnOnce(T) -> U>[ Option::<T>::map_or ](o: Option<T>, d: U, f: F) -> (r: U)
    requires o matches Some(v) ==> call_requires(f, (v,)),
    ensures o is None ==> r == d, o matches Some(v) ==> call_ensures(f, (v,), r);
// TRUSTED: core::slice::windows doc: "Returns an iterator over all contiguous windows of length size. The windows overlap. If the slice is
// shorter than size, the iterator returns no values. Panics if size is zero."  (`win_from(s, n, k, r)`: r = the windows from window k on)
#[verifier::external_type_specification] #[verifier::external_body] #[verifier::reject_recursive_types(T)]
pub struct ExWindows<'a, T: 'a>(Windows<'a, T>);
pub open spec fn win_from<T>(s: Seq<T>, n: int, k: int, r: Seq<&[T]>) -> bool {
    r.len() == (if s.len() >= n { s.len() - n + 1 } else { 0 }) - k
    && forall|i: int| 0 <= i < r.len() ==> (#[trigger] r[i])@ == s.subrange(k + i, k + i + n)
}
pub assume_specification<'a, T>[ <[T]>::windows ](s: &'a [T], n: usize) -> (r: Windows<'a, T>)
    requires n != 0,
    ensures r.obeys_prophetic_iter_laws(), win_from(s@, n as int, 0, r.remaining());
// TRUSTED: `for x in &mut vec` is `vec.iter_mut()` (impl IntoIterator for &mut Vec): yields a mutable reference to every element in order;
// same shape as vstd's specification of <[T]>::iter_mut (current values = old vector, final values = final vector)
pub assume_specification<'a, T, A: std::alloc::Allocator>[ <&'a mut Vec<T, A> as IntoIterator>::into_iter ](v: &'a mut Vec<T, A>) -> (r: <&'a mut Vec<T, A> as IntoIterator>::IntoIter)
    ensures
        r.obeys_prophetic_iter_laws(), r.decrease() is Some, r.remaining().len() == old(v)@.len(), final(v)@.len() == old(v)@.len(),
        forall|i: int| 0 <= i < old(v)@.len() ==> *(#[trigger] r.remaining()[i]) == old(v)@[i],
        forall|i: int| #![trigger r.remaining()[i]] #![trigger final(v)@[i]] 0 <= i < old(v)@.len() ==> *final(r.remaining()[i]) == final(v)@[i];

// ---- formatting (rule R13 expands `write!(&mut s, "..{}..", a).unwrap()` / `format!` into these two)
/// the text `Display` produces for a value
pub uninterp spec fn display<T>(x: T) -> Seq<char>;
// TRUSTED: the literal pieces of a format string are written as they are
#[verifier::external_body] fn verif_fmt_lit(dst: &mut String, lit: &str)
    ensures final(dst)@ == old(dst)@ + lit@,
{ unimplemented!() }
// TRUSTED: a `{}` placeholder writes the `Display` text of its argument
#[verifier::external_body] fn verif_fmt_arg<T>(dst: &mut String, a: &T)
    ensures final(dst)@ == old(dst)@ + display::<T>(*a),
{ unimplemented!() }
// TRUSTED: Display for u16 / u32: decimal digits without sign or leading zeros; for &str / String: the text itself
pub broadcast axiom fn axiom_display_u16(x: u16) ensures #[trigger] display::<u16>(x) == dec(x as nat);
pub broadcast axiom fn axiom_display_u32(x: u32) ensures #[trigger] display::<u32>(x) == dec(x as nat);
pub broadcast axiom fn axiom_display_str(x: &str) ensures #[trigger] display::<&str>(x) == x@;
pub broadcast axiom fn axiom_display_string(x: String) ensures #[trigger] display::<String>(x) == x@;


// ---- A-enc: UTF-16LE decoding (encoding_rs), as in unit xlsbrec
// TRUSTED: A-enc -- `dec16` stands for encoding_rs' UTF-16LE decoder proper; `dec_sniffed` for the result of BOM sniffing
// (`Encoding::decode` removes a leading BOM and decodes in the BOM's encoding); both uninterpreted functions of the bytes
pub uninterp spec fn dec16(s: Seq<u8>) -> Seq<char>;
pub uninterp spec fn dec_sniffed(s: Seq<u8>) -> Seq<char>;
pub open spec fn has_bom(s: Seq<u8>) -> bool {
    (s.len() >= 2 && s[0] == 0xFF && s[1] == 0xFE) || (s.len() >= 2 && s[0] == 0xFE && s[1] == 0xFF)
    || (s.len() >= 3 && s[0] == 0xEF && s[1] == 0xBB && s[2] == 0xBF)
}
pub struct Encoding;
pub struct Utf16LeStandIn;
pub const UTF_16LE: Utf16LeStandIn = Utf16LeStandIn;
impl Utf16LeStandIn {
    // TRUSTED: A-enc
    #[verifier::external_body]
    pub fn decode<'a>(&self, bytes: &'a [u8]) -> (r: (Cow<'a, str>, Encoding, bool))
        ensures cow_ref(&r.0)@ == (if has_bom(bytes@) { dec_sniffed(bytes@) } else { dec16(bytes@) }),
    { unimplemented!() }
}
// TRUSTED: A-std -- `Cow::deref` yields the borrowed or owned content; `cow_ref` names it
pub uninterp spec fn cow_ref<'a, 'b, B: ?Sized + ToOwned>(c: &'b Cow<'a, B>) -> &'b B;
pub assume_specification<'a, 'b, B: ?Sized + ToOwned>[ <Cow<'a, B> as std::ops::Deref>::deref ](c: &'b Cow<'a, B>) -> (r: &'b B)
    ensures r == cow_ref(c);

// the contract of utils::push_column, in the words of unit colname (same spec text)
pub open spec fn is_upper_c(c: char) -> bool { 'A' <= c && c <= 'Z' }
pub open spec fn letter_val_c(c: char) -> nat { (c as u32 - 0x41 + 1) as nat }
pub open spec fn b26c(s: Seq<char>) -> nat decreases s.len() { if s.len() == 0 { 0 } else { b26c(s.drop_last()) * 26 + letter_val_c(s.last()) } }
pub open spec fn all_upper_c(s: Seq<char>) -> bool { forall|i: int| 0 <= i < s.len() ==> is_upper_c(#[trigger] s[i]) }
pub open spec fn appended(old: Seq<char>, new: Seq<char>) -> Seq<char> { new.subrange(old.len() as int, new.len() as int) }
// TRUSTED: proved in unit colname (C14.column_letters_frame, column_letters_uppercase, column_letters): the appended text is the string of
// uppercase letters whose bijective base-26 value is col + 1.  lemma_colname_contract (below, verified) shows that these three clauses
// determine the text: it is col_name(col).
#[verifier::external_body] pub fn push_column(col: u32, buf: &mut String)
    ensures final(buf)@ == old(buf)@ + col_name(col as int),
{ unimplemented!() }
pub open spec fn digit(d: int) -> char {
    if d == 0 { '0' } else if d == 1 { '1' } else if d == 2 { '2' } else if d == 3 { '3' } else if d == 4 { '4' }
    else if d == 5 { '5' } else if d == 6 { '6' } else if d == 7 { '7' } else if d == 8 { '8' } else { '9' }
}
/// decimal numeral of n, no leading zeros
pub open spec fn dec(n: nat) -> Seq<char> decreases n { if n < 10 { seq![digit(n as int)] } else { dec(n / 10).push(digit((n % 10) as int)) } }
pub open spec fn letter(d: int) -> char { ((0x41 + d) as u8) as char }
/// bijective base-26 numeral of n >= 1 over A..Z (A = 1 .. Z = 26, AA = 27 ..): spreadsheet column letters of column n - 1
pub open spec fn b26(n: nat) -> Seq<char> decreases n { if n == 0 { Seq::empty() } else { b26(((n - 1) / 26) as nat).push(letter((n - 1) % 26)) } }
/// letters of the 0-based column
pub open spec fn col_name(col: int) -> Seq<char> { b26((col + 1) as nat) }

/// [MS-XLS] 2.5.198.108 RgceLoc / 2.5.51 ColRelU: 16-bit field = col (bits 0-13), colRelative (bit 14), rowRelative (bit 15)
pub open spec fn f_col(f: int) -> int { f % 16384 }
pub open spec fn f_col_rel(f: int) -> bool { (f / 16384) % 2 == 1 }
pub open spec fn f_row_rel(f: int) -> bool { (f / 32768) % 2 == 1 }
/// a `$` exactly on the absolute components
pub open spec fn dollar(absolute: bool) -> Seq<char> { if absolute { seq!['$'] } else { Seq::empty() } }
/// A1 text of a cell reference: rw = 0-based row, f = column field with its two flag bits
pub open spec fn cell_text(rw: int, f: int) -> Seq<char> { dollar(!f_col_rel(f)) + col_name(f_col(f)) + dollar(!f_row_rel(f)) + dec((rw + 1) as nat) }
/// [MS-XLS] 2.5.198.107 RgceArea: rowFirst, rowLast, columnFirst, columnLast -- each column field carries the flags of its own corner
pub open spec fn area_text(rw1: int, rw2: int, f1: int, f2: int) -> Seq<char> { cell_text(rw1, f1) + seq![':'] + cell_text(rw2, f2) }

pub mod m {
use super::*;
verus! {
//@@ fn src/xlsb/mod.rs parse_formula props=C14 entry ret=res r13 mutparams
//@@ sig
    decreases __p_rgce@.len(),
//@@ loop 0
        invariant
            rgce@.len() <= __p_rgce@.len(),
        decreases rgce@.len(),
//@@ end
}
}

} // verus!
fn main() {}
