//@@ unit props=C14,C06 rlimit=800
// Unit xlsbfml: the [MS-XLSB] token renderer `parse_formula` of src/xlsb/mod.rs (verbatim text, one 330-line function, recursive) and
// check_len, under Verus.
//
// String model (copied from the sibling unit xlsfml, same text): a String is its Seq<char>; byte offsets (String::len / split_off / insert /
// &s[a..b]) are related to it by the UTF-8 width of each char (blen / is_bnd / cidx) -- no ASCII assumption.
// ORACLE written from [MS-XLSB] 2.5.97: decode (one token -> Tok + size), apply / step / run / render (operand stack semantics), cell_text /
// area_text (RgceLoc / RgceArea with ColRelShort: col bits 0-13, fColRel bit 14, fRwRel bit 15; `$` exactly on absolute components),
// binop (Ptg table), err_text (BErr), quoted (string literal with doubled quotes), col_name (bijective base 26 = contract of push_column,
// proved in unit colname; lemma_colname_contract shows the three proved clauses determine the text).
// Under contract (all discharged on the repaired text, fixes/xlsbfml_1..9):
//   C06 (entry point, every input): invariant C06.stack_offsets_are_char_boundaries (opaque sorted_bnds: the stack holds ascending char
//     boundaries of the text) carried through all 27 arms by lemma_struct / lemma_S_push / _grow / _top / _func; hence every String::split_off /
//     insert / &fargs[a..b] precondition, `*s -= start`, every slice / index / read_u16 / read_u32 / read_f64 obligation (through the
//     check_len guards), FTAB / FTAB_ARGC / sheets / names lookups, `+ 1` / `- 1` arithmetic, the two inner loops, termination of the loop and
//     of the recursion (PtgMemFunc) -- about 110 implicit obligations; check_len: Err exactly when too short.
//   C14 per token (labelled, named xlsb_*_text): the text an arm appends / inserts is the oracle's text for that token and the bytes consumed
//     are the token's size: PtgRef, PtgArea, PtgRef3d, PtgArea3d (flags + masked column + one-based row, via lemma_code_cell /
//     lemma_xlsb_ptg*_text), PtgRefErr / AreaErr / RefErr3d / AreaErr3d, PtgStr (quotes doubled), PtgErr, PtgBool, PtgInt, PtgNum (Display of
//     the double: uninterpreted), PtgName (one-based), PtgMissArg, binary operators 0x03-0x11 (xlsb_binary_operator_text), unary + / -,
//     parentheses, PtgAttrSum.
//   NOT under contract: the whole-function equality `render(rgce) == Some(t) ==> res == Ok(t)` (the operand-list invariant `repr` of unit
//     xlsfml) and therefore the argument order / commas of function calls (FTAB name + '(' + args + ')') -- only their C06 side is proved;
//     PtgExp, PtgArray, PtgExtend, PtgAttrChoose, PtgMemFunc, PtgNameX are outside the oracle (see `decode`).
// TRUSTED (all marked): String::len / with_capacity / insert / split_off / Index<Range>, Vec::<&mut>::into_iter, <[T]>::windows + Windows::next
//   (win_rem model, rule R6), Option::map_or, Cow deref, UTF_16LE.decode stand-in (dec16 / BOM sniffing: strings starting with a BOM are
//   outside the oracle -- the sniffing defect is the registered C19 finding of unit xlsbrec), str::replace(char, &str) (axiom_replace_quote),
//   format! expansion R13 (verif_fmt_arg + Display axioms for u16 / u32 / u64 = decimal digits), read_* (common/bytes.rs, Kani), push_column
//   (unit colname), the closure of `and_then` (spec written on it, verified by Verus against its body).
// Declared rewrites: r13 (format!), r4 (check_len's message), mutparams (`mut rgce`), r6 on `for w in args.windows(2)`, and one ad-hoc rewrite:
//   the two statements `let col = [rgce[4], X]; let col = read_u16(&col);` of the PtgRef arm are moved verbatim into the helper verif_pair_u16
//   (verified by Verus on its own) because the array literal starts a quantifier matching loop inside the big function.
// Cost: the text after every arm is written exactly as the arm's statements build it (left-nested appends) and handed to small LINK LEMMAS that
//   regroup it (extensional reasoning only there); inside parse_formula everything is congruence + lemma calls: 60 s, rlimit 4.2e8.
// Findings: findings/xlsbfml.json (all nine repaired: "fixed"); the demonstration-only finding about PtgArray stays with findings/xlsbf.json.
#![feature(allocator_api)]
#![feature(pattern)]
#![allow(unused_imports, dead_code, unused_variables, unused_mut, unused_assignments, unexpected_cfgs, deprecated)]
use vstd::prelude::*;
use std::slice::Windows;
use std::ops::{Index, Range};
use std::slice::SliceIndex;
use std::borrow::Cow;
use vstd::std_specs::iter::IteratorSpec;
use vstd::std_specs::core::IndexSpec;

verus! {

// ---- stand-ins for foreign error payload types (opaque; never inspected by the verified code)
pub mod quick_xml {
    pub struct Error;
    pub mod events { pub mod attributes { pub struct AttrError; } }
    pub mod encoding { pub struct EncodingError; }
}
pub mod zip { pub mod result { pub struct ZipError; } }
pub mod vba { pub struct VbaError; }
#[verifier::external_type_specification] #[verifier::external_body] pub struct ExIoError(std::io::Error);

//@@ item src/xlsb/mod.rs enum XlsbError
pub mod utils {
use vstd::prelude::*;
//@@ item src/utils.rs const FTAB_LEN
//@@ item src/utils.rs const FTAB static_refs
//@@ item src/utils.rs const FTAB_ARGC
}

//@@ include common/bytes.rs

// =====================================================================================================================
// String model: a String is its sequence of chars (vstd's view); byte offsets are related to it by the UTF-8 width of each char
// =====================================================================================================================
/// UTF-8 width of a char ([RFC 3629] / core::char::len_utf8)
pub open spec fn cw(c: char) -> nat { if (c as u32) < 0x80 { 1 } else if (c as u32) < 0x800 { 2 } else if (c as u32) < 0x10000 { 3 } else { 4 } }
/// length in bytes of the UTF-8 encoding of s
pub open spec fn blen(s: Seq<char>) -> nat decreases s.len() { if s.len() == 0 { 0 } else { blen(s.drop_last()) + cw(s.last()) } }
/// byte offset b is a char boundary of s (0, len, or the start of a char)
pub open spec fn is_bnd(s: Seq<char>, b: int) -> bool { exists|k: int| 0 <= k <= s.len() && blen(s.take(k)) == b }
/// the number of chars in front of byte offset b
pub open spec fn cidx(s: Seq<char>, b: int) -> int { choose|k: int| 0 <= k <= s.len() && blen(s.take(k)) == b }

// TRUSTED: String::with_capacity(n): "Creates a new empty String with at least the specified capacity"
pub assume_specification[ String::with_capacity ](n: usize) -> (r: String)
    ensures r@ == Seq::<char>::empty();
// TRUSTED: String::len: "Returns the length of this String, in bytes, not chars"
pub assume_specification[ String::len ](s: &String) -> (r: usize)
    ensures r == blen(s@);
// TRUSTED: String::insert(idx, ch): "Inserts a character into this String at byte position idx. Panics if idx is larger than the String's length, or if it does not lie on a char boundary"
pub assume_specification[ String::insert ](s: &mut String, idx: usize, ch: char)
    requires is_bnd(old(s)@, idx as int),
    ensures final(s)@ == old(s)@.take(cidx(old(s)@, idx as int)).push(ch) + old(s)@.skip(cidx(old(s)@, idx as int));
// TRUSTED: String::split_off(at): "Splits the string into two at the given byte index. Returns a newly allocated String. self contains bytes [0, at), and the returned String contains bytes [at, len). Panics if at is not on a UTF-8 code point boundary, or if it is beyond the last code point of the string"
pub assume_specification[ String::split_off ](s: &mut String, at: usize) -> (r: String)
    requires is_bnd(old(s)@, at as int),
    ensures final(s)@ == old(s)@.take(cidx(old(s)@, at as int)), r@ == old(s)@.skip(cidx(old(s)@, at as int));
// TRUSTED: `&s[a..b]` on a String (str::index, Range<usize>): "Returns a slice of the given string from the byte range [begin, end). Panics if begin or end does not point to the starting byte offset of a character, if begin > end, or if end > len"
pub uninterp spec fn str_index_post<I: SliceIndex<str>>(s: Seq<char>, i: I, x: &<I as SliceIndex<str>>::Output) -> bool;
pub assume_specification<I: SliceIndex<str>>[ <String as Index<I>>::index ](s: &String, i: I) -> (x: &<I as SliceIndex<str>>::Output)
    ensures str_index_post(s@, i, x);
pub broadcast axiom fn axiom_str_index_range(s: Seq<char>, r: Range<usize>, x: &str)
    ensures #[trigger] str_index_post::<Range<usize>>(s, r, x) ==> x@ == s.subrange(cidx(s, r.start as int), cidx(s, r.end as int));
pub broadcast axiom fn axiom_string_index_req_range(s: &String, r: Range<usize>)
    ensures r.start <= r.end && is_bnd(s@, r.start as int) && is_bnd(s@, r.end as int) ==> #[trigger] <String as IndexSpec<Range<usize>>>::index_req(s, &r);

// TRUSTED: Option::map_or (core::option documentation): the default for None, f(value) for Some
pub assume_specification<T, U, F: FnOnce(T) -> U>[ Option::<T>::map_or ](o: Option<T>, d: U, f: F) -> (r: U)
    requires o matches Some(v) ==> call_requires(f, (v,)),
    ensures o is None ==> r == d, o matches Some(v) ==> call_ensures(f, (v,), r);
// TRUSTED: core::slice::windows doc: "Returns an iterator over all contiguous windows of length size. The windows overlap. If the slice is
// shorter than size, the iterator returns no values. Panics if size is zero."  `win_rem`: the windows not yet handed out (rule R6 loop)
#[verifier::external_type_specification] #[verifier::external_body] #[verifier::reject_recursive_types(T)]
pub struct ExWindows<'a, T: 'a>(Windows<'a, T>);
pub uninterp spec fn win_rem<T>(w: Windows<'_, T>) -> Seq<Seq<T>>;
pub open spec fn all_windows<T>(s: Seq<T>, n: int) -> Seq<Seq<T>> {
    Seq::new((if s.len() >= n { s.len() - n + 1 } else { 0 }) as nat, |i: int| s.subrange(i, i + n))
}
pub assume_specification<'a, T>[ <[T]>::windows ](s: &'a [T], n: usize) -> (r: Windows<'a, T>)
    requires n != 0,
    ensures win_rem(r) == all_windows(s@, n as int);
pub assume_specification<'a, T>[ <Windows<'a, T> as Iterator>::next ](w: &mut Windows<'a, T>) -> (r: Option<&'a [T]>)
    ensures
        win_rem(*old(w)).len() == 0 ==> r is None && win_rem(*final(w)) == win_rem(*old(w)),
        win_rem(*old(w)).len() > 0 ==> r is Some && r->Some_0@ == win_rem(*old(w))[0] && win_rem(*final(w)) == win_rem(*old(w)).skip(1);
// TRUSTED: `for x in &mut vec` is `vec.iter_mut()` (impl IntoIterator for &mut Vec): yields a mutable reference to every element in order;
// same shape as vstd's specification of <[T]>::iter_mut (current values = old vector, final values = final vector)
pub assume_specification<'a, T, A: std::alloc::Allocator>[ <&'a mut Vec<T, A> as IntoIterator>::into_iter ](v: &'a mut Vec<T, A>) -> (r: <&'a mut Vec<T, A> as IntoIterator>::IntoIter)
    ensures
        r.obeys_prophetic_iter_laws(), r.decrease() is Some, r.remaining().len() == old(v)@.len(), final(v)@.len() == old(v)@.len(),
        forall|i: int| 0 <= i < old(v)@.len() ==> *(#[trigger] r.remaining()[i]) == old(v)@[i],
        forall|i: int| #![trigger r.remaining()[i]] #![trigger final(v)@[i]] 0 <= i < old(v)@.len() ==> *final(r.remaining()[i]) == final(v)@[i];

// ---- formatting (rule R13 expands `write!(&mut s, "..{}..", a).unwrap()` / `format!` into these two)
/// the text `Display` produces for a value
pub uninterp spec fn display<T>(x: T) -> Seq<char>;
// TRUSTED: the literal pieces of a format string are written as they are
#[verifier::external_body] fn verif_fmt_lit(dst: &mut String, lit: &str)
    ensures final(dst)@ == old(dst)@ + lit@,
{ unimplemented!() }
// TRUSTED: a `{}` placeholder writes the `Display` text of its argument
#[verifier::external_body] fn verif_fmt_arg<T>(dst: &mut String, a: &T)
    ensures final(dst)@ == old(dst)@ + display::<T>(*a),
{ unimplemented!() }
// TRUSTED: Display for u16 / u32: decimal digits without sign or leading zeros; for &str / String: the text itself
pub broadcast axiom fn axiom_display_u16(x: u16) ensures #[trigger] display::<u16>(x) == dec(x as nat);
pub broadcast axiom fn axiom_display_u32(x: u32) ensures #[trigger] display::<u32>(x) == dec(x as nat);
pub broadcast axiom fn axiom_display_u64(x: u64) ensures #[trigger] display::<u64>(x) == dec(x as nat);
pub broadcast axiom fn axiom_display_str(x: &str) ensures #[trigger] display::<&str>(x) == x@;
pub broadcast axiom fn axiom_display_string(x: String) ensures #[trigger] display::<String>(x) == x@;



// TRUSTED: str::replace (alloc::str): "Replaces all matches of a pattern with another string"; for a char pattern every occurrence of that
// char is replaced.  `str_replace_spec` names the result; the only instantiation used is stated by the axiom below.
pub uninterp spec fn str_replace_spec<P>(s: Seq<char>, from: P, to: Seq<char>) -> Seq<char>;
pub assume_specification<P: core::str::pattern::Pattern>[ str::replace::<P> ](s: &str, from: P, to: &str) -> (r: String)
    ensures r@ == str_replace_spec(s@, from, to@);
pub broadcast axiom fn axiom_replace_quote(s: Seq<char>, to: Seq<char>)
    ensures to == seq!['"', '"'] ==> #[trigger] str_replace_spec::<char>(s, '"', to) == dq(s);
// rule R4: `format!(..)` of an error message becomes an opaque string
#[verifier::external_body] fn verif_opaque_string() -> String { String::new() }

// ---- A-enc: UTF-16LE decoding (encoding_rs), as in unit xlsbrec
// TRUSTED: A-enc -- `dec16` stands for encoding_rs' UTF-16LE decoder proper; `dec_sniffed` for the result of BOM sniffing
// (`Encoding::decode` removes a leading BOM and decodes in the BOM's encoding); both uninterpreted functions of the bytes
pub uninterp spec fn dec16(s: Seq<u8>) -> Seq<char>;
pub uninterp spec fn dec_sniffed(s: Seq<u8>) -> Seq<char>;
pub open spec fn has_bom(s: Seq<u8>) -> bool {
    (s.len() >= 2 && s[0] == 0xFF && s[1] == 0xFE) || (s.len() >= 2 && s[0] == 0xFE && s[1] == 0xFF)
    || (s.len() >= 3 && s[0] == 0xEF && s[1] == 0xBB && s[2] == 0xBF)
}
pub struct Encoding;
pub struct Utf16LeStandIn;
pub const UTF_16LE: Utf16LeStandIn = Utf16LeStandIn;
impl Utf16LeStandIn {
    // TRUSTED: A-enc
    #[verifier::external_body]
    pub fn decode<'a>(&self, bytes: &'a [u8]) -> (r: (Cow<'a, str>, Encoding, bool))
        ensures cow_ref(&r.0)@ == (if has_bom(bytes@) { dec_sniffed(bytes@) } else { dec16(bytes@) }),
    { unimplemented!() }
}
// TRUSTED: A-std -- `Cow::deref` yields the borrowed or owned content; `cow_ref` names it
pub uninterp spec fn cow_ref<'a, 'b, B: ?Sized + ToOwned>(c: &'b Cow<'a, B>) -> &'b B;
pub assume_specification<'a, 'b, B: ?Sized + ToOwned>[ <Cow<'a, B> as std::ops::Deref>::deref ](c: &'b Cow<'a, B>) -> (r: &'b B)
    ensures r == cow_ref(c);

// the contract of utils::push_column, in the words of unit colname (same spec text)
pub open spec fn is_upper_c(c: char) -> bool { 'A' <= c && c <= 'Z' }
pub open spec fn letter_val_c(c: char) -> nat { (c as u32 - 0x41 + 1) as nat }
pub open spec fn b26c(s: Seq<char>) -> nat decreases s.len() { if s.len() == 0 { 0 } else { b26c(s.drop_last()) * 26 + letter_val_c(s.last()) } }
pub open spec fn all_upper_c(s: Seq<char>) -> bool { forall|i: int| 0 <= i < s.len() ==> is_upper_c(#[trigger] s[i]) }
pub open spec fn appended(old: Seq<char>, new: Seq<char>) -> Seq<char> { new.subrange(old.len() as int, new.len() as int) }
// TRUSTED: proved in unit colname (C14.column_letters_frame, column_letters_uppercase, column_letters): the appended text is the string of
// uppercase letters whose bijective base-26 value is col + 1.  lemma_colname_contract (below, verified) shows that these three clauses
// determine the text: it is col_name(col).
#[verifier::external_body] pub fn push_column(col: u32, buf: &mut String)
    ensures final(buf)@ == old(buf)@ + col_name(col as int),
{ unimplemented!() }
pub open spec fn digit(d: int) -> char {
    if d == 0 { '0' } else if d == 1 { '1' } else if d == 2 { '2' } else if d == 3 { '3' } else if d == 4 { '4' }
    else if d == 5 { '5' } else if d == 6 { '6' } else if d == 7 { '7' } else if d == 8 { '8' } else { '9' }
}
/// decimal numeral of n, no leading zeros
#[verifier::opaque]
pub open spec fn dec(n: nat) -> Seq<char> decreases n { if n < 10 { seq![digit(n as int)] } else { dec(n / 10).push(digit((n % 10) as int)) } }
pub open spec fn letter(d: int) -> char { ((0x41 + d) as u8) as char }
/// bijective base-26 numeral of n >= 1 over A..Z (A = 1 .. Z = 26, AA = 27 ..): spreadsheet column letters of column n - 1
#[verifier::opaque]
pub open spec fn b26(n: nat) -> Seq<char> decreases n { if n == 0 { Seq::empty() } else { b26(((n - 1) / 26) as nat).push(letter((n - 1) % 26)) } }
/// letters of the 0-based column
pub open spec fn col_name(col: int) -> Seq<char> { b26((col + 1) as nat) }

/// [MS-XLS] 2.5.198.108 RgceLoc / 2.5.51 ColRelU: 16-bit field = col (bits 0-13), colRelative (bit 14), rowRelative (bit 15)
pub open spec fn f_col(f: int) -> int { f % 16384 }
pub open spec fn f_col_rel(f: int) -> bool { (f / 16384) % 2 == 1 }
pub open spec fn f_row_rel(f: int) -> bool { (f / 32768) % 2 == 1 }
/// a `$` exactly on the absolute components
pub open spec fn dollar(absolute: bool) -> Seq<char> { if absolute { seq!['$'] } else { Seq::empty() } }
/// A1 text of a cell reference: rw = 0-based row, f = column field with its two flag bits
pub open spec fn cell_text(rw: int, f: int) -> Seq<char> { dollar(!f_col_rel(f)) + col_name(f_col(f)) + dollar(!f_row_rel(f)) + dec((rw + 1) as nat) }
/// [MS-XLS] 2.5.198.107 RgceArea: rowFirst, rowLast, columnFirst, columnLast -- each column field carries the flags of its own corner
pub open spec fn area_text(rw1: int, rw2: int, f1: int, f2: int) -> Seq<char> { cell_text(rw1, f1) + seq![':'] + cell_text(rw2, f2) }

// =====================================================================================================================
// ORACLE, written from [MS-XLSB] 2.5.97 (formula tokens) and the property text -- independent of the code
// =====================================================================================================================
/// [MS-XLSB] 2.5.97.86 RgceLoc: row (4 bytes, 0-based, < 1048576), column field (2 bytes, ColRelShort 2.5.22): col (bits 0-13), fColRel
/// (bit 14), fRwRel (bit 15) -- the same three sub-fields as f_col / f_col_rel / f_row_rel above.  [MS-XLSB] 2.5.97.85 RgceArea: rowFirst,
/// rowLast (4 bytes each), columnFirst, columnLast (ColRelShort each): each column field carries the flags of its own corner.
pub open spec fn xb_cell(d: Seq<u8>) -> Seq<char> { cell_text(le32(d), le16(d.skip(4))) }
pub open spec fn xb_area(d: Seq<u8>) -> Seq<char> { area_text(le32(d), le32(d.skip(4)), le16(d.skip(8)), le16(d.skip(10))) }
pub open spec fn xb_row_ok(rw: int) -> bool { rw < 1048576 }

/// what the renderer is given: the extern-sheet list (the name each ixti designates, resolved by read_workbook) and the defined names
pub struct Ctx { pub sheets: Seq<Seq<char>>, pub names: Seq<Seq<char>> }
pub open spec fn mk_ctx(sheets: Seq<String>, names: Seq<(String, String)>) -> Ctx {
    Ctx { sheets: Seq::new(sheets.len(), |i: int| sheets[i]@), names: Seq::new(names.len(), |i: int| names[i].0@) }
}
/// what a token does to the stack of rendered operands
pub enum Tok {
    Operand(Seq<char>),      // pushes its text
    Binary(Seq<char>),       // a b -> a OP b
    Prefix(char),            // a -> OP a
    Percent,                 // a -> a%
    Paren,                   // a -> (a)
    Func(Seq<char>, int),    // a1 .. an -> NAME(a1,..,an)
    Sum,                     // a -> SUM(a)     (PtgAttrSum)
    Skip,                    // no display effect
}
/// [MS-XLSB] 2.5.97.16 Ptg table (the same numbering as [MS-XLS] 2.5.198.25), binary operators 0x03 - 0x11:
/// PtgAdd 03, PtgSub 04, PtgMul 05, PtgDiv 06, PtgPower 07, PtgConcat 08, PtgLt 09, PtgLe 0A, PtgEq 0B, PtgGe 0C, PtgGt 0D, PtgNe 0E,
/// PtgIsect 0F (space), PtgUnion 10 (comma), PtgRange 11 (colon)
pub open spec fn binop(p: int) -> Seq<char> {
    if p == 0x03 { "+"@ } else if p == 0x04 { "-"@ } else if p == 0x05 { "*"@ } else if p == 0x06 { "/"@ } else if p == 0x07 { "^"@ }
    else if p == 0x08 { "&"@ } else if p == 0x09 { "<"@ } else if p == 0x0A { "<="@ } else if p == 0x0B { "="@ } else if p == 0x0C { ">="@ }
    else if p == 0x0D { ">"@ } else if p == 0x0E { "<>"@ } else if p == 0x0F { " "@ } else if p == 0x10 { ","@ } else { ":"@ }
}
/// [MS-XLSB] 2.5.97.2 BErr
pub open spec fn err_text(e: int) -> Option<Seq<char>> {
    if e == 0x00 { Some("#NULL!"@) } else if e == 0x07 { Some("#DIV/0!"@) } else if e == 0x0F { Some("#VALUE!"@) } else if e == 0x17 { Some("#REF!"@) }
    else if e == 0x1D { Some("#NAME?"@) } else if e == 0x24 { Some("#NUM!"@) } else if e == 0x2A { Some("#N/A"@) } else if e == 0x2B { Some("#GETTING_DATA"@) }
    else { None }
}
/// operand-class tokens exist in three data classes (bits 5-6 of the ptg: reference 0x20 / value 0x40 / array 0x60) with the same layout
pub open spec fn ptg_base(p: int) -> int { if 0x40 <= p < 0x60 { p - 0x20 } else if 0x60 <= p < 0x80 { p - 0x40 } else { p } }
// the function table [MS-XLSB] 2.5.97.10 Ftab is data of the crate (utils::FTAB / FTAB_ARGC); it cannot be checked against the document here
pub open spec fn ftab_name(i: int) -> Seq<char> { crate::utils::FTAB@[i]@ }
pub open spec fn ftab_argc(i: int) -> int { crate::utils::FTAB_ARGC@[i] as int }
/// a string literal in formula text: enclosed in double quotes, an embedded double quote is written twice
pub open spec fn quoted(t: Seq<char>) -> Seq<char> { seq!['"'] + dq(t) + seq!['"'] }
pub open spec fn dq(t: Seq<char>) -> Seq<char> decreases t.len() {
    if t.len() == 0 { Seq::empty() } else if t.last() == '"' { dq(t.drop_last()) + seq!['"', '"'] } else { dq(t.drop_last()).push(t.last()) }
}
pub open spec fn has_quote(t: Seq<char>) -> bool { exists|i: int| 0 <= i < t.len() && t[i] == '"' }

/// the token at the head of rg and its size in bytes.  None: truncated, undefined, or outside the oracle's scope: PtgExp (array / shared
/// formula pointer), PtgArray (its values are in rgcb, which parse_formula is not given), PtgExtend (PtgList / PtgSxName), PtgAttrChoose and
/// the PtgAttrSpace family, PtgMem* (sub-expression headers), PtgNameX, PtgRefN / PtgAreaN, user-defined functions (iftab 255), prompts /
/// command-equivalent functions (fPrompt, fCeFunc), rows >= 2^20, strings that start with a byte-order mark (the decoder's BOM sniffing is the
/// registered C19 finding of unit xlsbrec)
pub open spec fn decode(rg: Seq<u8>, c: Ctx) -> Option<(Tok, int)> {
    if rg.len() == 0 { None } else {
        let p = rg[0] as int;
        let d = rg.skip(1);
        let b = ptg_base(p);
        if p >= 0x80 { None }
        else if 0x03 <= p <= 0x11 { Some((Tok::Binary(binop(p)), 1)) }
        else if p == 0x12 { Some((Tok::Prefix('+'), 1)) }                                   // PtgUplus
        else if p == 0x13 { Some((Tok::Prefix('-'), 1)) }                                   // PtgUminus
        else if p == 0x14 { Some((Tok::Percent, 1)) }                                       // PtgPercent
        else if p == 0x15 { Some((Tok::Paren, 1)) }                                         // PtgParen
        else if p == 0x16 { Some((Tok::Operand(Seq::empty()), 1)) }                         // PtgMissArg
        else if p == 0x17 {                                                                 // PtgStr: cch (2), rgch (cch UTF-16LE code units)
            if d.len() >= 2 && d.len() >= 2 + 2 * le16(d) && !has_bom(d.subrange(2, 2 + 2 * le16(d))) {
                Some((Tok::Operand(quoted(dec16(d.subrange(2, 2 + 2 * le16(d))))), 3 + 2 * le16(d)))
            } else { None }
        }
        else if p == 0x19 {                                                                 // PtgAttr*: flags (1), data (2)
            if d.len() >= 3 {
                let e = d[0] as int;
                if e == 0x01 || e == 0x02 || e == 0x08 || e == 0x20 || e == 0x21 { Some((Tok::Skip, 4)) }       // Semi, If, Goto, Baxcel
                else if e == 0x10 { Some((Tok::Sum, 4)) }                                                       // Sum
                else { None }
            } else { None }
        }
        else if p == 0x1C { if d.len() >= 1 && err_text(d[0] as int) is Some { Some((Tok::Operand(err_text(d[0] as int)->Some_0), 2)) } else { None } }   // PtgErr
        else if p == 0x1D { if d.len() >= 1 && d[0] <= 1 { Some((Tok::Operand(if d[0] == 0 { "FALSE"@ } else { "TRUE"@ }), 2)) } else { None } }       // PtgBool
        else if p == 0x1E { if d.len() >= 2 { Some((Tok::Operand(dec(le16(d) as nat)), 3)) } else { None } }                                           // PtgInt: unsigned 16-bit
        else if p == 0x1F { if d.len() >= 8 { Some((Tok::Operand(display::<f64>(f64_of_bits(le64(d)))), 9)) } else { None } }                         // PtgNum: Xnum (text of a double: uninterpreted)
        else if b == 0x21 {                                                                 // PtgFunc: iftab (2); fixed parameter count from the table
            if d.len() >= 2 && le16(d) < crate::utils::FTAB_LEN { Some((Tok::Func(ftab_name(le16(d)), ftab_argc(le16(d))), 3)) } else { None }
        }
        else if b == 0x22 {                                                                 // PtgFuncVar: cparams (7 bits) fPrompt (1), tab (15 bits) fCeFunc (1)
            if d.len() >= 3 && d[0] < 128 && le16(d.skip(1)) < crate::utils::FTAB_LEN && le16(d.skip(1)) != 255 {
                Some((Tok::Func(ftab_name(le16(d.skip(1))), d[0] as int), 4))
            } else { None }
        }
        else if b == 0x23 {                                                                 // PtgName: nameindex (4), one-based index into the defined names
            if d.len() >= 4 && 1 <= le32(d) <= c.names.len() { Some((Tok::Operand(c.names[le32(d) - 1]), 5)) } else { None }
        }
        else if b == 0x24 { if d.len() >= 6 && xb_row_ok(le32(d)) { Some((Tok::Operand(xb_cell(d)), 7)) } else { None } }                              // PtgRef: RgceLoc
        else if b == 0x25 {                                                                 // PtgArea: RgceArea
            if d.len() >= 12 && xb_row_ok(le32(d)) && xb_row_ok(le32(d.skip(4))) { Some((Tok::Operand(xb_area(d)), 13)) } else { None }
        }
        else if b == 0x2A { if d.len() >= 6 { Some((Tok::Operand("#REF!"@), 7)) } else { None } }                                                     // PtgRefErr
        else if b == 0x2B { if d.len() >= 12 { Some((Tok::Operand("#REF!"@), 13)) } else { None } }                                                   // PtgAreaErr
        else if b == 0x3A {                                                                 // PtgRef3d: ixti (2), RgceLoc
            if d.len() >= 8 && le16(d) < c.sheets.len() && xb_row_ok(le32(d.skip(2))) {
                Some((Tok::Operand(c.sheets[le16(d)] + seq!['!'] + xb_cell(d.skip(2))), 9))
            } else { None }
        }
        else if b == 0x3B {                                                                 // PtgArea3d: ixti (2), RgceArea
            if d.len() >= 14 && le16(d) < c.sheets.len() && xb_row_ok(le32(d.skip(2))) && xb_row_ok(le32(d.skip(6))) {
                Some((Tok::Operand(c.sheets[le16(d)] + seq!['!'] + xb_area(d.skip(2))), 15))
            } else { None }
        }
        else if b == 0x3C { if d.len() >= 8 && le16(d) < c.sheets.len() { Some((Tok::Operand(c.sheets[le16(d)] + seq!['!'] + "#REF!"@), 9)) } else { None } }    // PtgRefErr3d
        else if b == 0x3D { if d.len() >= 14 && le16(d) < c.sheets.len() { Some((Tok::Operand(c.sheets[le16(d)] + seq!['!'] + "#REF!"@), 15)) } else { None } }  // PtgAreaErr3d
        else { None }
    }
}

/// arguments in order, separated by commas
pub open spec fn join(a: Seq<Seq<char>>) -> Seq<char> decreases a.len() {
    if a.len() == 0 { Seq::empty() } else if a.len() == 1 { a[0] } else { join(a.drop_last()) + seq![','] + a.last() }
}
/// the operand stack after the token (None: not enough operands)
pub open spec fn apply(t: Tok, ops: Seq<Seq<char>>) -> Option<Seq<Seq<char>>> {
    let n = ops.len() as int;
    match t {
        Tok::Operand(x) => Some(ops.push(x)),
        Tok::Binary(op) => if n >= 2 { Some(ops.take(n - 2).push(ops[n - 2] + op + ops[n - 1])) } else { None },
        Tok::Prefix(ch) => if n >= 1 { Some(ops.take(n - 1).push(seq![ch] + ops[n - 1])) } else { None },
        Tok::Percent => if n >= 1 { Some(ops.take(n - 1).push(ops[n - 1] + seq!['%'])) } else { None },
        Tok::Paren => if n >= 1 { Some(ops.take(n - 1).push(seq!['('] + ops[n - 1] + seq![')'])) } else { None },
        Tok::Sum => if n >= 1 { Some(ops.take(n - 1).push("SUM("@ + ops[n - 1] + seq![')'])) } else { None },
        Tok::Func(name, argc) => if 0 <= argc <= n { Some(ops.take(n - argc).push(name + seq!['('] + join(ops.skip(n - argc)) + seq![')'])) } else { None },
        Tok::Skip => Some(ops),
    }
}
/// one token: bytes consumed and the new operand stack
pub open spec fn step(rg: Seq<u8>, ops: Seq<Seq<char>>, c: Ctx) -> Option<(int, Seq<Seq<char>>)> {
    match decode(rg, c) {
        Some((t, n)) => if 0 < n <= rg.len() { match apply(t, ops) { Some(o2) => Some((n, o2)), None => None } } else { None },
        None => None,
    }
}
/// the whole token stream, in evaluation order
pub open spec fn run(rg: Seq<u8>, ops: Seq<Seq<char>>, c: Ctx) -> Option<Seq<Seq<char>>>
    decreases rg.len()
{
    if rg.len() == 0 { Some(ops) } else {
        match step(rg, ops, c) { Some((n, o2)) => run(rg.skip(n), o2, c), None => None }
    }
}
pub open spec fn fin(o: Option<Seq<Seq<char>>>) -> Option<Seq<char>> {
    match o { Some(ops) => if ops.len() == 1 { Some(ops[0]) } else { None }, None => None }
}
/// parse_formula is handed the bare token bytes (rgce) of a BrtFmla* / BrtName record.  The formula's text is the one operand left at the end.
pub open spec fn render(rg: Seq<u8>, c: Ctx) -> Option<Seq<char>> { fin(run(rg, Seq::empty(), c)) }

// ---- oracle sanity: the column letters everybody knows; decimal numerals; a rendered reference
proof fn lemma_oracle_examples()
    ensures
        col_name(0) == seq!['A'], col_name(25) == seq!['Z'], col_name(26) == seq!['A', 'A'], col_name(255) == seq!['I', 'V'], col_name(16383) == seq!['X', 'F', 'D'],
        dec(0) == seq!['0'], dec(7) == seq!['7'], dec(10) == seq!['1', '0'], dec(65536) == seq!['6', '5', '5', '3', '6'],
        cell_text(2, 0x8001) == seq!['$', 'B', '3'], cell_text(2, 0x4001) == seq!['B', '$', '3'],
        cell_text(0, 0xC000) == seq!['A', '1'], cell_text(0, 0) == seq!['$', 'A', '$', '1'],
{
    reveal_with_fuel(b26, 4);
    reveal_with_fuel(dec, 6);
    assert(col_name(0) =~= seq!['A']);
    assert(col_name(25) =~= seq!['Z']);
    assert(col_name(26) =~= seq!['A', 'A']);
    assert(col_name(255) =~= seq!['I', 'V']);
    assert(col_name(16383) =~= seq!['X', 'F', 'D']);
    assert(dec(10) =~= seq!['1', '0']);
    assert(dec(65536) =~= seq!['6', '5', '5', '3', '6']);
    assert(col_name(1) =~= seq!['B']);
    assert(dec(3) =~= seq!['3']);
    assert(dec(1) =~= seq!['1']);
    assert(cell_text(2, 0x8001) =~= seq!['$', 'B', '3']);
    assert(cell_text(2, 0x4001) =~= seq!['B', '$', '3']);
    assert(cell_text(0, 0xC000) =~= seq!['A', '1']);
    assert(cell_text(0, 0) =~= seq!['$', 'A', '$', '1']);
}
// ---- the contract of push_column proved in unit colname determines the text: it is col_name(col)
proof fn lemma_letter(d: int)
    requires 0 <= d < 26,
    ensures is_upper_c(letter(d)), letter_val_c(letter(d)) == d + 1,
{}
proof fn lemma_b26_unique(a: Seq<char>)
    requires all_upper_c(a),
    ensures a == b26(b26c(a)),
    decreases a.len(),
{
    reveal_with_fuel(b26, 2);
    if a.len() == 0 {
        assert(a =~= Seq::<char>::empty());
    } else {
        let t = a.drop_last();
        assert forall|i: int| 0 <= i < t.len() implies is_upper_c(#[trigger] t[i]) by { assert(t[i] == a[i]); }
        lemma_b26_unique(t);
        let c = a.last();
        assert(is_upper_c(a[a.len() - 1]));
        let v = letter_val_c(c);
        assert(1 <= v <= 26);
        let n = b26c(a);
        assert(n == b26c(t) * 26 + v);
        assert((n - 1) / 26 == b26c(t) && (n - 1) % 26 == v - 1) by (nonlinear_arith) requires n == b26c(t) * 26 + v, 1 <= v <= 26, b26c(t) >= 0;
        assert(letter((v - 1) as int) == c);
        assert(b26(n) == b26(((n - 1) / 26) as nat).push(letter((n - 1) % 26)));
        assert(a =~= t.push(c));
    }
}
/// the three clauses of colname's contract (C14.column_letters_frame, _uppercase, column_letters) imply the equation assumed for the stub above
proof fn lemma_colname_contract(o: Seq<char>, n: Seq<char>, col: u32)
    requires
        n.len() >= o.len() && n.subrange(0, o.len() as int) == o,
        all_upper_c(appended(o, n)),
        b26c(appended(o, n)) == col + 1,
    ensures n == o + col_name(col as int),
{
    lemma_b26_unique(appended(o, n));
    assert(n =~= n.subrange(0, o.len() as int) + appended(o, n));
}

// =====================================================================================================================
// Lemmas about the String model
// =====================================================================================================================
proof fn lemma_blen_add(a: Seq<char>, b: Seq<char>)
    ensures blen(a + b) == blen(a) + blen(b),
    decreases b.len(),
{
    if b.len() == 0 { assert(a + b =~= a); }
    else {
        assert((a + b).drop_last() =~= a + b.drop_last());
        assert((a + b).last() == b.last());
        lemma_blen_add(a, b.drop_last());
    }
}
proof fn lemma_blen_ge(a: Seq<char>)
    ensures blen(a) >= a.len(),
    decreases a.len(),
{
    if a.len() > 0 { lemma_blen_ge(a.drop_last()); }
}
proof fn lemma_blen_take_mono(s: Seq<char>, j: int, k: int)
    requires 0 <= j <= k <= s.len(),
    ensures blen(s.take(j)) + (k - j) <= blen(s.take(k)),
{
    assert(s.take(k) =~= s.take(j) + s.subrange(j, k));
    lemma_blen_add(s.take(j), s.subrange(j, k));
    lemma_blen_ge(s.subrange(j, k));
}
/// a boundary determines its char index
proof fn lemma_cidx(s: Seq<char>, k: int)
    requires 0 <= k <= s.len(),
    ensures is_bnd(s, blen(s.take(k)) as int), cidx(s, blen(s.take(k)) as int) == k,
{
    let b = blen(s.take(k)) as int;
    assert(is_bnd(s, b));
    let c = cidx(s, b);
    assert(0 <= c <= s.len() && blen(s.take(c)) == b);
    if c < k { lemma_blen_take_mono(s, c, k); }
    if c > k { lemma_blen_take_mono(s, k, c); }
}
proof fn lemma_split(a: Seq<char>, b: Seq<char>)
    ensures
        is_bnd(a + b, blen(a) as int), cidx(a + b, blen(a) as int) == a.len(),
        (a + b).take(a.len() as int) == a, (a + b).skip(a.len() as int) == b,
{
    assert((a + b).take(a.len() as int) =~= a);
    assert((a + b).skip(a.len() as int) =~= b);
    lemma_cidx(a + b, a.len() as int);
}
/// is_bnd(s, b) with its witness
proof fn lemma_bnd_idx(s: Seq<char>, b: int)
    requires is_bnd(s, b),
    ensures 0 <= cidx(s, b) <= s.len(), blen(s.take(cidx(s, b))) == b, 0 <= b <= blen(s),
{
    let k = cidx(s, b);
    lemma_blen_take_mono(s, k, s.len() as int);
    assert(s.take(s.len() as int) =~= s);
}

// =====================================================================================================================
// (S) structural invariant of the renderer's state: the stack holds ascending char boundaries of the text  (no String panic: C06)
// =====================================================================================================================
#[verifier::opaque]
#[verifier::opaque]
pub open spec fn sorted_bnds(f: Seq<char>, st: Seq<usize>) -> bool {
    &&& forall|i: int| 0 <= i < st.len() ==> is_bnd(f, #[trigger] st[i] as int)
    &&& forall|i: int, j: int| 0 <= i <= j < st.len() ==> st[i] <= st[j]
}
/// every arm keeps the text in front of some stack entry (or the whole text), cuts the stack there, and may push that offset again
proof fn lemma_struct(f: Seq<char>, st: Seq<usize>, j: int, f_out: Seq<char>, st_out: Seq<usize>)
    ensures
        ({
            let b = if 0 <= j < st.len() { st[j] as int } else { blen(f) as int };
            let k = cidx(f, b);
            sorted_bnds(f, st) && 0 <= j <= st.len() && f_out.len() >= k && f_out.take(k) =~= f.take(k)
                && (st_out =~= st.take(j) || (b <= usize::MAX && st_out =~= st.take(j).push(b as usize)))
        }) ==> sorted_bnds(f_out, st_out),
{
    reveal(sorted_bnds);
    let b = if 0 <= j < st.len() { st[j] as int } else { blen(f) as int };
    let k = cidx(f, b);
    if sorted_bnds(f, st) && 0 <= j <= st.len() && f_out.len() >= k && f_out.take(k) =~= f.take(k)
        && (st_out =~= st.take(j) || (b <= usize::MAX && st_out =~= st.take(j).push(b as usize))) {
        if j < st.len() { assert(is_bnd(f, st[j] as int)); } else { assert(f.take(f.len() as int) =~= f); assert(is_bnd(f, b)); }
        lemma_bnd_idx(f, b);
        // b is a boundary of f_out
        assert(f_out.take(k) == f.take(k));
        assert(is_bnd(f_out, b));
        assert forall|i: int| 0 <= i < st_out.len() implies is_bnd(f_out, #[trigger] st_out[i] as int) by {
            if i < j {
                assert(st_out[i] == st[i]);
                assert(is_bnd(f, st[i] as int));
                lemma_bnd_idx(f, st[i] as int);
                let ki = cidx(f, st[i] as int);
                // st[i] <= b, so its index is <= k and the prefix is shared
                if j < st.len() { assert(st[i] <= st[j]); } else { }
                if ki > k { lemma_blen_take_mono(f, k, ki); }
                assert(f_out.take(ki) =~= f.take(k).take(ki));
                assert(f.take(ki) =~= f.take(k).take(ki));
            }
        }
        assert forall|i: int, l: int| 0 <= i <= l < st_out.len() implies st_out[i] <= st_out[l] by {
            if l < j { assert(st_out[i] == st[i] && st_out[l] == st[l]); }
            else if i < j {
                assert(st_out[i] == st[i]);
                if j < st.len() { assert(st[i] <= st[j]); } else { assert(is_bnd(f, st[i] as int)); lemma_bnd_idx(f, st[i] as int); }
            }
        }
    }

}

/// what (S) says about one stack entry
proof fn lemma_sb_at(f: Seq<char>, st: Seq<usize>, i: int)
    requires sorted_bnds(f, st), 0 <= i < st.len(),
    ensures
        is_bnd(f, st[i] as int), 0 <= cidx(f, st[i] as int) <= f.len(), blen(f.take(cidx(f, st[i] as int))) == st[i], st[i] <= blen(f),
        forall|i2: int| i <= i2 < st.len() ==> st[i] <= #[trigger] st[i2],
        forall|i2: int| 0 <= i2 < st.len() ==> is_bnd(f, #[trigger] st[i2] as int),
{
    reveal(sorted_bnds);
    lemma_bnd_idx(f, st[i] as int);
}
proof fn lemma_sb_empty(f: Seq<char>)
    ensures sorted_bnds(f, Seq::<usize>::empty()),
{ reveal(sorted_bnds); }

// the labelled per-token obligations, by name: within the oracle's scope the text is what [MS-XLSB] says.  `got`: what the arm appended
// (plain equality; the regrouping of the arm's appends is done once, in the link lemmas below) / the whole text after an in-place arm
pub open spec fn xlsb_attrsum_text(scope: bool, got: Seq<char>, want: Seq<char>) -> bool { scope ==> got =~= want }
pub open spec fn xlsb_binary_operator_placed(scope: bool, got: Seq<char>, want: Seq<char>) -> bool { scope ==> got =~= want }
pub open spec fn xlsb_binary_operator_text(scope: bool, got: Seq<char>, want: Seq<char>) -> bool { scope ==> got == want }
pub open spec fn xlsb_paren_text(scope: bool, got: Seq<char>, want: Seq<char>) -> bool { scope ==> got =~= want }
pub open spec fn xlsb_ptgarea3d_text(scope: bool, got: Seq<char>, want: Seq<char>) -> bool { scope ==> got == want }
pub open spec fn xlsb_ptgarea_text(scope: bool, got: Seq<char>, want: Seq<char>) -> bool { scope ==> got == want }
pub open spec fn xlsb_ptgareaerr3d_text(scope: bool, got: Seq<char>, want: Seq<char>) -> bool { scope ==> got == want }
pub open spec fn xlsb_ptgareaerr_text(scope: bool, got: Seq<char>, want: Seq<char>) -> bool { scope ==> got == want }
pub open spec fn xlsb_ptgbool_text(scope: bool, got: Seq<char>, want: Seq<char>) -> bool { scope ==> got == want }
pub open spec fn xlsb_ptgerr_text(scope: bool, got: Seq<char>, want: Seq<char>) -> bool { scope ==> got == want }
pub open spec fn xlsb_ptgint_text(scope: bool, got: Seq<char>, want: Seq<char>) -> bool { scope ==> got == want }
pub open spec fn xlsb_ptgmissarg_text(scope: bool, got: Seq<char>, want: Seq<char>) -> bool { scope ==> got == want }
pub open spec fn xlsb_ptgname_text(scope: bool, got: Seq<char>, want: Seq<char>) -> bool { scope ==> got == want }
pub open spec fn xlsb_ptgnum_text(scope: bool, got: Seq<char>, want: Seq<char>) -> bool { scope ==> got == want }
pub open spec fn xlsb_ptgref3d_text(scope: bool, got: Seq<char>, want: Seq<char>) -> bool { scope ==> got == want }
pub open spec fn xlsb_ptgref_text(scope: bool, got: Seq<char>, want: Seq<char>) -> bool { scope ==> got == want }
pub open spec fn xlsb_ptgreferr3d_text(scope: bool, got: Seq<char>, want: Seq<char>) -> bool { scope ==> got == want }
pub open spec fn xlsb_ptgreferr_text(scope: bool, got: Seq<char>, want: Seq<char>) -> bool { scope ==> got == want }
pub open spec fn xlsb_ptgstr_text(scope: bool, got: Seq<char>, want: Seq<char>) -> bool { scope ==> got == want }
pub open spec fn xlsb_unary_minus_text(scope: bool, got: Seq<char>, want: Seq<char>) -> bool { scope ==> got =~= want }
pub open spec fn xlsb_unary_plus_text(scope: bool, got: Seq<char>, want: Seq<char>) -> bool { scope ==> got =~= want }

// the text after an operand arm is the text before it plus what the arm appended (one name per arm; matched by congruence, see the link lemmas)
pub open spec fn appended_area(after: Seq<char>, want: Seq<char>) -> bool { after == want }
pub open spec fn appended_area3d(after: Seq<char>, want: Seq<char>) -> bool { after == want }
pub open spec fn appended_areaerr(after: Seq<char>, want: Seq<char>) -> bool { after == want }
pub open spec fn appended_areaerr3d(after: Seq<char>, want: Seq<char>) -> bool { after == want }
pub open spec fn appended_array(after: Seq<char>, want: Seq<char>) -> bool { after == want }
pub open spec fn appended_bool(after: Seq<char>, want: Seq<char>) -> bool { after == want }
pub open spec fn appended_err(after: Seq<char>, want: Seq<char>) -> bool { after == want }
pub open spec fn appended_exp(after: Seq<char>, want: Seq<char>) -> bool { after == want }
pub open spec fn appended_extend(after: Seq<char>, want: Seq<char>) -> bool { after == want }
pub open spec fn appended_int(after: Seq<char>, want: Seq<char>) -> bool { after == want }
pub open spec fn appended_memfunc(after: Seq<char>, want: Seq<char>) -> bool { after == want }
pub open spec fn appended_missarg(after: Seq<char>, want: Seq<char>) -> bool { after == want }
pub open spec fn appended_name(after: Seq<char>, want: Seq<char>) -> bool { after == want }
pub open spec fn appended_namex(after: Seq<char>, want: Seq<char>) -> bool { after == want }
pub open spec fn appended_num(after: Seq<char>, want: Seq<char>) -> bool { after == want }
pub open spec fn appended_ref(after: Seq<char>, want: Seq<char>) -> bool { after == want }
pub open spec fn appended_ref3d(after: Seq<char>, want: Seq<char>) -> bool { after == want }
pub open spec fn appended_referr(after: Seq<char>, want: Seq<char>) -> bool { after == want }
pub open spec fn appended_referr3d(after: Seq<char>, want: Seq<char>) -> bool { after == want }
pub open spec fn appended_str(after: Seq<char>, want: Seq<char>) -> bool { after == want }

// ---- link lemmas: the text after an arm, written exactly as the arm's statements build it (left-nested appends: matched by congruence
// inside the 330-line function, no extensional reasoning there), regrouped here into `f + <what was appended>`
proof fn lemma_link_empty(f: Seq<char>)
    ensures f == f + Seq::<char>::empty(),
{ assert(f =~= f + Seq::<char>::empty()); }
/// `push_str(&format!("{}", x))`: the temporary String starts empty
proof fn lemma_link_fmt(f: Seq<char>, t: Seq<char>, g: Seq<char>)
    requires g == f + (Seq::<char>::empty() + t),
    ensures g == f + t,
{ assert(Seq::<char>::empty() + t =~= t); }
/// sheet name, '!', then the rest
proof fn lemma_link_sh(f: Seq<char>, sh: Seq<char>, t: Seq<char>, g: Seq<char>)
    requires g == ((f + sh).push('!')) + t,
    ensures g == f + (sh + seq!['!'] + t),
{ assert(g =~= f + (sh + seq!['!'] + t)); }
/// one corner: [`$`] column letters [`$`] row number
proof fn lemma_link_cell(p: Seq<char>, col: u16, rw: int, g: Seq<char>)
    requires g == (((p + dollar(col & 0x4000 == 0)) + col_name((col & 0x3FFF) as int)) + dollar(col & 0x8000 == 0)) + (Seq::<char>::empty() + dec((rw + 1) as nat)),
    ensures g == p + code_cell(col, rw),
{ assert(g =~= p + code_cell(col, rw)); }
/// two corners with ':' between them
proof fn lemma_link_area(p: Seq<char>, c1: Seq<char>, c2: Seq<char>, g: Seq<char>)
    requires g == (p + c1).push(':') + c2,
    ensures g == p + (c1 + seq![':'] + c2),
{ assert(g =~= p + (c1 + seq![':'] + c2)); }
/// PtgRef: flags tested on the high byte of the column field
proof fn lemma_link_ref(f: Seq<char>, d5: u8, cn: Seq<char>, rt: Seq<char>, g: Seq<char>)
    requires g == (((f + dollar(d5 & 0x40 != 0x40)) + cn) + dollar(d5 & 0x80 != 0x80)) + (Seq::<char>::empty() + rt),
    ensures g == f + (dollar(d5 & 0x40 != 0x40) + cn + dollar(d5 & 0x80 != 0x80) + rt),
{ assert(g =~= f + (dollar(d5 & 0x40 != 0x40) + cn + dollar(d5 & 0x80 != 0x80) + rt)); }
/// PtgStr: '"', the body, '"'
proof fn lemma_link_str(f: Seq<char>, body: Seq<char>, g: Seq<char>)
    requires g == (f.push('"') + body).push('"'),
    ensures g == f + (seq!['"'] + body + seq!['"']),
{ assert(g =~= f + (seq!['"'] + body + seq!['"'])); }

/// text without a double quote is its own quoted body
proof fn lemma_dq_plain(t: Seq<char>)
    ensures !has_quote(t) ==> dq(t) == t,
    decreases t.len(),
{
    if !has_quote(t) {
        if t.len() > 0 {
            assert(t[t.len() - 1] != '"');
            assert forall|i: int| 0 <= i < t.drop_last().len() implies t.drop_last()[i] != '"' by { assert(t.drop_last()[i] == t[i]); }
            lemma_dq_plain(t.drop_last());
            assert(t.drop_last().push(t.last()) =~= t);
        } else { assert(t =~= Seq::<char>::empty()); }
    }
}

//@@ props C14
// ---- one corner of a reference AS THE CODE RENDERS IT (the statements of the PtgArea / PtgRef3d / PtgArea3d arms: flag tests on the 16-bit
// column field, masked column, one-based row) against the layout of [MS-XLSB] 2.5.97.86 RgceLoc / 2.5.22 ColRelShort
pub open spec fn code_cell(col: u16, rw: int) -> Seq<char> {
    dollar(col & 0x4000 == 0) + col_name((col & 0x3FFF) as int) + dollar(col & 0x8000 == 0) + dec((rw + 1) as nat)
}
proof fn lemma_code_cell(col: u16, rw: int)
    ensures code_cell(col, rw) == cell_text(rw, col as int),
{
    assert((col & 0x3FFF) == col % 16384) by (bit_vector);
    assert((col & 0x4000 == 0) == ((col / 16384) % 2 == 0)) by (bit_vector);
    assert((col & 0x8000 == 0) == ((col / 32768) % 2 == 0)) by (bit_vector);
}
/// PtgRef (0x24 / 0x44 / 0x64): the arm assembles the column from the two bytes and tests the flags on the high byte
proof fn lemma_xlsb_ptgref_text(d: Seq<u8>, row: int, col: int, got: Seq<char>)
    requires
        d.len() >= 6, row == le32(d) + 1, col == d[4] as int + 256 * ((d[5] & 0x3F) as int),
        got == dollar(d[5] & 0x40 != 0x40) + col_name(col) + dollar(d[5] & 0x80 != 0x80) + dec(row as nat),
    ensures
        got == xb_cell(d),
{
    lemma_byte_masks();
}
proof fn lemma_xlsb_ptgarea_text(d: Seq<u8>, got: Seq<char>)
    requires
        d.len() >= 12,
        got == code_cell(le16(d.subrange(8, 10)) as u16, le32(d.subrange(0, 4))) + seq![':'] + code_cell(le16(d.subrange(10, 12)) as u16, le32(d.subrange(4, 8))),
    ensures
        got == xb_area(d),
{
    lemma_code_cell(le16(d.subrange(8, 10)) as u16, le32(d.subrange(0, 4)));
    lemma_code_cell(le16(d.subrange(10, 12)) as u16, le32(d.subrange(4, 8)));
}
proof fn lemma_xlsb_ptgref3d_text(sh: Seq<char>, d: Seq<u8>, got: Seq<char>)
    requires
        d.len() >= 8,
        got == sh + seq!['!'] + code_cell(le16(d.subrange(6, 8)) as u16, le32(d.subrange(2, 6))),
    ensures
        got == sh + seq!['!'] + xb_cell(d.skip(2)),
{
    lemma_code_cell(le16(d.subrange(6, 8)) as u16, le32(d.subrange(2, 6)));
}
proof fn lemma_xlsb_ptgarea3d_text(sh: Seq<char>, d: Seq<u8>, got: Seq<char>)
    requires
        d.len() >= 14,
        got == sh + seq!['!'] + (code_cell(le16(d.subrange(10, 12)) as u16, le32(d.subrange(2, 6))) + seq![':'] + code_cell(le16(d.subrange(12, 14)) as u16, le32(d.subrange(6, 10)))),
    ensures
        got == sh + seq!['!'] + xb_area(d.skip(2)),
{
    lemma_code_cell(le16(d.subrange(10, 12)) as u16, le32(d.subrange(2, 6)));
    lemma_code_cell(le16(d.subrange(12, 14)) as u16, le32(d.subrange(6, 10)));
}
//@@ props C14,C06
/// (S) for an operand token: the offset of the end of the text is pushed, text is appended
proof fn lemma_S_push(f: Seq<char>, st: Seq<usize>, t: Seq<char>)
    requires sorted_bnds(f, st), blen(f) <= usize::MAX,
    ensures sorted_bnds(f + t, st.push(blen(f) as usize)),
{
    lemma_cidx(f, f.len() as int);
    assert(f.take(f.len() as int) =~= f);
    assert((f + t).take(f.len() as int) =~= f);
    assert(st.take(st.len() as int) =~= st);
    lemma_struct(f, st, st.len() as int, f + t, st.push(blen(f) as usize));
}
/// (S) when text is appended and the stack stays
proof fn lemma_S_grow(f: Seq<char>, st: Seq<usize>, t: Seq<char>)
    requires sorted_bnds(f, st),
    ensures sorted_bnds(f + t, st),
{
    lemma_cidx(f, f.len() as int);
    assert(f.take(f.len() as int) =~= f);
    assert((f + t).take(f.len() as int) =~= f);
    assert(st.take(st.len() as int) =~= st);
    lemma_struct(f, st, st.len() as int, f + t, st);
}
/// (S) when the text in front of the top operand is kept: the stack may stay or lose its top
proof fn lemma_S_top(f: Seq<char>, st: Seq<usize>, g: Seq<char>)
    requires sorted_bnds(f, st), st.len() >= 1, g.len() >= cidx(f, st.last() as int), g.take(cidx(f, st.last() as int)) == f.take(cidx(f, st.last() as int)),
    ensures sorted_bnds(g, st), sorted_bnds(g, st.drop_last()),
{
    let j = st.len() - 1;
    lemma_sb_at(f, st, j);
    assert(st.take(j).push(st[j]) =~= st);
    assert(st.take(j) =~= st.drop_last());
    lemma_struct(f, st, j, g, st);
    lemma_struct(f, st, j, g, st.drop_last());
}
/// (S) for a function call: the text in front of its first argument is kept, the arguments' offsets are replaced by the first one
proof fn lemma_S_func(f: Seq<char>, st: Seq<usize>, j: int, g: Seq<char>)
    requires sorted_bnds(f, st), 0 <= j < st.len(), g.len() >= cidx(f, st[j] as int), g.take(cidx(f, st[j] as int)) == f.take(cidx(f, st[j] as int)),
    ensures sorted_bnds(g, st.take(j).push(st[j])),
{
    lemma_sb_at(f, st, j);
    lemma_struct(f, st, j, g, st.take(j).push(st[j]));
}
/// bit masks of the code, in the arithmetic of the oracle
proof fn lemma_byte_masks()
    ensures
        forall|b: u8| #![trigger b & 0x3F] (b & 0x3F) as int == (b as int) % 64,
        forall|b: u8| #![trigger b & 0x80] (b & 0x80 != 0x80) == ((b as int) / 128 == 0),
        forall|b: u8| #![trigger b & 0x40] (b & 0x40 != 0x40) == (((b as int) / 64) % 2 == 0),
{
    assert forall|b: u8| #![trigger b & 0x3F] (b & 0x3F) as int == (b as int) % 64 by { assert(b & 0x3F == b % 64) by (bit_vector); }
    assert forall|b: u8| #![trigger b & 0x80] (b & 0x80 != 0x80) == ((b as int) / 128 == 0) by { assert((b & 0x80 != 0x80) == (b / 128 == 0)) by (bit_vector); }
    assert forall|b: u8| #![trigger b & 0x40] (b & 0x40 != 0x40) == (((b as int) / 64) % 2 == 0) by { assert((b & 0x40 != 0x40) == ((b / 64) % 2 == 0)) by (bit_vector); }
}

/// a boundary at or behind another one is a boundary of the text that starts there
proof fn lemma_bnd_shift(f: Seq<char>, start: int, b: int)
    requires is_bnd(f, start), is_bnd(f, b), start <= b,
    ensures
        cidx(f, start) <= cidx(f, b),
        is_bnd(f.skip(cidx(f, start)), b - start),
        cidx(f.skip(cidx(f, start)), b - start) == cidx(f, b) - cidx(f, start),
{
    lemma_bnd_idx(f, start); lemma_bnd_idx(f, b);
    let k0 = cidx(f, start); let kb = cidx(f, b);
    if kb < k0 { lemma_blen_take_mono(f, kb, k0); if start == b { lemma_cidx(f, kb); lemma_cidx(f, k0); } }
    if kb < k0 { assert(false) by { lemma_blen_take_mono(f, kb, k0); lemma_cidx(f, kb); lemma_cidx(f, k0); } }
    let g = f.skip(k0);
    assert(f.take(kb) =~= f.take(k0) + f.subrange(k0, kb));
    lemma_blen_add(f.take(k0), f.subrange(k0, kb));
    assert(g.take(kb - k0) =~= f.subrange(k0, kb));
    lemma_cidx(g, kb - k0);
}

/// the two statements `let col = [a, b]; let col = read_u16(&col);` of the PtgRef arm (see the declared rewrite in parse_formula), verified here
fn verif_pair_u16(a: u8, b: u8) -> (r: u16)
    ensures r as int == a as int + 256 * (b as int),
{
    let col = [a, b];
    let col = read_u16(&col);
    col
}
//@@ fn src/xlsb/mod.rs check_len props=C06 ret=r r4
//@@ sig
    ensures
        //# C06.check_len_rejects_short
        (len < min) == (r is Err),
//@@ end

pub mod m {
use super::*;
verus! {
//@@ fn src/xlsb/mod.rs parse_formula props=C14 entry ret=res r13 mutparams
//@@ replace /let col = \[rgce\[4\], ([^;]*?)\];\s*let col = read_u16\(&col\);/ Verus: the array literal `[a, b]` handed to read_u16 as a slice starts a quantifier matching loop between vstd's array-view and Seq::new axioms inside this 330-line function (47% of all instantiations); the two statements are moved, verbatim, into the helper verif_pair_u16 below, which Verus verifies on its own (same statements, same callee read_u16)
let col = verif_pair_u16(rgce[4], \g<1>);
//@@ sig
    decreases __p_rgce@.len(),
//@@ closure 0
    -> (o: Option<&(String, String)>) ensures o == (if i < names@.len() { Some(&names@[i as int]) } else { None::<&(String, String)> })
//@@ body
    broadcast use axiom_display_u16, axiom_display_u32, axiom_display_u64, axiom_replace_quote;
    let ghost ctx = mk_ctx(sheets@, names@);
//@@ before /while !rgce\.is_empty\(\)/
    proof { lemma_sb_empty(formula@); }
//@@ loop 0
        invariant
            ctx == mk_ctx(sheets@, names@),
            rgce@.len() <= __p_rgce@.len(),
            //# C06.stack_offsets_are_char_boundaries
            sorted_bnds(formula@, stack@),
        decreases rgce@.len(),
//@@ before /let ptg = rgce\[0\];/
        broadcast use axiom_display_u16, axiom_display_u32, axiom_display_u64, axiom_replace_quote;
        let ghost rg_in = rgce@;
        let ghost f_in = formula@;
        let ghost st_in = stack@;
        proof {
            lemma_cidx(f_in, f_in.len() as int);
            assert(f_in.take(f_in.len() as int) =~= f_in);
            if st_in.len() > 0 { lemma_sb_at(f_in, st_in, st_in.len() - 1); }
        }
        let ghost d_in = rg_in.skip(1);
        let ghost kl = if st_in.len() > 0 { cidx(f_in, st_in.last() as int) } else { 0 };
//@@ before /let mut args = stack\.split_off/
                    proof { lemma_sb_at(f_in, st_in, args_start as int); }
//@@ before /for s in &mut args/
                    let ghost a0 = args@;
                    let ghost k0 = cidx(f_in, start as int);
                    proof { assert(a0 =~= st_in.skip(args_start as int)); }
//@@ loop 1 it1
                        invariant
                            it1.seq().len() == a0.len(),
                            forall|i: int| 0 <= i < a0.len() ==> *(#[trigger] it1.seq()[i]) == a0[i],
                            forall|i: int| 0 <= i < a0.len() ==> #[trigger] a0[i] >= start,
                            forall|i: int| 0 <= i < it1.index@ ==> *final(#[trigger] it1.seq()[i]) == a0[i] - start,
//@@ before /let fargs = formula\.split_off/
                    proof { assert(forall|i: int| 0 <= i < a0.len() ==> args@[i] == #[trigger] a0[i] - start); }
//@@ before /for w in args\.windows/
                    let ghost fa = fargs@;
                    let ghost mut wi: int = 0;
                    proof {
                        assert(fa == f_in.skip(k0));
                        assert forall|i: int| 0 <= i < args@.len() implies is_bnd(fa, #[trigger] args@[i] as int) by {
                            if i < a0.len() {
                                assert(a0[i] == st_in[args_start + i]);
                                lemma_bnd_shift(f_in, start as int, a0[i] as int);
                            } else {
                                lemma_cidx(fa, fa.len() as int);
                                assert(fa.take(fa.len() as int) =~= fa);
                            }
                        }
                        assert forall|i: int, j: int| 0 <= i <= j < args@.len() implies args@[i] <= args@[j] by {
                            if j < a0.len() { assert(a0[i] == st_in[args_start + i] && a0[j] == st_in[args_start + j]); reveal(sorted_bnds); }
                            else if i < a0.len() { assert(a0[i] == st_in[args_start + i]); lemma_bnd_shift(f_in, start as int, a0[i] as int); lemma_bnd_idx(fa, a0[i] - start); }
                        }
                    }
//@@ r6 2
//@@ loop 2
                        invariant
                            0 <= wi <= args@.len() - 1, 0 <= k0,
                            win_rem(__it2) =~= all_windows(args@, 2).skip(wi),
                            forall|i: int| 0 <= i < args@.len() ==> is_bnd(fa, #[trigger] args@[i] as int),
                            forall|i: int, j: int| 0 <= i <= j < args@.len() ==> args@[i] <= args@[j],
                            fargs@ == fa,
                            formula@.len() > k0 && formula@.take(k0) =~= f_in.take(k0),
                        decreases win_rem(__it2).len(),
//@@ before /formula\.push_str\(&fargs\[/
                        broadcast use axiom_str_index_range, axiom_string_index_req_range;
                        let ghost f_w = formula@;
                        proof {
                            assert(w@ == all_windows(args@, 2)[wi]);
                            assert(w@ =~= args@.subrange(wi, wi + 2));
                            assert(w@[0] == args@[wi] && w@[1] == args@[wi + 1]);
                            wi = wi + 1;
                        }
//@@ after /formula\.push\(','\);/
                        proof { assert(formula@.take(k0) =~= f_w.take(k0)); }
//@@ after /formula\.pop\(\);\s*formula\.push\('\)'\);/
                    proof {
                        let j = st_in.len() - argc;
                        assert(stack@ =~= st_in.take(j).push(st_in[j]));
                        assert(formula@.take(k0) =~= f_in.take(k0));
                        lemma_S_func(f_in, st_in, j, formula@);
                    }
//@@ after /formula\.push_str\("\(\)"\);/
                    proof {
                        let t = formula@.skip(f_in.len() as int);
                        assert(formula@ =~= f_in + t);
                        assert(stack@ =~= st_in.push(blen(f_in) as usize));
                        lemma_S_push(f_in, st_in, t);
                    }
//@@ before /if col & 0x4000 == 0 \{\s*formula\.push\('\$'\);\s*\}/#0of5
                let ghost fp_c0 = formula@;
//@@ after /if col & 0x4000 == 0 \{\s*formula\.push\('\$'\);\s*\}/#0of5
                proof { assert(formula@ =~= fp_c0 + dollar(col & 0x4000 == 0)); }
//@@ before /if col & 0x8000 == 0 \{\s*formula\.push\('\$'\);\s*\}/#0of5
                let ghost fp_r0 = formula@;
//@@ after /if col & 0x8000 == 0 \{\s*formula\.push\('\$'\);\s*\}/#0of5
                proof { assert(formula@ =~= fp_r0 + dollar(col & 0x8000 == 0)); }
//@@ before /if col & 0x4000 == 0 \{\s*formula\.push\('\$'\);\s*\}/#1of5
                let ghost fp_c1 = formula@;
//@@ after /if col & 0x4000 == 0 \{\s*formula\.push\('\$'\);\s*\}/#1of5
                proof { assert(formula@ =~= fp_c1 + dollar(col & 0x4000 == 0)); }
//@@ before /if col & 0x8000 == 0 \{\s*formula\.push\('\$'\);\s*\}/#1of5
                let ghost fp_r1 = formula@;
//@@ after /if col & 0x8000 == 0 \{\s*formula\.push\('\$'\);\s*\}/#1of5
                proof { assert(formula@ =~= fp_r1 + dollar(col & 0x8000 == 0)); }
//@@ before /if col & 0x4000 == 0 \{\s*formula\.push\('\$'\);\s*\}/#2of5
                let ghost fp_c2 = formula@;
//@@ after /if col & 0x4000 == 0 \{\s*formula\.push\('\$'\);\s*\}/#2of5
                proof { assert(formula@ =~= fp_c2 + dollar(col & 0x4000 == 0)); }
//@@ before /if col & 0x8000 == 0 \{\s*formula\.push\('\$'\);\s*\}/#2of5
                let ghost fp_r2 = formula@;
//@@ after /if col & 0x8000 == 0 \{\s*formula\.push\('\$'\);\s*\}/#2of5
                proof { assert(formula@ =~= fp_r2 + dollar(col & 0x8000 == 0)); }
//@@ before /if col & 0x4000 == 0 \{\s*formula\.push\('\$'\);\s*\}/#3of5
                let ghost fp_c3 = formula@;
//@@ after /if col & 0x4000 == 0 \{\s*formula\.push\('\$'\);\s*\}/#3of5
                proof { assert(formula@ =~= fp_c3 + dollar(col & 0x4000 == 0)); }
//@@ before /if col & 0x8000 == 0 \{\s*formula\.push\('\$'\);\s*\}/#3of5
                let ghost fp_r3 = formula@;
//@@ after /if col & 0x8000 == 0 \{\s*formula\.push\('\$'\);\s*\}/#3of5
                proof { assert(formula@ =~= fp_r3 + dollar(col & 0x8000 == 0)); }
//@@ before /if col & 0x4000 == 0 \{\s*formula\.push\('\$'\);\s*\}/#4of5
                let ghost fp_c4 = formula@;
//@@ after /if col & 0x4000 == 0 \{\s*formula\.push\('\$'\);\s*\}/#4of5
                proof { assert(formula@ =~= fp_c4 + dollar(col & 0x4000 == 0)); }
//@@ before /if col & 0x8000 == 0 \{\s*formula\.push\('\$'\);\s*\}/#4of5
                let ghost fp_r4 = formula@;
//@@ after /if col & 0x8000 == 0 \{\s*formula\.push\('\$'\);\s*\}/#4of5
                proof { assert(formula@ =~= fp_r4 + dollar(col & 0x8000 == 0)); }
//@@ before /if rgce\[5\] & 0x40 != 0x40 \{\s*formula\.push\('\$'\);\s*\}/
                let ghost fq_c = formula@;
//@@ after /if rgce\[5\] & 0x40 != 0x40 \{\s*formula\.push\('\$'\);\s*\}/
                proof { assert(formula@ =~= fq_c + dollar(rgce@[5] & 0x40 != 0x40)); }
//@@ before /if rgce\[5\] & 0x80 != 0x80 \{\s*formula\.push\('\$'\);\s*\}/
                let ghost fq_r = formula@;
//@@ after /if rgce\[5\] & 0x80 != 0x80 \{\s*formula\.push\('\$'\);\s*\}/
                proof { assert(formula@ =~= fq_r + dollar(rgce@[5] & 0x80 != 0x80)); }
//@@ before /formula\.push_str\(op\);/
                //# C14.xlsb_binary_operator_text
                assert(xlsb_binary_operator_text(true, op@, binop(ptg as int)));
//@@ before /formula\.push\(':'\);/#0of2
                let ghost g1_0 = formula@;
                let ghost col1_0 = col;
//@@ before /formula\.push\(':'\);/#1of2
                let ghost g1_1 = formula@;
                let ghost col1_1 = col;
//@@ after /let s = UTF_16LE\.decode\([^;]*;/
                let ghost chars_s = cow_ref(&s)@;
//@@ before /\}\n {12}0x3b \| 0x5b \| 0x7b => \{/
                proof {
                    assert(stack@ =~= st_in.push(blen(f_in) as usize));
                    let sh = sheets@[ixti as int]@;
                    let rw = le32(d_in.subrange(2, 6));
                    lemma_link_cell((f_in + sh).push('!'), col, rw, formula@);
                    lemma_link_sh(f_in, sh, code_cell(col, rw), formula@);
                    let got = sh + seq!['!'] + code_cell(col, rw);
                    assert(appended_ref3d(formula@, f_in + got));
                    lemma_S_push(f_in, st_in, got);
                    lemma_xlsb_ptgref3d_text(sh, d_in, got);
                    //# C14.xlsb_ptgref3d_text
                    assert(xlsb_ptgref3d_text(le16(d_in) < ctx.sheets.len() && xb_row_ok(le32(d_in.skip(2))), got, ctx.sheets[le16(d_in)] + seq!['!'] + xb_cell(d_in.skip(2))));
                }
//@@ before /\}\n {12}0x3c \| 0x5c \| 0x7c => \{/
                proof {
                    assert(stack@ =~= st_in.push(blen(f_in) as usize));
                    let sh = sheets@[ixti as int]@;
                    let rw1 = le32(d_in.subrange(2, 6));
                    let rw2 = le32(d_in.subrange(6, 10));
                    lemma_link_cell((f_in + sh).push('!'), col1_0, rw1, g1_0);
                    lemma_link_cell(g1_0.push(':'), col, rw2, formula@);
                    lemma_link_area((f_in + sh).push('!'), code_cell(col1_0, rw1), code_cell(col, rw2), formula@);
                    lemma_link_sh(f_in, sh, code_cell(col1_0, rw1) + seq![':'] + code_cell(col, rw2), formula@);
                    let got = sh + seq!['!'] + (code_cell(col1_0, rw1) + seq![':'] + code_cell(col, rw2));
                    assert(appended_area3d(formula@, f_in + got));
                    lemma_S_push(f_in, st_in, got);
                    lemma_xlsb_ptgarea3d_text(sh, d_in, got);
                    //# C14.xlsb_ptgarea3d_text
                    assert(xlsb_ptgarea3d_text(le16(d_in) < ctx.sheets.len() && xb_row_ok(le32(d_in.skip(2))) && xb_row_ok(le32(d_in.skip(6))), got, ctx.sheets[le16(d_in)] + seq!['!'] + xb_area(d_in.skip(2))));
                }
//@@ before /\}\n {12}0x3d \| 0x5d \| 0x7d => \{/
                proof {
                    assert(stack@ =~= st_in.push(blen(f_in) as usize));
                    let sh = sheets@[ixti as int]@;
                    lemma_link_sh(f_in, sh, "#REF!"@, formula@);
                    let got = sh + seq!['!'] + "#REF!"@;
                    assert(appended_referr3d(formula@, f_in + got));
                    lemma_S_push(f_in, st_in, got);
                    //# C14.xlsb_ptgreferr3d_text
                    assert(xlsb_ptgreferr3d_text(le16(d_in) < ctx.sheets.len(), got, ctx.sheets[le16(d_in)] + seq!['!'] + "#REF!"@));
                }
//@@ before /\}\n {12}0x01 => \{/
                proof {
                    assert(stack@ =~= st_in.push(blen(f_in) as usize));
                    let sh = sheets@[ixti as int]@;
                    lemma_link_sh(f_in, sh, "#REF!"@, formula@);
                    let got = sh + seq!['!'] + "#REF!"@;
                    assert(appended_areaerr3d(formula@, f_in + got));
                    lemma_S_push(f_in, st_in, got);
                    //# C14.xlsb_ptgareaerr3d_text
                    assert(xlsb_ptgareaerr3d_text(le16(d_in) < ctx.sheets.len(), got, ctx.sheets[le16(d_in)] + seq!['!'] + "#REF!"@));
                }
//@@ before /\}\n {12}0x03\.\.=0x11 => \{/
                proof {
                    assert(stack@ =~= st_in.push(blen(f_in) as usize));
                    lemma_link_empty(f_in);
                    let got = Seq::<char>::empty();
                    assert(appended_exp(formula@, f_in + got));
                    lemma_S_push(f_in, st_in, got);
                }
//@@ before /\}\n {12}0x12 => \{/
                proof {
                    assert(stack@ =~= st_in.drop_last());
                    assert(formula@.take(kl) =~= f_in.take(kl));
                    lemma_S_top(f_in, st_in, formula@);
                    //# C14.xlsb_binary_operator_placed
                    assert(xlsb_binary_operator_placed(true, formula@, f_in.take(kl) + op@ + f_in.skip(kl)));
                }
//@@ before /\}\n {12}0x13 => \{/
                proof {
                    assert(stack@ =~= st_in);
                    assert(formula@.take(kl) =~= f_in.take(kl));
                    lemma_S_top(f_in, st_in, formula@);
                    //# C14.xlsb_unary_plus_text
                    assert(xlsb_unary_plus_text(true, formula@, f_in.take(kl) + seq!['+'] + f_in.skip(kl)));
                }
//@@ before /\}\n {12}0x14 => \{/
                proof {
                    assert(stack@ =~= st_in);
                    assert(formula@.take(kl) =~= f_in.take(kl));
                    lemma_S_top(f_in, st_in, formula@);
                    //# C14.xlsb_unary_minus_text
                    assert(xlsb_unary_minus_text(true, formula@, f_in.take(kl) + seq!['-'] + f_in.skip(kl)));
                }
//@@ before /\}\n {12}0x15 => \{/
                proof {
                    assert(stack@ =~= st_in);
                    assert(formula@ =~= f_in + seq!['%']);
                    lemma_S_grow(f_in, st_in, seq!['%']);
                }
//@@ before /\}\n {12}0x16 => \{/
                proof {
                    assert(stack@ =~= st_in);
                    assert(formula@.take(kl) =~= f_in.take(kl));
                    lemma_S_top(f_in, st_in, formula@);
                    //# C14.xlsb_paren_text
                    assert(xlsb_paren_text(true, formula@, f_in.take(kl) + seq!['('] + f_in.skip(kl) + seq![')']));
                }
//@@ before /\}\n {12}0x17 => \{/
                proof {
                    assert(stack@ =~= st_in.push(blen(f_in) as usize));
                    lemma_link_empty(f_in);
                    let got = Seq::<char>::empty();
                    assert(appended_missarg(formula@, f_in + got));
                    lemma_S_push(f_in, st_in, got);
                    //# C14.xlsb_ptgmissarg_text
                    assert(xlsb_ptgmissarg_text(true, got, Seq::<char>::empty()));
                }
//@@ before /\}\n {12}0x18 => \{/
                proof {
                    assert(stack@ =~= st_in.push(blen(f_in) as usize));
                    let by = d_in.subrange(2, 2 + 2 * le16(d_in));
                    assert(d_in.subrange(0, 2)[0] == d_in[0] && d_in.subrange(0, 2)[1] == d_in[1]);
                    assert(le16(d_in.subrange(0, 2)) == le16(d_in));
                    reveal_strlit("\"\"");
                    assert("\"\""@ =~= seq!['"', '"']);
                    axiom_replace_quote(chars_s, "\"\""@);
                    lemma_link_str(f_in, dq(chars_s), formula@);
                    let got = quoted(chars_s);
                    assert(appended_str(formula@, f_in + got));
                    lemma_S_push(f_in, st_in, got);
                    //# C14.xlsb_ptgstr_text
                    assert(xlsb_ptgstr_text(!has_bom(by), got, quoted(dec16(by))));
                }
//@@ before /\}\n {12}0x19 => \{/
                proof {
                    assert(stack@ =~= st_in.push(blen(f_in) as usize));
                    lemma_link_empty(f_in);
                    let got = Seq::<char>::empty();
                    assert(appended_extend(formula@, f_in + got));
                    lemma_S_push(f_in, st_in, got);
                }
//@@ before /\}\n {12}0x1C => \{/
                proof {
                    assert(stack@ =~= st_in);
                    if eptg == 0x10 {
                        assert(formula@.take(kl) =~= f_in.take(kl));
                        lemma_S_top(f_in, st_in, formula@);
                        //# C14.xlsb_attrsum_text
                        assert(xlsb_attrsum_text(true, formula@, f_in.take(kl) + "SUM("@ + f_in.skip(kl) + seq![')']));
                    } else {
                        lemma_link_empty(f_in);
                        lemma_S_grow(f_in, st_in, Seq::<char>::empty());
                    }
                }
//@@ before /\}\n {12}0x1D => \{/
                proof {
                    assert(stack@ =~= st_in.push(blen(f_in) as usize));
                    let got = err_text(d_in[0] as int)->Some_0;
                    assert(appended_err(formula@, f_in + got));
                    lemma_S_push(f_in, st_in, got);
                    //# C14.xlsb_ptgerr_text
                    assert(xlsb_ptgerr_text(err_text(d_in[0] as int) is Some, got, err_text(d_in[0] as int)->Some_0));
                }
//@@ before /\}\n {12}0x1E => \{/
                proof {
                    assert(stack@ =~= st_in.push(blen(f_in) as usize));
                    let got = (if d_in[0] == 0 { "FALSE"@ } else { "TRUE"@ });
                    assert(appended_bool(formula@, f_in + got));
                    lemma_S_push(f_in, st_in, got);
                    //# C14.xlsb_ptgbool_text
                    assert(xlsb_ptgbool_text(d_in[0] <= 1, got, (if d_in[0] == 0 { "FALSE"@ } else { "TRUE"@ })));
                }
//@@ before /\}\n {12}0x1F => \{/
                proof {
                    assert(stack@ =~= st_in.push(blen(f_in) as usize));
                    lemma_link_fmt(f_in, dec(le16(d_in) as nat), formula@);
                    let got = dec(le16(d_in) as nat);
                    assert(appended_int(formula@, f_in + got));
                    lemma_S_push(f_in, st_in, got);
                    //# C14.xlsb_ptgint_text
                    assert(xlsb_ptgint_text(true, got, dec(le16(d_in) as nat)));
                }
//@@ before /\}\n {12}0x20 \| 0x40 \| 0x60 => \{/
                proof {
                    assert(stack@ =~= st_in.push(blen(f_in) as usize));
                    lemma_link_fmt(f_in, display::<f64>(f64_of_bits(le64(d_in))), formula@);
                    let got = display::<f64>(f64_of_bits(le64(d_in)));
                    assert(appended_num(formula@, f_in + got));
                    lemma_S_push(f_in, st_in, got);
                    //# C14.xlsb_ptgnum_text
                    assert(xlsb_ptgnum_text(true, got, display::<f64>(f64_of_bits(le64(d_in)))));
                }
//@@ before /\}\n {12}0x21 \| 0x22 \| 0x41 \| 0x42 \| 0x61 \| 0x62 => \{/
                proof {
                    assert(stack@ =~= st_in.push(blen(f_in) as usize));
                    lemma_link_empty(f_in);
                    let got = Seq::<char>::empty();
                    assert(appended_array(formula@, f_in + got));
                    lemma_S_push(f_in, st_in, got);
                }
//@@ before /\}\n {12}0x23 \| 0x43 \| 0x63 => \{/
                proof { }
//@@ before /\}\n {12}0x24 \| 0x44 \| 0x64 => \{/
                proof {
                    assert(stack@ =~= st_in.push(blen(f_in) as usize));
                    if !(1 <= le32(d_in) <= names@.len()) { lemma_link_empty(f_in); }
                    let got = (if 1 <= le32(d_in) <= names@.len() { names@[le32(d_in) - 1].0@ } else { Seq::<char>::empty() });
                    assert(appended_name(formula@, f_in + got));
                    lemma_S_push(f_in, st_in, got);
                    //# C14.xlsb_ptgname_text
                    assert(xlsb_ptgname_text(1 <= le32(d_in) <= ctx.names.len(), got, ctx.names[le32(d_in) - 1]));
                }
//@@ before /\}\n {12}0x25 \| 0x45 \| 0x65 => \{/
                proof {
                    assert(stack@ =~= st_in.push(blen(f_in) as usize));
                    lemma_link_ref(f_in, d_in[5], col_name(col as int), dec(row as nat), formula@);
                    let got = dollar(d_in[5] & 0x40 != 0x40) + col_name(col as int) + dollar(d_in[5] & 0x80 != 0x80) + dec(row as nat);
                    assert(appended_ref(formula@, f_in + got));
                    lemma_S_push(f_in, st_in, got);
                    lemma_xlsb_ptgref_text(d_in, row as int, col as int, got);
                    //# C14.xlsb_ptgref_text
                    assert(xlsb_ptgref_text(xb_row_ok(le32(d_in)), got, xb_cell(d_in)));
                }
//@@ before /\}\n {12}0x2A \| 0x4A \| 0x6A => \{/
                proof {
                    assert(stack@ =~= st_in.push(blen(f_in) as usize));
                    let rw1 = le32(d_in.subrange(0, 4));
                    let rw2 = le32(d_in.subrange(4, 8));
                    lemma_link_cell(f_in, col1_1, rw1, g1_1);
                    lemma_link_cell(g1_1.push(':'), col, rw2, formula@);
                    lemma_link_area(f_in, code_cell(col1_1, rw1), code_cell(col, rw2), formula@);
                    let got = code_cell(col1_1, rw1) + seq![':'] + code_cell(col, rw2);
                    assert(appended_area(formula@, f_in + got));
                    lemma_S_push(f_in, st_in, got);
                    lemma_xlsb_ptgarea_text(d_in, got);
                    //# C14.xlsb_ptgarea_text
                    assert(xlsb_ptgarea_text(xb_row_ok(le32(d_in)) && xb_row_ok(le32(d_in.skip(4))), got, xb_area(d_in)));
                }
//@@ before /\}\n {12}0x2B \| 0x4B \| 0x6B => \{/
                proof {
                    assert(stack@ =~= st_in.push(blen(f_in) as usize));
                    let got = "#REF!"@;
                    assert(appended_referr(formula@, f_in + got));
                    lemma_S_push(f_in, st_in, got);
                    //# C14.xlsb_ptgreferr_text
                    assert(xlsb_ptgreferr_text(true, got, "#REF!"@));
                }
//@@ before /\}\n {12}0x29 \| 0x49 \| 0x69 => \{/
                proof {
                    assert(stack@ =~= st_in.push(blen(f_in) as usize));
                    let got = "#REF!"@;
                    assert(appended_areaerr(formula@, f_in + got));
                    lemma_S_push(f_in, st_in, got);
                    //# C14.xlsb_ptgareaerr_text
                    assert(xlsb_ptgareaerr_text(true, got, "#REF!"@));
                }
//@@ before /\}\n {12}0x39 \| 0x59 \| 0x79 => \{/
                proof {
                    assert(stack@ =~= st_in.push(blen(f_in) as usize));
                    let got = f@;
                    assert(appended_memfunc(formula@, f_in + got));
                    lemma_S_push(f_in, st_in, got);
                }
//@@ before /\}\n {12}_ => return Err\(XlsbError::Ptg\(ptg\)\)/
                proof {
                    assert(stack@ =~= st_in.push(blen(f_in) as usize));
                    let got = "EXTERNAL_WB_NAME"@;
                    assert(appended_namex(formula@, f_in + got));
                    lemma_S_push(f_in, st_in, got);
                }
//@@ end
}
}

} // verus!
fn main() {}
