//@@ unit props=C01,C06,C15,C17
// Unit a1: A1 cell-name decoding of xlsx (src/xlsx/mod.rs), verbatim text.
#![allow(unused_imports, dead_code, unused_variables, unused_mut, unused_assignments)]
use vstd::prelude::*;

verus! {

// ---- stand-ins for foreign error payload types (opaque; never inspected by the verified code)
pub mod quick_xml {
    pub struct Error;
    pub mod events { pub mod attributes { pub struct AttrError; } }
    pub mod encoding { pub struct EncodingError; }
}
pub mod zip { pub mod result { pub struct ZipError; } }
pub mod vba { pub struct VbaError; }
#[verifier::external_type_specification] #[verifier::external_body] pub struct ExIoError(std::io::Error);
#[verifier::external_type_specification] #[verifier::external_body] pub struct ExParseFloatError(std::num::ParseFloatError);
#[verifier::external_type_specification] #[verifier::external_body] pub struct ExParseIntError(std::num::ParseIntError);


//@@ item src/xlsx/mod.rs enum XlsxError
//@@ item src/lib.rs struct Dimensions

pub open spec fn is_digit(c: u8) -> bool { 0x30 <= c <= 0x39 }
pub open spec fn is_upper(c: u8) -> bool { 0x41 <= c <= 0x5a }
pub open spec fn is_lower(c: u8) -> bool { 0x61 <= c <= 0x7a }
pub open spec fn is_letter(c: u8) -> bool { is_upper(c) || is_lower(c) }
pub open spec fn letter_val(c: u8) -> nat {
    if is_upper(c) { (c - 0x41 + 1) as nat } else { (c - 0x61 + 1) as nat }
}

/// decimal value of a digit string (most significant first) -- written from the A1 grammar, not from the code
pub open spec fn dec10(s: Seq<u8>) -> nat
    decreases s.len()
{
    if s.len() == 0 { 0 } else { dec10(s.drop_last()) * 10 + (s.last() - 0x30) as nat }
}

/// bijective base-26 value of a letter string: A=1 .. Z=26, AA=27 ...
pub open spec fn b26(s: Seq<u8>) -> nat
    decreases s.len()
{
    if s.len() == 0 { 0 } else { b26(s.drop_last()) * 26 + letter_val(s.last()) }
}

pub open spec fn all_digits(s: Seq<u8>) -> bool { forall|i: int| 0 <= i < s.len() ==> is_digit(#[trigger] s[i]) }
pub open spec fn all_letters(s: Seq<u8>) -> bool { forall|i: int| 0 <= i < s.len() ==> is_letter(#[trigger] s[i]) }

/// `s` = letters ++ digits with nl letters
pub open spec fn a1_shape(s: Seq<u8>, nl: int) -> bool {
    0 <= nl <= s.len() && all_letters(s.subrange(0, nl)) && all_digits(s.subrange(nl, s.len() as int))
}

/// well-formed cell name inside the sheet limits: 1..3 letters, 1..7 digits
pub open spec fn a1_wf(s: Seq<u8>, nl: int) -> bool {
    a1_shape(s, nl) && 1 <= nl <= 3 && 1 <= s.len() - nl <= 7
}

pub open spec fn pow10(k: nat) -> nat decreases k { if k == 0 { 1 } else { 10 * pow10((k - 1) as nat) } }
pub open spec fn pow26(k: nat) -> nat decreases k { if k == 0 { 1 } else { 26 * pow26((k - 1) as nat) } }

proof fn lemma_dec10_prepend(d: u8, t: Seq<u8>)
    requires is_digit(d),
    ensures dec10(seq![d] + t) == (d - 0x30) as nat * pow10(t.len()) + dec10(t),
    decreases t.len(),
{
    if t.len() == 0 {
        assert(seq![d] + t =~= seq![d]);
        assert(seq![d].drop_last() =~= Seq::<u8>::empty());
        assert(dec10(seq![d]) == dec10(seq![d].drop_last()) * 10 + (d - 0x30) as nat);
    } else {
        let s = seq![d] + t;
        assert(s.drop_last() =~= seq![d] + t.drop_last());
        assert(s.last() == t.last());
        lemma_dec10_prepend(d, t.drop_last());
        assert(pow10(t.len()) == 10 * pow10((t.len() - 1) as nat));
        assert(dec10(s) == dec10(s.drop_last()) * 10 + (s.last() - 0x30) as nat);
        assert(dec10(s) == ((d - 0x30) as nat * pow10(t.drop_last().len()) + dec10(t.drop_last())) * 10 + (t.last() - 0x30) as nat);
        assert(((d - 0x30) as nat * pow10(t.drop_last().len())) * 10 == (d - 0x30) as nat * pow10(t.len())) by (nonlinear_arith)
            requires pow10(t.len()) == 10 * pow10(t.drop_last().len());
    }
}

proof fn lemma_b26_prepend(d: u8, t: Seq<u8>)
    requires is_letter(d),
    ensures b26(seq![d] + t) == letter_val(d) * pow26(t.len()) + b26(t),
    decreases t.len(),
{
    if t.len() == 0 {
        assert(seq![d] + t =~= seq![d]);
        assert(seq![d].drop_last() =~= Seq::<u8>::empty());
        assert(b26(seq![d]) == b26(seq![d].drop_last()) * 26 + letter_val(d));
    } else {
        let s = seq![d] + t;
        assert(s.drop_last() =~= seq![d] + t.drop_last());
        assert(s.last() == t.last());
        lemma_b26_prepend(d, t.drop_last());
        assert(pow26(t.len()) == 26 * pow26((t.len() - 1) as nat));
        assert(b26(s) == b26(s.drop_last()) * 26 + letter_val(s.last()));
        assert((letter_val(d) * pow26(t.drop_last().len())) * 26 == letter_val(d) * pow26(t.len())) by (nonlinear_arith)
            requires pow26(t.len()) == 26 * pow26(t.drop_last().len());
    }
}

proof fn lemma_dec10_bound(t: Seq<u8>)
    requires all_digits(t),
    ensures dec10(t) < pow10(t.len()),
    decreases t.len(),
{
    if t.len() > 0 {
        assert forall|i: int| 0 <= i < t.drop_last().len() implies is_digit(#[trigger] t.drop_last()[i]) by { assert(t.drop_last()[i] == t[i]); }
        lemma_dec10_bound(t.drop_last());
        assert(is_digit(t[t.len() - 1]));
    }
}

proof fn lemma_b26_bound(t: Seq<u8>)
    requires all_letters(t),
    ensures b26(t) <= 27 * pow26(t.len()) / 25, b26(t) >= (if t.len() > 0 { 1nat } else { 0nat }),
    decreases t.len(),
{
    if t.len() > 0 {
        assert forall|i: int| 0 <= i < t.drop_last().len() implies is_letter(#[trigger] t.drop_last()[i]) by { assert(t.drop_last()[i] == t[i]); }
        lemma_b26_bound(t.drop_last());
        assert(is_letter(t[t.len() - 1]));
    }
}

//@@ fn src/xlsx/mod.rs get_row_and_optional_column props=C01,C15,C17 entry ret=r
//@@ sig
    ensures
        //# C01.a1_decode
        forall|nl: int| a1_wf(range@, nl) && dec10(range@.subrange(nl, range@.len() as int)) >= 1 ==>
            r == Ok::<(u32, Option<u32>), XlsxError>((
                (dec10(range@.subrange(nl, range@.len() as int)) - 1) as u32,
                Some((b26(range@.subrange(0, nl)) - 1) as u32))),
//@@ end

} // verus!
fn main() {}
