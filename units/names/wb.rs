// ---- PART 1 (b): the Lbl (0x0018) / ExternSheet (0x0017) arms and the defined-name post-processing of Xls::parse_workbook (src/xls.rs)
//
// The whole function is extracted once more (verbatim; unit xlswb owns its record dispatch, FILEPASS, sheets, cells, formulas, merges).
// It is verified without any hypothesis (truncated CodePage / Date1904 / ExternSheet / Lbl bodies and sheet positions beyond the stream are
// rejected with Err by the current text). Stubs and rewrites mirror unit xlswb.
//
// Specification ([MS-XLS] 2.4.150 Lbl, 2.4.105 ExternSheet, 2.5.277 XTI, 2.5.296 XLUnicodeStringNoCch):
//   lbls_of(recs, ..)   one entry per Lbl record, in record order: the name (cch characters decoded with the code page in force at that
//                       record) and the reference its formula (the cce bytes behind the name) stands for -- for records that are exactly
//                       their fields (`lbl_wf`)
//   xtis_of(recs)       the XTI table: the first cXTI 6-byte entries of every ExternSheet record (as many of them as the record holds
//                       completely), in record order
//   final_text(..)      "<sheet name>!<reference>" with the sheet name of BoundSheet8 number XTI[ixti].itabFirst when XTI[ixti].iSupBook
//                       designates the self-referencing SupBook (this workbook); "#REF" when ixti or itabFirst is out of range or the XTI
//                       entry designates another SupBook (external workbook, add-in, DDE / OLE link: itabFirst is then no sheet of this
//                       workbook); the bare text when the formula names no sheet

// ---- stand-ins for foreign types (opaque plumbing; never inspected by the verified code) -- as in unit xlswb
pub struct VbaProject { _opaque: u8 }
#[verifier::external_trait_specification] pub trait ExRead { type ExternalTraitSpecificationFor: std::io::Read; }
#[verifier::external_trait_specification] pub trait ExSeek { type ExternalTraitSpecificationFor: std::io::Seek; }
/// stand-in for cfb::XlsEncoding (wraps an encoding_rs table; only handed through to the string decoders)
pub struct XlsEncoding { _opaque: u8 }
/// stand-in for cfb::Cfb (the parsed compound file; only handed to get_stream)
pub struct Cfb { _opaque: u8 }

//@@ item src/lib.rs enum CellErrorType keep_attrs
//@@ item src/lib.rs struct Dimensions
//@@ item src/lib.rs enum SheetType keep_attrs
//@@ item src/lib.rs enum SheetVisible keep_attrs
//@@ item src/lib.rs struct Sheet
//@@ item src/lib.rs struct Metadata
//@@ item src/lib.rs enum HeaderRow keep_attrs
//@@ item src/lib.rs trait "trait CellType"
//@@ item src/lib.rs struct Cell
//@@ item src/lib.rs struct Range
//@@ item src/datatype.rs enum ExcelDateTimeType keep_attrs
//@@ item src/datatype.rs struct ExcelDateTime keep_attrs
//@@ item src/datatype.rs enum Data keep_attrs
//@@ item src/formats.rs enum CellFormat keep_attrs
//@@ item src/xls.rs struct XlsOptions
//@@ item src/xls.rs struct SheetData
//@@ item src/xls.rs struct Xls cfg_off=picture
//@@ item src/xls.rs struct Xti keep_attrs
//@@ item src/xls.rs struct Record
//@@ item src/xls.rs struct RecordIter
//@@ item src/xls.rs struct Bof
//@@ item src/xls.rs enum Biff keep_attrs
impl CellType for Data {}
impl CellType for String {}
// TRUSTED: `#[derive(Clone)]` on `struct Sheet` is a field-wise clone: the copy equals the original.
impl Clone for Sheet {
    #[verifier::external_body]
    fn clone(&self) -> (r: Self)
        ensures r == *self,
    { Sheet { name: self.name.clone(), typ: self.typ, visible: self.visible } }
}

// ---- std functions without a vstd specification
// TRUSTED: `s.chunks_exact(n)` panics iff n == 0; the iterator yields consecutive, non-overlapping sub-slices of exactly n elements taken
// from the front of what remains; `None` once fewer than n elements remain -- a shorter tail is never handed out (core::slice::chunks_exact
// documentation). (as in unit xlswb)
#[verifier::external_type_specification] #[verifier::external_body] #[verifier::reject_recursive_types(T)]
pub struct ExChunksExact<'a, T: 'a>(ChunksExact<'a, T>);
/// elements not yet handed out
pub uninterp spec fn chunks_rem<T>(c: ChunksExact<'_, T>) -> Seq<T>;
/// chunk size
pub uninterp spec fn chunks_size<T>(c: ChunksExact<'_, T>) -> int;
pub assume_specification<'a, T>[ <[T]>::chunks_exact ](s: &'a [T], n: usize) -> (r: ChunksExact<'a, T>)
    requires n != 0,
    ensures chunks_rem(r) == s@, chunks_size(r) == n;
pub assume_specification<'a, T>[ <ChunksExact<'a, T> as Iterator>::next ](c: &mut ChunksExact<'a, T>) -> (r: Option<&'a [T]>)
    ensures
        chunks_size(*final(c)) == chunks_size(*old(c)),
        chunks_rem(*old(c)).len() < chunks_size(*old(c)) ==> r is None && chunks_rem(*final(c)) == chunks_rem(*old(c)),
        chunks_rem(*old(c)).len() >= chunks_size(*old(c)) ==> r is Some
            && r->Some_0@ == chunks_rem(*old(c)).take(chunks_size(*old(c)))
            && chunks_rem(*final(c)) == chunks_rem(*old(c)).skip(chunks_size(*old(c)));
// TRUSTED: documented behaviour of std::cmp::min (generic over Ord; the only instantiation used is usize, whose order is the integer order)
pub uninterp spec fn min_spec<T>(a: T, b: T) -> T;
#[verifier::external_body]
pub broadcast proof fn axiom_min_usize(a: usize, b: usize)
    ensures #[trigger] min_spec(a, b) == (if a <= b { a } else { b }),
{}
pub assume_specification<T: Ord>[ std::cmp::min::<T> ](a: T, b: T) -> (r: T)
    ensures r == min_spec(a, b);
/// the items an `IntoIterator` value hands out, in order
pub uninterp spec fn iter_items<T, I>(i: I) -> Seq<T>;
// TRUSTED: `Vec::extend` appends the items of the iterator in order (alloc::vec documentation)
pub assume_specification<T, A: std::alloc::Allocator, I: IntoIterator<Item = T>>[ <Vec<T, A> as Extend<T>>::extend ](v: &mut Vec<T, A>, i: I)
    ensures final(v)@ == old(v)@ + iter_items::<T, I>(i);
// TRUSTED: Option::map_or (core::option documentation): the default for None, f(value) for Some
pub assume_specification<T, U, F: FnOnce(T) -> U>[ Option::<T>::map_or ](o: Option<T>, d: U, f: F) -> (r: U)
    requires o matches Some(v) ==> call_requires(f, (v,)),
    ensures o is None ==> r == d, o matches Some(v) ==> call_ensures(f, (v,), r);
// TRUSTED: Option::filter (core::option documentation): None for None; for Some(v) the predicate decides between Some(v) and None
pub assume_specification<T, P: FnOnce(&T) -> bool>[ Option::<T>::filter ](o: Option<T>, p: P) -> (r: Option<T>)
    requires o matches Some(v) ==> call_requires(p, (&v,)),
    ensures o is None ==> r is None, o matches Some(v) ==> (call_ensures(p, (&v,), true) && r == Some(v)) || (call_ensures(p, (&v,), false) && r is None);
// TRUSTED: Result::unwrap_or_else (core::result documentation): the Ok value, or op(error)
pub assume_specification<T, E, F: FnOnce(E) -> T>[ Result::<T, E>::unwrap_or_else ](x: Result<T, E>, op: F) -> (r: T)
    requires x matches Err(e) ==> call_requires(op, (e,)),
    ensures x matches Ok(v) ==> r == v, x matches Err(e) ==> call_ensures(op, (e,), r);

// R4: opaque stand-in for `format!(..)` results (the "Unrecognised formula" fallback text; nothing is claimed about it)
#[verifier::external_body] fn verif_opaque_string() -> String { String::new() }
// TRUSTED: `format!("{sh}!{f}")` with sh: &str, f: String (both Display = the text itself): sh, an exclamation mark, f. The body is the
// real expression.
#[verifier::external_body]
fn verif_fmt_sheet_ref(sh: &str, f: &String) -> (r: String)
    ensures r@ == sh@ + seq!['!'] + f@,
{ format!("{sh}!{f}") }

// TRUSTED: expansion of `from_err!(crate::cfb::CfbError, XlsError, Cfb)` (src/xls.rs): wraps the error in the Cfb variant
impl vstd::std_specs::convert::FromSpecImpl<CfbError> for XlsError {
    open spec fn obeys_from_spec() -> bool { true }
    open spec fn from_spec(e: CfbError) -> XlsError { XlsError::Cfb(e) }
}
impl From<CfbError> for XlsError { fn from(e: CfbError) -> XlsError { XlsError::Cfb(e) } }

// =====================================================================================================================
// Record framing ([MS-XLS] 2.1.4) -- same model as unit xlswb
// =====================================================================================================================
/// ghost view of a record: type, body, and the bodies of the Continue records attached to it
pub struct RecV { pub typ: int, pub data: Seq<u8>, pub cont: Option<Seq<Seq<u8>>> }
impl<'a> Record<'a> {
    pub closed spec fn v(&self) -> RecV {
        RecV { typ: self.typ as int, data: self.data@, cont: match self.cont { Some(v) => Some(Seq::new(v@.len(), |i: int| v@[i]@)), None => None } }
    }
}
pub enum Step { End, Bad, Rec(RecV, Seq<u8>) }
/// what `RecordIter::next` makes of the rest of a stream: nothing left / truncated record / a record and the rest behind it
// TRUSTED: `RecordIter::next` is a deterministic function of the remaining stream; its value is characterised in unit xlsrec
// (clauses C02.next_none_iff_empty, next_typ, next_data, next_framing, next_progress, next_err_is_eostream).
pub uninterp spec fn rec_step(s: Seq<u8>) -> Step;
impl<'a> RecordIter<'a> {
    pub closed spec fn s(&self) -> Seq<u8> { self.stream@ }
}
impl<'a> vstd::std_specs::iter::IteratorSpecImpl for RecordIter<'a> {
    open spec fn obeys_prophetic_iter_laws(&self) -> bool { false }
    open spec fn remaining(&self) -> Seq<Result<Record<'a>, XlsError>> { Seq::empty() }
    open spec fn will_return_none(&self) -> bool { false }
    open spec fn decrease(&self) -> Option<nat> { None }
    open spec fn peek(&self, i: int) -> Option<Result<Record<'a>, XlsError>> { None }
}
impl<'a> Iterator for RecordIter<'a> {
    type Item = Result<Record<'a>, XlsError>;
    // TRUSTED: proved in unit xlsrec ("Iterator for RecordIter<'a>::next": C02.next_*)
    #[verifier::external_body]
    fn next(&mut self) -> (res: Option<Self::Item>)
        ensures
            match rec_step(old(self).s()) {
                Step::End => res is None && old(self).s().len() == 0 && final(self).s() == old(self).s(),
                Step::Bad => (res matches Some(Err(XlsError::EoStream(_)))) && old(self).s().len() > 0,
                Step::Rec(v, rest) => (res matches Some(Ok(r)) && r.v() == v) && final(self).s() == rest
                    && old(self).s().len() >= 4 + v.data.len() + rest.len()
                    && v.typ == le16(old(self).s()) && v.data == old(self).s().subrange(4, 4 + le16(old(self).s().skip(2))),
            },
    { unimplemented!() }
}
/// the records of the substream that starts at `s`, up to (excluding) its EOF record ([MS-XLS] 2.4.103, type 0x000A), the end of the
/// stream, or the first truncated record
pub open spec fn recs(s: Seq<u8>) -> Seq<RecV>
    decreases s.len()
{
    match rec_step(s) {
        Step::Rec(v, rest) => if v.typ != 0x000A && rest.len() < s.len() { seq![v] + recs(rest) } else { Seq::empty() },
        _ => Seq::empty(),
    }
}
proof fn lemma_recs_step(s: Seq<u8>)
    ensures
        match rec_step(s) {
            Step::Rec(v, rest) => if v.typ != 0x000A && rest.len() < s.len() { recs(s) == seq![v] + recs(rest) } else { recs(s) == Seq::<RecV>::empty() },
            _ => recs(s) == Seq::<RecV>::empty(),
        },
{}

// =====================================================================================================================
// TRUSTED: assumed contracts of the record walkers (units xlsrec / xlsstr / xlsf / range / cfb / formats own them; all are total
// functions returning Result, proved there). Only what the defined-name clauses need is stated: code page, BIFF version, BoundSheet8
// list, Dimensions; the other walkers are stubs without postcondition (their results do not reach `metadata.names`).
// =====================================================================================================================
pub uninterp spec fn codepage_enc(cp: int) -> Option<XlsEncoding>;
pub uninterp spec fn dims_of(r: Seq<u8>) -> Option<Dimensions>;
pub uninterp spec fn bof_of(v: RecV) -> Option<Biff>;
pub uninterp spec fn sheet_of(v: RecV, enc: XlsEncoding, biff: Biff) -> Option<(usize, Sheet)>;
/// the bytes of the stream `name` of the compound file (None: no such stream / unreadable)
// TRUSTED: unit cfb (C13.get_stream_reads_logical_stream, get_stream_frame)
pub uninterp spec fn cfb_stream<R>(cfb: Cfb, reader: R, name: Seq<char>) -> Option<Seq<u8>>;
impl Cfb {
    #[verifier::external_body]
    pub fn get_stream<R: Read + Seek>(&mut self, name: &str, r: &mut R) -> (res: Result<Vec<u8>, CfbError>)
        ensures
            match cfb_stream(*old(self), *old(r), name@) { Some(s) => res is Ok && res->Ok_0@ == s, None => res is Err },
            forall|n: Seq<char>| cfb_stream(*final(self), *final(r), n) == cfb_stream(*old(self), *old(r), n),
    { unimplemented!() }
}
impl XlsEncoding {
    // TRUSTED: the encoding of a code page is a function of its number (encoding_rs table lookup), or Err(CodePageNotFound)
    #[verifier::external_body]
    pub fn from_codepage(codepage: u16) -> (res: Result<XlsEncoding, CfbError>)
        ensures match codepage_enc(codepage as int) { Some(e) => res == Ok::<XlsEncoding, CfbError>(e), None => res is Err },
    { unimplemented!() }
}
pub open spec fn ret<T>(res: Result<T, XlsError>, spec: Option<T>) -> bool {
    match spec { Some(x) => res == Ok::<T, XlsError>(x), None => res is Err }
}
#[verifier::external_body] fn parse_bof(r: &mut Record<'_>) -> (res: Result<Bof, XlsError>)
    ensures match bof_of(old(r).v()) { Some(b) => res is Ok && res->Ok_0.biff == b, None => res is Err },
{ unimplemented!() }
#[verifier::external_body] fn parse_sheet_metadata(r: &mut Record<'_>, encoding: &XlsEncoding, biff: Biff) -> (res: Result<(usize, Sheet), XlsError>)
    ensures ret(res, sheet_of(old(r).v(), *encoding, biff)),
{ unimplemented!() }
#[verifier::external_body] fn parse_number(r: &[u8], formats: &[CellFormat], is_1904: bool) -> (res: Result<Cell<Data>, XlsError>) { unimplemented!() }
#[verifier::external_body] fn parse_bool_err(r: &[u8]) -> (res: Result<Cell<Data>, XlsError>) { unimplemented!() }
#[verifier::external_body] fn parse_rk(r: &[u8], formats: &[CellFormat], is_1904: bool) -> (res: Result<Cell<Data>, XlsError>) { unimplemented!() }
#[verifier::external_body] fn parse_merge_cells(r: &[u8], merge_cells: &mut Vec<Dimensions>) -> (res: Result<(), XlsError>) { unimplemented!() }
#[verifier::external_body] fn parse_mul_rk(r: &[u8], cells: &mut Vec<Cell<Data>>, formats: &[CellFormat], is_1904: bool) -> (res: Result<(), XlsError>) { unimplemented!() }
#[verifier::external_body] fn parse_string(r: &[u8], encoding: &XlsEncoding, biff: Biff) -> (res: Result<String, XlsError>) { unimplemented!() }
#[verifier::external_body] fn parse_label(r: &[u8], encoding: &XlsEncoding, biff: Biff) -> (res: Result<Option<Cell<Data>>, XlsError>) { unimplemented!() }
#[verifier::external_body] fn parse_label_sst(r: &[u8], strings: &[String]) -> (res: Result<Option<Cell<Data>>, XlsError>) { unimplemented!() }
/// [MS-XLS] 2.4.90 Dimensions
// TRUSTED: unit xlsrec C02.dimensions_used_range / dimensions_empty_sheet: `end` is (rwMac - 1, colMac - 1) or `start`, so neither `end.0 + 1`
// nor `end.1 + 1` can overflow u32 (rwMac, colMac are u32 / u16 fields)
#[verifier::external_body] fn parse_dimensions(r: &[u8]) -> (res: Result<Dimensions, XlsError>)
    ensures
        ret(res, dims_of(r@)),
        res matches Ok(d) ==> (d.end == d.start || (d.end.0 < u32::MAX && d.end.1 < 65535)),
{ unimplemented!() }
#[verifier::external_body] fn parse_sst(r: &mut Record<'_>, encoding: &XlsEncoding) -> (res: Result<Vec<String>, XlsError>) { unimplemented!() }
#[verifier::external_body] fn parse_xf(r: &Record<'_>) -> (res: Result<u16, XlsError>) { unimplemented!() }
#[verifier::external_body] fn parse_format(r: &mut Record<'_>, encoding: &XlsEncoding) -> (res: Result<(u16, CellFormat), XlsError>) { unimplemented!() }
#[verifier::external_body] fn parse_formula(rgce: &[u8], sheets: &[String], names: &[(String, String)], xtis: &[Xti], encoding: &XlsEncoding) -> (res: Result<String, XlsError>) { unimplemented!() }
#[verifier::external_body] fn parse_formula_value(r: &[u8]) -> (res: Result<Option<Data>, XlsError>) { unimplemented!() }
#[verifier::external_body] pub fn format_excel_f64(value: f64, format: Option<&CellFormat>, is_1904: bool) -> (d: Data) { unimplemented!() }
#[verifier::external_body] pub fn builtin_format_by_code(code: u16) -> (r: CellFormat) { unimplemented!() }
impl<T: CellType> Cell<T> {
    #[verifier::external_body] pub fn new(position: (u32, u32), value: T) -> (c: Cell<T>) { unimplemented!() }
}
impl<T: CellType> Range<T> {
    // TRUSTED: stub without contract (unit range: no precondition); no clause of this unit depends on the ranges built
    #[verifier::external_body] pub fn from_sparse(cells: Vec<Cell<T>>) -> (r: Range<T>) { unimplemented!() }
}

// ---- the decoded text of a string held in one record (A-enc; same definitions as unit xlsstr)
// TRUSTED: A-enc. `decode(e, bytes)` is the text `encoding_rs::Encoding::decode_without_bom_handling(bytes).0` of the workbook's code page
pub uninterp spec fn decode(e: XlsEncoding, bytes: Seq<u8>) -> Seq<char>;
/// [MS-XLS] 2.5.293 fHighByte == 0: only the low bytes are stored: the 16-bit little-endian form of compressed character data
pub open spec fn zext(b: Seq<u8>) -> Seq<u8> { Seq::new(2 * b.len(), |i: int| if i % 2 == 0 { b[i / 2] } else { 0u8 }) }
pub open spec fn str_width(wide: bool) -> int { if wide { 2 } else { 1 } }
pub open spec fn str_fits(wide: bool, rgb: Seq<u8>, cch: int) -> bool { rgb.len() >= cch * str_width(wide) }
/// text of `cch` characters stored at the start of `rgb` (wide: 2 bytes per character; otherwise 1)
pub open spec fn str_text(e: XlsEncoding, wide: bool, rgb: Seq<u8>, cch: int) -> Seq<char> {
    let b = rgb.subrange(0, cch * str_width(wide));
    decode(e, if wide { b } else { zext(b) })
}
/// [MS-XLS] 2.5.296 XLUnicodeStringNoCch: flags (1 byte, bit 0 fHighByte), rgb of cch characters (cch is stored elsewhere)
// TRUSTED: proved in unit xlsstr on the real text (C19.nocch_text, C19.nocch_no_flag_byte; str_text(e, Some(wide), ..) there)
#[verifier::external_body] fn read_unicode_string_no_cch(encoding: &XlsEncoding, buf: &[u8], len: &usize, s: &mut String)
    ensures
        buf@.len() >= 1 && str_fits(buf@[0] & 0x1 != 0, buf@.skip(1), *len as int)
            ==> final(s)@ == old(s)@ + str_text(*encoding, buf@[0] & 0x1 != 0, buf@.skip(1), *len as int),
        buf@.len() == 0 ==> final(s)@ == old(s)@,
{ unimplemented!() }

// =====================================================================================================================
// Meaning of the workbook-globals substream, as far as the defined names need it ([MS-XLS] 2.1.7.20.3) -- as in unit xlswb
// =====================================================================================================================
pub struct GS {
    pub enc: XlsEncoding,                 // code page in force (CodePage 0x0042, unless forced by the option)
    pub biff: Biff,                       // BIFF version in force (BOF 0x0809)
    pub sheets: Seq<(usize, Sheet)>,      // BoundSheet8 0x0085, in stream order: (lbPlyPos, sheet)
}
pub open spec fn g_step(st: GS, v: RecV, forced: Option<u16>) -> GS {
    if v.typ == 0x0042 && forced is None {
        match codepage_enc(le16(v.data)) { Some(e) => GS { enc: e, ..st }, None => st }
    } else if v.typ == 0x0085 {
        match sheet_of(v, st.enc, st.biff) { Some(s) => GS { sheets: st.sheets.push(s), ..st }, None => st }
    } else if v.typ == 0x0809 {
        match bof_of(v) { Some(b) => GS { biff: b, ..st }, None => st }
    } else {
        st
    }
}
pub open spec fn g_fold(rs: Seq<RecV>, g0: GS, forced: Option<u16>) -> GS
    decreases rs.len()
{
    if rs.len() == 0 { g0 } else { g_step(g_fold(rs.drop_last(), g0, forced), rs.last(), forced) }
}
pub open spec fn names_of(s: Seq<(usize, Sheet)>) -> Seq<(usize, String)> { Seq::new(s.len(), |i: int| (s[i].0, s[i].1.name)) }
proof fn lemma_sheets_push(s: Seq<(usize, Sheet)>, x: (usize, Sheet))
    ensures names_of(s.push(x)) == names_of(s).push((x.0, x.1.name)),
{
    assert(names_of(s.push(x)) =~= names_of(s).push((x.0, x.1.name)));
}
/// the substream a BoundSheet8 position points to ([MS-XLS] 2.4.28 lbPlyPos)
pub open spec fn sub_at(stream: Seq<u8>, pos: usize) -> Seq<u8> { stream.subrange(pos as int, stream.len() as int) }
/// the stream [MS-XLS] 2.1.2 calls the Workbook stream: named "Workbook" (BIFF8), else "Book" (BIFF5)
pub open spec fn wb_stream<R>(cfb: Cfb, reader: R) -> Option<Seq<u8>> {
    match cfb_stream(cfb, reader, "Workbook"@) { Some(s) => Some(s), None => cfb_stream(cfb, reader, "Book"@) }
}
spec fn g_init(forced: Option<u16>) -> GS {
    GS { enc: codepage_enc((match forced { Some(c) => c, None => 1200u16 }) as int)->Some_0, biff: Biff::Biff8, sheets: Seq::empty() }
}
spec fn gsem(s: Seq<u8>, forced: Option<u16>) -> GS { g_fold(recs(s), g_init(forced), forced) }

// =====================================================================================================================
// Defined names ([MS-XLS] 2.4.150 Lbl) and the XTI table (2.4.105 ExternSheet)
// =====================================================================================================================
/// Lbl: flags (2 bytes), chKey (1), cch (1), cce (2), reserved3 (2), itab (2), reserved4..7 (4 x 1), Name = XLUnicodeStringNoCch
/// (flag byte + cch characters), rgce = NameParsedFormula (cce bytes)
pub open spec fn lbl_cch(d: Seq<u8>) -> int { d[3] as int }
pub open spec fn lbl_cce(d: Seq<u8>) -> int { u16_at(d, 4) }
pub open spec fn lbl_wide(d: Seq<u8>) -> bool { d[14] & 0x1 != 0 }
pub open spec fn lbl_nb(d: Seq<u8>) -> int { lbl_cch(d) * str_width(lbl_wide(d)) }
/// the record is exactly its fields
pub open spec fn lbl_wf(d: Seq<u8>) -> bool { d.len() >= 15 && d.len() == 15 + lbl_nb(d) + lbl_cce(d) }
pub open spec fn lbl_name(e: XlsEncoding, d: Seq<u8>) -> Seq<char> { str_text(e, lbl_wide(d), d.skip(15), lbl_cch(d)) }
pub open spec fn lbl_rgce(d: Seq<u8>) -> Seq<u8> { d.subrange(15 + lbl_nb(d), 15 + lbl_nb(d) + lbl_cce(d)) }
/// one defined name: is the record exactly its fields; then: its text and its formula
pub struct LblV { pub wf: bool, pub name: Seq<char>, pub rgce: Seq<u8> }
/// what the reader accepts: the 14 fixed bytes and room for the cce formula bytes (anything less is rejected with Err)
pub open spec fn lbl_accepted(d: Seq<u8>) -> bool { d.len() >= 14 && d.len() >= 14 + lbl_cce(d) }
/// the formulas whose meaning this unit pins down (module dn: C16.empty_rgce, ref3d_text, area3d_text, referr3d_text, areaerr3d_text):
/// empty, or a complete first token PtgRef3d / PtgArea3d / PtgRefErr3d / PtgAreaErr3d
pub open spec fn dn_known(r: Seq<u8>) -> bool {
    r.len() == 0
    || (r.len() >= 7 && is_ref3d(r[0]))
    || (r.len() >= 11 && is_area3d(r[0]))
    || (r.len() >= 7 && is_referr3d(r[0]))
    || (r.len() >= 11 && is_areaerr3d(r[0]))
}
/// (index into the XTI table, text of the reference)
pub open spec fn dn_val(r: Seq<u8>) -> (Option<usize>, Seq<char>) {
    if r.len() == 0 { (None, "empty rgce"@) }
    else if is_ref3d(r[0]) { (Some(u16_at(r, 1) as usize), ref3d_text(r)) }
    else if is_area3d(r[0]) { (Some(u16_at(r, 1) as usize), area3d_text(r)) }
    else { (Some(u16_at(r, 1) as usize), "#REF!"@) }
}
/// the Lbl records of the globals substream, in record order; each name is decoded with the code page in force at its record
pub open spec fn lbls_of(rs: Seq<RecV>, g0: GS, forced: Option<u16>) -> Seq<LblV>
    decreases rs.len()
{
    if rs.len() == 0 { Seq::empty() }
    else if rs.last().typ == 0x0018 {
        lbls_of(rs.drop_last(), g0, forced).push(LblV { wf: lbl_wf(rs.last().data), name: lbl_name(g_fold(rs.drop_last(), g0, forced).enc, rs.last().data), rgce: lbl_rgce(rs.last().data) })
    } else { lbls_of(rs.drop_last(), g0, forced) }
}
/// [MS-XLS] 2.5.277 XTI: iSupBook (2 bytes), itabFirst (2, signed), itabLast (2, signed)
pub open spec fn i16_of(v: int) -> int { if v >= 32768 { v - 65536 } else { v } }
spec fn xti_at(d: Seq<u8>, o: int) -> Xti {
    Xti { _isup_book: u16_at(d, o) as u16, itab_first: i16_of(u16_at(d, o + 2)) as i16, _itab_last: i16_of(u16_at(d, o + 4)) as i16 }
}
/// ExternSheet: cXTI (2 bytes), then cXTI XTI structures
pub open spec fn xs_cxti(d: Seq<u8>) -> int { u16_at(d, 0) }
/// number of entries: cXTI, but no more than the record holds completely (a longer table continues in Continue records, which are not
/// read; the BIFF5 record of the same number has another layout)
pub open spec fn xs_count(d: Seq<u8>) -> int { if xs_cxti(d) <= (d.len() - 2) / 6 { xs_cxti(d) } else { (d.len() - 2) / 6 } }
spec fn xs_entries(d: Seq<u8>) -> Seq<Xti> { if d.len() >= 2 { Seq::new(xs_count(d) as nat, |k: int| xti_at(d, 2 + 6 * k)) } else { Seq::empty() } }
/// the XTI table: the entries of every ExternSheet record, in record order
spec fn xtis_of(rs: Seq<RecV>) -> Seq<Xti>
    decreases rs.len()
{
    if rs.len() == 0 { Seq::empty() } else if rs.last().typ == 0x0017 { xtis_of(rs.drop_last()) + xs_entries(rs.last().data) } else { xtis_of(rs.drop_last()) }
}
/// [MS-XLS] 2.4.271 SupBook: ctab (2 bytes), cch (2 bytes); cch == 0x0401: "self-referencing supporting link" = this workbook. The
/// SupBook records form the table XTI.iSupBook indexes (0-based, in record order).
pub open spec fn is_self_supbook(d: Seq<u8>) -> bool { d.len() >= 4 && u16_at(d, 2) == 0x0401 }
pub open spec fn supbooks_of(rs: Seq<RecV>) -> Seq<Seq<u8>>
    decreases rs.len()
{
    if rs.len() == 0 { Seq::empty() } else if rs.last().typ == 0x01AE { supbooks_of(rs.drop_last()).push(rs.last().data) } else { supbooks_of(rs.drop_last()) }
}
/// what the globals loop keeps of the SupBook records: is it the self-referencing one
spec fn sup_flags(sb: Seq<Seq<u8>>) -> Seq<bool> { Seq::new(sb.len(), |i: int| is_self_supbook(sb[i])) }
/// the XTI entry points into this workbook (only then itabFirst indexes THIS workbook's BoundSheet8 list)
spec fn xti_internal(x: Xti, sb: Seq<Seq<u8>>) -> bool { (x._isup_book as int) < sb.len() && is_self_supbook(sb[x._isup_book as int]) }
/// [MS-XLS] 2.5.277: "iSupBook MUST be a valid index in the array of SupBook records"
spec fn xti_valid(x: Xti, sb: Seq<Seq<u8>>) -> bool { (x._isup_book as int) < sb.len() }
/// name of the sheet an XTI index stands for: BoundSheet8 number itabFirst of entry ixti if that entry points into this workbook;
/// "#REF" when either index is out of range (itabFirst -1: deleted sheet, -2: workbook-level reference) or the entry designates
/// another workbook / an add-in / a DDE or OLE link
spec fn sheet_ref(xtis: Seq<Xti>, sheets: Seq<(usize, String)>, sb: Seq<Seq<u8>>, i: usize) -> Seq<char> {
    if i < xtis.len() && xti_internal(xtis[i as int], sb) && 0 <= xtis[i as int].itab_first < sheets.len() { sheets[xtis[i as int].itab_first as int].1@ } else { "#REF"@ }
}
spec fn final_text(xtis: Seq<Xti>, sheets: Seq<(usize, String)>, sb: Seq<Seq<u8>>, ixti: Option<usize>, text: Seq<char>) -> Seq<char> {
    match ixti { Some(i) => sheet_ref(xtis, sheets, sb, i) + seq!['!'] + text, None => text }
}
/// what the code does with the flags it kept (`fl`): an XTI entry whose iSupBook has no SupBook record at all (malformed file) is
/// resolved like an internal one
spec fn sheet_ref_c(xtis: Seq<Xti>, sheets: Seq<(usize, String)>, fl: Seq<bool>, i: usize) -> Seq<char> {
    if i < xtis.len() && !((xtis[i as int]._isup_book as int) < fl.len() && !fl[xtis[i as int]._isup_book as int])
        && 0 <= xtis[i as int].itab_first < sheets.len() { sheets[xtis[i as int].itab_first as int].1@ } else { "#REF"@ }
}
spec fn final_text_c(xtis: Seq<Xti>, sheets: Seq<(usize, String)>, fl: Seq<bool>, ixti: Option<usize>, text: Seq<char>) -> Seq<char> {
    match ixti { Some(i) => sheet_ref_c(xtis, sheets, fl, i) + seq!['!'] + text, None => text }
}
/// what the globals loop has collected: one entry per Lbl record so far
spec fn lbl_acc(v: Seq<(String, (Option<usize>, String))>, ls: Seq<LblV>) -> bool {
    v.len() == ls.len() && forall|k: int| 0 <= k < v.len() && ls[k].wf ==> (#[trigger] v[k]).0@ == ls[k].name
        && (dn_known(ls[k].rgce) ==> v[k].1.0 == dn_val(ls[k].rgce).0 && v[k].1.1@ == dn_val(ls[k].rgce).1)
}
spec fn xti_acc(v: Seq<Xti>, xs: Seq<Xti>) -> bool { v == xs }
/// `metadata.names`: one entry per Lbl record, in order: (name, reference text prefixed with its sheet)
/// (name and reference are pinned down for the Lbl records that are exactly their fields; the reference text for the formulas of
/// `dn_known` whose XTI entry, if any, has a valid iSupBook)
spec fn names_final(names: Seq<(String, String)>, ls: Seq<LblV>, xtis: Seq<Xti>, sheets: Seq<(usize, String)>, sb: Seq<Seq<u8>>) -> bool {
    names.len() == ls.len() && forall|k: int| 0 <= k < names.len() && ls[k].wf ==> (#[trigger] names[k]).0@ == ls[k].name
        && (dn_known(ls[k].rgce) && ixti_valid(dn_val(ls[k].rgce).0, xtis, sb) ==> names[k].1@ == final_text(xtis, sheets, sb, dn_val(ls[k].rgce).0, dn_val(ls[k].rgce).1))
}
spec fn ixti_valid(ixti: Option<usize>, xtis: Seq<Xti>, sb: Seq<Seq<u8>>) -> bool {
    match ixti { Some(i) => i < xtis.len() ==> xti_valid(xtis[i as int], sb), None => true }
}

// TRUSTED: a Vec of a non-zero-sized element type never holds more than isize::MAX elements (alloc::vec: "Vec ... never allocate more than
// isize::MAX bytes"); needed only to see that a negative itabFirst, cast to usize, is beyond every sheet list
#[verifier::external_body]
proof fn axiom_vec_len_isize(v: &Vec<(usize, String)>)
    ensures v@.len() <= 0x7FFF_FFFF_FFFF_FFFF,
{}
/// `negative i16 as usize` (sign extension) is beyond isize::MAX
proof fn lemma_neg_i16_as_usize(x: i16)
    ensures x < 0 ==> (x as usize) > 0x7FFF_FFFF_FFFF_FFFFusize, x >= 0 ==> (x as usize) == x,
{
    if x < 0 { assert((x as usize) > 0x7FFF_FFFF_FFFF_FFFFusize) by (bit_vector) requires x < 0i16; }
}
/// the post-processing of one collected entry: the text gets the sheet prefix
spec fn dn_post_at(out: Seq<(String, String)>, inp: Seq<(String, (Option<usize>, String))>, xtis: Seq<Xti>, sheets: Seq<(usize, String)>, fl: Seq<bool>, j: int) -> bool {
    out[j].0 == inp[j].0 && out[j].1@ == final_text_c(xtis, sheets, fl, inp[j].1.0, inp[j].1.1@)
}
spec fn dn_post(out: Seq<(String, String)>, inp: Seq<(String, (Option<usize>, String))>, xtis: Seq<Xti>, sheets: Seq<(usize, String)>, fl: Seq<bool>) -> bool {
    out.len() == inp.len() && forall|j: int| 0 <= j < out.len() ==> #[trigger] dn_post_at(out, inp, xtis, sheets, fl, j)
}

/// witnesses of the `requires` of the callees: <[T]>::chunks_exact n != 0 (the only call site passes 6); read_u16 / read_i16 (common/bytes.rs): 2 bytes
proof fn witness_requires() {
    assert(6usize != 0);
    assert(seq![1u8, 0u8].len() >= 2);
}

//@@ impl src/xls.rs Xls nth=1
//@@ fn src/xls.rs Xls::parse_workbook props=C16,C14 ret=res r4 mutparams
//@@ r6 0
//@@ r6 2
//@@ replace /let stream = (cfb\s*\.get_stream\([^;]*?\))\s*\.or_else\(\|_\|\s*([^;]*)\)\?;/ (as in unit xlswb) Verus rejects closures that capture `&mut` variables (cfb, reader); `a.or_else(|_| b)` is by definition `match a { Ok(v) => Ok(v), Err(_) => b }` (core::result)
let stream = (match \g<1> { Ok(__v) => Ok(__v), Err(_) => \g<2> })?;
//@@ sig
    ensures
        //# C16.xls_defined_names_one_per_lbl_in_order
        res is Ok ==> (wb_stream(__p_cfb, __p_reader) matches Some(s) && names_final(final(self).metadata.names@,
            lbls_of(recs(s), g_init(old(self).options.force_codepage), old(self).options.force_codepage),
            xtis_of(recs(s)), names_of(gsem(s, old(self).options.force_codepage).sheets), supbooks_of(recs(s)))),
//@@ before /let mut sheet_names = /
    let ghost s0 = stream@;
    proof { assert(wb_stream(__p_cfb, __p_reader) == Some(s0)); }
//@@ before /\{\s*let wb = /
    let ghost forced = self.options.force_codepage;
    let ghost g0 = GS { enc: encoding, biff: Biff::Biff8, sheets: Seq::empty() };
    let ghost mut done: Seq<RecV> = Seq::empty();
    let ghost mut cur: Seq<u8> = s0;
//@@ loop 0
                invariant_except_break
                    recs(s0) == done + recs(__it0.s()),
                invariant
                    cur == __it0.s(),
                    wb_stream(__p_cfb, __p_reader) == Some(s0),
                    self.options.force_codepage == forced,
                    g_fold(done, g0, forced).enc == encoding && g_fold(done, g0, forced).biff == biff,
                    sheet_names@ == names_of(g_fold(done, g0, forced).sheets),
                    //# C16.lbl_records_collected_in_order
                    lbl_acc(defined_names@, lbls_of(done, g0, forced)),
                    //# C16,C14.xti_table_collected_in_order
                    xti_acc(xtis@, xtis_of(done)),
                    //# C16.supbook_records_collected_in_order
                    supbooks@ == sup_flags(supbooks_of(done)),
                ensures
                    recs(s0) == done,
                decreases __it0.s().len(),
//@@ after /let mut r = record\?;/
                let ghost v = r.v();
                let ghost done_in = done;
                let ghost dn_in = defined_names@;
                let ghost xt_in = xtis@;
                proof {
                    lemma_recs_step(cur);
                    if v.typ != 0x000A {
                        done = done.push(v);
                        assert(recs(s0) =~= done + recs(__it0.s()));
                        assert(done.drop_last() =~= done_in);
                        assert(recs(s0)[done.len() - 1] == v);
                        assert(g_fold(done, g0, forced) == g_step(g_fold(done_in, g0, forced), v, forced));
                        lemma_sheets_push(g_fold(done_in, g0, forced).sheets, sheet_of(v, encoding, biff)->Some_0);
                        assert(v.typ != 0x0018 ==> lbls_of(done, g0, forced) == lbls_of(done_in, g0, forced));
                        assert(v.typ != 0x0017 ==> xtis_of(done) == xtis_of(done_in));
                        assert(v.typ != 0x01AE ==> supbooks_of(done) == supbooks_of(done_in));
                    }
                    cur = __it0.s();
                }
//@@ before /supbooks\.push\(/
                        proof {
                            let d = v.data;
                            if d.len() >= 4 { assert(d.subrange(2, d.len() as int)[0] == d[2] && d.subrange(2, d.len() as int)[1] == d[3]); }
                        }
//@@ after /supbooks\.push\([^;]*;/
                        proof {
                            assert(supbooks_of(done) == supbooks_of(done_in).push(v.data));
                            assert(supbooks@ =~= sup_flags(supbooks_of(done)));
                        }
//@@ before /let cch = /
                        proof {
                            let d = v.data;
                            assert(d.subrange(4, d.len() as int)[0] == d[4] && d.subrange(4, d.len() as int)[1] == d[5]);
                        }
//@@ before /let rgce = &r\.data/
                        proof {
                            let d = v.data;
                            //# C16.lbl_shorter_than_its_fields_rejected
                            assert(lbl_accepted(d));
                            assert(cce == lbl_cce(d) && cch == lbl_cch(d));
                            if lbl_wf(d) {
                                let buf = d.subrange(14, d.len() as int);
                                assert(buf[0] == d[14]);
                                assert(buf.skip(1) =~= d.skip(15));
                                assert(lbl_nb(d) >= 0) by (nonlinear_arith) requires lbl_nb(d) == lbl_cch(d) * str_width(lbl_wide(d)), lbl_cch(d) >= 0, 1 <= str_width(lbl_wide(d)) <= 2;
                                assert(str_fits(lbl_wide(d), d.skip(15), lbl_cch(d)));
                                assert(name@ =~= lbl_name(encoding, d));
                            }
                        }
//@@ after /defined_names\.push\([^;]*;/
                        proof {
                            let d = v.data;
                            if lbl_wf(d) { assert(rgce@ =~= lbl_rgce(d)); }
                            let e = LblV { wf: lbl_wf(d), name: lbl_name(encoding, d), rgce: lbl_rgce(d) };
                            assert(lbls_of(done, g0, forced) == lbls_of(done_in, g0, forced).push(e));
                            assert(defined_names@ == dn_in.push((name, formula)));
                            assert forall|k: int| 0 <= k < defined_names@.len() && lbls_of(done, g0, forced)[k].wf implies (#[trigger] defined_names@[k]).0@ == lbls_of(done, g0, forced)[k].name
                                && (dn_known(lbls_of(done, g0, forced)[k].rgce) ==> defined_names@[k].1.0 == dn_val(lbls_of(done, g0, forced)[k].rgce).0
                                    && defined_names@[k].1.1@ == dn_val(lbls_of(done, g0, forced)[k].rgce).1) by {
                                if k < dn_in.len() { assert(defined_names@[k] == dn_in[k]); }
                            }
                        }
//@@ replace /xtis\.extend\((.*?)\s*\.chunks_exact\((.*?)\)\s*\.take\((.*?)\)\s*\.map\(\|xti\| (Xti \{.*?\})\)\);/ `v.extend(s.chunks_exact(n).take(c).map(|x| E))` is rewritten to its documented meaning (core::iter::Take: at most c items, the counter is tested before the inner iterator is asked; Map: E for each item; Vec::extend: pushed in order) as an explicit loop over the same `chunks_exact` iterator, because Verus has no specification hook for the provided adapters `take` and `map` of the foreign iterator `ChunksExact`. The closure body E is re-inserted verbatim (\g<4>) and is verified.
{ let ghost __d = r.data@; let ghost __x0 = xtis@;
                        proof { assert(__d.len() >= 2); assert(__d.subrange(0, __d.len() as int) =~= __d); }
                        let __take: usize = \g<3>; let mut __ch = \g<1>.chunks_exact(\g<2>); let mut __n: usize = 0;
                        proof { assert(chunks_rem(__ch) =~= __d.skip(2)); assert(xs_entries(__d).take(0) =~= Seq::<Xti>::empty()); assert(xtis@ =~= __x0 + xs_entries(__d).take(0)); }
                        loop
                            invariant_except_break
                                xtis@ == __x0 + xs_entries(__d).take(__n as int),
                            invariant
                                __n <= __take, __take == xs_cxti(__d), __d.len() >= 2, chunks_size(__ch) == 6,
                                __n <= xs_count(__d),
                                chunks_rem(__ch) == __d.skip(2 + 6 * __n),
                            ensures
                                xtis@ == __x0 + xs_entries(__d),
                            decreases __take - __n,
                        {
                            if __n >= __take { proof { assert(xs_entries(__d).take(__n as int) =~= xs_entries(__d)); } break; }
                            let ghost __xin = xtis@;
                            match __ch.next() {
                                None => { proof {
                                    //# C16,C14.xti_table_ends_with_last_complete_entry
                                    assert(__n == xs_count(__d));
                                    assert(xs_entries(__d).take(__n as int) =~= xs_entries(__d)); } break; }
                                Some(xti) => {
                                    proof {
                                        assert(__n < xs_count(__d));
                                        assert(xti@ =~= __d.subrange(2 + 6 * __n, 8 + 6 * __n));
                                        assert(xti@.subrange(0, 2) =~= __d.subrange(2 + 6 * __n, 4 + 6 * __n));
                                        assert(xti@.subrange(2, 4) =~= __d.subrange(4 + 6 * __n, 6 + 6 * __n));
                                        assert(xti@.subrange(4, 6) =~= __d.subrange(6 + 6 * __n, 8 + 6 * __n));
                                    }
                                    xtis.push(\g<4>);
                                    proof {
                                        assert(xtis@.last() == xti_at(__d, 2 + 6 * __n));
                                        assert(xs_entries(__d).take(__n + 1) =~= xs_entries(__d).take(__n as int).push(xti_at(__d, 2 + 6 * __n)));
                                        assert(xtis@ =~= __x0 + xs_entries(__d).take(__n + 1));
                                        assert(__d.skip(2 + 6 * __n).skip(6) =~= __d.skip(2 + 6 * (__n + 1)));
                                    }
                                    __n += 1;
                                }
                            }
                        }
                        proof { assert(xtis_of(done) == xtis_of(done_in) + xs_entries(__d)); assert(xtis@ =~= xtis_of(done)); }
                    }
//@@ replace /self\.formats = xfs\s*\.into_iter\(\)\s*\.map\(\|fmt\| (.*?)\)\s*\.collect\(\);/ (as in unit xlswb) vstd's specification of Iterator::map + collect is not applied to a closure inside a GENERIC impl; `v.into_iter().map(|x| E).collect::<Vec<_>>()` is rewritten to its documented meaning: a new Vec holding E for every element of v in order. The closure body E is re-inserted verbatim (\g<1>).
self.formats = { let mut __out: Vec<CellFormat> = Vec::new();
            for fmt in __itx: xfs
            {
                __out.push(\g<1>);
            }
            __out };
//@@ replace /let fmla_sheet_names = sheet_names\s*\.iter\(\)\s*\.map\(\|\(_, n\)\| (.*?)\)\s*\.collect::<Vec<_>>\(\);/ (as in unit xlswb) same rewrite of `.iter().map(|(_, n)| E).collect::<Vec<_>>()`; E (`n.clone()`) is re-inserted verbatim (\g<1>)
let fmla_sheet_names = { let mut __out: Vec<String> = Vec::new();
            for __e in __ity: sheet_names.iter()
            {
                let (_, n) = __e;
                __out.push(\g<1>);
            }
            __out };
//@@ replace /let defined_names = defined_names\s*\.into_iter\(\)\s*\.map\(\|\(name, \(i, mut f\)\)\| \{(.*?)\.filter\(\|xti\| (.*?)\)\s*\.and_then\(\|xti\| (.*?)\)\s*\.map_or\(("#REF"), \|sh\| (.*?)\);\s*f = format!\("\{sh\}!\{f\}"\);(.*?)\}\)\s*\.collect::<Vec<_>>\(\);/ same Verus limitation (map + collect of a closure inside a generic impl): explicit loop pushing the closure's value for every element in order; the closure body is re-inserted verbatim in pieces (\g<1> .. \g<6>) around (a) the three inner closures, which get a Verus closure signature (their bodies \g<2>, \g<3>, \g<5> verbatim), and (b) `format!("{sh}!{f}")`, moved into the trusted wrapper verif_fmt_sheet_ref whose body is the same expression
let defined_names = { let ghost __dn0 = defined_names@; let ghost __xt = xtis@; let ghost __sn = sheet_names@; let ghost __fl = supbooks@;
            let mut __out: Vec<(String, String)> = Vec::new();
            for __e in __itd: defined_names
                invariant
                    __itd.seq() == __dn0, xtis@ == __xt, sheet_names@ == __sn, supbooks@ == __fl,
                    //# C16.defined_name_prefixed_with_its_sheet
                    dn_post(__out@, __dn0.take(__itd.index@ as int), __xt, __sn, __fl),
            {
                let ghost __k = __itd.index@ as int;
                let ghost __o0 = __out@;
                let (name, (i, mut f)) = __e;
                let ghost __f0 = f@;
                __out.push({ \g<1>.filter(|xti: &&Xti| -> (__r: bool)
                        ensures __r == !(((**xti)._isup_book as usize) < supbooks@.len() && !supbooks@[((**xti)._isup_book as usize) as int])
                    { \g<2> })
                    .and_then(|xti: &Xti| -> (__r: Option<&(usize, String)>)
                        ensures __r == (if (xti.itab_first as usize) < sheet_names@.len() { Some(&sheet_names@[(xti.itab_first as usize) as int]) } else { None::<&(usize, String)> })
                    { \g<3> })
                    .map_or(\g<4>, |sh: &(usize, String)| -> (__r: &str) ensures __r@ == sh.1@ { \g<5> });
                    f = verif_fmt_sheet_ref(sh, &f);\g<6> });
                proof {
                    axiom_vec_len_isize(&sheet_names);
                    if i is Some && i->Some_0 < __xt.len() { lemma_neg_i16_as_usize(__xt[i->Some_0 as int].itab_first); }
                    assert(__dn0.take(__k + 1) =~= __dn0.take(__k).push(__dn0[__k]));
                    assert(__out@.last().0 == __dn0[__k].0);
                    //# C16.sheet_prefix_only_for_internal_xti
                    assert(__out@.last().1@ == final_text_c(__xt, __sn, __fl, __dn0[__k].1.0, __dn0[__k].1.1@));
                    assert forall|j: int| 0 <= j < __out@.len() implies #[trigger] dn_post_at(__out@, __dn0.take(__k + 1), __xt, __sn, __fl, j) by {
                        if j < __k { assert(dn_post_at(__o0, __dn0.take(__k), __xt, __sn, __fl, j)); assert(__out@[j] == __o0[j]); }
                    }
                }
            }
            proof { assert(__dn0.take(__dn0.len() as int) =~= __dn0); }
            __out };
//@@ before /let defined_names = defined_names/
        let ghost lb = lbls_of(done, g0, forced);
        let ghost dn_pre = defined_names@;
//@@ before /let mut sheets = BTreeMap::new/
        proof {
            let sb = supbooks_of(done);
            assert(dn_post(defined_names@, dn_pre, xtis@, sheet_names@, supbooks@));
            assert(lbl_acc(dn_pre, lb));
            assert forall|k: int| 0 <= k < defined_names@.len() && lb[k].wf implies (#[trigger] defined_names@[k]).0@ == lb[k].name
                && (dn_known(lb[k].rgce) && ixti_valid(dn_val(lb[k].rgce).0, xtis@, sb) ==> defined_names@[k].1@ == final_text(xtis@, sheet_names@, sb, dn_val(lb[k].rgce).0, dn_val(lb[k].rgce).1)) by {
                assert(dn_post_at(defined_names@, dn_pre, xtis@, sheet_names@, supbooks@, k));
                assert(dn_pre[k].0@ == lb[k].name);
                // an XTI entry with a valid iSupBook: the kept flag decides exactly as the SupBook record does
                if dn_known(lb[k].rgce) && ixti_valid(dn_val(lb[k].rgce).0, xtis@, sb) {
                    let ix = dn_val(lb[k].rgce).0;
                    if ix is Some && ix->Some_0 < xtis@.len() {
                        let x = xtis@[ix->Some_0 as int];
                        assert(supbooks@[x._isup_book as int] == is_self_supbook(sb[x._isup_book as int]));
                    }
                    assert(final_text_c(xtis@, sheet_names@, supbooks@, ix, dn_val(lb[k].rgce).1) == final_text(xtis@, sheet_names@, sb, ix, dn_val(lb[k].rgce).1));
                }
            }
            //# C16.xls_defined_names_one_per_lbl_in_order
            assert(names_final(defined_names@, lb, xtis@, sheet_names@, supbooks_of(done)));
        }
        let ghost names0 = sheet_names@;
        let ghost xt_all = xtis@;
        let ghost dn_all = defined_names@;
//@@ loop 1 it
                invariant
                    it.seq() == names0, s0 == stream@,
                    defined_names@ == dn_all,
//@@ before /let mut cells = Vec::new/
            let ghost k = it.index@ as int;
            let ghost sub = sh@;
            let ghost mut sdone: Seq<RecV> = Seq::empty();
            let ghost mut scur: Seq<u8> = sub;
            proof {
                assert(names0[k] == (pos, name));
                assert(sub =~= sub_at(s0, pos));
            }
//@@ before /let sh = &stream\[/
            proof { assert(names0[it.index@ as int] == (pos, name)); }
//@@ loop 2
                invariant_except_break
                    recs(sub) == sdone + recs(__it2.s()),
                invariant
                    scur == __it2.s(),
                decreases __it2.s().len(),
//@@ after /let r = record\?;/
                let ghost v = r.v();
                proof {
                    lemma_recs_step(scur);
                    if v.typ != 0x000A {
                        let sdone_in = sdone;
                        sdone = sdone.push(v);
                        assert(recs(sub) =~= sdone + recs(__it2.s()));
                        assert(recs(sub)[sdone.len() - 1] == v);
                    }
                    scur = __it2.s();
                }
//@@ before /self\.sheets = sheets;/
        proof {
            assert(g0 == g_init(forced));
            assert(recs(s0) == done);
        }
//@@ end
//@@ endimpl
